""" C01 / pair 1 -- message schedule produced by JunctionTree.mp_order

Checks, on a collection of models (chains, caterpillars, stars, loops,
disconnected pieces, nested / duplicated / permuted cliques, -inf entries,
huge magnitudes, several totals, given / greedy / randomised elimination
orders) that

  (1) model.message_order respects the message dependencies of the tree
      (i->j may only be sent after every k->i, k != j), and
  (2) belief_propagation returns the brute-force marginals, both with the
      library's own schedule and with random linear extensions of the
      dependency order assigned to model.message_order.

exit 0 + PASS + digest on success, exit 1 + FAIL otherwise.
"""
import os, sys, hashlib, warnings, itertools
ROOT = os.path.dirname(os.path.dirname(os.path.dirname(os.path.abspath(__file__))))
sys.path.insert(0, os.path.join(ROOT, 'src'))
warnings.filterwarnings('ignore')
import numpy as np
import mbi
from mbi import Domain, Factor, CliqueVector, GraphicalModel

assert os.path.abspath(mbi.__file__).startswith(ROOT), 'wrong mbi: %s' % mbi.__file__

TOL = 1e-8
lines, failures = [], []


def brute_force(domain, potentials, total):
    logp = np.zeros(domain.shape)
    for f in potentials.values():
        logp = logp + f.expand(domain).values
    m = logp.max()
    p = np.exp(logp - m)
    p = p / p.sum() * total
    return Factor(domain, p)


def make_potentials(model, prng, scale=1.0, neg_inf=0.0, shift=0.0):
    pots = {}
    for cl in model.cliques:
        dom = model.domain.project(cl)
        vals = prng.normal(size=dom.shape) * scale + shift
        if neg_inf > 0:
            mask = prng.rand(*dom.shape) < neg_inf
            flat = mask.reshape(-1)
            flat[prng.randint(flat.size)] = False      # keep the table non-empty
            vals = np.where(mask, -np.inf, vals)
        pots[cl] = Factor(dom, vals)
    return CliqueVector(pots)


def dependencies(model):
    """ (m1, m2) pairs: m1 has to be sent before m2; derived from the tree itself """
    tree = model.junction_tree.tree
    deps = []
    for i in tree.nodes():
        for j in tree.neighbors(i):
            for k in tree.neighbors(i):
                if k != j:
                    deps.append(((k, i), (i, j)))
    return deps


def schedule_violations(model, order):
    pos = {m: n for n, m in enumerate(order)}
    tree = model.junction_tree.tree
    expected = set((a, b) for a, b in tree.edges()) | set((b, a) for a, b in tree.edges())
    bad = []
    if set(order) != expected or len(order) != len(expected):
        bad.append('schedule is not the set of directed tree edges')
        return bad
    for m1, m2 in dependencies(model):
        if pos[m1] > pos[m2]:
            bad.append('%s -> %s is sent before %s -> %s' % (m2[0], m2[1], m1[0], m1[1]))
    return bad


def random_extension(model, prng):
    deps = dependencies(model)
    msgs = sorted(set(m for d in deps for m in d) | set(model.message_order))
    pending = {m: set() for m in msgs}
    for m1, m2 in deps:
        pending[m2].add(m1)
    out, done = [], set()
    while len(out) < len(msgs):
        ready = [m for m in msgs if m not in done and pending[m] <= done]
        m = ready[prng.randint(len(ready))]
        out.append(m); done.add(m)
    return out


def compare(name, model, pots, truth):
    mu = model.belief_propagation(pots)
    worst = 0.0
    rounded = []
    for cl in sorted(model.cliques):
        ans = truth.project(cl).values
        res = mu[cl].values
        if not np.all(np.isfinite(res)):
            return float('inf'), None
        err = np.abs(res - ans).max() / model.total
        worst = max(worst, err)
        rounded.append(np.round(res / model.total, 7) + 0.0)
    return worst, rounded


def run_case(name, attrs, shape, cliques, total=1.0, elim=None, seed=0, **kw):
    prng = np.random.RandomState(seed)
    np.random.seed(seed + 1000)                    # randomised elimination orders
    domain = Domain(attrs, shape)
    model = GraphicalModel(domain, cliques, total=total, elimination_order=elim)
    pots = make_potentials(model, prng, **kw)
    truth = brute_force(domain, pots, total)

    bad = schedule_violations(model, model.message_order)
    if bad:
        failures.append('%s: invalid schedule: %s' % (name, bad[0]))

    err, rounded = compare(name, model, pots, truth)
    if not err <= TOL:
        failures.append('%s: marginals differ from brute force (max rel. error %.3g) with the library schedule' % (name, err))
    h = hashlib.sha256()
    if rounded is not None:
        for r in rounded:
            h.update(np.ascontiguousarray(r).tobytes())

    library_order = list(model.message_order)
    for t in range(3):
        model.message_order = random_extension(model, prng)
        e2, _ = compare(name, model, pots, truth)
        if not e2 <= TOL:
            failures.append('%s: marginals differ from brute force (%.3g) under a permuted valid schedule' % (name, e2))
    model.message_order = library_order
    lines.append('%-28s cliques=%2d ok=%s digest=%s' % (name, len(model.cliques), err <= TOL, h.hexdigest()[:16]))


A = list('abcdefghij')

# chains of growing length (the unit test uses the 3-clique chain)
for n in [2, 3, 4, 5, 6, 8]:
    run_case('chain-%d' % n, A[:n], [2, 3, 2, 3, 2, 3, 2, 2][:n],
             [(A[k], A[k+1]) for k in range(n-1)], total=10.0, seed=n)
# star: every clique touches the hub
run_case('star', A[:6], [3, 2, 2, 3, 2, 2], [('a', x) for x in 'bcdef'], total=5.0, seed=11)
# caterpillar / binary-tree shaped models (depth > 1 from any root)
run_case('caterpillar', A[:9], [2]*9,
         [('a','b'),('b','c'),('c','d'),('d','e'),('b','f'),('c','g'),('d','h'),('h','i')], total=100.0, seed=12)
run_case('binary-tree', A[:10], [2,2,3,2,2,2,3,2,2,2],
         [('a','b'),('a','c'),('b','d'),('b','e'),('c','f'),('c','g'),('d','h'),('d','i'),('e','j')], total=3.0, seed=13)
# loops -> fill-in, triples
run_case('ring-6', A[:6], [2,3,2,2,3,2], [(A[k], A[(k+1) % 6]) for k in range(6)], total=7.0, seed=14)
run_case('ring-6-given-order', A[:6], [2,3,2,2,3,2], [(A[k], A[(k+1) % 6]) for k in range(6)],
         total=7.0, elim=list('fdbace'), seed=14)
run_case('ring-7-randomised', A[:7], [2]*7, [(A[k], A[(k+1) % 7]) for k in range(7)], total=1.0, elim=5, seed=15)
run_case('grid-3x3', A[:9], [2]*9,
         [('a','b'),('b','c'),('d','e'),('e','f'),('g','h'),('h','i'),('a','d'),('d','g'),('b','e'),('e','h'),('c','f'),('f','i')],
         total=50.0, seed=16)
# disconnected pieces, isolated attributes, size-1 attribute
run_case('disconnected', A[:9], [2,3,2,1,3,2,2,3,2],
         [('a','b'),('b','c'),('e','f'),('f','g'),('g','h')], total=20.0, seed=17)
# nested, duplicated and permuted cliques
run_case('nested-dup-permuted', A[:7], [2,2,3,2,2,3,2],
         [('c','a','b'),('b','a'),('a',),('c','d'),('d','c'),('e','d'),('f','e'),('g','f'),('f','g'),('d','e','f')],
         total=9.0, seed=18)
# structural zeros
run_case('chain-7-neg-inf', A[:7], [3,3,3,3,3,3,3], [(A[k], A[k+1]) for k in range(6)], total=10.0, seed=19, neg_inf=0.3)
run_case('tree-neg-inf', A[:8], [2,3,2,3,2,3,2,2],
         [('a','b'),('b','c'),('c','d'),('d','e'),('c','f'),('f','g'),('g','h')], total=4.0, seed=20, neg_inf=0.25)
# magnitudes far outside exp(), constant shifts
run_case('chain-6-huge', A[:6], [2,3,2,3,2,3], [(A[k], A[k+1]) for k in range(5)], total=1000.0, seed=21, scale=2e3)
run_case('chain-6-shifted', A[:6], [2,3,2,3,2,3], [(A[k], A[k+1]) for k in range(5)], total=1e-3, seed=21, shift=-5e4)

print('\n'.join(lines))
if failures:
    print('FAIL')
    for f in failures:
        print('  ' + f)
    sys.exit(1)
print('PASS')

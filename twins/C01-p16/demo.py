""" C01 / pair 2 -- separators produced by JunctionTree.separator_axes

Checks, on a collection of models whose domains list their attributes in
alphabetical AND in non-alphabetical order (real column names, integer
names, reversed names), with cliques naming the attributes in any order, that

  (1) model.sep_axes[(i,j)] holds exactly the attributes shared by i and j, and
  (2) belief_propagation returns the brute-force marginals, both with the
      library's own schedule and with random linear extensions of the
      dependency order assigned to model.message_order.

exit 0 + PASS + digest on success, exit 1 + FAIL otherwise.
"""
import os, sys, hashlib, warnings, itertools
ROOT = os.path.dirname(os.path.dirname(os.path.dirname(os.path.abspath(__file__))))
sys.path.insert(0, os.path.join(ROOT, 'src'))
warnings.filterwarnings('ignore')
import numpy as np
import mbi
from mbi import Domain, Factor, CliqueVector, GraphicalModel

assert os.path.abspath(mbi.__file__).startswith(ROOT), 'wrong mbi: %s' % mbi.__file__

TOL = 1e-8
lines, failures = [], []


def brute_force(domain, potentials, total):
    logp = np.zeros(domain.shape)
    for f in potentials.values():
        logp = logp + f.expand(domain).values
    m = logp.max()
    p = np.exp(logp - m)
    p = p / p.sum() * total
    return Factor(domain, p)


def make_potentials(model, prng, scale=1.0, neg_inf=0.0, shift=0.0):
    pots = {}
    for cl in model.cliques:
        dom = model.domain.project(cl)
        vals = prng.normal(size=dom.shape) * scale + shift
        if neg_inf > 0:
            mask = prng.rand(*dom.shape) < neg_inf
            flat = mask.reshape(-1)
            flat[prng.randint(flat.size)] = False      # keep the table non-empty
            vals = np.where(mask, -np.inf, vals)
        pots[cl] = Factor(dom, vals)
    return CliqueVector(pots)


def dependencies(model):
    """ (m1, m2) pairs: m1 has to be sent before m2; derived from the tree itself """
    tree = model.junction_tree.tree
    deps = []
    for i in tree.nodes():
        for j in tree.neighbors(i):
            for k in tree.neighbors(i):
                if k != j:
                    deps.append(((k, i), (i, j)))
    return deps


def schedule_violations(model, order):
    pos = {m: n for n, m in enumerate(order)}
    tree = model.junction_tree.tree
    expected = set((a, b) for a, b in tree.edges()) | set((b, a) for a, b in tree.edges())
    bad = []
    if set(order) != expected or len(order) != len(expected):
        bad.append('schedule is not the set of directed tree edges')
        return bad
    for m1, m2 in dependencies(model):
        if pos[m1] > pos[m2]:
            bad.append('%s -> %s is sent before %s -> %s' % (m2[0], m2[1], m1[0], m1[1]))
    return bad


def random_extension(model, prng):
    deps = dependencies(model)
    msgs = sorted(set(m for d in deps for m in d) | set(model.message_order))
    pending = {m: set() for m in msgs}
    for m1, m2 in deps:
        pending[m2].add(m1)
    out, done = [], set()
    while len(out) < len(msgs):
        ready = [m for m in msgs if m not in done and pending[m] <= done]
        m = ready[prng.randint(len(ready))]
        out.append(m); done.add(m)
    return out


def compare(name, model, pots, truth):
    mu = model.belief_propagation(pots)
    worst = 0.0
    rounded = []
    for cl in sorted(model.cliques):
        ans = truth.project(cl).values
        res = mu[cl].values
        if not np.all(np.isfinite(res)):
            return float('inf'), None
        err = np.abs(res - ans).max() / model.total
        worst = max(worst, err)
        rounded.append(np.round(res / model.total, 7) + 0.0)
    return worst, rounded


def run_case(name, attrs, shape, cliques, total=1.0, elim=None, seed=0, **kw):
    prng = np.random.RandomState(seed)
    np.random.seed(seed + 1000)                    # randomised elimination orders
    domain = Domain(attrs, shape)
    model = GraphicalModel(domain, cliques, total=total, elimination_order=elim)
    pots = make_potentials(model, prng, **kw)
    truth = brute_force(domain, pots, total)

    bad = schedule_violations(model, model.message_order)
    if bad:
        failures.append('%s: invalid schedule: %s' % (name, bad[0]))
    for (i, j), sep in sorted(model.sep_axes.items(), key=repr):
        if set(sep) != set(i) & set(j) or len(sep) != len(set(sep)):
            failures.append('%s: separator of %s and %s is %s, expected %s'
                            % (name, i, j, tuple(sep), tuple(a for a in i if a in j)))
            break

    err, rounded = compare(name, model, pots, truth)
    if not err <= TOL:
        failures.append('%s: marginals differ from brute force (max rel. error %.3g) with the library schedule' % (name, err))
    h = hashlib.sha256()
    if rounded is not None:
        for r in rounded:
            h.update(np.ascontiguousarray(r).tobytes())

    library_order = list(model.message_order)
    for t in range(3):
        model.message_order = random_extension(model, prng)
        e2, _ = compare(name, model, pots, truth)
        if not e2 <= TOL:
            failures.append('%s: marginals differ from brute force (%.3g) under a permuted valid schedule' % (name, e2))
    model.message_order = library_order
    lines.append('%-28s cliques=%2d ok=%s digest=%s' % (name, len(model.cliques), err <= TOL, h.hexdigest()[:16]))


def chain(attrs):
    return [(attrs[k], attrs[k+1]) for k in range(len(attrs)-1)]

ALPHA = list('abcdefgh')
ADULT = ['age', 'workclass', 'education', 'marital', 'occupation', 'race', 'sex', 'income']
REV = list('hgfedcba')
INTS = [3, 0, 2, 1, 5, 4]
MIXED = ['z1', 'm', 'a2', 'q', 'b', 'y', 'c']

# alphabetical domains (what the unit tests use)
run_case('alpha-chain', ALPHA[:6], [2,3,2,3,2,3], chain(ALPHA[:6]), total=10.0, seed=1)
run_case('alpha-triples', ALPHA[:6], [2,3,2,2,3,2],
         [('a','b','c'),('b','c','d'),('c','d','e'),('d','e','f')], total=4.0, seed=2)
run_case('alpha-ring', ALPHA[:6], [2,3,2,2,3,2], [(ALPHA[k], ALPHA[(k+1) % 6]) for k in range(6)], total=7.0, seed=3)
# same structures, columns in the order of a real data set
run_case('adult-chain', ADULT, [3,2,3,2,3,2,2,2], chain(ADULT), total=100.0, seed=4)
run_case('adult-star', ADULT, [3,2,3,2,3,2,2,2], [('income', x) for x in ADULT[:-1]], total=50.0, seed=5)
run_case('adult-triples', ADULT, [3,2,3,2,3,2,2,2],
         [('age','workclass','education'),('workclass','education','marital'),
          ('education','marital','occupation'),('occupation','race'),('race','sex','income')], total=20.0, seed=6)
run_case('adult-ring', ADULT[:6], [3,2,3,2,3,2], [(ADULT[k], ADULT[(k+1) % 6]) for k in range(6)], total=1.0, seed=7)
run_case('adult-ring-randomised', ADULT[:7], [2]*7, [(ADULT[k], ADULT[(k+1) % 7]) for k in range(7)],
         total=1.0, elim=4, seed=8)
run_case('adult-permuted-cliques', ADULT, [3,2,3,2,3,2,2,2],
         [('education','age'),('age','education','workclass'),('marital','education'),('sex','marital','race'),
          ('income','sex'),('sex','income'),('occupation',)], total=9.0, seed=9)
run_case('adult-neg-inf', ADULT[:6], [3,3,3,3,3,3], chain(ADULT[:6]), total=10.0, seed=10, neg_inf=0.3)
run_case('adult-huge', ADULT[:6], [2,3,2,3,2,3], chain(ADULT[:6]), total=1000.0, seed=11, scale=2e3)
# reversed and integer attribute names
run_case('reversed-chain', REV, [2,3,2,3,2,3,2,2], chain(REV), total=10.0, seed=12)
run_case('reversed-tree', REV, [2]*8,
         [('h','g'),('g','f'),('f','e'),('g','d'),('d','c'),('c','b'),('b','a')], total=3.0, seed=13)
run_case('int-names', INTS, [2,3,2,3,2,2], chain(INTS), total=6.0, seed=14)
run_case('int-names-grid', INTS, [2]*6, [(3,0),(0,2),(1,5),(5,4),(3,1),(0,5),(2,4)], total=6.0, seed=15)
run_case('mixed-disconnected', MIXED, [2,3,2,1,3,2,2], [('z1','m'),('m','a2'),('b','y'),('y','c')], total=20.0, seed=16)

print('\n'.join(lines))
if failures:
    print('FAIL')
    for f in failures:
        print('  ' + f)
    sys.exit(1)
print('PASS')

#!/usr/bin/env python
""" C01 / pair 1 -- exact inference on LARGE domains with the greedy / randomised
elimination order (Domain.size is the cost function of JunctionTree._greedy_order).

Star-shaped models (one hub attribute, many leaves) have a closed-form answer, so the
clique marginals of belief propagation can be checked although the full domain has
more than 2**64 cells.  Small models are checked against the full table.

exit 0 + PASS + digest : exact inference returns the true marginals everywhere
exit 1 + FAIL          : inference is wrong / not finite / infeasible for some model
"""
import os, sys, hashlib, warnings
ROOT = os.path.dirname(os.path.dirname(os.path.dirname(os.path.abspath(__file__))))
sys.path.insert(0, os.path.join(ROOT, 'src'))
warnings.filterwarnings('ignore')
import numpy as np
from scipy.special import logsumexp
from mbi import Domain, Factor, CliqueVector, GraphicalModel

MAX_CELLS = 10**7      # refuse to allocate clique tables larger than this


def cells(domain, cl):
    n = 1
    for a in cl:
        n *= int(domain[a])      # exact python integers
    return n


def brute_force(domain, potentials, total):
    logp = np.zeros(domain.shape)
    for f in potentials.values():
        logp = logp + f.expand(domain).values
    p = np.exp(logp - logp.max())
    p *= total / p.sum()
    return Factor(domain, p)


def star_truth(domain, hub, pots, total):
    """ closed-form marginals of a star: p(h, l_i) ~ exp(t_i[h,l_i]) * prod_{j!=i} sum_l exp(t_j[h,l]) """
    per_hub = {}
    for cl, f in pots.items():
        ax = f.domain.axes([a for a in f.domain.attrs if a != hub])
        per_hub[cl] = logsumexp(f.values, axis=ax)          # vector over the hub
    allhub = sum(per_hub.values())
    logZ = logsumexp(allhub)
    out = {}
    for cl, f in pots.items():
        rest = Factor(domain.project([hub]), allhub - per_hub[cl])
        out[cl] = np.exp((f + rest).transpose(cl).values - logZ) * total
    return out


def check(name, domain, cliques, total, order, prng, digest, hub=None):
    """ returns None if fine, otherwise a description of the problem """
    np.random.seed(7)
    model = GraphicalModel(domain, cliques, total=total, elimination_order=order)
    biggest = max(cells(domain, cl) for cl in model.cliques)
    width = max(len(cl) for cl in model.cliques)
    if biggest > MAX_CELLS:
        return 'elimination order %s... yields a maximal clique over %d attributes with %d cells ' \
               '(exact inference infeasible; a good order needs tables of <= %d cells)' % (
               list(model.elimination_order)[:3], width, biggest,
               max(cells(domain, cl) for cl in cliques))
    pots = CliqueVector({cl: Factor(domain.project(cl), 2.0 * prng.randn(*domain.project(cl).shape))
                         for cl in model.cliques})
    mu = model.belief_propagation(pots)
    if hub is None:
        full = brute_force(domain, pots, total)
        truth = {cl: full.project(cl).values for cl in model.cliques}
    else:
        truth = star_truth(domain, hub, pots, total)
    worst = 0.0
    for cl in model.cliques:
        res = mu[cl].values
        if not np.all(np.isfinite(res)):
            return 'non-finite marginal on %s' % (cl,)
        worst = max(worst, np.abs(res - truth[cl]).max() / total)
        digest.update(np.array2string(res.flatten()[:50], precision=8, floatmode='fixed').encode())
    digest.update(repr((width, biggest, len(model.cliques))).encode())
    if worst > 1e-9:
        return 'marginals differ from the truth, max rel err %.3e' % worst
    return None


def star(hub_size, leaf_size, nleaves):
    attrs = ['h'] + ['x%02d' % k for k in range(nleaves)]
    domain = Domain(attrs, [hub_size] + [leaf_size] * nleaves)
    cliques = [('h', a) for a in attrs[1:]]
    return domain, cliques


def main():
    prng = np.random.RandomState(1234)
    digest = hashlib.sha256()
    cases = []
    d = Domain(list('abcd'), [2, 3, 4, 5])
    cases.append(('chain, small', d, [('a', 'b'), ('b', 'c'), ('c', 'd')], 10.0, None, None))
    d = Domain(list('abcde'), [2, 3, 2, 3, 2])
    cases.append(('5-cycle, small', d, [('a', 'b'), ('b', 'c'), ('c', 'd'), ('d', 'e'), ('e', 'a')], 1.0, None, None))
    cases.append(('5-cycle, randomised order', d, [('a', 'b'), ('b', 'c'), ('c', 'd'), ('d', 'e'), ('e', 'a')], 3.0, 5, None))
    for label, (hs, ls, n) in [('star 2 x 16^6   (2^25 cells)', (2, 16, 6)),
                               ('star 3 x 10^12  (3e12 cells)', (3, 10, 12)),
                               ('star 3 x 10^20  (3e20 cells)', (3, 10, 20)),
                               ('star 2 x 16^16  (2^65 cells)', (2, 16, 16)),
                               ('star 3 x 6^25   (8.5e19 cells)', (3, 6, 25)),
                               ('star 4 x 8^21   (2^65 cells)', (4, 8, 21))]:
        dom, cl = star(hs, ls, n)
        cases.append((label + ', greedy', dom, cl, 1000.0, None, 'h'))
        cases.append((label + ', randomised(3)', dom, cl, 1000.0, 3, 'h'))
        cases.append((label + ', given leaves-first', dom, cl, 1000.0, list(dom.attrs[1:]) + ['h'], 'h'))

    failures = []
    for name, dom, cl, total, order, hub in cases:
        problem = check(name, dom, cl, total, order, prng, digest, hub)
        print('%-48s %s' % (name, 'ok' if problem is None else 'PROBLEM'))
        if problem is not None:
            failures.append((name, problem))
    if failures:
        print('FAIL: exact inference does not return the true marginals for %d configuration(s):' % len(failures))
        for name, problem in failures:
            print('   %s: %s' % (name, problem))
        sys.exit(1)
    print('PASS digest=%s' % digest.hexdigest()[:32])
    sys.exit(0)


if __name__ == '__main__':
    main()

#!/usr/bin/env python
""" C01 / pair 2 -- belief propagation across EMPTY separators (disconnected models).

Checks GraphicalModel.belief_propagation against brute-force marginals of
exp(sum of potentials) normalised to `total`, on connected and (mostly)
disconnected clique sets, for the default message order and for random other
linear extensions of the message-dependency order.

exit 0 + PASS + digest : all marginals agree with brute force
exit 1 + FAIL          : some marginal disagrees
"""
import os, sys, hashlib, itertools, warnings
ROOT = os.path.dirname(os.path.dirname(os.path.dirname(os.path.abspath(__file__))))
sys.path.insert(0, os.path.join(ROOT, 'src'))
warnings.filterwarnings('ignore')
import numpy as np
import networkx as nx
from mbi import Domain, Factor, CliqueVector, GraphicalModel


def brute_force(domain, potentials, total):
    """ marginals of the normalised product, computed on the full table """
    logp = np.zeros(domain.shape)
    for f in potentials.values():
        logp = logp + f.expand(domain).values
    m = logp.max()
    p = np.exp(logp - m)
    p *= total / p.sum()
    return Factor(domain, p)


def random_extension(model, prng):
    """ a random linear extension of the message dependency order """
    msgs = list(model.message_order)
    G = nx.DiGraph()
    G.add_nodes_from(msgs)
    for m1 in msgs:
        for m2 in msgs:
            if m1[1] == m2[0] and m1[0] != m2[1]:
                G.add_edge(m1, m2)
    indeg = {m: G.in_degree(m) for m in msgs}
    ready = [m for m in msgs if indeg[m] == 0]
    out = []
    while ready:
        m = ready.pop(prng.randint(len(ready)))
        out.append(m)
        for n in G.successors(m):
            indeg[n] -= 1
            if indeg[n] == 0:
                ready.append(n)
    assert len(out) == len(msgs)
    return out


CASES = [
    # name, attrs, shape, cliques, total, scale of the potentials, number of -inf cells
    ('chain (connected)',        'abcd',   (2, 3, 4, 2),       ['ab', 'bc', 'cd'],        10.0,   1.0, 0),
    ('triangle+tail (connected)', 'abcd',  (2, 3, 2, 3),       ['ab', 'bc', 'ca', 'cd'],  1.0,    2.0, 0),
    ('two components',           'abcd',   (2, 3, 4, 2),       ['ab', 'cd'],              10.0,   1.0, 0),
    ('two components, shifted',  'abcd',   (3, 2, 2, 3),       ['ba', 'dc'],              1.0,    5.0, 0),
    ('three components',         'abcdef', (2, 3, 2, 2, 3, 2), ['ab', 'cd', 'ef'],        250.0,  3.0, 0),
    ('pair + two singletons',    'abcd',   (2, 3, 4, 2),       ['ab', 'c', 'd'],          7.5,    2.0, 0),
    ('chain + isolated attr',    'abcde',  (2, 3, 2, 3, 4),    ['ab', 'bc', 'cd'],        1.0,    1.0, 0),
    ('components with zeros',    'abcde',  (2, 3, 3, 2, 2),    ['ab', 'cd', 'de'],        100.0,  2.0, 3),
    ('large magnitudes',         'abcd',   (2, 2, 3, 3),       ['ab', 'cd'],              1.0,    4000.0, 0),
    ('all singletons',           'abc',    (3, 4, 5),          ['a', 'b', 'c'],           42.0,   1.0, 0),
]


def main():
    prng = np.random.RandomState(20240511)
    digest = hashlib.sha256()
    failures = []
    for name, attrs, shape, cliques, total, scale, nzero in CASES:
        domain = Domain(list(attrs), shape)
        model = GraphicalModel(domain, [tuple(c) for c in cliques], total=total)
        pots = {}
        for cl in model.cliques:
            vals = scale * prng.randn(*domain.project(cl).shape) + scale * prng.randn()
            pots[cl] = Factor(domain.project(cl), vals)
        for _ in range(nzero):
            cl = model.cliques[prng.randint(len(model.cliques))]
            idx = tuple(prng.randint(n) for n in pots[cl].domain.shape)
            pots[cl].values[idx] = -np.inf
        pots = CliqueVector(pots)
        truth = brute_force(domain, pots, total)
        nsep0 = sum(1 for s in model.sep_axes.values() if len(s) == 0) // 2

        schedules = [list(model.message_order)] + [random_extension(model, prng) for _ in range(4)]
        worst = 0.0
        for k, sched in enumerate(schedules):
            model.message_order = sched
            mu = model.belief_propagation(pots)
            for cl in model.cliques:
                ans = truth.project(cl).values
                res = mu[cl].project(cl).values
                if not np.all(np.isfinite(res)):
                    err = np.inf
                else:
                    err = np.abs(res - ans).max() / total
                worst = max(worst, err)
                if k == 0:
                    digest.update(np.array2string(res.flatten(), precision=8, floatmode='fixed').encode())
        ok = worst < 1e-9
        print('%-28s cliques=%d empty-separators=%d  max rel err %s' %
              (name, len(model.cliques), nsep0, 'ok' if ok else '%.3e' % worst))
        if not ok:
            failures.append((name, worst))

    if failures:
        print('FAIL: belief propagation disagrees with the brute-force marginals on %d model(s):' % len(failures))
        for name, worst in failures:
            print('   %s: max |mu - truth| / total = %.3e' % (name, worst))
        print('   (all failing models have cliques in different connected components; their')
        print('    marginals are mis-scaled, i.e. they no longer sum to `total`)')
        sys.exit(1)
    print('PASS digest=%s' % digest.hexdigest()[:32])
    sys.exit(0)


if __name__ == '__main__':
    main()

"""C01 / pair1 -- Factor.expand "trailing axes" fast path.

Compares GraphicalModel.belief_propagation with brute-force marginals that are
computed with plain numpy (axes matched by attribute name, never through Factor.expand).
Exit 0 + PASS + digest when every case agrees, exit 1 + FAIL otherwise.
"""
import os, sys, hashlib, itertools, random
ROOT = os.path.dirname(os.path.dirname(os.path.dirname(os.path.abspath(__file__))))
sys.path.insert(0, os.path.join(ROOT, 'src'))
import warnings
warnings.filterwarnings('ignore')
import numpy as np
from mbi import Domain, Factor, CliqueVector, GraphicalModel
import mbi
assert os.path.abspath(mbi.__file__).startswith(ROOT), mbi.__file__


def brute(domain, pots, total):
    """marginals of exp(sum of potentials) normalised to total; numpy only"""
    logp = np.zeros(domain.shape)
    for cl, f in pots.items():
        logp = logp + _place(f, domain)
    m = logp.max()
    p = np.exp(logp - m)
    p *= total / p.sum()
    out = {}
    for cl in pots:
        drop = tuple(k for k, a in enumerate(domain.attrs) if a not in cl)
        out[cl] = p.sum(axis=drop)      # axes left in domain order == canonical clique order
    return out


def _place(f, domain):
    """f.values as an array broadcastable against domain.shape, axes matched BY NAME"""
    order = sorted(range(len(f.domain.attrs)), key=lambda k: domain.attrs.index(f.domain.attrs[k]))
    v = np.transpose(f.values, order)
    shape = [domain.config[a] if a in f.domain.attrs else 1 for a in domain.attrs]
    return v.reshape(shape)


def make_pots(model, rng, scale=1.0, neg_inf=0.0, shift=None):
    pots = {}
    for cl in model.cliques:
        dom = model.domain.project(cl)
        v = rng.normal(size=dom.shape) * scale
        if neg_inf > 0:
            mask = rng.random(dom.shape) < neg_inf
            mask.flat[0] = False
            v[mask] = -np.inf
        if shift is not None:
            v = v + shift
        pots[cl] = Factor(dom, v)
    return CliqueVector(pots)


def linear_extension(model, seed):
    """a random valid message schedule"""
    r = random.Random(seed)
    todo = list(model.message_order)
    nb = model.neighbors
    done, out = set(), []
    while todo:
        ready = [(i, j) for (i, j) in todo if all((k, i) in done for k in nb[i] if k != j)]
        m = r.choice(sorted(ready))
        todo.remove(m); done.add(m); out.append(m)
    return out


CASES = [
    # name, attrs, shape, cliques, kwargs
    ('chain-distinct',   'abcd',  (2, 3, 4, 5),    ['ab', 'bc', 'cd'], {}),
    ('chain-binary',     'abcd',  (2, 2, 2, 2),    ['ab', 'bc', 'cd'], {}),
    ('chain-equal-3',    'abc',   (3, 3, 3),       ['ab', 'bc'], {}),
    ('star-equal-4',     'abcd',  (4, 4, 4, 4),    ['ab', 'ac', 'ad'], {}),
    ('tri-sep2-equal',   'abcd',  (3, 3, 3, 3),    ['abc', 'bcd'], {}),
    ('tri-sep2-mixed',   'abcd',  (2, 3, 3, 2),    ['abc', 'bcd'], {}),
    ('cycle4-equal',     'abcd',  (2, 2, 2, 2),    ['ab', 'bc', 'cd', 'da'], {}),
    ('cycle5-distinct',  'abcde', (2, 3, 4, 5, 6), ['ab', 'bc', 'cd', 'de', 'ea'], {}),
    ('disconnected',     'abcd',  (3, 3, 2, 2),    ['ab', 'cd'], {}),
    ('reordered-names',  'abcd',  (3, 2, 3, 2),    ['ca', 'db', 'ba'], {}),
    ('size1-attr',       'abc',   (1, 4, 1),       ['ab', 'bc'], {}),
    ('neginf-equal',     'abc',   (3, 3, 3),       ['ab', 'bc'], {'neg_inf': 0.3}),
    ('huge-magnitude',   'abc',   (2, 2, 3),       ['ab', 'bc'], {'scale': 1e4}),
    ('shifted',          'abcd',  (5, 5, 2, 3),    ['ab', 'bc', 'cd'], {'shift': 777.0}),
]


def main():
    digest = hashlib.sha256()
    failures = []
    for n, (name, attrs, shape, cliques, kw) in enumerate(CASES):
        domain = Domain(list(attrs), shape)
        cliques = [tuple(c) for c in cliques]
        for variant, (elim, total) in enumerate([(None, 1.0), (list(attrs)[::-1], 37.5)]):
            model = GraphicalModel(domain, cliques, total=total, elimination_order=elim)
            rng = np.random.default_rng(1000 * n + variant)
            pots = make_pots(model, rng, **kw)
            truth = brute(domain, pots, total)
            for sched in range(2):
                if sched:
                    model.message_order = linear_extension(model, n)
                mu = model.belief_propagation(pots)
                worst = 0.0
                for cl in model.cliques:
                    got = mu[cl].values
                    err = np.max(np.abs(got - truth[cl])) if np.all(np.isfinite(got)) else np.inf
                    worst = max(worst, err)
                    digest.update(np.round(got, 9).tobytes())
                tag = '%s/elim%d/sched%d' % (name, variant, sched)
                ok = worst <= 1e-9 * max(total, 1.0)
                print('%-32s cliques=%-28s max|err|=%.2e %s' % (
                    tag, ','.join(''.join(c) for c in model.cliques), worst, 'ok' if ok else 'WRONG'))
                if not ok:
                    failures.append(tag)
    if failures:
        print('FAIL: belief_propagation disagrees with the brute-force marginals in %d runs: %s'
              % (len(failures), ', '.join(failures)))
        print('      (a message was added along the wrong axis of the receiving clique: the axes')
        print('       were matched by SIZE instead of by attribute NAME in Factor.expand)')
        return 1
    print('PASS digest=%s' % digest.hexdigest())
    return 0


if __name__ == '__main__':
    sys.exit(main())

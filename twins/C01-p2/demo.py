#!/usr/bin/env python
"""Pair 2 demo: exact inference must stay finite and correct for potentials whose
magnitude is far outside the range of exp(), and must not change when a constant
is added to a potential.

For several model structures the clique marginals returned by
GraphicalModel.belief_propagation are compared with brute-force marginals (computed
here in a max-shifted, overflow-free way) in a series of magnitude regimes:
unit scale, moderately large, huge (|theta| ~ 1e3 and 1e5), one potential shifted by
+750 / -750 / +1e5, structural zeros combined with large values, and tiny / large totals.
It also checks directly that shifting one potential by a constant leaves the marginals alone.

Per structure one character per regime is printed: '.' fine, 'X' the regime itself is
wrong, 's' the regime is fine but adding a constant to a potential changes the marginals.

exit 0 + "PASS" : all regimes give the brute-force marginals
exit 1 + "FAIL" : some regime gives NaN / zeros / wrong marginals
"""
import os, sys, hashlib, warnings

ROOT = os.path.dirname(os.path.dirname(os.path.dirname(os.path.abspath(__file__))))   # out/pair2/demo.py -> repo root
sys.path.insert(0, os.path.join(ROOT, 'src'))
warnings.simplefilter('ignore')

import numpy as np
np.seterr(all='ignore')
import mbi
from mbi import Domain, Factor, CliqueVector, GraphicalModel

assert os.path.abspath(mbi.__file__).startswith(os.path.join(ROOT, 'src')), \
    'mbi imported from %s, expected the copy under %s' % (mbi.__file__, ROOT)

def brute_force(domain, potentials, total):
    """ marginals of exp(sum of potentials) normalised to total, by enumeration (max-shifted) """
    logp = np.zeros(domain.shape)
    for cl, f in potentials.items():
        attrs = list(f.domain.attrs)
        perm = sorted(range(len(attrs)), key=lambda k: domain.attrs.index(attrs[k]))
        vals = np.transpose(f.values, perm)
        shape = [domain.config[a] if a in attrs else 1 for a in domain.attrs]
        logp = logp + vals.reshape(shape)
    assert np.isfinite(logp.max()), 'demo bug: distribution has no support'
    p = np.exp(logp - logp.max())
    p *= total / p.sum()
    ans = {}
    for cl, f in potentials.items():
        attrs = list(f.domain.attrs)
        other = tuple(k for k, a in enumerate(domain.attrs) if a not in attrs)
        m = p.sum(axis=other)
        kept = [a for a in domain.attrs if a in attrs]
        ans[cl] = np.transpose(m, [kept.index(a) for a in attrs])
    return p, ans

STRUCTURES = [
    ('chain4',  'abcd',   (2, 3, 4, 5), [('a', 'b'), ('b', 'c'), ('c', 'd')]),
    ('star',    'habc',   (3, 2, 3, 2), [('h', 'a'), ('h', 'b'), ('c', 'h')]),
    ('cycle4',  'abcd',   (2, 3, 2, 3), [('a', 'b'), ('b', 'c'), ('c', 'd'), ('d', 'a')]),
    ('forest',  'abcdef', (2, 2, 3, 2, 2, 2), [('a', 'b'), ('c', 'd'), ('d', 'e'), ('f',)]),
]

# (label, scale of the random normal potentials, constant added to the first potential,
#  constant added to the last potential, structural zeros?, total)
REGIMES = [
    ('unit',            1.0,    0.0,    0.0, False, 1.0),
    ('unit-total1e4',   1.0,    0.0,    0.0, False, 1e4),
    ('unit-total1e-3',  1.0,    0.0,    0.0, False, 1e-3),
    ('scale30',        30.0,    0.0,    0.0, False, 10.0),
    ('scale1e3',      1e3,      0.0,    0.0, False, 10.0),
    ('scale1e5',      1e5,      0.0,    0.0, False, 500.0),
    ('shift+750',       1.0,  750.0,    0.0, False, 10.0),
    ('shift-750',       1.0, -750.0,    0.0, False, 10.0),
    ('shift-400-400',   1.0, -400.0, -400.0, False, 10.0),
    ('shift+1e5',       2.0,    1e5,    0.0, False, 1.0),
    ('zeros+shift+800', 1.0,  800.0,    0.0, True,  25.0),
    ('zeros+scale1e3', 1e3,     0.0,    0.0, True,  25.0),
]

def build(structure, regime, seed):
    name, attrs, shape, cliques = structure
    label, scale, shift0, shift1, zeros, total = regime
    rng = np.random.RandomState(seed)
    domain = Domain(list(attrs), shape)
    model = GraphicalModel(domain, cliques, total=total)
    order = sorted(model.cliques)
    pots = {}
    for cl in order:
        dom = domain.project(cl)
        vals = rng.normal(size=dom.shape) * scale
        if zeros:
            vals[rng.rand(*dom.shape) < 0.2] = -np.inf
            vals.flat[0] = rng.normal() * scale          # keep cell (0,...,0) possible
        pots[cl] = Factor(dom, vals)
    pots[order[0]] = pots[order[0]] + shift0
    pots[order[-1]] = pots[order[-1]] + shift1
    return domain, model, pots, total

def compare(model, mu, truth, total):
    err = 0.0
    for cl in model.cliques:
        got = np.asarray(mu[cl].values)
        if not np.all(np.isfinite(got)):
            return float('inf')
        err = max(err, float(np.abs(got - truth[cl]).max()))
    return err / total

def main():
    failures = []
    tol = 1e-6
    for s_idx, structure in enumerate(STRUCTURES):
        row = []
        h = hashlib.sha256()
        for r_idx, regime in enumerate(REGIMES):
            domain, model, pots, total = build(structure, regime, 1000 * s_idx + r_idx)
            joint, truth = brute_force(domain, pots, total)
            h.update(np.round(joint / total, 10).tobytes())
            try:
                mu = model.belief_propagation(CliqueVector(pots))
                err = compare(model, mu, truth, total)
                ok, why = err <= tol, 'max abs error / total = %.3e (tolerance %.0e)' % (err, tol)
                # shift-invariance, checked directly: add a constant to the middle potential
                shift_only = False
                if ok:
                    mid = sorted(model.cliques)[len(model.cliques) // 2]
                    for c in (3.0, 720.0, -720.0):
                        pots2 = dict(pots)
                        pots2[mid] = pots[mid] + c
                        mu2 = model.belief_propagation(CliqueVector(pots2))
                        err2 = compare(model, mu2, truth, total)
                        if not err2 <= tol:
                            shift_only = True
                            ok, why = False, ('adding the constant %+g to potential %s changed the marginals: '
                                              'max abs error / total = %.3e' % (c, ''.join(mid), err2))
                            break
                # the log-partition function itself has to be finite as well
                if ok:
                    lz = model.belief_propagation(CliqueVector(pots), logZ=True)
                    if not np.isfinite(lz):
                        ok, why = False, 'logZ = %r' % lz
            except Exception as e:
                ok, why, shift_only = False, 'raised %s: %s' % (type(e).__name__, e), False
            row.append('.' if ok else ('s' if shift_only else 'X'))
            if not ok:
                failures.append('%s / regime %s: %s' % (structure[0], regime[0], why))
        print('%-8s regimes=%d joint=%s %s' % (structure[0], len(REGIMES), h.hexdigest()[:16],
              ''.join(row)))
    if failures:
        print('FAIL: belief_propagation is not finite / exact for potentials outside the range of exp()')
        print('      or is not invariant under adding a constant to a potential (%d case(s)):' % len(failures))
        for f in failures[:14]:
            print('   - ' + f)
        if len(failures) > 14:
            print('   ... and %d more' % (len(failures) - 14))
        return 1
    print('PASS: marginals equal the brute-force marginals in every magnitude regime')
    return 0

if __name__ == '__main__':
    sys.exit(main())

""" C01 / round 14 / pair 1 -- Factor.exp "saturate instead of overflowing"

Exact inference must return total * P(clique) for ANY positive total.  The last
step of belief propagation is  exp(log-belief + log(total) - logZ)  through
Factor.exp(out=...), so every entry handed to exp is <= log(total).  The demo
compares belief_propagation with a brute-force computation (plain numpy, never
Factor.exp) on several structures, potentials (incl. -inf entries and huge
magnitudes) and totals from 1e-30 up to 1e300.
"""
import os, sys, hashlib, itertools
ROOT = os.path.dirname(os.path.dirname(os.path.dirname(os.path.abspath(__file__))))
sys.path.insert(0, os.path.join(ROOT, 'src'))
import numpy as np
from scipy.special import logsumexp
from mbi import Domain, Factor, GraphicalModel
import mbi
assert os.path.abspath(mbi.__file__).startswith(ROOT), mbi.__file__

TOTALS = [1e-30, 0.5, 1.0, 1000.0, 2.5e9, 1e30, 1e40, 1e150, 1e300]

STRUCTURES = {
    'chain':   (dict(a=2, b=3, c=4, d=2), [('a','b'), ('b','c'), ('c','d')]),
    'cycle5':  (dict(a=2, b=2, c=3, d=2, e=2), [('a','b'), ('b','c'), ('c','d'), ('d','e'), ('e','a')]),
    'star':    (dict(h=3, x=2, y=1, z=4), [('x','h'), ('h','y'), ('z','h')]),
    'split':   (dict(p=2, q=3, r=2, s=2, t=3), [('p','q'), ('r','s','t'), ('s','r')]),
    'single':  (dict(u=3, v=2), [('v','u')]),
}

def potentials_for(model, kind, rng):
    pot = {}
    for cl in model.cliques:
        dom = model.domain.project(cl)
        vals = rng.normal(size=dom.shape)
        if kind == 'huge':
            vals = vals * 1e5 + 3e6
        if kind == 'zeros' and vals.size > 2:
            flat = vals.reshape(-1)
            flat[rng.choice(flat.size, size=max(1, flat.size // 3), replace=False)] = -np.inf
            flat[0] = 0.0          # keep the all-zero state possible
        pot[cl] = Factor(dom, vals)
    return pot

def brute_force(model, pot, total):
    """ log-space brute force with plain numpy (independent of Factor.exp) """
    full = model.domain
    logp = np.zeros(full.shape)
    for cl in model.cliques:
        logp = logp + pot[cl].expand(full).values
    logZ = logsumexp(logp)
    ans = {}
    for cl in model.cliques:
        other = tuple(full.axes(full.invert(cl)))
        lm = logsumexp(logp, axis=other) if other else logp
        ans[cl] = np.exp(lm - logZ + np.log(total))
    return ans

def main():
    rng = np.random.RandomState(20261004)
    digest = hashlib.sha256()
    failures = []
    ncases = 0
    for name, (config, cliques) in STRUCTURES.items():
        domain = Domain.fromdict(config)
        for kind in ['unit', 'huge', 'zeros']:
            for total in TOTALS:
                model = GraphicalModel(domain, cliques, total=total)
                pot = potentials_for(model, kind, rng)
                got = model.belief_propagation(pot)
                want = brute_force(model, pot, total)
                ncases += 1
                for cl in model.cliques:
                    g, w = got[cl].values, want[cl]
                    ok = np.all(np.isfinite(g)) and np.allclose(g, w, rtol=1e-8, atol=1e-12 * total)
                    if not ok:
                        failures.append('%s/%s total=%g clique=%s: sum got %.6g, expected %.6g'
                                        % (name, kind, total, cl, g.sum(), w.sum()))
                    digest.update(('%s|%s|%g|%s|' % (name, kind, total, cl)).encode())
                    digest.update(','.join('%.9e' % x for x in g.reshape(-1)).encode())
    if failures:
        print('FAIL: belief_propagation does not return total * P(clique) in %d clique tables' % len(failures))
        for f in failures[:8]:
            print('   ', f)
        print('    (every failing case has a large total: the marginals were capped)')
        return 1
    print('PASS %d cases' % ncases)
    print('digest', digest.hexdigest())
    return 0

if __name__ == '__main__':
    sys.exit(main())

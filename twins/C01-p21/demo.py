import os, sys, hashlib, itertools
ROOT = os.path.dirname(os.path.dirname(os.path.dirname(os.path.abspath(__file__))))
sys.path.insert(0, os.path.join(ROOT, 'src'))
import numpy as np
from mbi import Domain, Factor, GraphicalModel, CliqueVector

def brute(domain, potentials, total, cliques):
    logp = np.zeros(domain.shape)
    for cl, f in potentials.items():
        logp = logp + f.expand_ref(domain)
    m = logp.max()
    p = np.exp(logp - m); p = p / p.sum() * total
    out = {}
    for cl in cliques:
        drop = tuple(i for i, a in enumerate(domain.attrs) if a not in cl)
        out[cl] = p.sum(axis=drop)  # cl is in domain order
    return out

def expand_ref(self, domain):
    # independent reference expansion (einsum-free, explicit indexing)
    idx = tuple(slice(None) if a in self.domain.attrs else None for a in domain.attrs)
    perm = [self.domain.attrs.index(a) for a in domain.attrs if a in self.domain.attrs]
    return np.broadcast_to(np.transpose(self.values, perm)[idx], domain.shape)
Factor.expand_ref = expand_ref

CASES = [
    ('chain-abcd', dict(a=2, b=3, c=4, d=5), [('a','b'),('b','c'),('c','d')], None),
    ('tri-lead',  dict(a=3, b=3, c=3, d=3), [('a','b','c'),('a','b','d')], None),
    # separator (b,c) sits at the END of clique (a,b,c): 3-cycle of axes
    ('tri-trail', dict(a=3, b=3, c=3, d=3), [('a','b','c'),('b','c','d')], None),
    ('tri-trail-uneq', dict(a=2, b=3, c=4, d=2), [('a','b','c'),('b','c','d')], None),
    ('cycle5', dict(a=2, b=2, c=2, d=2, e=2),
        [('a','b'),('b','c'),('c','d'),('d','e'),('e','a')], ['a','b','c','d','e']),
    ('quad', dict(a=2, b=2, c=2, d=2, e=2), [('a','b','c','d'),('b','c','d','e')], None),
    # potential of clique (a,b,c,d,e) is STORED with attributes in the order (a,c,b,d,e)
    ('stored-perm', dict(a=2, b=2, c=2, d=2, e=2, f=2), [('a','b','c','d','e'),('a','b','c','d','f')], None),
    ('stored-perm3', dict(a=2, b=3, c=2, d=2), [('a','b','c'),('b','c','d')], None),
]
STORED = {'stored-perm': {('a','b','c','d','e'): ('a','c','b','d','e')},
          'stored-perm3': {('a','b','c'): ('c','a','b'), ('b','c','d'): ('d','c','b')}}

def main():
    prng = np.random.RandomState(1601)
    digest = hashlib.sha256()
    bad = []
    for name, cfg, cliques, order in CASES:
        domain = Domain.fromdict(cfg)
        for total in (1.0, 250.0):
            model = GraphicalModel(domain, cliques, total=total, elimination_order=order)
            doms = {cl: domain.project(STORED.get(name, {}).get(cl, cl)) for cl in model.cliques}
            pot = CliqueVector({cl: Factor(doms[cl], 3 * prng.randn(*doms[cl].shape)) for cl in model.cliques})
            try:
                mu = model.belief_propagation(pot)
            except Exception as e:
                bad.append('%s total=%g: belief_propagation raised %s: %s' % (name, total, type(e).__name__, e))
                continue
            ref = brute(domain, pot, total, model.cliques)
            for cl in model.cliques:
                got = np.transpose(mu[cl].values, [mu[cl].domain.attrs.index(a) for a in cl])
                err = np.abs(got - ref[cl]).max() / total
                if not err < 1e-9:
                    bad.append('%s total=%g clique %s: max rel. error %.3g vs brute force' % (name, total, cl, err))
                digest.update(np.round(got, 7).tobytes())
            print('%-15s total=%-6g cliques=%s' % (name, total, model.cliques))
    if bad:
        print('FAIL: exact inference disagrees with the brute-force marginals')
        for b in bad: print('  ' + b)
        sys.exit(1)
    print('PASS', digest.hexdigest())

if __name__ == '__main__':
    main()

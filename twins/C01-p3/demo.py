"""C01 / pair 1 -- belief_propagation must be a pure function of (model, potentials).

Clause exercised: "for ANY collection of cliques ... the clique marginals produced by exact
inference equal the marginals of the normalised product of the potentials" -- in particular for
clique collections that collapse to ONE maximal clique (a single clique, nested cliques, a
clique given twice), and for every call in a history of calls (the estimation loops call
belief_propagation(theta) once per iteration with the same theta object).

For each model the program
  1. draws seeded potentials and keeps an independent deep copy of them,
  2. calls model.belief_propagation(potentials) THREE times with the same object,
  3. compares every result with a brute-force computation done with plain numpy on the
     deep copy, and checks that the caller's potentials were left untouched.
Exit status 0 and a digest on success, 1 and an explanation on the first violation.
"""
import os
import sys

if os.environ.get('PYTHONHASHSEED') != '0':      # message order depends on set iteration order
    env = dict(os.environ, PYTHONHASHSEED='0')
    os.execve(sys.executable, [sys.executable] + sys.argv, env)

ROOT = os.path.dirname(os.path.dirname(os.path.dirname(os.path.abspath(__file__))))
sys.path.insert(0, os.path.join(ROOT, 'src'))

import hashlib
import warnings
warnings.simplefilter('ignore')
import numpy as np
from mbi import Domain, Factor, CliqueVector, GraphicalModel
import mbi
assert os.path.abspath(mbi.__file__).startswith(ROOT), mbi.__file__

CASES = [
    # name, attrs, shape, cliques, total
    ('single-2way',    'ab',    (3, 4),       [('a', 'b')],                               1.0),
    ('single-1attr',   'a',     (5,),         [('a',)],                                   7.5),
    ('nested',         'abc',   (2, 3, 2),    [('a', 'b', 'c'), ('a', 'b'), ('c',)],      100.0),
    ('duplicated',     'ab',    (4, 2),       [('a', 'b'), ('b', 'a'), ('a', 'b')],       12.0),
    ('triangle',       'abc',   (2, 2, 3),    [('a', 'b'), ('b', 'c'), ('a', 'c')],       3.0),
    ('chain',          'abcd',  (2, 3, 4, 2), [('a', 'b'), ('b', 'c'), ('c', 'd')],       10.0),
    ('star',           'abcd',  (3, 2, 2, 2), [('a', 'b'), ('a', 'c'), ('a', 'd')],       1.0),
    ('disconnected',   'abc',   (2, 3, 2),    [('a', 'b')],                               50.0),
    ('four-cycle',     'abcd',  (2, 2, 2, 2), [('a', 'b'), ('b', 'c'), ('c', 'd'), ('d', 'a')], 1.0),
]


def brute_force(domain, raw, total):
    """ raw: {clique: ndarray in clique order}.  Returns the full joint scaled to total. """
    attrs = domain.attrs
    logp = np.zeros(domain.shape)
    for cl, vals in raw.items():
        shape = [domain[a] if a in cl else 1 for a in attrs]
        perm = sorted(range(len(cl)), key=lambda k: attrs.index(cl[k]))
        logp = logp + np.transpose(vals, perm).reshape(shape)
    logp = logp - logp.max()
    p = np.exp(logp)
    return p * (total / p.sum())


def marginal(domain, joint, cl):
    drop = tuple(k for k, a in enumerate(domain.attrs) if a not in cl)
    m = joint.sum(axis=drop)
    kept = [a for a in domain.attrs if a in cl]
    return np.transpose(m, [kept.index(a) for a in cl])


def fail(msg):
    print('FAIL: ' + msg)
    sys.exit(1)


def main():
    prng = np.random.RandomState(20240101)
    digest = hashlib.sha256()
    for name, attrs, shape, cliques, total in CASES:
        domain = Domain(list(attrs), shape)
        model = GraphicalModel(domain, cliques, total=total)
        pots, raw = {}, {}
        for cl in model.cliques:
            vals = prng.normal(size=domain.project(cl).shape) * 2.0
            raw[cl] = vals.copy()
            pots[cl] = Factor(domain.project(cl), vals)
        pots = CliqueVector(pots)
        joint = brute_force(domain, raw, total)

        for call in (1, 2, 3):
            mu = model.belief_propagation(pots)
            for cl in model.cliques:
                want = marginal(domain, joint, mu[cl].domain.attrs)
                got = mu[cl].values
                if not np.allclose(got, want, rtol=1e-9, atol=1e-12):
                    fail('%s: call #%d of belief_propagation(potentials) returned a wrong marginal '
                         'for clique %s (max abs err %.3g, total of result %.6g, expected total %.6g)'
                         % (name, call, cl, np.abs(got - want).max(), got.sum(), total))
        for cl in model.cliques:
            if not np.array_equal(pots[cl].values, raw[cl]):
                fail('%s: three calls of belief_propagation overwrote the caller\'s potential for '
                 'clique %s (max abs change %.3g) -- the next call on the same potentials '
                 'cannot be right' % (name, cl, np.abs(pots[cl].values - raw[cl]).max()))
            if mu[cl] is pots[cl] or np.shares_memory(mu[cl].values, pots[cl].values):
                fail('%s: the marginal returned for clique %s shares storage with the '
                 'caller\'s potential' % (name, cl))
        line = '%-13s cliques=%d' % (name, len(model.cliques))
        for cl in sorted(model.cliques):
            v = np.round(mu[cl].values, 8) + 0.0
            line += '  %s:%.8f' % (''.join(cl), float(np.round(np.abs(v * np.arange(1, v.size + 1).reshape(v.shape)).sum(), 6)))
            digest.update(('%s|' % (cl,)).encode() + ','.join('%.8f' % x for x in v.flatten()).encode())
        print(line)
    print('PASS  digest=' + digest.hexdigest()[:32])
    sys.exit(0)


if __name__ == '__main__':
    main()

"""C01 / pair 2 -- the division by the reverse message (Factor.__sub__) must treat ONLY log(0)
as a structural zero.

Clause exercised: "the result does not depend ... on adding a constant to any potential".
Log-potentials are only defined up to an additive constant per clique, and the estimation loops
(theta <- theta - step * gradient) routinely hand belief_propagation parameters that sit a few
hundred units away from zero.  Those values are comfortably inside the range of exp()
(exp(-300) ~ 5e-131), so nothing here is about overflow.

For every model the program computes the brute-force marginals of the normalised product with
plain numpy and then requires belief_propagation to reproduce them for
   * the potentials as drawn,
   * the same potentials with a constant c added to ONE clique (each clique in turn, several c),
   * the same potentials with a constant added to EVERY clique,
   * potentials containing structural zeros (-inf entries), also shifted.
Exit status 0 and a digest on success, 1 and an explanation on the first violation.
"""
import os
import sys

if os.environ.get('PYTHONHASHSEED') != '0':      # message order depends on set iteration order
    env = dict(os.environ, PYTHONHASHSEED='0')
    os.execve(sys.executable, [sys.executable] + sys.argv, env)

ROOT = os.path.dirname(os.path.dirname(os.path.dirname(os.path.abspath(__file__))))
sys.path.insert(0, os.path.join(ROOT, 'src'))

import hashlib
import warnings
warnings.simplefilter('ignore')
import numpy as np
from mbi import Domain, Factor, CliqueVector, GraphicalModel
import mbi
assert os.path.abspath(mbi.__file__).startswith(ROOT), mbi.__file__

CASES = [
    # name, attrs, shape, cliques, total
    ('pair',         'abc',   (2, 3, 2),       [('a', 'b'), ('b', 'c')],                        1.0),
    ('chain',        'abcd',  (2, 3, 4, 2),    [('a', 'b'), ('b', 'c'), ('c', 'd')],            10.0),
    ('star',         'abcd',  (3, 2, 2, 2),    [('a', 'b'), ('a', 'c'), ('a', 'd')],            250.0),
    ('four-cycle',   'abcd',  (2, 2, 3, 2),    [('a', 'b'), ('b', 'c'), ('c', 'd'), ('d', 'a')], 1.0),
    ('kite',         'abcde', (2, 2, 2, 3, 2), [('a', 'b', 'c'), ('c', 'd'), ('d', 'e'), ('b', 'c')], 40.0),
    ('disconnected', 'abcd',  (2, 3, 2, 2),    [('a', 'b'), ('c', 'd')],                        5.0),
]
SHIFTS = [0.0, 40.0, -40.0, 300.0, -300.0, -650.0]


def brute_force(domain, raw, total):
    """ raw: {clique: ndarray in clique order}.  Returns the full joint scaled to total. """
    attrs = domain.attrs
    logp = np.zeros(domain.shape)
    for cl, vals in raw.items():
        shape = [domain[a] if a in cl else 1 for a in attrs]
        perm = sorted(range(len(cl)), key=lambda k: attrs.index(cl[k]))
        logp = logp + np.transpose(vals, perm).reshape(shape)
    logp = logp - logp.max()
    p = np.exp(logp)
    return p * (total / p.sum())


def marginal(domain, joint, cl):
    drop = tuple(k for k, a in enumerate(domain.attrs) if a not in cl)
    m = joint.sum(axis=drop)
    kept = [a for a in domain.attrs if a in cl]
    return np.transpose(m, [kept.index(a) for a in cl])


def fail(msg):
    print('FAIL: ' + msg)
    sys.exit(1)


def check(name, what, model, raw, shift, joint, total):
    """ run BP on raw + shift (shift: {clique: constant}) and compare with the brute-force joint
        of the UNSHIFTED potentials """
    domain = model.domain
    pots = CliqueVector({cl: Factor(domain.project(cl), raw[cl] + shift.get(cl, 0.0))
                         for cl in model.cliques})
    mu = model.belief_propagation(pots)
    worst = 0.0
    for cl in model.cliques:
        want = marginal(domain, joint, mu[cl].domain.attrs)
        got = mu[cl].values
        if not np.all(np.isfinite(got)):
            fail('%s, %s: marginal of clique %s is not finite' % (name, what, cl))
        err = np.abs(got - want).max()
        worst = max(worst, err / total)
        if not np.allclose(got, want, rtol=1e-7, atol=1e-10 * total):
            fail('%s, %s: marginal of clique %s differs from the brute-force marginal of the '
                 'normalised product (max abs err %.3g at total %.6g).  Adding a constant to a '
                 'log-potential must not change the distribution.' % (name, what, cl, err, total))
    return mu, worst


def main():
    prng = np.random.RandomState(777)
    digest = hashlib.sha256()
    for name, attrs, shape, cliques, total in CASES:
        domain = Domain(list(attrs), shape)
        model = GraphicalModel(domain, cliques, total=total)
        raw = {cl: prng.normal(size=domain.project(cl).shape) * 2.0 for cl in model.cliques}
        joint = brute_force(domain, raw, total)
        runs = 0

        mu, _ = check(name, 'potentials as drawn', model, raw, {}, joint, total)
        runs += 1
        for c in SHIFTS[1:]:
            for cl in model.cliques:
                check(name, 'constant %+g added to the potential of clique %s' % (c, cl),
                      model, raw, {cl: c}, joint, total)
                runs += 1
            check(name, 'constant %+g added to every potential' % c,
                  model, raw, {cl: c for cl in model.cliques}, joint, total)
            runs += 1

        # structural zeros: knock out some cells of the first two cliques, keep the support non-empty
        zraw = {cl: v.copy() for cl, v in raw.items()}
        for cl in model.cliques[:2]:
            flat = zraw[cl].reshape(-1)
            flat[prng.choice(flat.size, size=max(1, flat.size // 3), replace=False)] = -np.inf
        zjoint = brute_force(domain, zraw, total)
        zmu, _ = check(name, 'structural zeros', model, zraw, {}, zjoint, total)
        runs += 1
        for c in (-300.0, 300.0):
            check(name, 'structural zeros, constant %+g added to every potential' % c,
                  model, zraw, {cl: c for cl in model.cliques}, zjoint, total)
            runs += 1

        line = '%-13s cliques=%d runs=%d' % (name, len(model.cliques), runs)
        for tag, res in (('', mu), ('z', zmu)):
            for cl in sorted(model.cliques):
                v = np.round(res[cl].values / total, 7) + 0.0
                digest.update(('%s%s|' % (tag, cl)).encode() + ','.join('%.7f' % x for x in v.flatten()).encode())
                line += '  %s%s:%.5f' % (tag, ''.join(cl), float(v.max()))
        print(line)
    print('PASS  digest=' + digest.hexdigest()[:32])
    sys.exit(0)


if __name__ == '__main__':
    main()

"""C01 / pair 1 -- explicit elimination orders of every iterable type.

Property clause exercised: "the result does not depend on the elimination order
(given / greedy / randomised)".  The same permutation of the attributes is handed to
GraphicalModel(..., elimination_order=...) as a list, a tuple, a numpy array, a dict
key view, a `reversed` iterator, `iter(list)` and a generator expression, on models
that need fill-in edges (chordless cycles of length 4, 5 and 6) and on models that do
not.  For every case the clique marginals of belief_propagation are compared with the
brute-force marginals of the normalised product of the potentials, and the junction
tree is checked for the running-intersection property.

exit 0 + "PASS" + digest : every case agrees with brute force
exit 1 + "FAIL"          : some case disagrees
"""
import os, sys, warnings, hashlib

if os.environ.get('PYTHONHASHSEED') != '0':      # set iteration order must not vary between runs
    os.environ['PYTHONHASHSEED'] = '0'
    os.execv(sys.executable, [sys.executable] + sys.argv)

ROOT = os.path.dirname(os.path.dirname(os.path.dirname(os.path.abspath(__file__))))
sys.path.insert(0, os.path.join(ROOT, 'src'))
warnings.filterwarnings('ignore')

import numpy as np
import networkx as nx
import mbi
from mbi import Domain, Factor, GraphicalModel, CliqueVector

assert os.path.abspath(mbi.__file__).startswith(ROOT + os.sep), 'wrong mbi: %s' % mbi.__file__


def brute_force(domain, potentials, total):
    """ marginals of total * exp(sum potentials) / Z, computed on the full joint table """
    logp = np.zeros(domain.shape)
    for f in potentials.values():
        logp = logp + f.expand(domain).values
    m = logp.max()
    p = np.exp(logp - m)
    p *= total / p.sum()
    joint = Factor(domain, p)
    return {cl: joint.project(cl) for cl in potentials}


def running_intersection(model):
    """ every attribute must induce a connected subtree of the junction tree """
    tree = model.junction_tree.tree
    bad = []
    for a in model.domain.attrs:
        nodes = [cl for cl in tree.nodes() if a in cl]
        if len(nodes) > 1 and not nx.is_connected(tree.subgraph(nodes)):
            bad.append(a)
    return bad


def run_case(name, domain, cliques, order, total, seed):
    np.random.seed(seed)                      # the randomised (int) order draws from np.random
    model = GraphicalModel(domain, cliques, total=total, elimination_order=order)
    rng = np.random.RandomState(seed)
    pots = {}
    for cl in model.cliques:
        dom = domain.project(cl)
        pots[cl] = Factor(dom, 2.0 * rng.randn(*dom.shape))
    mu = model.belief_propagation(CliqueVector(pots))
    ref = brute_force(domain, pots, total)
    err = max(float(np.abs(mu[cl].values - ref[cl].values).max()) for cl in model.cliques)
    tot = max(abs(float(mu[cl].values.sum()) - total) for cl in model.cliques)
    rip = running_intersection(model)
    ok = err <= 1e-9 * total and tot <= 1e-9 * total and not rip
    h = hashlib.sha256()
    for cl in sorted(model.cliques):
        h.update(repr(cl).encode())
        h.update(np.round(mu[cl].values, 6).tobytes())
    line = '%-34s cliques=%-2d maxwidth=%d %s' % (name, len(model.cliques),
                                                  max(len(cl) for cl in model.cliques), h.hexdigest()[:16])
    why = ''
    if not ok:
        why = ('max |BP - brute force| = %.3e, |sum - total| = %.3e (total %g); '
               'attributes violating running intersection: %s; maximal cliques used: %s'
               % (err, tot, total, rip, model.cliques))
    return ok, line, why


def order_variants(perm):
    """ the same permutation, as the iterable types a caller may hand in """
    perm = list(perm)
    return [
        ('list',       lambda: list(perm)),
        ('tuple',      lambda: tuple(perm)),
        ('ndarray',    lambda: np.array(perm)),
        ('dict keys',  lambda: dict.fromkeys(perm).keys()),
        ('reversed()', lambda: reversed(perm[::-1])),
        ('iter()',     lambda: iter(perm)),
        ('generator',  lambda: (a for a in perm)),
    ]


def main():
    attrs = list('abcdefg')
    domain = Domain(attrs, [2, 3, 2, 3, 2, 2, 3])
    models = {
        # no fill-in needed
        'chain':   [('a', 'b'), ('b', 'c'), ('c', 'd'), ('d', 'e'), ('e', 'f'), ('f', 'g')],
        'star':    [('d', 'a'), ('d', 'b'), ('d', 'c'), ('e', 'd'), ('f', 'g')],
        # fill-in needed: chordless cycles
        'square':  [('a', 'b'), ('b', 'c'), ('c', 'd'), ('d', 'a'), ('d', 'e'), ('f', 'g')],
        'cycle5':  [('a', 'b'), ('b', 'c'), ('c', 'd'), ('d', 'e'), ('e', 'a'), ('e', 'f'), ('f', 'g')],
        'cycle6+': [('a', 'b'), ('b', 'c'), ('c', 'd'), ('d', 'e'), ('e', 'f'), ('f', 'a'), ('g', 'a'), ('c', 'g')],
    }
    perms = [
        ('canonical', attrs),
        ('backwards', attrs[::-1]),
        ('shuffled',  list(np.random.RandomState(5).permutation(attrs))),
    ]
    failures, lines = [], []
    seed = 100
    for mname, cliques in models.items():
        for order_name, order in [('greedy (None)', None), ('randomised (int 3)', 3), ('randomised (int 0)', 0)]:
            seed += 1
            ok, line, why = run_case('%s / %s' % (mname, order_name), domain, cliques, order, 25.0, seed)
            lines.append(line)
            if not ok:
                failures.append((line, why))
        for pname, perm in perms:
            for vname, make in order_variants(perm):
                seed += 1
                ok, line, why = run_case('%s / %s %s' % (mname, pname, vname), domain, cliques, make(), 25.0, seed)
                lines.append(line)
                if not ok:
                    failures.append((line, why))

    if failures:
        print('FAIL: %d of %d cases: exact inference does not reproduce the brute-force marginals' % (len(failures), len(lines)))
        for line, why in failures:
            print('  ' + line.split('  ')[0].strip())
            print('      ' + why)
        print('explanation: the marginals depend on HOW the elimination order is handed in; an order given as a '
              'one-shot iterator is not applied to the triangulation, so models with chordless cycles get a '
              'clique tree without the running-intersection property.')
        return 1
    for line in lines:
        print(line)
    print('digest', hashlib.sha256('\n'.join(lines).encode()).hexdigest())
    print('PASS: %d cases agree with brute force' % len(lines))
    return 0


if __name__ == '__main__':
    sys.exit(main())

"""C01 / pair 2 -- the default message schedule on branching junction trees.

Property clause exercised: "for any collection of cliques (cyclic, disconnected, nested,
duplicated ...) the clique marginals produced by exact inference equal the marginals of
the normalised product of the potentials".  JunctionTree.mp_order() has to return a
schedule in which every message i->j comes after ALL messages k->i (k != j).  The demo
builds chains (every clique has at most two neighbours in the junction tree) and models
whose junction tree has a clique with three or more neighbours (stars, caterpillars,
several disconnected components, a cyclic model with pendant edges), checks the default
schedule against the dependency relation, and compares belief_propagation with the
brute-force marginals.

exit 0 + "PASS" + digest : every case agrees with brute force
exit 1 + "FAIL"          : some case disagrees
"""
import os, sys, warnings, hashlib

if os.environ.get('PYTHONHASHSEED') != '0':      # set iteration order must not vary between runs
    os.environ['PYTHONHASHSEED'] = '0'
    os.execv(sys.executable, [sys.executable] + sys.argv)

ROOT = os.path.dirname(os.path.dirname(os.path.dirname(os.path.abspath(__file__))))
sys.path.insert(0, os.path.join(ROOT, 'src'))
warnings.filterwarnings('ignore')

import numpy as np
import mbi
from mbi import Domain, Factor, GraphicalModel, CliqueVector

assert os.path.abspath(mbi.__file__).startswith(ROOT + os.sep), 'wrong mbi: %s' % mbi.__file__


def brute_force(domain, potentials, total):
    """ marginals of total * exp(sum potentials) / Z, computed on the full joint table """
    logp = np.zeros(domain.shape)
    for f in potentials.values():
        logp = logp + f.expand(domain).values
    p = np.exp(logp - logp.max())
    p *= total / p.sum()
    joint = Factor(domain, p)
    return {cl: joint.project(cl) for cl in potentials}


def premature_messages(model):
    """ messages i->j that are scheduled before some k->i with k != j """
    pos = {m: n for n, m in enumerate(model.message_order)}
    bad = []
    for (i, j) in model.message_order:
        for k in model.neighbors[i]:
            if k != j and pos[(k, i)] > pos[(i, j)]:
                bad.append(((i, j), (k, i)))
    return bad


def run_case(name, domain, cliques, total, seed):
    model = GraphicalModel(domain, cliques, total=total)
    rng = np.random.RandomState(seed)
    pots = {}
    for cl in model.cliques:
        dom = domain.project(cl)
        pots[cl] = Factor(dom, 2.0 * rng.randn(*dom.shape))
    mu = model.belief_propagation(CliqueVector(pots))
    ref = brute_force(domain, pots, total)
    err = max(float(np.abs(mu[cl].values - ref[cl].values).max()) for cl in model.cliques)
    tot = max(abs(float(mu[cl].values.sum()) - total) for cl in model.cliques)
    bad = premature_messages(model)
    n_msgs = len(model.message_order)
    complete = sorted(model.message_order) == sorted(
        [(a, b) for a in model.neighbors for b in model.neighbors[a]])
    ok = err <= 1e-9 * total and tot <= 1e-9 * total and not bad and complete
    degree = max([len(model.neighbors[c]) for c in model.cliques])
    h = hashlib.sha256()
    for cl in sorted(model.cliques):
        h.update(repr(cl).encode())
        h.update(np.round(mu[cl].values, 6).tobytes())
    line = '%-22s cliques=%-2d messages=%-2d max-tree-degree=%d %s' % (name, len(model.cliques), n_msgs, degree,
                                                                      h.hexdigest()[:16])
    why = ''
    if not ok:
        why = ('max |BP - brute force| = %.3e, max |sum - total| = %.3e (total %g); %d message(s) scheduled before '
               'a message they depend on' % (err, tot, total, len(bad)))
        if bad:
            (i, j), (k, _) = bad[0]
            why += ', e.g. %s->%s is sent before %s->%s' % (i, j, k, i)
    return ok, line, why


def main():
    attrs = list('abcdefgh')
    domain = Domain(attrs, [2, 3, 2, 3, 2, 2, 3, 2])
    small = Domain(list('abcde'), [2, 3, 4, 5, 6])
    cases = [
        # junction tree is a path: every clique has <= 2 neighbours
        ('chain-3',       Domain(list('abcd'), [2, 3, 4, 5]), [('a', 'b'), ('b', 'c'), ('c', 'd')]),
        ('chain-7',       domain, [('a', 'b'), ('b', 'c'), ('c', 'd'), ('d', 'e'), ('e', 'f'), ('f', 'g'), ('g', 'h')]),
        ('chain-wide',    domain, [('a', 'b', 'c'), ('b', 'c', 'd'), ('c', 'd', 'e'), ('d', 'e', 'f'), ('e', 'f', 'g', 'h')]),
        ('two-components', Domain(list('abcd'), [3, 2, 4, 2]), [('a', 'b'), ('c', 'd')]),
        # some clique of the junction tree has >= 3 neighbours
        ('independent-5', small,  [('a',), ('b',), ('c',), ('d',), ('e',)]),
        ('star',          domain, [('a', 'd'), ('b', 'd'), ('c', 'd'), ('d', 'e'), ('d', 'f'), ('d', 'g'), ('d', 'h')]),
        ('caterpillar',   domain, [('a', 'b'), ('b', 'c'), ('b', 'd'), ('d', 'e'), ('d', 'f'), ('f', 'g'), ('f', 'h')]),
        ('components-4',  domain, [('a', 'b'), ('c', 'd'), ('e', 'f'), ('g', 'h')]),
        ('cycle+pendants', domain, [('a', 'b'), ('b', 'c'), ('c', 'd'), ('d', 'a'), ('a', 'e'), ('c', 'f'), ('c', 'g'), ('g', 'h')]),
        ('nested+duplicated', domain, [('a', 'b', 'c'), ('b', 'a'), ('c',), ('c', 'd'), ('c', 'e'), ('e', 'c'), ('c', 'f', 'g'), ('g', 'h')]),
    ]
    failures, lines = [], []
    for n, (name, dom, cliques) in enumerate(cases):
        for total in (1.0, 1000):
            ok, line, why = run_case('%s' % name, dom, cliques, total, 7 * n + int(total))
            lines.append(line)
            if not ok:
                failures.append((line, why))

    if failures:
        print('FAIL: %d of %d cases: exact inference does not reproduce the brute-force marginals' % (len(failures), len(lines)))
        for line, why in failures:
            print('  ' + ' '.join(line.split()[:4]))
            print('      ' + why)
        print('explanation: the default message_order is not a linear extension of the message-dependency order when a '
              'clique of the junction tree has three or more neighbours: a message leaves a clique before that clique '
              'has heard from all of its other neighbours, so the receiving side is missing a factor.')
        return 1
    for line in lines:
        print(line)
    print('digest', hashlib.sha256('\n'.join(lines).encode()).hexdigest())
    print('PASS: %d cases agree with brute force' % len(lines))
    return 0


if __name__ == '__main__':
    sys.exit(main())

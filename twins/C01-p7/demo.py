"""C01 / pair 1 -- junction tree = maximum-weight spanning tree of the clique graph.

Checks, on a handful of models, that
  (1) the tree chosen by JunctionTree._make_tree has the running-intersection
      property (for every attribute the cliques containing it are connected), and
  (2) belief propagation returns the brute-force marginals of the normalised
      product of the potentials scaled to `total`.
Exit 0 + "PASS <digest>" when everything holds, exit 1 + "FAIL ..." otherwise.
"""
import os, sys, hashlib, itertools, warnings
warnings.filterwarnings('ignore')
ROOT = os.path.dirname(os.path.dirname(os.path.dirname(os.path.abspath(__file__))))
sys.path.insert(0, os.path.join(ROOT, 'src'))

import numpy as np
import networkx as nx
from mbi import Domain, Factor, CliqueVector, GraphicalModel

assert os.path.abspath(sys.modules['mbi'].__file__).startswith(ROOT), sys.modules['mbi'].__file__


def brute_force(domain, potentials, total):
    joint = np.zeros(domain.shape)
    for f in potentials.values():
        joint = joint + f.expand(domain).values
    joint = joint - joint.max()
    p = np.exp(joint)
    p *= total / p.sum()
    return Factor(domain, p)


def running_intersection(model):
    tree = model.junction_tree.tree
    bad = []
    for a in model.domain.attrs:
        nodes = [cl for cl in tree.nodes() if a in cl]
        if len(nodes) > 1 and not nx.is_connected(tree.subgraph(nodes)):
            bad.append(a)
    return bad


CASES = [
    # name, attrs, shape, cliques, elimination order
    ('chain',        'abcd',   [2, 3, 4, 5],       [('a','b'), ('b','c'), ('c','d')], None),
    ('star',         'abcd',   [3, 2, 2, 3],       [('a','b'), ('a','c'), ('a','d')], None),
    ('triangle+',    'abcde',  [2, 3, 2, 3, 2],    [('a','b'), ('b','c'), ('c','a'), ('c','d'), ('e',)], None),
    ('4-cycle',      'abcd',   [2, 3, 2, 3],       [('a','b'), ('b','c'), ('c','d'), ('d','a')], ['a','b','c','d']),
    # separators of different sizes: {a} twice and {a,c} once
    ('fan',          'abcde',  [2, 3, 3, 2, 4],    [('a','b'), ('a','c','d'), ('a','c','e')], None),
    ('fan-permuted', 'abcde',  [2, 3, 3, 2, 4],    [('e','c','a'), ('b','a'), ('d','a','c'), ('a','b')], ['b','d','e','c','a']),
    # two thick cliques sharing three attributes plus thin satellites
    ('thick',        'abcdefg',[2, 2, 2, 2, 2, 3, 2], [('a','b'), ('a','c','d','e'), ('a','c','d','f'), ('a','g')], None),
    ('ladder',       'abcdef', [2, 2, 3, 2, 2, 2], [('a','b'), ('b','c'), ('c','d'), ('d','e'), ('e','f'), ('a','f'), ('b','e')], None),
]


def main():
    prng = np.random.RandomState(20240601)
    lines = []
    failures = []
    for name, attrs, shape, cliques, order in CASES:
        domain = Domain(list(attrs), shape)
        model = GraphicalModel(domain, cliques, total=1.0, elimination_order=order)
        bad = running_intersection(model)
        if bad:
            failures.append('%s: junction tree violates running intersection for attribute(s) %s; tree edges %s'
                            % (name, bad, sorted(tuple(sorted(e)) for e in model.junction_tree.tree.edges())))
        for trial, total in enumerate([1.0, 7, 250.5]):
            model.total = total
            pot = {}
            for cl in model.cliques:
                vals = prng.normal(size=domain.project(cl).shape) * (1.0 if trial < 2 else 40.0)
                if trial == 1:
                    vals[prng.rand(*vals.shape) < 0.15] = -np.inf
                    vals.flat[0] = 0.0          # keep the distribution normalisable
                pot[cl] = Factor(domain.project(cl), vals)
            pot = CliqueVector(pot)
            mu = model.belief_propagation(pot)
            truth = brute_force(domain, pot, total)
            worst = 0.0
            for cl in model.cliques:
                got = mu[cl].project(cl).values
                want = truth.project(cl).values
                if not np.all(np.isfinite(got)):
                    worst = np.inf
                else:
                    worst = max(worst, np.abs(got - want).max() / total)
            if worst > 1e-9:
                failures.append('%s (total=%s, trial %d): marginals differ from brute force, max relative error %.3g'
                                % (name, total, trial, worst))
            lines.append('%s|%d|%s|%s' % (name, trial, sorted(tuple(sorted(e)) for e in model.junction_tree.tree.edges()),
                         ' '.join('%.9e' % v for cl in sorted(model.cliques)
                                  for v in mu[cl].project(cl).values.flatten())))
    if failures:
        print('FAIL')
        for f in failures:
            print('  ' + f)
        return 1
    digest = hashlib.sha256('\n'.join(lines).encode()).hexdigest()
    print('PASS %d checks, digest %s' % (len(lines), digest))
    return 0


if __name__ == '__main__':
    sys.exit(main())

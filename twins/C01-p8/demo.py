"""C01 / pair 2 -- "... and any positive total": scaling of the exact marginals.

For several models and a sweep of totals (integers, non-integers, numpy scalars,
totals below one -- e.g. a model of a probability sub-mass or of a weighted
sample) checks that belief propagation returns brute-force marginals scaled to
`total`, that every clique marginal sums to `total`, and that changing
`model.total` on a re-used model rescales the answer linearly.
Exit 0 + "PASS <digest>" when everything holds, exit 1 + "FAIL ..." otherwise.
"""
import os, sys, hashlib, warnings
warnings.filterwarnings('ignore')
ROOT = os.path.dirname(os.path.dirname(os.path.dirname(os.path.abspath(__file__))))
sys.path.insert(0, os.path.join(ROOT, 'src'))

import numpy as np
from mbi import Domain, Factor, CliqueVector, GraphicalModel

assert os.path.abspath(sys.modules['mbi'].__file__).startswith(ROOT), sys.modules['mbi'].__file__


def brute_force(domain, potentials, total):
    joint = np.zeros(domain.shape)
    for f in potentials.values():
        joint = joint + f.expand(domain).values
    joint = joint - joint.max()
    p = np.exp(joint)
    p *= float(total) / p.sum()
    return Factor(domain, p)


CASES = [
    ('single',   'ab',    [3, 4],          [('a','b')]),
    ('chain',    'abcd',  [2, 3, 4, 5],    [('a','b'), ('b','c'), ('c','d')]),
    ('cycle',    'abcd',  [2, 3, 2, 3],    [('a','b'), ('b','c'), ('c','d'), ('d','a')]),
    ('forest',   'abcde', [2, 3, 2, 3, 2], [('a','b'), ('c','d'), ('e',)]),
]

TOTALS = [1.0, 1, 10, 1000.0, 37.25, np.float64(5.5), np.int64(12), 0.25, 1e-3, 1.0 - 1e-9, 1.0 + 1e-9]


def main():
    prng = np.random.RandomState(77)
    lines, failures = [], []
    for name, attrs, shape, cliques in CASES:
        domain = Domain(list(attrs), shape)
        model = GraphicalModel(domain, cliques)
        pot = {}
        for k, cl in enumerate(model.cliques):
            vals = prng.normal(size=domain.project(cl).shape) * 3.0
            if k == 0:
                vals.flat[1] = -np.inf
            pot[cl] = Factor(domain.project(cl), vals)
        pot = CliqueVector(pot)
        reference = None
        for total in TOTALS:                      # the same model object is re-used
            model.total = total
            mu = model.belief_propagation(pot)
            truth = brute_force(domain, pot, total)
            worst, mass = 0.0, 0.0
            for cl in model.cliques:
                got = mu[cl].project(cl).values
                want = truth.project(cl).values
                worst = max(worst, np.abs(got - want).max() / float(total))
                mass = max(mass, abs(got.sum() - float(total)) / float(total))
            if not (worst <= 1e-9 and mass <= 1e-9):
                failures.append('%s, total=%r: marginals are not the brute-force marginals scaled to total '
                                '(max relative error %.3g, clique mass off by %.3g of total)'
                                % (name, total, worst, mass))
            unit = np.concatenate([mu[cl].project(cl).values.flatten() / float(total) for cl in sorted(model.cliques)])
            if reference is None:
                reference = unit
            elif np.abs(unit - reference).max() > 1e-9:
                failures.append('%s, total=%r: marginals/total differ from those obtained with total=%r '
                                'on the same model (max difference %.3g)' % (name, total, TOTALS[0], np.abs(unit - reference).max()))
            lines.append('%s|%r|%s' % (name, float(total), ' '.join('%.9e' % v for cl in sorted(model.cliques)
                                                                     for v in mu[cl].project(cl).values.flatten())))
        # the constructor argument takes the same route
        m2 = GraphicalModel(domain, cliques, total=0.5)
        mu = m2.belief_propagation(pot)
        got = sum(mu[m2.cliques[0]].values.flatten())
        if abs(got - 0.5) > 1e-9:
            failures.append('%s, GraphicalModel(..., total=0.5): clique marginal sums to %.6g instead of 0.5' % (name, got))
        lines.append('%s|ctor|%.9e' % (name, got))
    if failures:
        print('FAIL')
        for f in failures:
            print('  ' + f)
        return 1
    digest = hashlib.sha256('\n'.join(lines).encode()).hexdigest()
    print('PASS %d checks, digest %s' % (len(lines), digest))
    return 0


if __name__ == '__main__':
    sys.exit(main())

#!/usr/bin/env python
"""C01 / pair 1 -- elimination-order clause (greedy / randomised orders).

Builds GraphicalModels for several clique structures (chain, chordless cycles,
grid, disconnected, nested / duplicated / permuted cliques) with every way the
library lets the caller choose the elimination order

    elimination_order = None          deterministic greedy
    elimination_order = [..]          given permutation
    elimination_order = N (int)       best of greedy + N randomised greedy runs

runs belief_propagation on random log-potentials and compares every clique
marginal with the brute-force marginal of the normalised product.

exit 0 + PASS + digest   : all marginals agree
exit 1 + FAIL + reasons  : some marginal disagrees (or inference raised)
"""
import os, sys, hashlib, itertools, warnings

ROOT = os.path.dirname(os.path.dirname(os.path.dirname(os.path.abspath(__file__))))
sys.path.insert(0, os.path.join(ROOT, 'src'))
warnings.simplefilter('ignore')

import numpy as np
from mbi import Domain, Factor, GraphicalModel, CliqueVector

TOL = 1e-8


def brute_force(domain, potentials, total):
    """ marginals of total * normalised exp(sum of potentials), computed on the full table """
    attrs = list(domain.attrs)
    logp = np.zeros(domain.shape)
    for cl, f in potentials.items():
        fa = list(f.domain.attrs)
        perm = sorted(range(len(fa)), key=lambda k: attrs.index(fa[k]))
        vals = np.transpose(f.values, perm)
        shape = [domain[a] if a in fa else 1 for a in attrs]
        logp = logp + vals.reshape(shape)
    m = logp.max()
    p = np.exp(logp - m)
    p *= total / p.sum()
    out = {}
    for cl in potentials:
        axes = tuple(k for k, a in enumerate(attrs) if a not in cl)
        out[cl] = p.sum(axis=axes)          # axes left in domain order
    return out


def in_domain_order(domain, factor):
    fa = list(factor.domain.attrs)
    perm = sorted(range(len(fa)), key=lambda k: domain.attrs.index(fa[k]))
    return np.transpose(factor.values, perm)


def running_intersection(model):
    """ every attribute must live on a connected part of the junction tree """
    import networkx as nx
    T = model.junction_tree.tree
    bad = []
    for a in model.domain.attrs:
        nodes = [cl for cl in T.nodes() if a in cl]
        if len(nodes) > 1 and not nx.is_connected(T.subgraph(nodes)):
            bad.append(a)
    return bad


MODELS = [
    ('chain4', ['a', 'b', 'c', 'd'], [2, 3, 4, 2],
        [('a', 'b'), ('b', 'c'), ('c', 'd')]),
    ('cycle4', ['a', 'b', 'c', 'd'], [2, 3, 2, 3],
        [('a', 'b'), ('b', 'c'), ('c', 'd'), ('d', 'a')]),
    ('cycle5', ['a', 'b', 'c', 'd', 'e'], [2, 3, 2, 3, 2],
        [('a', 'b'), ('b', 'c'), ('c', 'd'), ('d', 'e'), ('e', 'a')]),
    ('grid2x3', ['p', 'q', 'r', 's', 't', 'u'], [2, 2, 3, 2, 3, 2],
        [('p', 'q'), ('q', 'r'), ('s', 't'), ('t', 'u'), ('p', 's'), ('q', 't'), ('r', 'u')]),
    ('cycle+island', ['a', 'b', 'c', 'd', 'x', 'y', 'z'], [2, 2, 3, 2, 2, 3, 2],
        [('a', 'b'), ('b', 'c'), ('c', 'd'), ('d', 'a'), ('x', 'y')]),
    ('nested-dup-perm', ['a', 'b', 'c', 'd', 'e'], [2, 3, 2, 2, 3],
        [('b', 'a'), ('a', 'b'), ['c', 'b', 'a'], ('c', 'd'), ('e', 'd'), ('a', 'e'), ('e',)]),
]


def orders_for(attrs, rng):
    yield 'default', None
    yield 'given-canonical', list(attrs)
    yield 'given-reversed', list(attrs)[::-1]
    perm = list(attrs)
    rng.shuffle(perm)
    yield 'given-shuffled', perm
    yield 'int-0', 0
    yield 'int-1', 1
    yield 'int-4', 4
    yield 'int-25', 25


def main():
    rng = np.random.RandomState(20240701)
    digest = hashlib.sha256()
    failures = []
    ncases = 0
    for mi, (name, attrs, shape, cliques) in enumerate(MODELS):
        domain = Domain(attrs, shape)
        for oi, (oname, order) in enumerate(orders_for(attrs, rng)):
            for total in (1.0, 37, 1234.5):
                ncases += 1
                tag = '%s / %s / total=%s' % (name, oname, total)
                np.random.seed(1000 * mi + oi)      # the randomised greedy search draws from np.random
                try:
                    model = GraphicalModel(domain, cliques, total, elimination_order=order)
                    pots = {}
                    for cl in model.cliques:
                        dom = domain.project(cl)
                        pots[cl] = Factor(dom, 3.0 * rng.randn(*dom.shape))
                    mu = model.belief_propagation(CliqueVector(pots))
                    want = brute_force(domain, pots, total)
                    worst = 0.0
                    for cl in model.cliques:
                        got = in_domain_order(domain, mu[cl])
                        if not np.all(np.isfinite(got)):
                            worst = np.inf
                            break
                        worst = max(worst, np.max(np.abs(got - want[cl])) / total)
                    covered = all(any(set(c) <= set(m) for m in model.cliques) for c in cliques)
                except Exception as e:       # inference must not raise either
                    failures.append('%s: raised %s: %s' % (tag, type(e).__name__, e))
                    continue
                if worst > TOL or not covered:
                    eo = list(model.elimination_order)
                    why = []
                    if sorted(eo) != sorted(attrs):
                        why.append('elimination order %r is not a permutation of the attributes' % (eo,))
                    bad = running_intersection(model)
                    if bad:
                        why.append('junction tree violates running intersection for %s' % bad)
                    failures.append('%s: max relative error %.3g (cliques %s) %s'
                                    % (tag, worst, model.cliques, '; '.join(why)))
                for cl in sorted(model.cliques):
                    digest.update(repr((tag, cl)).encode())
                    digest.update(np.ascontiguousarray(np.round(in_domain_order(domain, mu[cl]), 6) + 0.0).tobytes())
    if failures:
        print('FAIL: %d of %d cases: exact inference does not return the marginals of the product distribution' % (len(failures), ncases))
        for f in failures:
            print('  - ' + f)
        return 1
    print('PASS: %d cases, all clique marginals equal brute force (tol %g)' % (ncases, TOL))
    print('digest ' + digest.hexdigest())
    return 0


if __name__ == '__main__':
    sys.exit(main())

"""Equivalence demo for property C01 (exact inference == brute-force marginals).

Prints a deterministic digest of everything exact inference produces on a batch
of fixed inputs.  The same script must print byte-identical text on the
unmodified sources and on the refactored sources.

Run as:
    PYTHONPATH=<root>/src /venv/bin/python <root>/out/refactorN/demo.py
"""
import os
import sys

# str hashes drive set/dict iteration order inside junction_tree.py (separator
# tuples, message schedule).  Pin them so two runs are comparable at all.
if os.environ.get('PYTHONHASHSEED') != '0':
    os.environ['PYTHONHASHSEED'] = '0'
    os.execv(sys.executable, [sys.executable] + sys.argv)

ROOT = os.path.abspath(os.path.join(os.path.dirname(os.path.abspath(__file__)), '..', '..'))
sys.path.insert(0, os.path.join(ROOT, 'src'))

import itertools
import warnings

import numpy as np
import networkx as nx

import mbi
from mbi import Domain, Factor, CliqueVector, GraphicalModel
from mbi.junction_tree import JunctionTree
from mbi.graphical_model import variable_elimination_logspace, greedy_order

assert os.path.abspath(mbi.__file__).startswith(ROOT), mbi.__file__
warnings.simplefilter('ignore')
np.seterr(all='ignore')


# ---------------------------------------------------------------- formatting
def fmt(x):
    a = np.asarray(x, dtype=float).ravel()
    return '[' + ' '.join('%.12e' % v for v in a) + ']'


def show(label, value):
    print('%s: %s' % (label, value))


# ------------------------------------------------------------- brute force
def full_table(domain, fac):
    attrs = fac.domain.attrs
    perm = sorted(range(len(attrs)), key=lambda k: domain.attrs.index(attrs[k]))
    vals = np.transpose(fac.values, perm)
    shape = [domain.config[a] if a in attrs else 1 for a in domain.attrs]
    return vals.reshape(shape)


def brute_force(domain, factors, total):
    logp = np.zeros(domain.shape)
    for f in factors:
        logp = logp + full_table(domain, f)
    m = logp.max()
    p = np.exp(logp - m)
    return p * (total / p.sum())


def brute_marginal(domain, table, clique):
    drop = tuple(i for i, a in enumerate(domain.attrs) if a not in clique)
    marg = table.sum(axis=drop)
    kept = [a for a in domain.attrs if a in clique]
    return np.transpose(marg, [kept.index(a) for a in clique])


# ----------------------------------------------------------------- helpers
def load_potentials(model, factors):
    pots = CliqueVector.zeros(model.domain, model.cliques)
    for f in factors:
        for cl in model.cliques:
            if set(f.domain.attrs) <= set(cl):
                pots[cl] += f
                break
        else:
            raise AssertionError('no home for %r' % (f.domain.attrs,))
    return pots


def random_linear_extension(model, prng):
    """another dependency-respecting order of the tree messages"""
    msgs = list(model.message_order)
    deps = {m: set() for m in msgs}
    for m1 in msgs:
        for m2 in msgs:
            if m1[1] == m2[0] and m1[0] != m2[1]:
                deps[m2].add(m1)
    done, out = set(), []
    while len(out) < len(msgs):
        ready = [m for m in msgs if m not in done and deps[m] <= done]
        pick = ready[prng.randint(len(ready))]
        out.append(pick)
        done.add(pick)
    return out


def make_factors(domain, cliques, prng, scale=1.0, neg_inf=0.0, shift=0.0):
    out = []
    for cl in cliques:
        dom = domain.project(cl)
        vals = prng.normal(size=dom.shape) * scale + shift
        if neg_inf > 0:
            mask = prng.rand(*dom.shape) < neg_inf
            flat = mask.reshape(-1)
            flat[0] = False  # keep at least one finite entry per factor
            vals = np.where(flat.reshape(dom.shape), -np.inf, vals)
        out.append(Factor(dom, vals))
    return out


def digest_model(model):
    show('  cliques', model.cliques)
    show('  elimination_order', model.elimination_order)
    show('  message_order', model.message_order)
    show('  sep_axes', sorted(model.sep_axes.items()))
    show('  neighbors', sorted((k, sorted(v)) for k, v in model.neighbors.items()))
    show('  size', model.size)


def run_case(name, domain, cliques, total=1.0, elim=None, seed=0, **kw):
    print('=' * 72)
    print('CASE %s  total=%r elim=%r kw=%r' % (name, total, elim, sorted(kw.items())))
    prng = np.random.RandomState(seed)
    np.random.seed(seed + 1000)  # randomised elimination orders use the global RNG
    model = GraphicalModel(domain, cliques, total=total, elimination_order=elim)
    digest_model(model)
    factors = make_factors(domain, cliques, prng, **kw)
    pots = load_potentials(model, factors)
    before = {cl: pots[cl].values.copy() for cl in pots}

    marg = model.belief_propagation(pots)
    logz = model.belief_propagation(pots, logZ=True)
    show('  type', type(marg).__name__)
    show('  keys', list(marg.keys()))
    show('  logZ', '%.12e' % logz)
    truth = brute_force(domain, factors, total)
    worst = 0.0
    for cl in model.cliques:
        show('  marginal %r %r' % (cl, marg[cl].domain.attrs), fmt(marg[cl].values))
        ref = brute_marginal(domain, truth, cl)
        worst = max(worst, float(np.max(np.abs(marg[cl].values - ref))))
    show('  finite', all(np.isfinite(marg[cl].values).all() for cl in model.cliques))
    show('  matches brute force', worst <= 1e-9 * total)
    show('  potentials untouched', all(
        np.array_equal(before[cl], pots[cl].values) for cl in pots))

    # alternative schedules (public attribute message_order, permuted)
    saved = list(model.message_order)
    for k in range(3):
        model.message_order = random_linear_extension(model, prng)
        alt = model.belief_propagation(pots)
        show('  schedule %d' % k, model.message_order)
        for cl in model.cliques:
            show('    marginal %r' % (cl,), fmt(alt[cl].values))
        show('    logZ', '%.12e' % model.belief_propagation(pots, logZ=True))
    model.message_order = saved

    # adding a constant to one potential must not matter
    shifted = CliqueVector({cl: pots[cl].copy() for cl in pots})
    shifted[model.cliques[-1]] += 37.5
    alt = model.belief_propagation(shifted)
    for cl in model.cliques:
        show('  shifted marginal %r' % (cl,), fmt(alt[cl].values))
    show('  shifted logZ', '%.12e' % model.belief_propagation(shifted, logZ=True))

    # out-of-clique projections / variable elimination on the same potentials
    model.potentials = pots
    for attrs in [domain.attrs[:1], domain.attrs[::-1][:2], (domain.attrs[0], domain.attrs[-1])]:
        show('  project %r' % (attrs,), fmt(model.project(attrs).values))
    model.marginals = marg
    show('  project(list) cached', fmt(model.project(list(model.cliques[0][::-1])).values))
    return model, pots, factors


# ------------------------------------------------------------------- cases
abcd = Domain(['a', 'b', 'c', 'd'], [2, 3, 4, 2])
abcde = Domain(['a', 'b', 'c', 'd', 'e'], [2, 3, 2, 3, 2])
six = Domain(['u', 'v', 'w', 'x', 'y', 'z'], [2, 2, 3, 2, 2, 3])
odd = Domain(['z9', 'k', 'Alpha', 'm_1'], [3, 1, 2, 4])  # includes a size-1 attribute

run_case('chain', abcd, [('a', 'b'), ('b', 'c'), ('c', 'd')], total=1.0, seed=1)
run_case('chain-permuted-attrs', abcd, [('b', 'a'), ('c', 'b'), ('d', 'c')], total=10.0, seed=2)
run_case('cycle-needs-fill-in', abcd, [('a', 'b'), ('b', 'c'), ('c', 'd'), ('d', 'a')],
         total=123.0, seed=3)
run_case('cycle-given-order', abcd, [('a', 'b'), ('b', 'c'), ('c', 'd'), ('d', 'a')],
         total=123.0, elim=['c', 'a', 'd', 'b'], seed=3)
run_case('cycle-randomised-order', abcd, [('a', 'b'), ('b', 'c'), ('c', 'd'), ('d', 'a')],
         total=123.0, elim=5, seed=3)
run_case('disconnected', abcde, [('a', 'b'), ('d', 'c')], total=1000.0, seed=4)
run_case('singletons-only', abcd, [('a',), ('c',)], total=7.0, seed=5)
run_case('nested-and-duplicated', abcde,
         [('a', 'b', 'c'), ('b', 'a'), ('c',), ('a', 'b', 'c'), ('c', 'd'), ('d', 'c'), ('e', 'd')],
         total=50.0, seed=6)
run_case('star-branching', six,
         [('u', 'v'), ('u', 'w'), ('x', 'u'), ('u', 'y'), ('z', 'u')], total=1e6, seed=7)
run_case('grid-ish-loops', six,
         [('u', 'v'), ('v', 'w'), ('x', 'y'), ('y', 'z'), ('u', 'x'), ('v', 'y'), ('w', 'z')],
         total=3.0, elim=3, seed=8)
run_case('neg-inf-structural-zeros', abcde,
         [('a', 'b'), ('c', 'b'), ('c', 'd'), ('e', 'd'), ('a', 'e')],
         total=100.0, seed=9, neg_inf=0.3)
run_case('neg-inf-tree', six,
         [('u', 'v'), ('w', 'v'), ('w', 'x'), ('y', 'w'), ('z', 'y')],
         total=42.0, seed=10, neg_inf=0.35)
run_case('huge-magnitudes', abcd, [('a', 'b'), ('b', 'c'), ('d', 'c'), ('a', 'd')],
         total=1.0, seed=11, scale=4000.0)
run_case('huge-negative-offset', abcd, [('b', 'a'), ('b', 'c', 'd')],
         total=2.5, seed=12, scale=50.0, shift=-1e5)
run_case('huge-positive-offset-with-zeros', abcde,
         [('a', 'b', 'c'), ('c', 'd'), ('d', 'e')],
         total=9.0, seed=13, scale=300.0, shift=2e4, neg_inf=0.2)
run_case('tiny-total', abcd, [('a', 'b'), ('b', 'c')], total=1e-12, seed=14)
run_case('integer-total', abcd, [('a', 'c'), ('d', 'b'), ('c', 'd')], total=25, seed=15)
run_case('odd-names-size-one-attr', odd, [('m_1', 'z9'), ('k', 'Alpha'), ('Alpha', 'z9')],
         total=11.0, seed=16, neg_inf=0.1)
run_case('full-clique', abcd, [('d', 'c', 'b', 'a')], total=4.0, seed=17)

# ------------------------------------------------ junction tree internals
print('=' * 72)
print('JUNCTION TREE')
for dom, cliques in [
    (abcd, [('a', 'b'), ('b', 'c'), ('c', 'd'), ('d', 'a')]),
    (six, [('u', 'v'), ('v', 'w'), ('x', 'y'), ('y', 'z'), ('u', 'x'), ('v', 'y'), ('w', 'z')]),
    (abcde, [('a', 'b', 'c'), ('b', 'a'), ('c',), ('e', 'd')]),
    (abcde, [['e', 'a'], ['a', 'c'], ['c', 'e'], ['b']]),  # cliques given as lists
]:
    for elim in [None, 0, 1, 4, 25, list(dom.attrs), list(dom.attrs[::-1])]:
        np.random.seed(99)
        jt = JunctionTree(dom, cliques, elim)
        show('  jt %r elim=%r' % (cliques, elim), '')
        show('    order', jt.elimination_order)
        show('    maximal', jt.maximal_cliques())
        show('    tree edges', sorted(tuple(sorted(e)) for e in jt.tree.edges()))
        show('    weights', sorted((tuple(sorted((a, b))), d['weight'])
                                    for a, b, d in jt.tree.edges(data=True)))
        show('    mp_order', jt.mp_order())
        show('    separators', sorted(jt.separator_axes().items()))
        show('    neighbors', sorted((k, sorted(v)) for k, v in jt.neighbors().items()))
        np.random.seed(7)
        show('    greedy deterministic', jt._greedy_order(stochastic=False))
        show('    greedy stochastic', [jt._greedy_order(stochastic=True) for _ in range(4)])
        show('    rng state after', np.random.randint(10 ** 9))
        tri, cost = jt._triangulated(jt.elimination_order)
        show('    triangulated', (sorted(tuple(sorted(e)) for e in tri.edges()), cost))
    show('  module greedy_order', greedy_order(dom, [tuple(c) for c in cliques], list(dom.attrs)))

# --------------------------------------------------- Factor arithmetic
print('=' * 72)
print('FACTOR')
prng = np.random.RandomState(2024)
d_abc = abcd.project(('a', 'b', 'c'))
d_cb = abcd.project(('c', 'b'))
d_b = abcd.project(('b',))
d_da = abcd.project(('d', 'a'))
X = Factor(d_abc, prng.normal(size=d_abc.shape) * 10)
Y = Factor(d_cb, np.where(prng.rand(*d_cb.shape) < 0.4, -np.inf, prng.normal(size=d_cb.shape)))
Zb = Factor(d_b, np.array([-np.inf, 0.5, -1e308]))
W = Factor(d_da, prng.normal(size=d_da.shape))
Xinf = Factor(d_abc, np.where(prng.rand(*d_abc.shape) < 0.3, -np.inf, X.values))
Pinf = Factor(d_b, np.array([np.inf, 1.0, -np.inf]))
I = Factor(d_cb, np.arange(12).reshape(d_cb.shape))  # integer-valued factor

for label, lhs, rhs in [
    ('X-Y', X, Y), ('X-Zb', X, Zb), ('Xinf-Y', Xinf, Y), ('Xinf-Xinf', Xinf, Xinf),
    ('X-W (disjoint/overlap)', X, W), ('Y-X (bigger rhs)', Y, X), ('Zb-Zb', Zb, Zb),
    ('X-Pinf', X, Pinf), ('Pinf-Pinf', Pinf, Pinf), ('I-I', I, I), ('X-I', X, I), ('I-Y', I, Y),
]:
    r = lhs - rhs
    show('  %s' % label, '%r %s %s' % (r.domain.attrs, r.values.dtype, fmt(r.values)))
for label, lhs, rhs in [('X-2.5', X, 2.5), ('Y-(-inf)', Y, -np.inf), ('Xinf-np.float64(1)', Xinf, np.float64(1)),
                        ('I-3', I, 3)]:
    r = lhs - rhs
    show('  %s' % label, '%r %s %s' % (r.domain.attrs, r.values.dtype, fmt(r.values)))
keep = X.values.copy(), Y.values.copy()
_ = X - Y
show('  operands untouched', np.array_equal(keep[0], X.values) and np.array_equal(keep[1], Y.values))
show('  X+Y', fmt((X + Y).values))
show('  3+Y', fmt((3 + Y).values))
show('  X.logsumexp([b])', fmt(X.logsumexp(['b']).values))
show('  Xinf.logsumexp([c,a])', fmt(Xinf.logsumexp(['c', 'a']).values))
show('  Xinf.logsumexp()', '%.12e' % Xinf.logsumexp())
show('  Xinf.project((c,a),logsumexp)', fmt(Xinf.project(('c', 'a'), agg='logsumexp').values))
show('  X.exp().project((b,))', fmt(X.exp().project(('b',)).values))
show('  X.exp().sum()', '%.12e' % X.exp().sum())
show('  X.max([a])', fmt(X.max(['a']).values))
show('  Y.logaddexp(Zb)', fmt(Y.logaddexp(Zb).values))
show('  X.transpose', fmt(X.transpose(('c', 'a', 'b')).values))
show('  Zb.expand', fmt(Zb.expand(d_abc).values))

# variable elimination in log space (shares Factor arithmetic with BP)
pots = [X, Y, Zb, W]
for order in [['a', 'b'], ['b', 'a'], ['d', 'a', 'b']]:
    show('  VE %r' % order, fmt(variable_elimination_logspace(pots, order, 17.0)
                                .project([a for a in abcd.attrs if a not in order]).values))
print('DONE')

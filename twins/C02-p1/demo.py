"""Pair 1 demo -- Factor.expand (src/mbi/factor.py).

Property C02: every query path (project / calculate_many_marginals / krondot /
datavector, before and after the marginal cache is populated, before and after
save/load) answers from ONE explicit joint distribution, laid out in the
requested attribute order and summing to the model total.

The oracle below builds the joint cell by cell with plain python loops and
numpy.einsum; it never touches mbi.Factor arithmetic.

exit 0 + "PASS <digest>"  : all paths agree with the oracle
exit 1 + "FAIL ..."       : some path disagrees
"""
import os, sys, itertools, hashlib, tempfile, string

ROOT = os.path.dirname(os.path.dirname(os.path.dirname(os.path.abspath(__file__))))
sys.path.insert(0, os.path.join(ROOT, 'src'))
import warnings
warnings.filterwarnings('ignore')
import numpy as np
from mbi import Domain, Factor, GraphicalModel, CliqueVector
import mbi
assert os.path.abspath(mbi.__file__).startswith(os.path.join(ROOT, 'src')), mbi.__file__

TOL = 1e-9
digest = hashlib.sha256()
failures = []


def record(tag, arr):
    a = np.round(np.asarray(arr, dtype=float), 6) + 0.0
    digest.update(tag.encode())
    digest.update(repr(a.shape).encode())
    digest.update(np.ascontiguousarray(a).tobytes())


def oracle_joint(model):
    """explicit joint (domain order), cell by cell, scaled to model.total"""
    dom = model.domain
    logp = np.zeros(dom.shape)
    for idx in np.ndindex(*dom.shape):
        s = 0.0
        for cl in model.cliques:
            f = model.potentials[cl]
            sub = tuple(idx[dom.attrs.index(a)] for a in f.domain.attrs)
            s += f.values[sub]
        logp[idx] = s
    p = np.exp(logp - logp.max())
    return p / p.sum() * model.total


def oracle_marginal(joint, dom, attrs):
    letters = dict(zip(dom.attrs, string.ascii_lowercase))
    src = ''.join(letters[a] for a in dom.attrs)
    dst = ''.join(letters[a] for a in attrs)
    return np.einsum('%s->%s' % (src, dst), joint)


def check(tag, got_factor_or_array, want, attrs=None):
    if hasattr(got_factor_or_array, 'domain'):
        f = got_factor_or_array
        if attrs is not None and tuple(f.domain.attrs) != tuple(attrs):
            failures.append('%s: answer laid out as %s, requested %s' % (tag, f.domain.attrs, attrs))
            return
        got = f.values
    else:
        got = got_factor_or_array
    got = np.asarray(got)
    if got.shape != want.shape:
        failures.append('%s: shape %s, expected %s' % (tag, got.shape, want.shape))
        return
    err = np.abs(got - want).max() if got.size else 0.0
    if not err <= TOL * max(1.0, np.abs(want).max()):
        failures.append('%s: max abs deviation from the explicit joint %.3e' % (tag, err))
    record(tag, got)


def all_tuples(attrs):
    for k in range(len(attrs) + 1):
        for sub in itertools.combinations(attrs, k):
            for perm in itertools.permutations(sub):
                yield perm


def build(name, attrs, shape, cliques, total, seed):
    prng = np.random.RandomState(seed)
    dom = Domain(attrs, shape)
    model = GraphicalModel(dom, cliques, total=total)
    pots = {cl: Factor(dom.project(cl), prng.normal(size=dom.project(cl).shape))
            for cl in model.cliques}
    model.potentials = CliqueVector(pots)
    return name, model, prng


MODELS = [
    # the unit-test chain
    build('chain-abcd', 'abcd', (2, 3, 4, 5), [('a', 'b'), ('b', 'c'), ('c', 'd')], 1.0, 0),
    # star on the last attribute: summing the clique potentials visits (a,d),(b,d),(c,d)
    build('star-d', 'abcd', (2, 3, 4, 3), [('a', 'd'), ('b', 'd'), ('c', 'd')], 250.0, 1),
    # a 3-attribute clique plus a pendant pair
    build('tri-acd+bc', 'abcd', (2, 3, 4, 3), [('a', 'c', 'd'), ('b', 'c')], 40.0, 2),
    # two 3-attribute cliques on a branching tree, five attributes
    build('branch-5', 'abcde', (2, 3, 2, 3, 2),
          [('a', 'd', 'e'), ('b', 'd'), ('c', 'e'), ('b', 'c', 'd')], 1000.0, 3),
    # all attribute sizes equal: a mis-ordered axis cannot trip a shape assertion
    build('square-acd+bc+be', 'abcde', (3, 3, 3, 3, 3),
          [('a', 'c', 'd'), ('b', 'c'), ('b', 'e')], 7.5, 4),
]


def run(name, model, prng):
    dom = model.domain
    joint = oracle_joint(model)
    tuples = list(all_tuples(dom.attrs))

    # 1. the full vector
    check('%s/datavector' % name, model.datavector(flatten=False), joint)
    check('%s/datavector-flat' % name, model.datavector(), joint.flatten())

    # 2. single queries, no cache
    assert not hasattr(model, 'marginals')
    for t in tuples:
        check('%s/project%s' % (name, list(t)), model.project(t), oracle_marginal(joint, dom, t), t)

    # 3. Kronecker query (identity / total / prefix blocks)
    mats = []
    for i, n in enumerate(dom.shape):
        kind = i % 3
        if kind == 0:
            mats.append(np.eye(n))
        elif kind == 1:
            mats.append(np.ones((1, n)))
        else:
            mats.append(np.tril(np.ones((n, n))))
    want = joint
    letters = string.ascii_lowercase
    for i, Q in enumerate(mats):
        want = np.moveaxis(np.tensordot(Q, want, axes=([1], [i])), 0, i)
    check('%s/krondot' % name, model.krondot(mats), want)

    # 4. bulk query (populates the cache), then single queries again
    ans = model.calculate_many_marginals(tuples)
    for t in tuples:
        check('%s/bulk%s' % (name, list(t)), ans[t], oracle_marginal(joint, dom, t), t)
    assert hasattr(model, 'marginals')
    for t in tuples:
        check('%s/cached-project%s' % (name, list(t)), model.project(t), oracle_marginal(joint, dom, t), t)

    # 5. save / load
    fd, path = tempfile.mkstemp(suffix='.pkl')
    os.close(fd)
    try:
        GraphicalModel.save(model, path)
        again = GraphicalModel.load(path)
    finally:
        os.remove(path)
    check('%s/reloaded-datavector' % name, again.datavector(flatten=False), joint)
    del again.marginals
    for t in tuples[::7]:
        check('%s/reloaded-project%s' % (name, list(t)), again.project(t), oracle_marginal(joint, dom, t), t)

    # 6. direct Factor arithmetic against numpy (expand is the workhorse of + and *)
    f = Factor(dom.project(('c', 'd', 'a')), prng.rand(*dom.project(('c', 'd', 'a')).shape))
    e = f.expand(dom)
    want = np.einsum('cda->acd', f.values)
    want = np.broadcast_to(want.reshape(tuple(dom[a] if a in 'acd' else 1 for a in dom.attrs)), dom.shape)
    check('%s/expand(c,d,a)' % name, e.values, want)


for name, model, prng in MODELS:
    run(name, model, prng)

if failures:
    print('FAIL: %d answers disagree with the explicit joint distribution' % len(failures))
    for line in failures[:12]:
        print('   ', line)
    if len(failures) > 12:
        print('    ... and %d more' % (len(failures) - 12))
    sys.exit(1)
print('PASS', digest.hexdigest())
sys.exit(0)

"""C02 / round 7 / pair 2 -- GraphicalModel.calculate_many_marginals: walking the junction tree.

Bulk answers (pairwise-clique conditional chaining) are compared with the marginals of the
explicit joint distribution (built with plain numpy), in the requested attribute order, for
deep chains and branching junction trees, and for potentials containers whose KEY ORDER is
the model's clique order, the sorted order, the reversed order and a shuffled order.  The
distribution does not depend on the order in which the caller happened to fill the dict.
"""
import os, sys, hashlib, itertools, warnings
ROOT = os.path.dirname(os.path.dirname(os.path.dirname(os.path.abspath(__file__))))
sys.path.insert(0, os.path.join(ROOT, 'src'))
warnings.filterwarnings('ignore')
import numpy as np
from mbi import Domain, Factor, GraphicalModel, CliqueVector
import mbi
assert os.path.abspath(mbi.__file__).startswith(ROOT), mbi.__file__


def joint(domain, potentials, total):
    logp = np.zeros(domain.shape)
    for cl, f in potentials.items():
        ax = [domain.attrs.index(a) for a in f.domain.attrs]
        shape = [1] * len(domain)
        for a, i in zip(f.domain.attrs, ax):
            shape[i] = domain[a]
        logp = logp + np.transpose(f.values, np.argsort(ax)).reshape(shape)
    p = np.exp(logp - logp.max())
    return p / p.sum() * total


def marginal(P, domain, attrs):
    keep = [domain.attrs.index(a) for a in attrs]
    drop = tuple(i for i in range(len(domain)) if i not in keep)
    M = P.sum(axis=drop)                       # remaining axes in domain order
    rest = sorted(keep)
    return np.transpose(M, [rest.index(i) for i in keep]) if keep else M


CASES = [
    # name, attrs, shape, cliques, total
    ('unit-test chain (3 cliques)', 'abcd',   [2, 3, 4, 5],       [('a','b'), ('b','c'), ('c','d')], 10.0),
    ('chain of 5 cliques',          'abcdef', [2, 3, 2, 3, 2, 3], [('a','b'), ('b','c'), ('c','d'), ('d','e'), ('e','f')], 1.0),
    ('scrambled chain',             'abcde',  [3, 2, 3, 2, 2],    [('c','a'), ('a','e'), ('e','b'), ('b','d')], 25.0),
    ('branching tree',              'abcdef', [2, 2, 3, 2, 3, 2], [('a','b'), ('a','c'), ('c','d'), ('c','e'), ('e','f')], 4.0),
    ('3-attribute cliques',         'abcdef', [2, 3, 2, 2, 3, 2], [('a','b','c'), ('b','c','d'), ('d','e'), ('e','f')], 100.0),
    ('two components + chain',      'abcde',  [2, 3, 2, 3, 2],    [('a','b'), ('b','c'), ('d','e')], 2.5),
]
ORDERS = ['model', 'sorted', 'reversed', 'shuffled']

failures, lines = [], []
for k, (name, attrs, shape, cliques, total) in enumerate(CASES):
    prng = np.random.RandomState(700 + k)
    dom = Domain(list(attrs), shape)
    model = GraphicalModel(dom, cliques, total=total)
    values = {cl: prng.uniform(-1.5, 1.5, size=dom.project(cl).shape) for cl in sorted(model.cliques)}
    P = joint(dom, {cl: Factor(dom.project(cl), v) for cl, v in values.items()}, total)

    # requests: every subset of <= 3 attributes in a random order, the empty and the full tuple
    projections = [(), tuple(prng.permutation(list(attrs)))]
    for r in (1, 2, 3):
        for sub in itertools.combinations(attrs, r):
            projections.append(tuple(prng.permutation(list(sub))))
    want = {p: marginal(P, dom, p) for p in projections}
    h = hashlib.sha256(b''.join(np.round(want[p], 9).tobytes() for p in projections)).hexdigest()[:12]

    for how in ORDERS:
        keys = list(model.cliques)
        if how == 'sorted':     keys = sorted(keys)
        elif how == 'reversed': keys = keys[::-1]
        elif how == 'shuffled': keys = [keys[i] for i in np.random.RandomState(7 + k).permutation(len(keys))]
        model = GraphicalModel(dom, cliques, total=total)      # fresh model: no marginal cache
        model.potentials = CliqueVector({cl: Factor(dom.project(cl), values[cl].copy()) for cl in keys})
        tag = '%s / potentials in %s order' % (name, how)
        try:
            got = model.calculate_many_marginals(projections)
        except Exception as e:
            failures.append('%s: calculate_many_marginals raised %s: %r' % (tag, type(e).__name__, e))
            lines.append('%-58s requests=%3d oracle=%s' % (tag, len(projections), h))
            continue
        bad = 0
        for p in projections:
            f = got[p]
            if tuple(f.domain.attrs) != p or f.values.shape != want[p].shape \
               or not np.allclose(f.values, want[p], rtol=1e-8, atol=1e-10) \
               or not np.isclose(f.values.sum(), total):
                bad += 1
                if bad == 1:
                    err = np.abs(f.values - want[p]).max() if f.values.shape == want[p].shape else float('nan')
                    failures.append('%s: bulk answer for %s differs from the joint marginal by %.3g'
                                    % (tag, p, err))
        # single queries after the bulk call (cache populated) must still agree with the joint
        for p in projections[:8]:
            f = model.project(p)
            if not np.allclose(f.values, want[p], rtol=1e-8, atol=1e-10):
                failures.append('%s: project(%s) after the bulk call differs from the joint' % (tag, p))
                break
        lines.append('%-58s requests=%3d oracle=%s' % (tag, len(projections), h))

print('\n'.join(lines))
if failures:
    print('FAIL: bulk query path does not answer from the joint distribution')
    for f in failures:
        print('  -', f)
    sys.exit(1)
print('PASS')

""" C02 / round 8 / pair 1 -- GraphicalModel.datavector(): in-place normalisation

Every query path must answer from one and the same joint distribution, for every
history of queries.  This demo materialises the data vector FIRST and then asks the
other query paths (project, calculate_many_marginals, krondot, datavector again) and
compares each answer with an explicit joint computed from a private deep copy of the
potentials taken before the first query.
"""
import os, sys, copy, hashlib, itertools, warnings
ROOT = os.path.dirname(os.path.dirname(os.path.dirname(os.path.abspath(__file__))))
sys.path.insert(0, os.path.join(ROOT, 'src'))
warnings.filterwarnings('ignore')
import numpy as np
from mbi import Domain, Factor, GraphicalModel, CliqueVector
import mbi
assert os.path.abspath(mbi.__file__).startswith(ROOT), mbi.__file__

lines, failures = [], []

def digest(arr):
    arr = np.ascontiguousarray(np.round(np.asarray(arr, dtype=float), 9)) + 0.0
    return hashlib.sha256(arr.tobytes()).hexdigest()[:12]

def oracle_joint(domain, pots, total):
    """ explicit joint, axes in domain order, built only from the saved potentials """
    logp = np.zeros(domain.shape)
    for cl, f in pots.items():
        shape = [domain[a] if a in cl else 1 for a in domain.attrs]
        src = np.transpose(f.values, np.argsort([domain.attrs.index(a) for a in f.domain.attrs]))
        logp = logp + src.reshape(shape)
    p = np.exp(logp - logp.max())
    return p / p.sum() * total

def oracle_marginal(domain, joint, attrs):
    drop = tuple(i for i, a in enumerate(domain.attrs) if a not in attrs)
    m = joint.sum(axis=drop)
    kept = [a for a in domain.attrs if a in attrs]
    return np.transpose(m, [kept.index(a) for a in attrs])

def check(tag, got, want):
    got, want = np.asarray(got, dtype=float), np.asarray(want, dtype=float)
    ok = got.shape == want.shape and np.allclose(got, want, rtol=1e-8, atol=1e-10)
    lines.append('%-58s %s' % (tag, digest(got) if ok else 'MISMATCH'))
    if not ok:
        err = np.abs(got - want).max() if got.shape == want.shape else float('nan')
        failures.append('%s: max abs error %.3g (shape %s vs %s)' % (tag, err, got.shape, want.shape))

def run(name, attrs, shape, cliques, total, seed):
    prng = np.random.RandomState(seed)
    domain = Domain(attrs, shape)
    model = GraphicalModel(domain, cliques, total=total)
    pots = { cl : Factor(domain.project(cl), prng.normal(size=domain.project(cl).shape))
             for cl in model.cliques }
    model.potentials = CliqueVector(pots)
    saved = { cl : Factor(f.domain, f.values.copy()) for cl, f in pots.items() }
    joint = oracle_joint(domain, saved, total)
    lines.append('-- %s: cliques=%s total=%s' % (name, model.cliques, total))

    # 1. materialise the full vector (twice, both layouts)
    check(name + ' datavector() #1', model.datavector(), joint.flatten())
    check(name + ' datavector(False) #2', model.datavector(flatten=False), joint)

    # 2. single queries afterwards, every subset in two orders, no cache yet
    subsets = [s for r in range(len(attrs)+1) for s in itertools.combinations(attrs, r)]
    for s in subsets:
        for q in sorted({ s, s[::-1] }):
            check(name + ' project%s' % (q,), model.project(q).values, oracle_marginal(domain, joint, q))

    # 3. Kronecker query: identity on the first attribute, total on the others
    Q = [np.eye(n) if i == 0 else np.ones((1, n)) for i, n in enumerate(shape)]
    want = oracle_marginal(domain, joint, (attrs[0],)).reshape([shape[0]] + [1]*(len(shape)-1))
    check(name + ' krondot', model.krondot(Q), want)

    # 4. bulk query (populates the cache), then cached single queries and the vector again
    res = model.calculate_many_marginals(subsets)
    for s in subsets:
        check(name + ' bulk%s' % (s,), res[s].values, oracle_marginal(domain, joint, s))
    for s in subsets:
        check(name + ' cached project%s' % (s[::-1],), model.project(s[::-1]).values,
              oracle_marginal(domain, joint, s[::-1]))
    check(name + ' datavector() #3', model.datavector(), joint.flatten())
    check(name + ' total', model.datavector().sum(), total)

    # the parameters themselves must not have been touched by any query
    same = all(np.array_equal(model.potentials[cl].values, saved[cl].values) for cl in saved)
    lines.append('%-58s %s' % (name + ' potentials untouched', same))
    if not same:
        failures.append(name + ': a query modified model.potentials in place')

run('chain', ['a','b','c','d'], [2,3,4,2], [('a','b'),('b','c'),('c','d')], 10.0, 0)
run('star', ['a','b','c','d'], [3,2,2,3], [('a','b'),('a','c'),('a','d')], 7.5, 1)
run('tri+1', ['a','b','c','d'], [2,3,2,3], [('a','b','c'),('c','d')], 1.0, 2)
run('isolated', ['a','b','c'], [2,3,2], [('a','b')], 4.0, 3)
# models whose junction tree consists of ONE maximal clique
run('one-clique', ['a','b','c'], [2,3,4], [('a','b','c')], 100.0, 4)
run('pairs->one', ['a','b','c'], [3,2,3], [('a','b'),('b','c'),('a','c')], 12.5, 5)
run('one-attr', ['a'], [5], [('a',)], 3.0, 6)

print('\n'.join(lines))
print('digest', hashlib.sha256('\n'.join(lines).encode()).hexdigest())
if failures:
    print('FAIL: %d answers differ from the explicit joint distribution' % len(failures))
    for f in failures[:12]:
        print('   ', f)
    print('   (answers depend on whether datavector() was called before: C02 violated)')
    sys.exit(1)
print('PASS')

""" C02 / round 8 / pair 2 -- JunctionTree._make_tree(): user-supplied elimination orders

"Elimination order will impact the efficiency but not correctness" (GraphicalModel docstring).
This demo builds the same models with the elimination order supplied in many forms
(None, int, list, tuple, dict view, one-shot iterators) and compares every query path
with an explicit joint computed directly from the potentials.
"""
import os, sys, hashlib, itertools, warnings
ROOT = os.path.dirname(os.path.dirname(os.path.dirname(os.path.abspath(__file__))))
sys.path.insert(0, os.path.join(ROOT, 'src'))
warnings.filterwarnings('ignore')
import numpy as np
import networkx as nx
from mbi import Domain, Factor, GraphicalModel, CliqueVector
import mbi
assert os.path.abspath(mbi.__file__).startswith(ROOT), mbi.__file__

lines, failures = [], []

def digest(arr):
    arr = np.ascontiguousarray(np.round(np.asarray(arr, dtype=float), 9)) + 0.0
    return hashlib.sha256(arr.tobytes()).hexdigest()[:12]

def oracle_joint(domain, pots, total):
    logp = np.zeros(domain.shape)
    for cl, f in pots.items():
        assert tuple(f.domain.attrs) == tuple(a for a in domain.attrs if a in cl)
        logp = logp + f.values.reshape([domain[a] if a in cl else 1 for a in domain.attrs])
    p = np.exp(logp - logp.max())
    return p / p.sum() * total

def oracle_marginal(domain, joint, attrs):
    drop = tuple(i for i, a in enumerate(domain.attrs) if a not in attrs)
    m = joint.sum(axis=drop)
    kept = [a for a in domain.attrs if a in attrs]
    return np.transpose(m, [kept.index(a) for a in attrs])

def check(tag, got, want):
    got, want = np.asarray(got, dtype=float), np.asarray(want, dtype=float)
    ok = got.shape == want.shape and np.allclose(got, want, rtol=1e-8, atol=1e-10)
    lines.append('%-64s %s' % (tag, digest(got) if ok else 'MISMATCH'))
    if not ok:
        err = np.abs(got - want).max() if got.shape == want.shape else float('nan')
        failures.append('%s: max abs error %.3g' % (tag, err))

def running_intersection(model):
    tree = model.junction_tree.tree
    return all(nx.is_connected(tree.subgraph([c for c in tree.nodes() if a in c]))
               for a in model.domain.attrs)

def run(name, attrs, shape, cliques, total, form, make_order, seed):
    np.random.seed(seed)                       # an int order draws stochastic candidates
    prng = np.random.RandomState(seed)
    domain = Domain(attrs, shape)
    model = GraphicalModel(domain, cliques, total=total, elimination_order=make_order())
    tag = '%s/%s' % (name, form)
    lines.append('-- %s: cliques=%s' % (tag, model.cliques))
    pots = { cl : Factor(domain.project(cl), prng.normal(size=domain.project(cl).shape))
             for cl in model.cliques }
    model.potentials = CliqueVector(pots)
    joint = oracle_joint(domain, pots, total)
    n0 = len(failures)

    check(tag + ' datavector', model.datavector(flatten=False), joint)
    queries = [s for r in range(4) for s in itertools.combinations(attrs, r)]
    queries += [s[::-1] for s in queries if len(s) > 1]
    for q in queries:                                            # variable elimination
        check(tag + ' project%s' % (q,), model.project(q).values, oracle_marginal(domain, joint, q))
    Q = [np.eye(n) if i in (0, 2) else np.ones((1, n)) for i, n in enumerate(shape)]
    want = oracle_marginal(domain, joint, (attrs[0], attrs[2]))
    check(tag + ' krondot', np.squeeze(model.krondot(Q)), want)   # BP normaliser
    res = model.calculate_many_marginals(queries)                # BP + conditional chaining
    for q in queries:
        check(tag + ' bulk%s' % (q,), res[q].values, oracle_marginal(domain, joint, q))
    for q in queries:                                            # cached clique marginals
        check(tag + ' cached project%s' % (q,), model.project(q).values, oracle_marginal(domain, joint, q))
    if len(failures) > n0 and not running_intersection(model):
        failures.append('%s: the junction tree built for cliques %s violates the running '
                        'intersection property' % (tag, model.cliques))

A4 = ['a','b','c','d']
cycle4 = [('a','b'),('b','c'),('c','d'),('a','d')]
A5 = ['a','b','c','d','e']
cycle5 = [('a','b'),('b','c'),('c','d'),('d','e'),('a','e')]
ladder = [('a','b'),('c','d'),('a','c'),('b','d'),('c','e'),('d','e')]
chain = [('a','b'),('b','c'),('c','d')]

def forms(order):
    return [('none',     lambda: None),
            ('int',      lambda: 3),
            ('list',     lambda: list(order)),
            ('tuple',    lambda: tuple(order)),
            ('keys',     lambda: dict.fromkeys(order).keys()),
            ('iter',     lambda: iter(order)),
            ('reversed', lambda: reversed(order[::-1])),
            ('genexp',   lambda: (a for a in order))]

seed = 0
for name, attrs, shape, cliques, total, order in [
        ('chain',  A4, [2,3,2,3],   chain,  5.0,  ['a','d','b','c']),
        ('cycle4', A4, [2,3,2,3],   cycle4, 10.0, ['a','b','c','d']),
        ('cycle4b',A4, [3,2,2,2],   cycle4, 1.0,  ['c','a','d','b']),
        ('cycle5', A5, [2,2,3,2,2], cycle5, 25.0, ['e','a','b','c','d']),
        ('ladder', A5, [2,2,2,2,3], ladder, 2.5,  ['a','e','b','c','d'])]:
    for form, make in forms(order):
        seed += 1
        run(name, attrs, shape, cliques, total, form, make, seed)

print('\n'.join(lines))
print('digest', hashlib.sha256('\n'.join(lines).encode()).hexdigest())
if failures:
    print('FAIL: %d answers differ from the explicit joint distribution' % len(failures))
    for f in failures[:6] + [f for f in failures if 'running' in f][:6]:
        print('   ', f)
    print('   (correctness depends on the FORM in which the elimination order was passed)')
    sys.exit(1)
print('PASS')

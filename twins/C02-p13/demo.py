""" C02 / round 9 / pair 1 -- JunctionTree._triangulated (elimination game)

Every query path must answer from the one joint distribution defined by the
potentials, whether or not clique marginals were cached.  The cached / bulk /
Kronecker paths rely on belief propagation over the junction tree, which is only
exact when the triangulation is complete.  Models whose cliques form a long
cycle (>= 5) need CASCADING fill-in edges.
"""
import os, sys, itertools, hashlib
if os.environ.get('PYTHONHASHSEED') != '0':      # deterministic set / dict-of-str iteration
    os.environ['PYTHONHASHSEED'] = '0'
    os.execv(sys.executable, [sys.executable] + sys.argv)
ROOT = os.path.dirname(os.path.dirname(os.path.dirname(os.path.abspath(__file__))))
sys.path.insert(0, os.path.join(ROOT, 'src'))
import warnings
warnings.simplefilter('ignore')
import numpy as np
from mbi import Domain, Factor, GraphicalModel, CliqueVector
import mbi
assert os.path.abspath(mbi.__file__).startswith(ROOT), mbi.__file__

TOL = 1e-8
failures = []
digest = hashlib.sha256()
lines = []

def joint_oracle(model):
    """ explicit joint, built with plain numpy from the potentials """
    attrs = model.domain.attrs
    logp = np.zeros(model.domain.shape)
    for cl in model.cliques:
        f = model.potentials[cl]
        src = f.domain.attrs
        vals = np.transpose(f.values, np.argsort([attrs.index(a) for a in src]))
        shape = [model.domain[a] if a in src else 1 for a in attrs]
        logp = logp + vals.reshape(shape)
    p = np.exp(logp - logp.max())
    return p / p.sum() * model.total

def oracle_marginal(P, attrs, req):
    keep = [attrs.index(a) for a in req]
    drop = tuple(i for i in range(len(attrs)) if i not in keep)
    M = P.sum(axis=drop)                      # remaining axes in domain order
    left = sorted(keep)
    return np.transpose(M, [left.index(i) for i in keep]) if keep else M

def record(name, arr):
    arr = np.asarray(arr, dtype=float)
    txt = '%s %s %s' % (name, arr.shape, np.array2string(np.round(arr.flatten()[:6], 7)))
    digest.update(np.round(arr, 7).tobytes()); lines.append(txt)

def check(name, got, want):
    got = np.asarray(got); want = np.asarray(want)
    if got.shape != want.shape or not np.allclose(got, want, atol=TOL, rtol=1e-7):
        err = np.abs(got - want).max() if got.shape == want.shape else float('nan')
        failures.append('%s: differs from the joint (max abs err %.3g)' % (name, err))

def rip_ok(model):
    """ running intersection property of the junction tree """
    T = model.junction_tree.tree
    for a in model.domain.attrs:
        nodes = [c for c in T.nodes() if a in c]
        if len(nodes) > 1 and not __import__('networkx').is_connected(T.subgraph(nodes)):
            return False
    return True

def run(name, attrs, shape, cliques, total, seed):
    dom = Domain(attrs, shape)
    model = GraphicalModel(dom, cliques, total)
    prng = np.random.RandomState(seed)
    model.potentials = CliqueVector({cl: Factor(dom.project(cl), prng.randn(*dom.project(cl).shape))
                                     for cl in model.cliques})
    lines.append('%s cliques=%s' % (name, sorted(model.cliques)))
    if not rip_ok(model):
        failures.append('%s: junction tree violates the running intersection property '
                        '(triangulation incomplete), cliques=%s' % (name, sorted(model.cliques)))
    P = joint_oracle(model)
    check(name + ' datavector', model.datavector(flatten=False), P)
    reqs = [()] + [t for k in (1, 2) for t in itertools.permutations(attrs, k)]
    reqs += [tuple(attrs[::-1]), tuple(attrs[1:]) + (attrs[0],)]
    # 1. single queries, no cache
    assert not hasattr(model, 'marginals')
    for r in reqs:
        ans = model.project(r).values
        check('%s uncached project%s' % (name, r), ans, oracle_marginal(P, attrs, r))
        record('%s project%s' % (name, r), ans)
    # 2. bulk queries (populate the cache)
    bulk = model.calculate_many_marginals(reqs)
    for r in reqs:
        check('%s bulk%s' % (name, r), bulk[r].values, oracle_marginal(P, attrs, r))
    # 3. single queries, cache populated
    for r in reqs:
        check('%s cached project%s' % (name, r), model.project(r).values, oracle_marginal(P, attrs, r))
    for cl in model.cliques:
        check('%s cached clique marginal %s' % (name, cl), model.marginals[cl].values,
              oracle_marginal(P, attrs, cl))
    # 4. Kronecker query: prefix sums on every attribute
    mats = [np.tril(np.ones((n, n))) for n in shape]
    want = P
    for i, Q in enumerate(mats):
        want = np.moveaxis(np.tensordot(Q, want, axes=(1, i)), 0, i)
    got = model.krondot(mats)
    check('%s krondot' % name, got, want)
    record('%s krondot' % name, got)
    check('%s total' % name, model.project(()).values, total)

ring = lambda names: [(names[i], names[(i + 1) % len(names)]) for i in range(len(names))]
A5 = ['a', 'b', 'c', 'd', 'e']; A6 = A5 + ['f']
run('chain4', ['a','b','c','d'], [2,3,4,2], [('a','b'),('b','c'),('c','d')], 10.0, 1)
run('star4', ['a','b','c','d'], [2,3,2,3], [('a','b'),('a','c'),('a','d')], 1.0, 2)
run('triple', ['a','b','c','d'], [2,3,2,2], [('a','b','c'),('c','d')], 7.5, 3)
run('cycle4', ['a','b','c','d'], [2,3,2,3], ring(['a','b','c','d']), 3.0, 4)
run('cycle5', A5, [2,3,2,3,2], ring(A5), 25.0, 5)
run('cycle6', A6, [2,2,3,2,2,3], ring(A6), 1.0, 6)
run('cycle5+tail', A6, [2,3,2,2,3,2], ring(A5) + [('e','f')], 100.0, 7)
run('ladder', A6, [2,2,2,2,2,2], [('a','b'),('c','d'),('e','f'),('a','c'),('c','e'),('b','d'),('d','f')], 4.0, 8)

if failures:
    print('FAIL: %d answers do not come from the joint distribution' % len(failures))
    for f in failures[:12]: print('  ' + f)
    sys.exit(1)
print('PASS')
for l in lines: print(l)
print('digest', digest.hexdigest())

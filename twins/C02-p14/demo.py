""" C02 / round 9 / pair 2 -- calculate_many_marginals: one marginal per distinct attribute set

A bulk request is a LIST of attribute tuples; every answer must be the marginal of
the joint laid out in the order of ITS OWN tuple, also when the same set of
attributes occurs several times in the list in different orders.
"""
import os, sys, itertools, hashlib
if os.environ.get('PYTHONHASHSEED') != '0':      # deterministic set / dict-of-str iteration
    os.environ['PYTHONHASHSEED'] = '0'
    os.execv(sys.executable, [sys.executable] + sys.argv)
ROOT = os.path.dirname(os.path.dirname(os.path.dirname(os.path.abspath(__file__))))
sys.path.insert(0, os.path.join(ROOT, 'src'))
import warnings
warnings.simplefilter('ignore')
import numpy as np
from mbi import Domain, Factor, GraphicalModel, CliqueVector
import mbi
assert os.path.abspath(mbi.__file__).startswith(ROOT), mbi.__file__

TOL = 1e-8
failures = []
digest = hashlib.sha256()
lines = []

def joint_oracle(model):
    attrs = model.domain.attrs
    logp = np.zeros(model.domain.shape)
    for cl in model.cliques:
        f = model.potentials[cl]
        src = f.domain.attrs
        vals = np.transpose(f.values, np.argsort([attrs.index(a) for a in src]))
        logp = logp + vals.reshape([model.domain[a] if a in src else 1 for a in attrs])
    p = np.exp(logp - logp.max())
    return p / p.sum() * model.total

def oracle_marginal(P, attrs, req):
    keep = [attrs.index(a) for a in req]
    M = P.sum(axis=tuple(i for i in range(len(attrs)) if i not in keep))
    left = sorted(keep)
    return np.transpose(M, [left.index(i) for i in keep]) if keep else M

def make(attrs, shape, cliques, total, seed):
    dom = Domain(attrs, shape)
    model = GraphicalModel(dom, cliques, total)
    prng = np.random.RandomState(seed)
    model.potentials = CliqueVector({cl: Factor(dom.project(cl), prng.randn(*dom.project(cl).shape))
                                     for cl in model.cliques})
    return model

def bulk(name, model, requests):
    attrs = model.domain.attrs
    P = joint_oracle(model)
    ans = model.calculate_many_marginals(list(requests))
    for r in requests:
        got, want = ans[r], oracle_marginal(P, attrs, r)
        if tuple(got.domain.attrs) != tuple(r):
            failures.append('%s: answer for %s is labelled %s' % (name, r, got.domain.attrs))
        elif got.values.shape != want.shape or not np.allclose(got.values, want, atol=TOL):
            failures.append('%s: answer for %s is not the marginal in the requested order' % (name, r))
        single = model.project(r)
        if single.values.shape != want.shape or not np.allclose(single.values, want, atol=TOL):
            failures.append('%s: single query %s differs from the joint' % (name, r))
        digest.update(np.round(got.values, 7).tobytes())
    # answers are independent objects
    fs = [ans[r] for r in dict.fromkeys(requests)]
    for f, g in itertools.combinations(fs, 2):
        if np.shares_memory(f.values, g.values):
            failures.append('%s: two answers share memory' % name); break
    lines.append('%s %d requests, mass %s' % (name, len(requests),
                 np.round(sum(float(ans[r].values.sum()) for r in requests), 6)))

A = ['a', 'b', 'c', 'd']
chain = make(A, [2, 3, 4, 5], [('a','b'), ('b','c'), ('c','d')], 10.0, 1)
star  = make(A, [3, 2, 4, 2], [('a','b'), ('a','c'), ('a','d')], 1.0, 2)
cube  = make(A, [3, 3, 3, 3], [('a','b','c'), ('c','d')], 7.0, 3)       # equal sizes: only values tell
one   = make(['x', 'y', 'z'], [2, 3, 4], [('x','y','z')], 5.0, 4)       # single clique: no pair table

subsets = [t for k in range(5) for t in itertools.combinations(A, k)]
perms   = [t for k in range(1, 4) for t in itertools.permutations(A, k)]
for nm, m in [('chain', chain), ('star', star), ('cube', cube)]:
    bulk(nm + ' canonical subsets', m, subsets)                      # what the unit test asks
    bulk(nm + ' reversed only', m, [t[::-1] for t in subsets])       # each set once, non-canonical
    bulk(nm + ' both orders', m, [('a','c'), ('c','a')])             # same set twice
    bulk(nm + ' both orders (rev first)', m, [('d','b'), ('b','d'), ('d','a'), ('a','d')])
    bulk(nm + ' all permutations', m, perms)
    bulk(nm + ' full domain', m, [('a','b','c','d'), ('d','c','b','a'), ('b','d','a','c')])
    bulk(nm + ' repeats', m, [('b','c'), ('b','c'), ('c','b'), ('b','c')])
bulk('one all permutations', one, [t for k in range(4) for t in itertools.permutations(['x','y','z'], k)])
bulk('one mixed', one, [('z','x'), ('x','z'), ('y',), ('z','y','x'), ('x','y','z')])

if failures:
    print('FAIL: %d problems: bulk answers are not laid out in the requested order' % len(failures))
    for f in failures[:12]: print('  ' + f)
    sys.exit(1)
print('PASS')
for l in lines: print(l)
print('digest', digest.hexdigest())

""" C02 / round 10 / pair 1 -- calculate_many_marginals: conditionals across an EMPTY separator

Bulk answers (calculate_many_marginals) are compared with an explicit joint distribution
built with plain numpy, for connected and for disconnected models, with total == 1 and
with total != 1.  Exit 0 + PASS on correct code, exit 1 + FAIL otherwise.
"""
import os, sys, itertools, hashlib, warnings
warnings.filterwarnings('ignore')
ROOT = os.path.dirname(os.path.dirname(os.path.dirname(os.path.abspath(__file__))))
sys.path.insert(0, os.path.join(ROOT, 'src'))
import numpy as np
from mbi import Domain, Factor, GraphicalModel, CliqueVector
import mbi
assert os.path.abspath(mbi.__file__).startswith(ROOT), mbi.__file__

def joint(model):
    """ explicit joint (plain numpy, no Factor arithmetic), laid out in domain order """
    dom = model.domain
    logp = np.zeros(dom.shape)
    for cl in model.cliques:
        f = model.potentials[cl]
        src = f.domain.attrs
        order = sorted(range(len(src)), key=lambda i: dom.attrs.index(src[i]))
        v = np.transpose(f.values, order)
        shape = [dom[a] if a in src else 1 for a in dom.attrs]
        logp = logp + v.reshape(shape)
    p = np.exp(logp - logp.max())
    return p / p.sum() * model.total

def oracle(P, dom, attrs):
    drop = tuple(i for i, a in enumerate(dom.attrs) if a not in attrs)
    m = P.sum(axis=drop)
    kept = [a for a in dom.attrs if a in attrs]
    return np.transpose(m, [kept.index(a) for a in attrs]) if attrs else m

def make(attrs, shape, cliques, total, seed):
    prng = np.random.RandomState(seed)
    dom = Domain(attrs, shape)
    model = GraphicalModel(dom, cliques, total=total)
    pot = { cl : Factor(dom.project(cl), prng.randn(*dom.project(cl).shape)) for cl in model.cliques }
    model.potentials = CliqueVector(pot)
    return model

def requests(dom, prng):
    """ every subset of attributes, canonical order plus one random permutation """
    out = []
    for r in range(len(dom.attrs)+1):
        for sub in itertools.combinations(dom.attrs, r):
            out.append(tuple(sub))
            perm = tuple(prng.permutation(list(sub))) if r > 1 else None
            if perm is not None and perm != tuple(sub):
                out.append(tuple(str(a) for a in perm))
    return out

CASES = [
  ('chain, total 1',            'abcd',  (2,3,4,2),   [('a','b'),('b','c'),('c','d')], 1.0),
  ('chain, total 37.5',         'abcd',  (2,3,4,2),   [('a','b'),('b','c'),('c','d')], 37.5),
  ('star + 3-clique, total 50', 'abcde', (2,3,2,3,2), [('a','b','c'),('c','d'),('c','e')], 50.0),
  ('two components, total 1',   'abcd',  (2,3,3,2),   [('a','b'),('c','d')], 1.0),
  ('two components, total 250', 'abcd',  (2,3,3,2),   [('a','b'),('c','d')], 250.0),
  ('chain + isolated attribute, total 12', 'abcx', (3,2,3,4), [('a','b'),('b','c')], 12),
  ('three components, total 1000', 'abcdef', (2,2,3,2,2,3), [('a','b'),('c','d'),('e','f')], 1000.0),
]

failures, lines = [], []
for k, (name, attrs, shape, cliques, total) in enumerate(CASES):
    model = make(list(attrs), shape, cliques, total, seed=100+k)
    P = joint(model)
    reqs = requests(model.domain, np.random.RandomState(7+k))
    answers = model.calculate_many_marginals(reqs)
    worst, acc = 0.0, 0.0
    for i, r in enumerate(reqs):
        got = np.asarray(answers[r].values, dtype=float)
        want = oracle(P, model.domain, r)
        if got.shape != want.shape:
            failures.append('%s: request %s has shape %s, expected %s' % (name, r, got.shape, want.shape))
            continue
        err = float(np.max(np.abs(got - want))) / float(total)
        if not err < 1e-9:
            failures.append('%s: bulk answer for %s is off by %.3g x total (sums to %.6g, model total %.6g)'
                            % (name, r, err, got.sum(), total))
        worst = max(worst, err)
        acc += float((got * np.cos(np.arange(got.size)+i).reshape(got.shape)).sum())
    # single queries after the bulk call (cache populated) must agree as well
    for r in reqs[::3]:
        got = model.project(r).values
        if not np.allclose(got, oracle(P, model.domain, r), rtol=1e-9, atol=1e-9*total):
            failures.append('%s: project(%s) after the bulk call disagrees with the joint' % (name, r))
    lines.append('%-42s requests=%3d  checksum=%.6f' % (name, len(reqs), acc))

if failures:
    print('FAIL: calculate_many_marginals does not answer from the joint distribution')
    for f in failures[:12]:
        print('  -', f)
    print('  (%d violations in total)' % len(failures))
    sys.exit(1)
print('PASS')
for l in lines: print(l)
print('digest', hashlib.sha256('\n'.join(lines).encode()).hexdigest()[:16])

""" C02 / round 10 / pair 2 -- pickling of CliqueVector (model parameters) in GraphicalModel.save/load

Answers of a model (single, bulk, Kronecker, full vector) are compared with an explicit joint
built with plain numpy, before and after GraphicalModel.save / GraphicalModel.load, for several
HISTORIES of the parameter vector: built once; one potential replaced by item assignment after
construction; updated through CliqueVector.combine; marginal cache populated before saving.
Exit 0 + PASS on correct code, exit 1 + FAIL otherwise.
"""
import os, sys, itertools, hashlib, tempfile, warnings
warnings.filterwarnings('ignore')
ROOT = os.path.dirname(os.path.dirname(os.path.dirname(os.path.abspath(__file__))))
sys.path.insert(0, os.path.join(ROOT, 'src'))
import numpy as np
from mbi import Domain, Factor, GraphicalModel, CliqueVector
import mbi
assert os.path.abspath(mbi.__file__).startswith(ROOT), mbi.__file__

def joint(model):
    """ explicit joint (plain numpy, no Factor arithmetic), laid out in domain order """
    dom = model.domain
    logp = np.zeros(dom.shape)
    for cl in model.cliques:
        f = model.potentials[cl]
        src = f.domain.attrs
        order = sorted(range(len(src)), key=lambda i: dom.attrs.index(src[i]))
        shape = [dom[a] if a in src else 1 for a in dom.attrs]
        logp = logp + np.transpose(f.values, order).reshape(shape)
    p = np.exp(logp - logp.max())
    return p / p.sum() * model.total

def oracle(P, dom, attrs):
    drop = tuple(i for i, a in enumerate(dom.attrs) if a not in attrs)
    m = P.sum(axis=drop)
    kept = [a for a in dom.attrs if a in attrs]
    return np.transpose(m, [kept.index(a) for a in attrs]) if attrs else m

def requests(dom, prng):
    out = []
    for r in range(len(dom.attrs)+1):
        for sub in itertools.combinations(dom.attrs, r):
            out.append(tuple(sub))
            if r > 1:
                perm = tuple(str(a) for a in prng.permutation(list(sub)))
                if perm != tuple(sub): out.append(perm)
    return out

def check(tag, model, P, reqs, failures):
    """ all query paths of `model` against the joint P; returns a checksum """
    dom, tol, acc = model.domain, 1e-9*float(model.total), 0.0
    def cmp(what, got, want):
        got = np.asarray(got, dtype=float)
        if got.shape != want.shape or not np.allclose(got, want, rtol=1e-9, atol=tol):
            err = np.max(np.abs(got-want)) if got.shape == want.shape else float('nan')
            failures.append('%s: %s differs from the joint (max abs error %.3g)' % (tag, what, err))
        return float((got.ravel() * np.cos(np.arange(got.size))).sum())
    acc += cmp('datavector()', model.datavector(flatten=False), P)
    for r in reqs:
        acc += cmp('project(%s)' % (r,), model.project(r).values, oracle(P, dom, r))
    prng = np.random.RandomState(5)
    Qs = [prng.rand(2, n) for n in dom.shape]
    want = P
    for i, Q in enumerate(Qs):
        want = np.moveaxis(np.tensordot(Q, want, axes=(1, i)), 0, i)
    acc += cmp('krondot', model.krondot(Qs), want)
    bulk = model.calculate_many_marginals(reqs)      # populates the marginal cache
    for r in reqs:
        acc += cmp('bulk %s' % (r,), bulk[r].values, oracle(P, dom, r))
    for r in reqs[::2]:
        acc += cmp('cached project(%s)' % (r,), model.project(r).values, oracle(P, dom, r))
    return acc

def roundtrip(model, tmpdir, name):
    path = os.path.join(tmpdir, name + '.pkl')
    GraphicalModel.save(model, path)
    return GraphicalModel.load(path)

def rand_factor(dom, cl, prng):
    d = dom.project(cl)
    return Factor(d, prng.randn(*d.shape))

def build(attrs, shape, cliques, total, seed):
    prng = np.random.RandomState(seed)
    dom = Domain(attrs, shape)
    model = GraphicalModel(dom, cliques, total=total)
    model.potentials = CliqueVector({ cl : rand_factor(dom, cl, prng) for cl in model.cliques })
    return model, prng

STRUCTS = [
  ('chain',           'abcd',  (2,3,4,2),   [('a','b'),('b','c'),('c','d')], 1.0),
  ('star + 3-clique', 'abcde', (2,3,2,3,2), [('a','b','c'),('c','d'),('c','e')], 80.0),
  ('two components',  'abcd',  (3,2,2,3),   [('a','b'),('c','d')], 7),
]
HISTORIES = ['built once', 'potential replaced by item assignment', 'updated with combine()',
             'cache populated, then potential replaced and cache refreshed']

failures, lines = [], []
with tempfile.TemporaryDirectory() as tmpdir:
    for k, (name, attrs, shape, cliques, total) in enumerate(STRUCTS):
        for h, hist in enumerate(HISTORIES):
            model, prng = build(list(attrs), shape, cliques, total, seed=31*k+h)
            dom = model.domain
            reqs = requests(dom, np.random.RandomState(11+k))
            if h == 1:
                cl = model.cliques[-1]
                model.potentials[cl] = rand_factor(dom, cl, prng) * 2.0
            elif h == 2:
                other = CliqueVector({ cl : rand_factor(dom, cl, prng) for cl in model.cliques[:2] })
                model.potentials.combine(other)
            elif h == 3:
                model.calculate_many_marginals(reqs[:5])
                cl = model.cliques[0]
                model.potentials[cl] = rand_factor(dom, cl, prng) + 1.5
                model.calculate_many_marginals(reqs[:5])
            tag = '%s / %s' % (name, hist)
            P = joint(model)
            a0 = check(tag + ' / before save', model, P, reqs, failures)
            loaded = roundtrip(model, tmpdir, 'm%d_%d' % (k, h))
            if loaded.cliques != model.cliques or loaded.total != model.total:
                failures.append(tag + ': structure or total changed by save/load')
            a1 = check(tag + ' / after load', loaded, P, reqs, failures)
            # a second generation (load -> save -> load) must still be the same model
            again = roundtrip(loaded, tmpdir, 'm%d_%d_b' % (k, h))
            a2 = check(tag + ' / after second load', again, P, reqs, failures)
            lines.append('%-18s | %-62s | %.6f %.6f %.6f' % (name, hist, a0, a1, a2))

if failures:
    print('FAIL: the re-loaded model does not answer from the same joint distribution')
    for f in failures[:12]:
        print('  -', f)
    print('  (%d violations in total)' % len(failures))
    sys.exit(1)
print('PASS')
for l in lines: print(l)
print('digest', hashlib.sha256('\n'.join(lines).encode()).hexdigest()[:16])

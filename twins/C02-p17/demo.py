""" C02 / round 11 / pair 1 -- GraphicalModel.krondot answers == Kronecker query applied to the explicit joint.

Oracle: the joint is built independently with numpy (broadcast-sum of the potentials,
softmax, times total); the Kronecker query is applied with np.tensordot, one axis at a time.
"""
import os, sys, hashlib, warnings
ROOT = os.path.dirname(os.path.dirname(os.path.dirname(os.path.abspath(__file__))))
sys.path.insert(0, os.path.join(ROOT, 'src'))
warnings.simplefilter('ignore')
import numpy as np
from mbi import Domain, Factor, GraphicalModel, CliqueVector

def joint(model):
    dom = model.domain
    logp = np.zeros(dom.shape)
    for cl in model.cliques:
        f = model.potentials[cl]
        shape = [dom[a] if a in f.domain.attrs else 1 for a in dom.attrs]
        order = [f.domain.attrs.index(a) for a in dom.attrs if a in f.domain.attrs]
        logp = logp + f.values.transpose(order).reshape(shape)
    p = np.exp(logp - logp.max())
    return model.total * p / p.sum()

def kron_oracle(P, matrices):
    for ax, Q in enumerate(matrices):
        P = np.moveaxis(np.tensordot(Q, P, axes=([1], [ax])), 0, ax)
    return P

def make(attrs, shape, cliques, total, seed):
    prng = np.random.RandomState(seed)
    dom = Domain(attrs, shape)
    model = GraphicalModel(dom, cliques, total=total)
    model.potentials = CliqueVector({ cl : Factor(dom.project(cl), prng.normal(size=dom.project(cl).shape))
                                      for cl in model.cliques })
    return model

MODELS = {
    'chain'  : (list('abcd'), [2,3,4,5], [('a','b'),('b','c'),('c','d')], 1.0),
    'star'   : (list('abcd'), [3,2,4,3], [('a','b'),('a','c'),('a','d')], 37.5),
    'tri'    : (list('abcde'), [2,3,2,3,2], [('a','b','c'),('c','d','e')], 10.0),
    'single' : (list('ab'), [3,4], [('a','b')], 2.0),
}

def queries(shape, prng):
    n = len(shape)
    out = {}
    out['unit_test_like'] = [np.ones((1,k)) if i % 2 == 0 else np.eye(k) for i,k in enumerate(shape)]
    out['all_totals']     = [np.ones((1,k)) for k in shape]
    out['all_identity']   = [np.eye(k) for k in shape]
    out['random_rows']    = [prng.rand(1 + i % 3, k) for i,k in enumerate(shape)]
    out['prefix_0_1']     = [np.tril(np.ones((k,k))) for k in shape]
    # single-row queries that are NOT the total query
    out['one_range_row']  = [np.r_[np.ones(k-1), 0.0][None,:] for k in shape]
    out['mean_of_first']  = [np.arange(1., shape[0]+1)[None,:]] + [np.eye(k) for k in shape[1:]]
    out['scaled_total']   = [np.ones((1,k)) for k in shape[:-1]] + [0.5*np.ones((1,shape[-1]))]
    out['weighted_rows']  = [(1.0 + prng.rand(1, k)) for k in shape]
    return out

def main():
    digest = hashlib.sha256()
    failures = []
    for name, (attrs, shape, cliques, total) in MODELS.items():
        model = make(attrs, shape, cliques, total, seed=len(name))
        P = joint(model)
        prng = np.random.RandomState(7)
        for qname, mats in queries(shape, prng).items():
            got = model.krondot(mats)
            want = kron_oracle(P, mats)
            tag = '%s/%s' % (name, qname)
            if got.shape != want.shape:
                failures.append('%s: shape %s, expected %s' % (tag, got.shape, want.shape))
                continue
            if not np.allclose(got, want, rtol=1e-9, atol=1e-12):
                failures.append('%s: max abs error %.3e (answer sum %.6g, expected %.6g)' %
                                (tag, np.abs(got-want).max(), got.sum(), want.sum()))
            digest.update(tag.encode())
            digest.update(np.array2string(got.flatten(), precision=7, floatmode='fixed').encode())
    if failures:
        print('FAIL: krondot disagrees with the Kronecker query applied to the explicit joint')
        for f in failures:
            print('  ' + f)
        sys.exit(1)
    print('PASS', digest.hexdigest())

if __name__ == '__main__':
    main()

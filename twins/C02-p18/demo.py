""" C02 / round 11 / pair 2 -- answers served from belief propagation (cached clique marginals,
bulk queries, krondot's normaliser) equal the marginals of the explicit joint, for junction
trees of every shape: one clique, two cliques, chains of odd and even length, stars, branching.

Oracle: the joint is built independently with numpy and marginalised with ndarray.sum.
"""
import os, sys, hashlib, itertools, warnings
ROOT = os.path.dirname(os.path.dirname(os.path.dirname(os.path.abspath(__file__))))
sys.path.insert(0, os.path.join(ROOT, 'src'))
warnings.simplefilter('ignore')
import numpy as np
from mbi import Domain, Factor, GraphicalModel, CliqueVector

def joint(model):
    dom = model.domain
    logp = np.zeros(dom.shape)
    for cl in model.cliques:
        f = model.potentials[cl]
        shape = [dom[a] if a in f.domain.attrs else 1 for a in dom.attrs]
        order = [f.domain.attrs.index(a) for a in dom.attrs if a in f.domain.attrs]
        logp = logp + f.values.transpose(order).reshape(shape)
    p = np.exp(logp - logp.max())
    return model.total * p / p.sum()

def marginal(P, dom, attrs):
    drop = tuple(i for i, a in enumerate(dom.attrs) if a not in attrs)
    kept = [a for a in dom.attrs if a not in [dom.attrs[i] for i in drop]]
    M = P.sum(axis=drop) if drop else P
    return M.transpose([kept.index(a) for a in attrs]) if attrs else M

def make(attrs, shape, cliques, total, seed):
    prng = np.random.RandomState(seed)
    dom = Domain(attrs, shape)
    model = GraphicalModel(dom, cliques, total=total)
    model.potentials = CliqueVector({ cl : Factor(dom.project(cl), prng.normal(size=dom.project(cl).shape))
                                      for cl in model.cliques })
    return model

MODELS = {
    'one_clique'  : ('abc',    [2,3,2],       ['abc'], 5.0),
    'two_cliques' : ('abc',    [2,3,4],       ['ab','bc'], 1.0),
    'chain3'      : ('abcd',   [2,3,4,5],     ['ab','bc','cd'], 10.0),
    'chain4'      : ('abcde',  [2,3,2,3,2],   ['ab','bc','cd','de'], 3.0),
    'chain5'      : ('abcdef', [2,3,2,3,2,2], ['ab','bc','cd','de','ef'], 1.0),
    'star3'       : ('abcd',   [3,2,4,3],     ['ab','ac','ad'], 37.5),
    'two_stars'   : ('abcdef', [2,2,3,2,3,2], ['ab','ac','ad','de','df'], 8.0),
    'triples'     : ('abcde',  [2,3,2,3,2],   ['abc','cde'], 10.0),
    'disjoint'    : ('abcd',   [2,3,2,3],     ['ab','cd'], 4.0),
}

def subsets(attrs, prng):
    out = [()]
    for r in (1, 2, 3):
        combos = list(itertools.combinations(attrs, r))
        for i in prng.choice(len(combos), min(6, len(combos)), replace=False):
            c = list(combos[i]); prng.shuffle(c); out.append(tuple(c))
    out.append(tuple(attrs))
    return out

def main():
    digest = hashlib.sha256()
    failures = []
    def check(tag, got, want):
        got = np.asarray(got); want = np.asarray(want)
        if got.shape != want.shape:
            failures.append('%s: shape %s, expected %s' % (tag, got.shape, want.shape)); return
        if not np.allclose(got, want, rtol=1e-8, atol=1e-11):
            failures.append('%s: max abs error %.3e (sum %.6g, expected %.6g)' %
                            (tag, np.abs(got-want).max(), got.sum(), want.sum()))
        digest.update(tag.encode())
        digest.update(np.array2string(got.flatten(), precision=7, floatmode='fixed').encode())

    for name, (attrs, shape, cliques, total) in MODELS.items():
        cliques = [tuple(c) for c in cliques]
        model = make(list(attrs), shape, cliques, total, seed=len(name))
        dom = model.domain
        P = joint(model)
        prng = np.random.RandomState(11)
        projs = subsets(list(attrs), prng)
        # 1. before anything is cached
        for pr in projs[:4]:
            check('%s/cold/%s' % (name, ''.join(pr)), model.project(pr).values, marginal(P, dom, pr))
        # 2. Kronecker query (uses BP only for the normaliser)
        mats = [np.eye(k) if i % 2 else np.ones((1,k)) for i, k in enumerate(shape)]
        want = P
        for ax, Q in enumerate(mats):
            want = np.moveaxis(np.tensordot(Q, want, axes=([1],[ax])), 0, ax)
        check('%s/krondot' % name, model.krondot(mats), want)
        # 3. clique marginals from belief propagation
        mu = model.belief_propagation(model.potentials)
        for cl in model.cliques:
            check('%s/bp/%s' % (name, ''.join(cl)), mu[cl].values, marginal(P, dom, cl))
        # 4. bulk query, which also populates the cache
        ans = model.calculate_many_marginals(projs)
        for pr in projs:
            check('%s/bulk/%s' % (name, ''.join(pr)), ans[pr].values, marginal(P, dom, pr))
        # 5. single queries now served from the cache where possible
        for pr in projs:
            check('%s/warm/%s' % (name, ''.join(pr)), model.project(pr).values, marginal(P, dom, pr))

    if failures:
        print('FAIL: %d answers differ from the marginals of the explicit joint' % len(failures))
        for f in failures[:40]:
            print('  ' + f)
        sys.exit(1)
    print('PASS', digest.hexdigest())

if __name__ == '__main__':
    main()

""" C02 / round 12 / pair 1 -- GraphicalModel.project(): variable elimination restricted to the
part of the model that is connected to the requested attributes.

Every answer of project() (without and with the marginal cache, and after save/load) is compared
with the marginal of the explicit joint distribution, which is built here with plain numpy.
Exit status 0 + PASS + digest when everything agrees, 1 + FAIL + explanation otherwise.
"""
import os, sys, itertools, hashlib, tempfile, warnings
ROOT = os.path.dirname(os.path.dirname(os.path.dirname(os.path.dirname(os.path.abspath(__file__)))))
sys.path.insert(0, os.path.join(ROOT, 'src'))
warnings.simplefilter('ignore')
import numpy as np
from mbi import Domain, Factor, GraphicalModel, CliqueVector
import mbi
assert os.path.abspath(mbi.__file__).startswith(ROOT), 'wrong mbi imported: %s' % mbi.__file__

MODELS = [
    # name, attrs (domain order), shape, cliques, total
    ('chain-aligned',  'abcd',    [2,3,4,5],       ['ab','bc','cd'],                 10.0),
    ('chain-5',        'abcde',   [2,3,2,3,2],     ['ab','bc','cd','de'],            1.0),
    ('fishbone',       'abcde',   [2,3,2,3,2],     ['ab','ac','bd','de'],            7.5),
    ('fishbone-perm',  'edcba',   [3,2,2,3,2],     ['ab','ac','bd','de'],            3.0),
    ('caterpillar',    'abcdefg', [2,2,3,2,2,3,2], ['ab','bc','cd','be','ef','cg'],  100.0),
    ('triples',        'abcdefg', [2,2,2,3,2,2,2], ['abc','cd','ae','ef','fg'],      12.0),
    ('components',     'abcdef',  [2,3,2,3,2,2],   ['ab','c','de','ef'],             5.0),
    ('independent',    'abcd',    [2,3,2,3],       ['a','b','c','d'],                2.0),
]

def build(attrs, shape, cliques, total, seed):
    prng = np.random.RandomState(seed)
    domain = Domain(list(attrs), shape)
    model = GraphicalModel(domain, [tuple(c) for c in cliques], total=total)
    pots = {}
    for cl in model.cliques:
        dom = domain.project(cl)
        pots[cl] = Factor(dom, prng.normal(0, 1.5, size=dom.shape))
    model.potentials = CliqueVector(pots)
    return model

def oracle_joint(model):
    """ explicit joint (counts) in domain order, plain numpy only """
    dom = model.domain
    logp = np.zeros(dom.shape)
    for cl, f in model.potentials.items():
        src = list(f.domain.attrs)
        vals = f.values
        order = sorted(range(len(src)), key=lambda i: dom.attrs.index(src[i]))
        vals = np.transpose(vals, order)                      # clique attrs in domain order
        shp = [dom.config[a] if a in src else 1 for a in dom.attrs]
        logp = logp + vals.reshape(shp)
    p = np.exp(logp - logp.max())
    return p / p.sum() * model.total

def oracle_marginal(joint, dom, attrs):
    keep = [dom.attrs.index(a) for a in attrs]
    drop = tuple(i for i in range(len(dom.attrs)) if i not in keep)
    m = joint.sum(axis=drop)                                 # remaining axes in domain order
    rest = [i for i in range(len(dom.attrs)) if i in keep]
    return np.transpose(m, [rest.index(i) for i in keep]) if keep else np.asarray(m)

def requests(attrs):
    out = [()]
    for k in range(1, len(attrs)+1):
        for sub in itertools.combinations(attrs, k):
            if k <= 2:
                out.extend(itertools.permutations(sub))
            else:
                out.extend([sub, sub[::-1], sub[1:] + sub[:1]])
    return out

def main():
    failures, h, n = [], hashlib.sha256(), 0
    def check(tag, name, attrs, got, want, total):
        got = np.asarray(got.values if hasattr(got, 'values') else got, dtype=float)
        ok = got.shape == want.shape and np.allclose(got, want, rtol=1e-8, atol=1e-10) \
             and np.isclose(got.sum(), total)
        if not ok:
            err = np.abs(got-want).max() if got.shape == want.shape else float('nan')
            failures.append('%-14s %-10s project(%s): max abs deviation from the joint %.3g (sum %.6g, total %g)'
                            % (name, tag, ','.join(attrs), err, got.sum(), total))
        return ok

    for seed, (name, attrs, shape, cliques, total) in enumerate(MODELS):
        model = build(attrs, shape, cliques, total, seed)
        joint = oracle_joint(model)
        reqs = requests(tuple(attrs))
        if not np.allclose(model.datavector(flatten=False), joint):
            failures.append('%s: datavector() differs from the oracle joint' % name)
        # 1. no cached marginals: every request goes through variable elimination
        assert not hasattr(model, 'marginals')
        for r in reqs:
            want = oracle_marginal(joint, model.domain, r)
            got = model.project(r)
            check('uncached', name, r, got, want, total)
            if tuple(got.domain.attrs) != tuple(r):
                failures.append('%s: project(%s) is labelled %s' % (name, r, got.domain.attrs))
            h.update((np.round(np.asarray(got.values, dtype=float), 6) + 0.0).tobytes()); n += 1
        # list arguments and single requests
        for r in reqs[1:6]:
            check('list-arg', name, r, model.project(list(r)), oracle_marginal(joint, model.domain, r), total)
        # 2. save / load, still without a cache
        with tempfile.TemporaryDirectory() as d:
            path = os.path.join(d, 'm.pkl')
            GraphicalModel.save(model, path)
            model2 = GraphicalModel.load(path)
        for r in reqs[::3]:
            check('reloaded', name, r, model2.project(r), oracle_marginal(joint, model.domain, r), total)
        # 3. bulk query populates the cache; the same requests must give the same answers
        sample = reqs[::2]
        bulk = model.calculate_many_marginals(sample)
        for r in sample:
            check('bulk', name, r, bulk[r], oracle_marginal(joint, model.domain, r), total)
        for r in reqs:
            check('cached', name, r, model.project(r), oracle_marginal(joint, model.domain, r), total)

    if failures:
        print('FAIL: %d answers of project() are not the marginal of the joint distribution' % len(failures))
        for f in failures[:25]:
            print('  ' + f)
        if len(failures) > 25:
            print('  ... and %d more' % (len(failures)-25))
        print('The answers above are proper distributions with the right total, but belong to a model from')
        print('which some potentials were left out: part of the junction tree was not reached.')
        sys.exit(1)
    print('PASS: %d requests on %d models agree with the explicit joint (uncached, reloaded, bulk, cached)'
          % (n, len(MODELS)))
    print('digest', h.hexdigest())
    sys.exit(0)

if __name__ == '__main__':
    main()

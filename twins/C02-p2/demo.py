"""Pair 2 demo -- GraphicalModel.krondot (src/mbi/graphical_model.py).

Property C02, Kronecker clause: the answer to Q1 x Q2 x ... x Qd equals
(Q1 x ... x Qd) applied to the single explicit joint distribution (which sums to
the model total), and therefore agrees with datavector() and project().

The oracle builds the joint cell by cell with plain python loops and applies the
query matrices with numpy.tensordot; it never calls krondot or mbi.Factor
arithmetic.

exit 0 + "PASS <digest>"  : every workload agrees with the oracle
exit 1 + "FAIL ..."       : some workload disagrees
"""
import os, sys, hashlib, string

ROOT = os.path.dirname(os.path.dirname(os.path.dirname(os.path.abspath(__file__))))
sys.path.insert(0, os.path.join(ROOT, 'src'))
import warnings
warnings.filterwarnings('ignore')
import numpy as np
from mbi import Domain, Factor, GraphicalModel, CliqueVector
import mbi
assert os.path.abspath(mbi.__file__).startswith(os.path.join(ROOT, 'src')), mbi.__file__

TOL = 1e-9
digest = hashlib.sha256()
failures = []


def record(tag, arr):
    a = np.round(np.asarray(arr, dtype=float), 6) + 0.0
    digest.update(tag.encode())
    digest.update(repr(a.shape).encode())
    digest.update(np.ascontiguousarray(a).tobytes())


def oracle_joint(model):
    dom = model.domain
    logp = np.zeros(dom.shape)
    for idx in np.ndindex(*dom.shape):
        s = 0.0
        for cl in model.cliques:
            f = model.potentials[cl]
            sub = tuple(idx[dom.attrs.index(a)] for a in f.domain.attrs)
            s += f.values[sub]
        logp[idx] = s
    p = np.exp(logp - logp.max())
    return p / p.sum() * model.total


def oracle_kron(joint, mats):
    out = joint
    for i, Q in enumerate(mats):
        out = np.moveaxis(np.tensordot(Q, out, axes=([1], [i])), 0, i)
    return out


def check(tag, got, want):
    got = np.asarray(got)
    if got.shape != want.shape:
        failures.append('%s: shape %s, expected %s' % (tag, got.shape, want.shape))
        return
    err = np.abs(got - want).max()
    if not err <= TOL * max(1.0, np.abs(want).max()):
        failures.append('%s: max abs deviation from (Q1 x ... x Qd) . joint = %.3e  '
                        '(sum of answers %.6g, oracle %.6g)' % (tag, err, got.sum(), want.sum()))
    record(tag, got)


def build(name, attrs, shape, cliques, total, seed):
    prng = np.random.RandomState(seed)
    dom = Domain(attrs, shape)
    model = GraphicalModel(dom, cliques, total=total)
    pots = {cl: Factor(dom.project(cl), prng.normal(size=dom.project(cl).shape))
            for cl in model.cliques}
    model.potentials = CliqueVector(pots)
    return name, model, prng


def identity(n, prng): return np.eye(n)
def total(n, prng): return np.ones((1, n))
def prefix(n, prng): return np.tril(np.ones((n, n)))
def ident_total(n, prng): return np.vstack([np.eye(n), np.ones((1, n))])
def ranges(n, prng): return np.array([[1.0 if i <= j <= i + 1 else 0.0 for j in range(n)] for i in range(n - 1)])
def halves(n, prng): return np.array([[1.0] * (n // 2) + [0.0] * (n - n // 2), [0.0] * (n // 2) + [1.0] * (n - n // 2)])
def diffs(n, prng): return np.eye(n)[:-1] - np.eye(n)[1:]
def weighted(n, prng): return prng.rand(2, n)
def point(n, prng): return np.eye(n)[:1]

WORKLOADS = [
    # partitions of every attribute (each column of each Qi sums to one): what the unit test uses
    ('unit-test-mix', [total, identity, total, identity, total]),
    ('all-identity', [identity] * 5),
    ('all-total', [total] * 5),
    ('halves', [halves, identity, halves, total, identity]),
    # everything below is NOT a partition of the attribute
    ('prefix', [prefix, total, identity, prefix, total]),
    ('identity+total', [ident_total, identity, ident_total, total, identity]),
    ('ranges', [identity, ranges, total, ranges, identity]),
    ('single-cell', [point, point, total, point, point]),
    ('differences', [identity, diffs, total, identity, total]),
    ('weighted', [weighted, total, weighted, identity, total]),
]

MODELS = [
    build('chain-abcd-unit', 'abcd', (2, 3, 4, 5), [('a', 'b'), ('b', 'c'), ('c', 'd')], 1.0, 10),
    build('chain-abcd-10', 'abcd', (2, 3, 4, 5), [('a', 'b'), ('b', 'c'), ('c', 'd')], 10.0, 11),
    build('star-d-250', 'abcd', (2, 3, 4, 3), [('a', 'd'), ('b', 'd'), ('c', 'd')], 250.0, 12),
    build('tri-acd+bc-40', 'abcd', (2, 3, 4, 3), [('a', 'c', 'd'), ('b', 'c')], 40.0, 13),
    build('branch-5-1000', 'abcde', (2, 3, 2, 3, 2),
          [('a', 'd', 'e'), ('b', 'd'), ('c', 'e'), ('b', 'c', 'd')], 1000.0, 14),
    build('independent-3', 'abc', (3, 2, 4), [('a',), ('b',), ('c',)], 0.5, 15),
]


def run(name, model, prng):
    dom = model.domain
    joint = oracle_joint(model)
    for wname, makers in WORKLOADS:
        mats = [mk(n, prng) for mk, n in zip(makers, dom.shape)]
        check('%s/krondot[%s]' % (name, wname), model.krondot(mats), oracle_kron(joint, mats))

    # cross-path agreement: Kronecker answers vs datavector and project
    ident = [np.eye(n) for n in dom.shape]
    check('%s/krondot==datavector' % name, model.krondot(ident), model.datavector(flatten=False))
    keep = dom.attrs[::2]
    mats = [np.eye(n) if a in keep else np.ones((1, n)) for a, n in zip(dom.attrs, dom.shape)]
    want = model.project(keep).values.reshape([dom[a] if a in keep else 1 for a in dom.attrs])
    check('%s/krondot==project%s' % (name, list(keep)), model.krondot(mats), want)
    # a prefix workload must be the cumulative sum of the marginal it is supported on
    first = dom.attrs[0]
    mats = [np.tril(np.ones((n, n))) if a == first else np.ones((1, n)) for a, n in zip(dom.attrs, dom.shape)]
    want = np.cumsum(model.project((first,)).values).reshape([dom[a] if a == first else 1 for a in dom.attrs])
    check('%s/krondot-prefix==cumsum(project[%s])' % (name, first), model.krondot(mats), want)
    # same again once the marginal cache is populated
    model.calculate_many_marginals([(first,)])
    check('%s/cached/krondot-prefix==cumsum(project[%s])' % (name, first), model.krondot(mats),
          np.cumsum(model.project((first,)).values).reshape(want.shape))


for name, model, prng in MODELS:
    run(name, model, prng)

if failures:
    print('FAIL: %d Kronecker workloads are not answered from the joint distribution' % len(failures))
    for line in failures[:12]:
        print('   ', line)
    if len(failures) > 12:
        print('    ... and %d more' % (len(failures) - 12))
    sys.exit(1)
print('PASS', digest.hexdigest())
sys.exit(0)

"""C02 / round 13 / pair 1 -- same-domain fast path of Factor.__add__ / Factor.__mul__.

Every query path of a GraphicalModel is compared with an oracle that builds the explicit
joint distribution cell by cell (plain Python loops, no Factor arithmetic).
Exit 0 + PASS + digest when all answers agree, exit 1 + FAIL otherwise.
"""
import os, sys
if os.environ.get('PYTHONHASHSEED') != '0':      # greedy tie-breaking iterates sets of str
    env = dict(os.environ, PYTHONHASHSEED='0')
    os.execve(sys.executable, [sys.executable] + sys.argv, env)

ROOT = os.path.dirname(os.path.dirname(os.path.dirname(os.path.abspath(__file__))))
sys.path.insert(0, os.path.join(ROOT, 'src'))

import hashlib, itertools, tempfile, warnings
import numpy as np
warnings.simplefilter('ignore')
from mbi import Domain, Factor, GraphicalModel, CliqueVector
import mbi
assert os.path.abspath(mbi.__file__).startswith(ROOT), mbi.__file__

TOL = 1e-9

# ---------------------------------------------------------------- oracle
def joint(domain, pots, total):
    """ explicit joint in domain order; pots: {clique (canonical tuple) : ndarray} """
    J = np.zeros(domain.shape)
    pos = { a : i for i, a in enumerate(domain.attrs) }
    for idx in np.ndindex(*domain.shape):
        s = 0.0
        for cl, arr in pots.items():
            s += arr[tuple(idx[pos[a]] for a in cl)]
        J[idx] = s
    J = np.exp(J - J.max())
    return J * (total / J.sum())

def marginal(domain, J, attrs):
    pos = { a : i for i, a in enumerate(domain.attrs) }
    out = np.zeros(tuple(domain[a] for a in attrs))
    for idx in np.ndindex(*domain.shape):
        out[tuple(idx[pos[a]] for a in attrs)] += J[idx]
    return out

# ---------------------------------------------------------------- models
def build(attrs, shape, cliques, total, seed, zeros=()):
    rng = np.random.RandomState(seed)
    dom = Domain(attrs, shape)
    model = GraphicalModel(dom, cliques, total=total)
    pots = {}
    for cl in sorted(model.cliques):
        arr = rng.randn(*dom.project(cl).shape) * 1.5
        pots[cl] = arr
    for cl, cell in zeros:                      # structural zeros
        pots[cl][cell] = -np.inf
    model.potentials = CliqueVector({ cl : Factor(dom.project(cl), pots[cl].copy()) for cl in model.cliques })
    return model, pots

MODELS = [
  # a clique with a private attribute between two leaf cliques; b and e have EQUAL cardinality
  ('hub-eq',  ['c','b','e','a','f'], [2,3,3,4,2], [('a','b'),('b','c','e'),('e','f')], 7.5, 1, ()),
  # same structure, b and e of different cardinality
  ('hub-ne',  ['c','b','e','a','f'], [2,2,3,4,2], [('a','b'),('b','c','e'),('e','f')], 1.0, 2, ()),
  # the chain of the unit tests
  ('chain',   ['a','b','c','d'], [2,3,4,5], [('a','b'),('b','c'),('c','d')], 10.0, 3, ()),
  # branching tree of 3-attribute cliques, shuffled domain order, a structural zero
  ('tree3',   ['d','e','b','c','a','g'], [2,2,2,2,2,3], [('b','a'),('d','c','a'),('d','e','a'),('e','g')], 42.0, 4,
              ((('e','g'), (0,1)),)),
  # attribute-disjoint parts and a singleton
  ('parts',   ['p','q','r','s','t'], [3,3,2,2,2], [('p','q'),('r','s')], 0.25, 5, ()),
]

lines, failures = [], []

def check(tag, got, want):
    got = np.asarray(got, dtype=float)
    if got.shape != want.shape:
        failures.append('%s: shape %s, expected %s' % (tag, got.shape, want.shape)); return
    err = np.abs(got - want).max() if want.size else 0.0
    if not err <= TOL:
        failures.append('%s: max abs error %.3e' % (tag, err)); return
    lines.append('%s %s' % (tag, ' '.join('%.8f' % v for v in got.flatten())))

def guarded(tag, fn, want):
    try:
        got = fn()
    except Exception as e:
        failures.append('%s: raised %s: %s' % (tag, type(e).__name__, e)); return
    check(tag, got, want)

for name, attrs, shape, cliques, total, seed, zeros in MODELS:
    model, pots = build(attrs, shape, cliques, total, seed, zeros)
    dom = model.domain
    J = joint(dom, pots, total)
    requests = [s for r in range(0, 4) for c in itertools.combinations(attrs, r) for s in itertools.permutations(c)]
    requests.append(tuple(attrs[::-1]))
    oracle = { s : marginal(dom, J, s) for s in requests }

    # 1. single queries, nothing cached
    assert not hasattr(model, 'marginals')
    for s in requests:
        guarded('%s project-cold %s' % (name, ','.join(s)), lambda: model.project(s).values, oracle[s])
        guarded('%s total-cold %s' % (name, ','.join(s)), lambda: np.array(model.project(s).values.sum()), np.array(total))
    # 2. full vector
    guarded('%s datavector' % name, lambda: model.datavector(flatten=False), J)
    # 3. Kronecker query (prefix sums on every other attribute, identity elsewhere), still nothing cached
    mats = [np.tril(np.ones((n,n))) if i % 2 == 0 else np.eye(n) for i, n in enumerate(shape)]
    want = J
    for ax, Q in enumerate(mats):
        want = np.moveaxis(np.tensordot(Q, want, axes=(1, ax)), 0, ax)
    guarded('%s krondot' % name, lambda: model.krondot(mats), want)
    # 4. bulk query (populates the cache), then single queries from the warm model
    try:
        bulk = model.calculate_many_marginals(requests)
    except Exception as e:
        failures.append('%s bulk: raised %s: %s' % (name, type(e).__name__, e)); bulk = {}
    for s in requests:
        if s in bulk:
            check('%s bulk %s' % (name, ','.join(s)), bulk[s].values, oracle[s])
        guarded('%s project-warm %s' % (name, ','.join(s)), lambda: model.project(s).values, oracle[s])
    # 5. save / load, then drop the cache of the copy and ask again
    with tempfile.TemporaryDirectory() as tmp:
        path = os.path.join(tmp, 'model.pkl')
        GraphicalModel.save(model, path)
        copy = GraphicalModel.load(path)
    for s in requests[::7]:
        guarded('%s loaded-warm %s' % (name, ','.join(s)), lambda: copy.project(s).values, oracle[s])
    del copy.marginals
    for s in requests[::7]:
        guarded('%s loaded-cold %s' % (name, ','.join(s)), lambda: copy.project(s).values, oracle[s])

if failures:
    print('FAIL: %d answers differ from the marginal of the explicit joint distribution' % len(failures))
    for f in failures[:25]:
        print('  ' + f)
    if len(failures) > 25:
        print('  ... and %d more' % (len(failures) - 25))
    sys.exit(1)
digest = hashlib.sha256('\n'.join(lines).encode()).hexdigest()
print('PASS: %d answers equal the marginals of the explicit joint' % len(lines))
print('digest', digest)
sys.exit(0)

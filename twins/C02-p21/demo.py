import os, sys, itertools, hashlib
ROOT = os.path.dirname(os.path.dirname(os.path.dirname(os.path.abspath(__file__))))
sys.path.insert(0, os.path.join(ROOT, 'src'))
import numpy as np
from mbi import Domain, GraphicalModel, CliqueVector, Factor

def oracle(model, attrs):
    """ marginal of the explicit joint, laid out in the requested order (plain numpy) """
    dom = model.domain
    logp = np.zeros(dom.shape)
    for cl in model.cliques:
        f = model.potentials[cl]
        shape = [dom[a] if a in f.domain.attrs else 1 for a in dom.attrs]
        src = f.values.transpose([f.domain.attrs.index(a) for a in dom.attrs if a in f.domain.attrs])
        logp = logp + src.reshape(shape)
    p = np.exp(logp - logp.max()); p = p / p.sum() * model.total
    drop = tuple(i for i, a in enumerate(dom.attrs) if a not in attrs)
    m = p.sum(axis=drop)
    kept = [a for a in dom.attrs if a in attrs]
    return m.transpose([kept.index(a) for a in attrs])

CASES = [
    ('chain',  ['a','b','c','d'], [2,3,4,5], [('a','b'),('b','c'),('c','d')], 1.0),
    ('star',   ['a','b','c','d'], [2,3,4,5], [('a','d'),('b','d'),('c','d')], 10.0),
    ('branch', ['a','b','c','d','e'], [2,3,2,4,3], [('a','c'),('b','c'),('c','e'),('d','e')], 7.5),
    ('tri',    ['a','b','c','d','e'], [2,3,2,3,2], [('a','b','e'),('c','e'),('d','c')], 100.0),
]

lines, bad = [], []
for name, attrs, shape, cliques, total in CASES:
    np.random.seed(len(name) * 17)
    dom = Domain(attrs, shape)
    model = GraphicalModel(dom, cliques, total=total)
    model.potentials = CliqueVector({cl: Factor(dom.project(cl), np.random.randn(*dom.project(cl).shape))
                                     for cl in model.cliques})
    projs = [p for r in range(0, 5) for s in itertools.combinations(attrs, r)
             for p in itertools.permutations(s)]
    ans = model.calculate_many_marginals(projs)
    for p in projs:
        got, want = ans[p], oracle(model, p)
        ok = got.domain.attrs == tuple(p) and got.values.shape == want.shape \
             and np.allclose(got.values, want, rtol=1e-9, atol=1e-12) \
             and np.isclose(got.values.sum(), total)
        if not ok:
            bad.append('%s: calculate_many_marginals(%s) is not the marginal of the joint in that order' % (name, (p,)))
        lines.append('%s %s %s' % (name, ','.join(p), np.round(want, 9).tolist()))
    # single queries after the cache has been populated
    for p in projs[::7]:
        got, want = model.project(p), oracle(model, p)
        if got.values.shape != want.shape or not np.allclose(got.values, want, rtol=1e-9, atol=1e-12):
            bad.append('%s: project(%s) after bulk query differs from the joint' % (name, (p,)))

if bad:
    print('FAIL: %d answers differ from the explicit joint distribution' % len(bad))
    for b in bad[:10]:
        print('  ' + b)
    sys.exit(1)
print('PASS %d answers checked' % len(lines))
print('digest', hashlib.sha256('\n'.join(lines).encode()).hexdigest())

#!/usr/bin/env python
""" C02 / pair 1 : answers must survive GraphicalModel.save / GraphicalModel.load

For a handful of models (default greedy structure, explicit elimination order,
searched elimination order, isolated / size-1 attributes, unit and non-unit total)
the program

  1. builds the explicit joint distribution with plain numpy (independent oracle),
  2. queries the in-memory model (project for every attribute tuple, datavector, krondot),
  3. saves it, loads it back, and repeats every query path on the loaded model
     (project without cache, datavector, krondot, calculate_many_marginals, project
     with the cache that calculate_many_marginals left behind),
  4. saves a model whose marginal cache is already populated and re-checks the loaded copy.

Every answer is compared with the oracle; a digest of the (rounded) answers is printed.
exit 0 + PASS  : all answers agree with the oracle before and after the round trip
exit 1 + FAIL  : some query path raised or disagreed after re-loading
"""
import os, sys

ROOT = os.path.dirname(os.path.dirname(os.path.dirname(os.path.abspath(__file__))))
if os.environ.get('PYTHONHASHSEED') != '0':
    # set / dict-of-tuples iteration order feeds the message order: pin it so that the
    # digest is reproducible from run to run
    env = dict(os.environ, PYTHONHASHSEED='0')
    os.execve(sys.executable, [sys.executable] + sys.argv, env)
sys.path.insert(0, os.path.join(ROOT, 'src'))

import warnings
warnings.simplefilter('ignore')
import hashlib, itertools, tempfile, traceback
import numpy as np
import mbi
from mbi import Domain, Factor, GraphicalModel, CliqueVector

assert os.path.abspath(mbi.__file__).startswith(ROOT + os.sep), \
    'mbi imported from %s, expected the worktree %s' % (mbi.__file__, ROOT)

TOL = 1e-9
failures = []
digest_lines = []


def oracle_joint(model):
    """ explicit joint, total * softmax(sum of potentials), in domain order (numpy only) """
    dom = model.domain
    logp = np.zeros(dom.shape)
    for cl, f in model.potentials.items():
        fattrs = f.domain.attrs
        keep = [a for a in dom.attrs if a in fattrs]
        vals = np.transpose(f.values, [fattrs.index(a) for a in keep])
        vals = vals.reshape([dom[a] if a in fattrs else 1 for a in dom.attrs])
        logp = logp + vals
    p = np.exp(logp - logp.max())
    return p / p.sum() * model.total


def oracle_marginal(P, dom, attrs):
    drop = tuple(i for i, a in enumerate(dom.attrs) if a not in attrs)
    M = P.sum(axis=drop)
    rest = [a for a in dom.attrs if a in attrs]
    return np.transpose(M, [rest.index(a) for a in attrs])


def all_tuples(attrs, maxlen):
    for r in range(min(maxlen, len(attrs)) + 1):
        for t in itertools.permutations(attrs, r):
            yield t


def check(label, got, ref):
    got = np.asarray(got, dtype=float)
    ref = np.asarray(ref, dtype=float)
    if got.shape != ref.shape:
        failures.append('%s: shape %s, expected %s' % (label, got.shape, ref.shape))
        return False
    scale = max(1.0, np.abs(ref).max()) if ref.size else 1.0
    if not np.all(np.isfinite(got)) or np.abs(got - ref).max() > TOL * scale:
        failures.append('%s: differs from the explicit joint (max abs err %.3g)'
                        % (label, np.nanmax(np.abs(got - ref)) if got.size else 0.0))
        return False
    return True


def fingerprint(arrays):
    h = hashlib.sha256()
    for a in arrays:
        a = np.asarray(a, dtype=float)
        h.update(repr(a.shape).encode())
        h.update(np.array2string(np.round(a.ravel(), 7) + 0.0, threshold=10**9,
                                 floatmode='fixed', precision=7).encode())
    return h.hexdigest()[:16]


def kron_queries(dom, rng):
    Qs = []
    for i, a in enumerate(dom.attrs):
        n = dom[a]
        kind = i % 3
        if kind == 0:
            Qs.append(np.ones((1, n)))
        elif kind == 1:
            Qs.append(np.eye(n))
        else:
            Qs.append(rng.rand(2, n))
    return Qs


def kron_oracle(P, Qs):
    ans = P
    for i, Q in enumerate(Qs):
        ans = np.moveaxis(np.tensordot(Q, ans, axes=(1, i)), 0, i)
    return ans


def query_everything(tag, model, P, Qs, tuples, bulk):
    """ run every query path of `model`; returns list of answers (for the digest) """
    out = []
    dom = model.domain
    for t in tuples:
        ans = model.project(t)
        check('%s project%s' % (tag, (t,)), ans.values, oracle_marginal(P, dom, t))
        if tuple(ans.domain.attrs) != tuple(t):
            failures.append('%s project%s: attribute order %s' % (tag, (t,), ans.domain.attrs))
        out.append(ans.values)
    x = model.datavector(flatten=False)
    check('%s datavector' % tag, x, P)
    out.append(x)
    k = model.krondot(Qs)
    check('%s krondot' % tag, k, kron_oracle(P, Qs))
    out.append(k)
    if bulk:
        res = model.calculate_many_marginals(list(tuples))
        for t in tuples:
            check('%s calculate_many_marginals%s' % (tag, (t,)), res[t].values,
                  oracle_marginal(P, dom, t))
            out.append(res[t].values)
        # the cache is populated now: ask again one by one
        for t in tuples:
            ans = model.project(t)
            check('%s cached project%s' % (tag, (t,)), ans.values, oracle_marginal(P, dom, t))
            out.append(ans.values)
    return out


def scenario(name, domain, cliques, total, order, seed, tmpdir):
    rng = np.random.RandomState(seed)
    np.random.seed(seed)      # JunctionTree's order search draws from the global generator
    model = GraphicalModel(domain, cliques, total=total, elimination_order=order)
    pot = {cl: Factor(domain.project(cl), rng.randn(*domain.project(cl).shape))
           for cl in model.cliques}
    model.potentials = CliqueVector(pot)
    P = oracle_joint(model)
    Qs = kron_queries(domain, rng)
    tuples = list(all_tuples(domain.attrs, 3))
    nfail = len(failures)
    answers = []
    try:
        answers += query_everything('%s [in memory]' % name, model, P, Qs, tuples, bulk=False)

        path = os.path.join(tmpdir, name + '.pkl')
        GraphicalModel.save(model, path)
        loaded = GraphicalModel.load(path)
        if loaded.total != model.total or loaded.domain != model.domain:
            failures.append('%s: total/domain changed by the round trip' % name)
        if list(loaded.cliques) != list(model.cliques):
            failures.append('%s: maximal cliques changed by the round trip: %s -> %s'
                            % (name, model.cliques, loaded.cliques))
        answers += query_everything('%s [re-loaded]' % name, loaded, P, Qs, tuples, bulk=True)

        # round trip of a model whose cache is populated (the in-memory one gets it now)
        model.calculate_many_marginals(tuples[:3])
        GraphicalModel.save(model, path)
        loaded2 = GraphicalModel.load(path)
        answers += query_everything('%s [re-loaded with cache]' % name, loaded2, P, Qs,
                                    tuples, bulk=True)
        # and once more: a re-loaded model must itself be saveable
        GraphicalModel.save(loaded2, path)
        loaded3 = GraphicalModel.load(path)
        answers += query_everything('%s [re-loaded twice]' % name, loaded3, P, Qs,
                                    tuples[:20], bulk=False)
    except Exception as e:
        tb = traceback.extract_tb(sys.exc_info()[2])[-1]
        failures.append('%s: %s: %s (at %s:%d)' % (name, type(e).__name__, e,
                                                  os.path.basename(tb.filename), tb.lineno))
    status = 'ok' if len(failures) == nfail else 'MISMATCH'
    digest_lines.append('%-28s cliques=%-40s answers=%4d digest=%s %s'
                        % (name, model.cliques, len(answers), fingerprint(answers), status))


def main():
    D5 = Domain(['a', 'b', 'c', 'd', 'e'], [2, 3, 2, 3, 2])
    chain = [('a', 'b'), ('b', 'c'), ('c', 'd'), ('d', 'e')]
    D6 = Domain(['a', 'b', 'c', 'd', 'e', 'f'], [2, 3, 2, 2, 3, 2])
    tree = [('a', 'b', 'c'), ('c', 'd'), ('c', 'e'), ('e', 'f')]
    Dz = Domain(['u', 'v', 'w', 'x'], [3, 1, 2, 2])
    with tempfile.TemporaryDirectory() as tmp:
        scenario('chain-default', D5, chain, 1.0, None, 0, tmp)
        scenario('chain-total', D5, chain, 250.0, None, 1, tmp)
        scenario('tree-default', D6, tree, 40.0, None, 2, tmp)
        scenario('isolated-size1', Dz, [('u', 'v'), ('w',)], 3.0, None, 3, tmp)
        scenario('chain-searched-order', D5, chain, 10.0, 4, 4, tmp)
        # explicit orders; the second and third start in the middle of the chain, which
        # triangulates it into 3-attribute cliques
        scenario('chain-explicit-leaf-first', D5, chain, 10.0, ['a', 'b', 'c', 'd', 'e'], 5, tmp)
        scenario('chain-explicit-mid-first', D5, chain, 10.0, ['c', 'b', 'd', 'a', 'e'], 6, tmp)
        scenario('tree-explicit-hub-first', D6, tree, 5.0, ['c', 'e', 'a', 'b', 'd', 'f'], 7, tmp)
        # unequal attribute sizes: the cheapest first step for the greedy heuristic is the
        # small interior attribute 'u' (cost |p,u,q| = 8 < |x,p| = 12), which merges two
        # cliques; a leaf-first order (given explicitly, or found by the order search)
        # keeps the four pairwise cliques
        Dh = Domain(['x', 'p', 'u', 'q', 'y'], [6, 2, 2, 2, 6])
        hchain = [('x', 'p'), ('p', 'u'), ('u', 'q'), ('q', 'y')]
        scenario('hetero-default', Dh, hchain, 20.0, None, 8, tmp)
        scenario('hetero-explicit-leaf-first', Dh, hchain, 20.0, ['x', 'p', 'u', 'q', 'y'], 9, tmp)
        scenario('hetero-searched-order', Dh, hchain, 20.0, 40, 10, tmp)

    for line in digest_lines:
        print(line)
    if failures:
        print('FAIL: %d answers are wrong or unavailable after GraphicalModel.save/load' % len(failures))
        for f in failures[:12]:
            print('   ', f)
        if len(failures) > 12:
            print('    ... and %d more' % (len(failures) - 12))
        sys.exit(1)
    print('PASS: every query path agrees with the explicit joint before and after save/load')
    sys.exit(0)


if __name__ == '__main__':
    main()

#!/usr/bin/env python
""" C02 / pair 2 : every query path = marginal of the explicit joint, also when the
model has structural zeros (log-potentials equal to -inf)

Models: ordinary random potentials (chain, branching tree with a 3-attribute clique,
isolated / size-1 attributes, unit and non-unit totals), potentials with a few -inf cells,
potentials in which a whole attribute value is impossible, pairwise zeros that together
rule out a combination of two attributes that share no clique, and a model fitted by
FactoredInference(structural_zeros=...).

For each one the explicit joint is built with plain numpy and compared with
project (every attribute tuple up to length 3, every ordering; before and after the
marginal cache exists), calculate_many_marginals, krondot and datavector.

exit 0 + PASS : all answers are finite, agree with the joint and sum to the total
exit 1 + FAIL : otherwise
"""
import os, sys

ROOT = os.path.dirname(os.path.dirname(os.path.dirname(os.path.abspath(__file__))))
if os.environ.get('PYTHONHASHSEED') != '0':
    # set iteration order feeds the message order: pin it so the digest is reproducible
    env = dict(os.environ, PYTHONHASHSEED='0')
    os.execve(sys.executable, [sys.executable] + sys.argv, env)
sys.path.insert(0, os.path.join(ROOT, 'src'))

import warnings
warnings.simplefilter('ignore')
import hashlib, itertools, traceback
import numpy as np
np.seterr(all='ignore')
import mbi
from mbi import Domain, Factor, GraphicalModel, CliqueVector, FactoredInference

assert os.path.abspath(mbi.__file__).startswith(ROOT + os.sep), \
    'mbi imported from %s, expected the worktree %s' % (mbi.__file__, ROOT)

TOL = 1e-8
failures = []
digest_lines = []


def oracle_joint(model):
    """ explicit joint, total * softmax(sum of potentials), in domain order (numpy only) """
    dom = model.domain
    logp = np.zeros(dom.shape)
    for cl, f in model.potentials.items():
        fattrs = f.domain.attrs
        keep = [a for a in dom.attrs if a in fattrs]
        vals = np.transpose(f.values, [fattrs.index(a) for a in keep])
        vals = vals.reshape([dom[a] if a in fattrs else 1 for a in dom.attrs])
        logp = logp + vals
    p = np.exp(logp - logp.max())
    return p / p.sum() * model.total


def oracle_marginal(P, dom, attrs):
    drop = tuple(i for i, a in enumerate(dom.attrs) if a not in attrs)
    M = P.sum(axis=drop)
    rest = [a for a in dom.attrs if a in attrs]
    return np.transpose(M, [rest.index(a) for a in attrs])


def all_tuples(attrs, maxlen):
    for r in range(min(maxlen, len(attrs)) + 1):
        for t in itertools.permutations(attrs, r):
            yield t


def check(label, got, ref, total=None):
    got = np.asarray(got, dtype=float)
    ref = np.asarray(ref, dtype=float)
    if got.shape != ref.shape:
        failures.append('%s: shape %s, expected %s' % (label, got.shape, ref.shape))
        return
    scale = max(1.0, np.abs(ref).max())
    if not np.all(np.isfinite(got)):
        failures.append('%s: %d of %d entries are NaN/inf' % (label, (~np.isfinite(got)).sum(), got.size))
    elif np.abs(got - ref).max() > TOL * scale:
        failures.append('%s: differs from the explicit joint (max abs err %.3g)'
                        % (label, np.abs(got - ref).max()))
    elif total is not None and abs(got.sum() - total) > TOL * max(1.0, total):
        failures.append('%s: sums to %r, model total is %r' % (label, got.sum(), total))


def fingerprint(arrays):
    h = hashlib.sha256()
    for a in arrays:
        a = np.asarray(a, dtype=float)
        h.update(repr(a.shape).encode())
        h.update(np.array2string(np.round(a.ravel(), 6) + 0.0, threshold=10**9,
                                 floatmode='fixed', precision=6).encode())
    return h.hexdigest()[:16]


def kron_queries(dom, rng):
    Qs = []
    for i, a in enumerate(dom.attrs):
        n = dom[a]
        kind = i % 3
        if kind == 0:
            Qs.append(np.ones((1, n)))
        elif kind == 1:
            Qs.append(np.eye(n))
        else:
            Qs.append(rng.rand(2, n))
    return Qs


def kron_oracle(P, Qs):
    ans = P
    for i, Q in enumerate(Qs):
        ans = np.moveaxis(np.tensordot(Q, ans, axes=(1, i)), 0, i)
    return ans


def run_queries(name, model, seed):
    """ all query paths of a model that already has potentials """
    rng = np.random.RandomState(1000 + seed)
    dom = model.domain
    if hasattr(model, 'marginals'):
        del model.marginals          # start without cache (FactoredInference leaves one)
    P = oracle_joint(model)
    Qs = kron_queries(dom, rng)
    tuples = list(all_tuples(dom.attrs, 3))
    nfail = len(failures)
    answers = []
    try:
        for t in tuples:                                   # single queries, no cache
            ans = model.project(t)
            check('%s project%s' % (name, (t,)), ans.values, oracle_marginal(P, dom, t), model.total)
            answers.append(ans.values)
        x = model.datavector(flatten=False)
        check('%s datavector' % name, x, P, model.total)
        answers.append(x)
        k = model.krondot(Qs)
        check('%s krondot' % name, k, kron_oracle(P, Qs))
        answers.append(k)
        res = model.calculate_many_marginals(tuples)       # bulk; populates the cache
        for t in tuples:
            check('%s calculate_many_marginals%s' % (name, (t,)), res[t].values,
                  oracle_marginal(P, dom, t), model.total)
            answers.append(res[t].values)
        for t in tuples:                                   # single queries, cache present
            ans = model.project(t)
            check('%s cached project%s' % (name, (t,)), ans.values, oracle_marginal(P, dom, t), model.total)
            answers.append(ans.values)
    except Exception as e:
        tb = traceback.extract_tb(sys.exc_info()[2])[-1]
        failures.append('%s: %s: %s (at %s:%d)' % (name, type(e).__name__, e,
                                                  os.path.basename(tb.filename), tb.lineno))
    status = 'ok' if len(failures) == nfail else 'MISMATCH'
    nzero = int((P == 0).sum())
    digest_lines.append('%-26s impossible cells=%3d/%-4d answers=%4d digest=%s %s'
                        % (name, nzero, P.size, len(answers), fingerprint(answers), status))


def scenario(name, domain, cliques, total, seed, zeros={}, scale=1.0):
    """ zeros: { clique : list of index tuples whose log-potential is -inf } """
    rng = np.random.RandomState(seed)
    model = GraphicalModel(domain, cliques, total=total)
    pot = {}
    for cl in model.cliques:
        pot[cl] = Factor(domain.project(cl), scale * rng.randn(*domain.project(cl).shape))
    for cl, cells in zeros.items():
        assert cl in pot, (cl, model.cliques)
        pot[cl] = pot[cl] + Factor.active(domain.project(cl), cells)
    model.potentials = CliqueVector(pot)
    run_queries(name, model, seed)


def fitted_scenario(name, seed):
    """ the library's own route to structural zeros: FactoredInference(structural_zeros=...)
        b=2 is declared impossible (for every a), plus one cell of (b,c) """
    rng = np.random.RandomState(seed)
    domain = Domain(['a', 'b', 'c'], [2, 3, 2])
    zeros = {('a', 'b'): [(0, 2), (1, 2)], ('b', 'c'): [(0, 1)]}
    truth = rng.rand(2, 3, 2)
    truth[:, 2, :] = 0
    truth[:, 0, 1] = 0
    truth *= 100 / truth.sum()
    measurements = []
    for cl in [('a', 'b'), ('b', 'c')]:
        ax = tuple(i for i, a in enumerate(domain.attrs) if a not in cl)
        y = truth.sum(axis=ax).flatten() + rng.randn(domain.size(cl))
        measurements.append((np.eye(y.size), y, 1.0, cl))
    nfail = len(failures)
    try:
        engine = FactoredInference(domain, structural_zeros=zeros, iters=60, log=False)
        model = engine.estimate(measurements, total=100.0)
    except Exception as e:
        tb = traceback.extract_tb(sys.exc_info()[2])[-1]
        failures.append('%s: estimation raised %s: %s (at %s:%d)'
                        % (name, type(e).__name__, e, os.path.basename(tb.filename), tb.lineno))
        digest_lines.append('%-26s estimation failed' % name)
        return
    bad = [cl for cl in model.potentials if np.isnan(model.potentials[cl].values).any()]
    if bad:
        failures.append('%s: fitted potentials of %s contain NaN' % (name, bad))
        digest_lines.append('%-26s fitted potentials are NaN MISMATCH' % name)
        return
    run_queries(name, model, seed)


def main():
    D4 = Domain(['a', 'b', 'c', 'd'], [2, 3, 2, 3])
    star = [('a', 'b'), ('a', 'c'), ('c', 'd')]
    D5 = Domain(['a', 'b', 'c', 'd', 'e'], [2, 3, 2, 3, 2])
    chain = [('a', 'b'), ('b', 'c'), ('c', 'd'), ('d', 'e')]
    D6 = Domain(['a', 'b', 'c', 'd', 'e', 'f'], [2, 3, 2, 2, 3, 2])
    tree = [('a', 'b', 'c'), ('c', 'd'), ('c', 'e'), ('e', 'f')]
    Dz = Domain(['u', 'v', 'w', 'x'], [3, 1, 2, 2])

    # no zeros at all
    scenario('chain', D5, chain, 1.0, 0)
    scenario('chain-total', D5, chain, 250.0, 1)
    scenario('tree-3clique', D6, tree, 40.0, 2)
    scenario('isolated-size1', Dz, [('u', 'v'), ('w',)], 3.0, 3)
    scenario('chain-wide-range', D5, chain, 10.0, 4, scale=60.0)
    # a few impossible cells; every attribute value stays possible, and so does every
    # combination of values of attributes that are eliminated together
    scenario('chain-sparse-zeros', D5, chain, 10.0, 5,
             zeros={('a', 'b'): [(0, 1)], ('c', 'd'): [(1, 2), (0, 0)]})
    scenario('tree-sparse-zeros', D6, tree, 40.0, 6,
             zeros={('a', 'b', 'c'): [(0, 0, 0), (1, 2, 1)], ('e', 'f'): [(2, 0)]})
    # a whole attribute value is impossible: b=2 is excluded for every a
    scenario('chain-dead-value', D5, chain, 10.0, 7,
             zeros={('a', 'b'): [(0, 2), (1, 2)]})
    # (a=0,b=0) and (a=1,c=0) are impossible, a is binary: hence (b=0,c=0) is impossible
    # although b and c share no clique
    scenario('star-joint-exclusion', D4, star, 10.0, 8,
             zeros={('a', 'b'): [(0, 0)], ('a', 'c'): [(1, 0)]})
    # model produced by the estimator from a structural_zeros specification
    fitted_scenario('fitted-structural-zeros', 9)

    for line in digest_lines:
        print(line)
    if failures:
        print('FAIL: %d answers disagree with the explicit joint distribution' % len(failures))
        shown = {}
        for f in failures:
            key = f.split(' ')[0]
            shown[key] = shown.get(key, 0) + 1
            if shown[key] <= 4:
                print('   ', f)
        for key, n in shown.items():
            if n > 4:
                print('    %s: ... and %d more' % (key, n - 4))
        print('    (an all -inf slice in a log-sum-exp must give -inf, not NaN: impossible')
        print('     combinations have probability 0, they must not poison the other cells)')
        sys.exit(1)
    print('PASS: every query path agrees with the explicit joint, with and without structural zeros')
    sys.exit(0)


if __name__ == '__main__':
    main()

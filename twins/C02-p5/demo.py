"""C02 / round 5 / pair 1 -- belief propagation without the up-front copy of the potentials.

Property clause exercised: after ANY history of queries (bulk query that fills the
marginal cache, Kronecker query, save + load) every query path -- project, bulk,
krondot, datavector -- still answers from the one joint distribution defined by the
model parameters the caller installed, and those parameters are not altered by querying.

For every model the demo
  1. snapshots the potentials and builds the explicit joint (independent numpy oracle),
  2. runs a fixed HISTORY of calls on ONE model object,
  3. after every step compares the answer with the oracle.
Exit 0 + digest when all agree, exit 1 with an explanation otherwise.
"""
import os, sys, hashlib, itertools, tempfile, warnings

ROOT = os.path.dirname(os.path.dirname(os.path.dirname(os.path.abspath(__file__))))
sys.path.insert(0, os.path.join(ROOT, 'src'))
warnings.filterwarnings('ignore')

import numpy as np
import mbi
from mbi import Domain, Factor, GraphicalModel, CliqueVector

assert os.path.abspath(mbi.__file__).startswith(ROOT), 'mbi imported from %s' % mbi.__file__

TOL = dict(rtol=1e-7, atol=1e-9)


def oracle_joint(domain, snapshot, total):
    """explicit joint over domain.attrs from a {clique: ndarray} snapshot of log-potentials"""
    logp = np.zeros(domain.shape)
    for cl, vals in snapshot.items():
        idx = [domain.attrs.index(a) for a in cl]
        shape = [1] * len(domain)
        for a, n in zip(cl, vals.shape):
            shape[domain.attrs.index(a)] = n
        order = np.argsort(idx)
        logp = logp + np.transpose(vals, order).reshape(shape)
    p = np.exp(logp - logp.max())
    return total * p / p.sum()


def oracle_marginal(domain, joint, attrs):
    keep = [domain.attrs.index(a) for a in attrs]
    drop = tuple(i for i in range(len(domain)) if i not in keep)
    m = joint.sum(axis=drop)                       # axes now in domain order
    rest = sorted(keep)
    return np.transpose(m, [rest.index(i) for i in keep])


def build(attrs, shape, cliques, total, seed, scale=1.0):
    prng = np.random.RandomState(seed)
    domain = Domain(attrs, shape)
    model = GraphicalModel(domain, cliques, total=total)
    pots = {}
    for cl in model.cliques:
        pots[cl] = Factor(domain.project(cl), scale * prng.randn(*domain.project(cl).shape))
    model.potentials = CliqueVector(pots)
    snapshot = {cl: pots[cl].values.copy() for cl in pots}
    return model, snapshot


MODELS = [
    # name, attrs, shape, cliques handed to the constructor, total, seed
    ('chain-4',        'abcd',  [2, 3, 4, 2],    [('a', 'b'), ('b', 'c'), ('c', 'd')],               1.0,   1),
    ('star-5',         'abcde', [2, 3, 2, 3, 2], [('a', 'b'), ('a', 'c'), ('a', 'd'), ('d', 'e')],   250.0, 2),
    ('two-3-cliques',  'abcd',  [2, 3, 2, 3],    [('a', 'b', 'c'), ('b', 'c', 'd')],                 10,    3),
    ('independent',    'abc',   [3, 2, 4],       [('a',), ('b',), ('c',)],                           42.0,  4),
    ('one-clique-3',   'abc',   [2, 3, 4],       [('a', 'b', 'c')],                                  1000.0, 5),
    ('triangle',       'abc',   [3, 3, 2],       [('a', 'b'), ('b', 'c'), ('a', 'c')],               17.0,  6),
    ('one-clique-2',   'xy',    [4, 5],          [('y', 'x')],                                       1.0,   7),
    ('one-attribute',  'a',     [6],             [('a',)],                                           300,   8),
]

failures = []
digest = hashlib.sha256()


def record(name, step, got, want):
    got = np.asarray(got, dtype=float)
    want = np.asarray(want, dtype=float)
    ok = got.shape == want.shape and np.allclose(got, want, **TOL)
    if not ok:
        if got.shape == want.shape:
            err = float(np.abs(got - want).max())
            failures.append('%-14s %-34s max |answer - joint marginal| = %.3e (answer sums to %.6g, oracle to %.6g)'
                            % (name, step, err, got.sum(), want.sum()))
        else:
            failures.append('%-14s %-34s shape %s instead of %s' % (name, step, got.shape, want.shape))
    digest.update(('%s|%s|%s|' % (name, step, got.shape)).encode())
    digest.update(np.round(got, 8).tobytes())


def subsets(attrs, prng, k=6):
    """a deterministic selection of attribute tuples: empty, full, singles, and permuted subsets"""
    out = [(), tuple(attrs), tuple(attrs[::-1])] + [(a,) for a in attrs]
    pool = [p for r in range(2, len(attrs) + 1) for c in itertools.combinations(attrs, r)
            for p in itertools.permutations(c)]
    if pool:
        for i in prng.choice(len(pool), size=min(k, len(pool)), replace=False):
            out.append(pool[i])
    seen, uniq = set(), []
    for t in out:
        if t not in seen:
            seen.add(t); uniq.append(t)
    return uniq


for name, attrs, shape, cliques, total, seed in MODELS:
    attrs = list(attrs)
    model, snap = build(attrs, shape, cliques, total, seed)
    dom = model.domain
    joint = oracle_joint(dom, snap, float(total))
    prng = np.random.RandomState(100 + seed)
    queries = subsets(attrs, prng)
    mats = [prng.randint(-2, 3, size=(prng.randint(1, 4), n)).astype(float) for n in shape]
    kron_want = joint
    for ax, Q in enumerate(mats):
        kron_want = np.moveaxis(np.tensordot(Q, kron_want, axes=(1, ax)), 0, ax)

    def check_params(step):
        same = all(np.array_equal(model.potentials[cl].values, snap[cl]) for cl in snap)
        digest.update(('%s|%s|params|%d' % (name, step, same)).encode())
        if not same:
            failures.append('%-14s %-34s the model PARAMETERS were altered by querying' % (name, step))

    # ---- history -----------------------------------------------------------------
    record(name, '1 datavector (cold)', model.datavector(flatten=False), joint)
    for q in queries:
        record(name, '2 project%s (cold)' % (q,), model.project(q).values, oracle_marginal(dom, joint, q))
    record(name, '3 krondot (cold)', model.krondot(mats), kron_want)
    check_params('after cold queries')

    bulk = model.calculate_many_marginals(queries)           # fills model.marginals
    for q in queries:
        record(name, '4 bulk%s' % (q,), bulk[q].values, oracle_marginal(dom, joint, q))
    check_params('after first bulk query')

    record(name, '5 datavector (cached)', model.datavector(flatten=False), joint)
    for q in queries:
        record(name, '6 project%s (cached)' % (q,), model.project(q).values, oracle_marginal(dom, joint, q))
    record(name, '7 krondot (cached)', model.krondot(mats), kron_want)

    bulk = model.calculate_many_marginals(queries)           # second bulk query on the same object
    for q in queries:
        record(name, '8 bulk again%s' % (q,), bulk[q].values, oracle_marginal(dom, joint, q))
    check_params('after second bulk query')

    fd, path = tempfile.mkstemp(suffix='.pkl'); os.close(fd)
    try:
        GraphicalModel.save(model, path)
        loaded = GraphicalModel.load(path)
    finally:
        os.remove(path)
    record(name, '9 datavector (reloaded)', loaded.datavector(flatten=False), joint)
    del loaded.marginals                                      # reloaded model, cache dropped
    for q in queries:
        record(name, '10 project%s (reloaded, no cache)' % (q,), loaded.project(q).values,
               oracle_marginal(dom, joint, q))

if failures:
    print('FAIL: %d answers do not come from the joint distribution of the installed parameters' % len(failures))
    for line in failures[:25]:
        print('  ' + line)
    if len(failures) > 25:
        print('  ... %d more' % (len(failures) - 25))
    print('Failing models: %s' % ', '.join(sorted(set(line.split()[0] for line in failures))))
    print('Explanation: belief_propagation() must leave the potentials it is given untouched; here a query')
    print('history (bulk query -> datavector / krondot / bulk query / save+load) changed later answers.')
    sys.exit(1)

print('PASS: all query paths agree with the explicit joint over every history step, %d models' % len(MODELS))
print('digest', digest.hexdigest())
sys.exit(0)

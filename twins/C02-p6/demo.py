"""C02 / round 5 / pair 2 -- `Factor.project` fast path when nothing is aggregated.

Property clause exercised: "Answers are the same whether or not clique marginals have
been cached beforehand", for every interleaving of queries, and in the requested
attribute order.  An answer handed to a caller is the caller's to post-process; what
the caller (or the library's own synthetic_data(), which rescales the tables it asks
for IN PLACE) does with it must not change what the model answers afterwards.

For every model the demo builds the explicit joint (independent numpy oracle) and runs
the same history twice: on a model WITHOUT the marginal cache and on a model WITH it.
  A. ask for a whole clique (in a permuted order), normalise the returned table in
     place (counts -> probabilities), then ask again: whole clique, permuted, sub-clique,
     out-of-clique, datavector, krondot
  B. on a fresh model, call synthetic_data() (it raises at its very last statement under
     pandas 3; that is expected and ignored), then ask again -- library calls only
  C. two bulk answers over the same attributes in different orders must be independent
Exit 0 + digest when every answer equals the oracle marginal, exit 1 otherwise.
"""
import os, sys, hashlib, itertools, warnings

ROOT = os.path.dirname(os.path.dirname(os.path.dirname(os.path.abspath(__file__))))
sys.path.insert(0, os.path.join(ROOT, 'src'))
warnings.filterwarnings('ignore')

import numpy as np
import mbi
from mbi import Domain, Factor, GraphicalModel, CliqueVector

assert os.path.abspath(mbi.__file__).startswith(ROOT), 'mbi imported from %s' % mbi.__file__

TOL = dict(rtol=1e-7, atol=1e-9)


def oracle_joint(domain, snapshot, total):
    logp = np.zeros(domain.shape)
    for cl, vals in snapshot.items():
        idx = [domain.attrs.index(a) for a in cl]
        shape = [1] * len(domain)
        for a, n in zip(cl, vals.shape):
            shape[domain.attrs.index(a)] = n
        logp = logp + np.transpose(vals, np.argsort(idx)).reshape(shape)
    p = np.exp(logp - logp.max())
    return total * p / p.sum()


def oracle_marginal(domain, joint, attrs):
    keep = [domain.attrs.index(a) for a in attrs]
    drop = tuple(i for i in range(len(domain)) if i not in keep)
    m = joint.sum(axis=drop)
    rest = sorted(keep)
    return np.transpose(m, [rest.index(i) for i in keep])


def build(attrs, shape, cliques, total, seed):
    prng = np.random.RandomState(seed)
    domain = Domain(attrs, shape)
    model = GraphicalModel(domain, cliques, total=total)
    pots = {cl: Factor(domain.project(cl), prng.randn(*domain.project(cl).shape)) for cl in model.cliques}
    model.potentials = CliqueVector(pots)
    return model, {cl: pots[cl].values.copy() for cl in pots}


MODELS = [
    ('chain-4',       'abcd',  [2, 3, 4, 2],    [('a', 'b'), ('b', 'c'), ('c', 'd')],             100.0, 11),
    ('star-5',        'abcde', [2, 3, 2, 3, 2], [('a', 'b'), ('a', 'c'), ('a', 'd'), ('d', 'e')], 250.0, 12),
    ('two-3-cliques', 'abcd',  [2, 3, 2, 3],    [('a', 'b', 'c'), ('b', 'c', 'd')],               60,    13),
    ('with-isolated', 'abcz',  [3, 2, 3, 4],    [('a', 'b'), ('b', 'c'), ('z',)],                 80.0,  14),
    ('one-clique-3',  'abc',   [2, 3, 4],       [('a', 'b', 'c')],                                30.0,  15),
]

failures = []
digest = hashlib.sha256()


def record(name, mode, step, got, want):
    got = np.array(got, dtype=float)
    want = np.asarray(want, dtype=float)
    ok = got.shape == want.shape and np.allclose(got, want, **TOL)
    if not ok:
        if got.shape == want.shape:
            failures.append('%-14s %-8s %-40s max |answer - joint marginal| = %.3e (answer sums to %.6g, oracle to %.6g)'
                            % (name, mode, step, np.nanmax(np.abs(got - want)), np.nansum(got), want.sum()))
        else:
            failures.append('%-14s %-8s %-40s shape %s instead of %s' % (name, mode, step, got.shape, want.shape))
    digest.update(('%s|%s|%s|%s|' % (name, mode, step, got.shape)).encode())
    digest.update(np.round(got, 8).tobytes())


def requery(name, mode, tag, model, dom, joint, queries, mats, kron_want):
    for q in queries:
        record(name, mode, '%s project%s' % (tag, q), model.project(q).values, oracle_marginal(dom, joint, q))
    record(name, mode, '%s datavector' % tag, model.datavector(flatten=False), joint)
    record(name, mode, '%s krondot' % tag, model.krondot(mats), kron_want)


for name, attrs, shape, cliques, total, seed in MODELS:
    attrs = list(attrs)
    for mode in ('nocache', 'cached'):
        model, snap = build(attrs, shape, cliques, total, seed)
        dom = model.domain
        joint = oracle_joint(dom, snap, float(total))
        prng = np.random.RandomState(200 + seed)
        mats = [prng.randint(-2, 3, size=(prng.randint(1, 4), n)).astype(float) for n in shape]
        kron_want = joint
        for ax, Q in enumerate(mats):
            kron_want = np.moveaxis(np.tensordot(Q, kron_want, axes=(1, ax)), 0, ax)

        # the queries asked again after every step: every clique in canonical, reversed and
        # rotated order, every single attribute, one sub-clique pair and one out-of-clique pair
        queries = [(), tuple(attrs)]
        for cl in model.cliques:
            queries += [cl, cl[::-1], cl[1:] + cl[:1]]
        queries += [(a,) for a in attrs]
        queries += [(attrs[-1], attrs[0])]
        queries = list(dict.fromkeys(queries))

        if mode == 'cached':
            bulk = model.calculate_many_marginals(queries)          # fills model.marginals
            for q in queries:
                record(name, mode, '0 bulk%s' % (q,), bulk[q].values, oracle_marginal(dom, joint, q))
        assert hasattr(model, 'marginals') == (mode == 'cached')

        # ---- A: the caller turns whole-clique answers into probabilities, in place ----------
        for cl in model.cliques:
            for q in (cl[::-1], cl):
                table = model.project(q).datavector(flatten=False)
                record(name, mode, 'A first project%s' % (q,), table, oracle_marginal(dom, joint, q))
                table /= table.sum()                                   # caller's own post-processing
        requery(name, mode, 'A then', model, dom, joint, queries, mats, kron_want)

        # ---- B: synthetic_data() rescales the tables it asks the model for, in place --------
        modelB, _ = build(attrs, shape, cliques, total, seed)           # a fresh model: no caller misuse at all
        if mode == 'cached':
            modelB.calculate_many_marginals(queries)
        np.random.seed(seed)
        try:
            modelB.synthetic_data(rows=50)
        except Exception:
            pass                                                       # pandas 3: raises at its last line
        requery(name, mode, 'B then', modelB, dom, joint, queries, mats, kron_want)

        # ---- C: bulk answers over the same attributes in two orders are independent ---------
        if mode == 'cached' and len(model.cliques) >= 2:    # a bulk query always fills the cache
            Ci, Cj = model.cliques[0], sorted(model.neighbors[model.cliques[0]])[0]
            u = dom.canonical(Ci + Cj)
            v = u[::-1]
            fresh, _ = build(attrs, shape, cliques, total, seed)
            bulk = fresh.calculate_many_marginals([u, v, Ci, Ci[::-1]])
            bulk[u].values[...] = 0.0                                  # caller scribbles on one answer
            bulk[Ci].values[...] = -1.0
            record(name, mode, 'C bulk%s after zeroing bulk%s' % (v, u), bulk[v].values, oracle_marginal(dom, joint, v))
            record(name, mode, 'C bulk%s after overwriting bulk%s' % (Ci[::-1], Ci), bulk[Ci[::-1]].values,
                   oracle_marginal(dom, joint, Ci[::-1]))
            requery(name, mode, 'C then', fresh, dom, joint, [Ci, Ci[::-1], u], mats, kron_want)

if failures:
    print('FAIL: %d answers differ from the marginal of the joint distribution' % len(failures))
    for line in failures[:30]:
        print('  ' + line)
    if len(failures) > 30:
        print('  ... %d more' % (len(failures) - 30))
    modes = sorted(set(line.split()[1] for line in failures))
    print('Failing modes: %s  (nocache = model.marginals absent, cached = present)' % ', '.join(modes))
    print('Explanation: an answer for a whole clique (any attribute order) shares memory with the cached clique')
    print('marginal / with another answer, so post-processing one answer in place (as synthetic_data() does)')
    print('changes what the model answers next -- but only when the marginal cache is populated.')
    sys.exit(1)

print('PASS: every answer equals the oracle marginal, with and without cache, %d models' % len(MODELS))
print('digest', digest.hexdigest())
sys.exit(0)

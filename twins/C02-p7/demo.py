""" C02 / round 6 / pair 1 -- Factor.datavector(): flattening order of a marginal table

Clause under test: the answer for a subset of attributes *in any requested order*
is "laid out in the requested attribute order" -- also when the caller asks for the
flat vector (model.project(attrs).datavector(), the idiom used by every mechanism),
and also for GraphicalModel.datavector() ("materialising the full vector").

Oracle: the explicit joint distribution built with plain numpy from the potentials.
"""
import os, sys, itertools, hashlib, warnings
ROOT = os.path.dirname(os.path.dirname(os.path.dirname(os.path.abspath(__file__))))
sys.path.insert(0, os.path.join(ROOT, 'src'))
warnings.simplefilter('ignore')
import numpy as np
from mbi import Domain, Factor, GraphicalModel, CliqueVector
import mbi
assert os.path.abspath(mbi.__file__).startswith(ROOT), mbi.__file__

failures = []
digest = hashlib.sha256()
nchecks = 0

def record(tag, arr):
    a = np.round(np.asarray(arr, dtype=float), 6) + 0.0
    digest.update(tag.encode())
    digest.update(str(a.shape).encode())
    digest.update(np.ascontiguousarray(a).tobytes())

def joint(model):
    """ explicit joint (numpy only), axes in the order of model.domain.attrs """
    dom = model.domain
    logp = np.zeros(dom.shape)
    for cl in model.cliques:
        f = model.potentials[cl]
        shape = [dom[a] if a in f.domain.attrs else 1 for a in dom.attrs]
        order = [f.domain.attrs.index(a) for a in dom.attrs if a in f.domain.attrs]
        logp = logp + np.transpose(f.values, order).reshape(shape)
    p = np.exp(logp - logp.max())
    return p / p.sum() * model.total

def oracle(model, P, attrs):
    dom = model.domain
    drop = tuple(i for i, a in enumerate(dom.attrs) if a not in attrs)
    m = P.sum(axis=drop)
    kept = [a for a in dom.attrs if a in attrs]
    return np.transpose(m, [kept.index(a) for a in attrs])

def check(tag, got, want):
    global nchecks
    nchecks += 1
    got = np.asarray(got); want = np.asarray(want)
    if got.shape != want.shape or not np.allclose(got, want, rtol=1e-8, atol=1e-10):
        failures.append('%s: got %s..., want %s...' % (tag, np.round(got.ravel()[:4], 5), np.round(want.ravel()[:4], 5)))
    record(tag, got)

def build(attrs, shape, cliques, total, seed):
    prng = np.random.RandomState(seed)
    dom = Domain(attrs, shape)
    model = GraphicalModel(dom, cliques, total=total)
    model.potentials = CliqueVector({cl: Factor(dom.project(cl), prng.randn(*dom.project(cl).shape))
                                     for cl in model.cliques})
    return model

def query_all(name, model, maxlen):
    P = joint(model)
    attrs = model.domain.attrs
    subsets = [p for r in range(0, maxlen + 1) for c in itertools.combinations(attrs, r)
               for p in itertools.permutations(c)]
    for cached in (False, True):
        if cached:
            bulk = model.calculate_many_marginals(subsets)     # populates model.marginals
        for q in subsets:
            want = oracle(model, P, q)
            f = model.project(q)
            check('%s/project%s/cached=%s/values' % (name, q, cached), f.values, want)
            check('%s/project%s/cached=%s/flat' % (name, q, cached), f.datavector(), want.flatten())
            check('%s/project%s/cached=%s/sum' % (name, q, cached), f.datavector().sum(), model.total)
            if cached:
                check('%s/bulk%s/flat' % (name, q), bulk[q].datavector(), want.flatten())
    check('%s/datavector' % name, model.datavector(), P.flatten())
    check('%s/datavector2d' % name, model.datavector(flatten=False), P)

# 1. the unit tests' chain, canonical order only (what the suite looks at)
m = build(['a', 'b', 'c', 'd'], [2, 3, 4, 5], [('a', 'b'), ('b', 'c'), ('c', 'd')], 1.0, 0)
P = joint(m)
for q in [('a', 'b'), ('a', 'd'), ('b', 'c', 'd')]:
    check('chain/canonical%s' % (q,), m.project(q).datavector(), oracle(m, P, q).flatten())

# 2. chain, every ordering of every subset up to 3 attributes
query_all('chain', build(['a', 'b', 'c', 'd'], [2, 3, 4, 5], [('a', 'b'), ('b', 'c'), ('c', 'd')], 10.0, 1), 3)

# 3. branching tree with 3-attribute cliques, non-unit total
query_all('tree', build(['a', 'b', 'c', 'd', 'e', 'f'], [2, 3, 2, 3, 2, 4],
                        [('a', 'b', 'c'), ('b', 'c', 'd'), ('c', 'e'), ('d', 'f')], 7.0, 2), 3)

# 4. independent attributes whose domain order is not the alphabetical one:
#    datavector() expands a table whose axes are the mirror image of the domain
query_all('indep2', build(['y', 'x'], [3, 4], [('y',), ('x',)], 5.0, 3), 2)
query_all('indep3', build(['c', 'b', 'a'], [2, 3, 4], [('c',), ('b',), ('a',)], 3.0, 4), 3)

# 5. Factor level: a transposed table, flat
prng = np.random.RandomState(5)
F = Factor(Domain(['a', 'b', 'c'], [2, 3, 4]), prng.rand(2, 3, 4))
for perm in itertools.permutations(['a', 'b', 'c']):
    want = np.transpose(F.values, [('a', 'b', 'c').index(x) for x in perm])
    check('factor/transpose%s' % (perm,), F.transpose(perm).datavector(), want.flatten())
    check('factor/project%s' % (perm[:2],), F.project(perm[:2]).datavector(),
          np.transpose(F.values.sum(axis=('a', 'b', 'c').index(perm[2])),
                       [0, 1] if perm[0] < perm[1] else [1, 0]).flatten())

if failures:
    print('FAIL: %d of %d checks disagree with the explicit joint distribution' % (len(failures), nchecks))
    for line in failures[:12]:
        print('  ', line)
    print('   the flat vector of a marginal requested in a non-canonical attribute order is not laid out in that order')
    sys.exit(1)
print('PASS %d checks' % nchecks)
print('digest', digest.hexdigest())

""" C02 / round 6 / pair 2 -- GraphicalModel.project(): answers must not depend on the marginal cache

Clause under test: "Answers are the same whether or not clique marginals have been
cached beforehand", for queries *spanning several cliques*, on chains / branching trees
of 3-attribute cliques, with non-unit totals.

Every query is asked (1) on a fresh model (no cache: variable elimination), (2) after
calculate_many_marginals() populated model.marginals, (3) after a save / load round trip
of the model that carries the cache.  All three are compared with the explicit joint
distribution built with plain numpy from the potentials.
"""
import os, sys, itertools, hashlib, warnings, tempfile
ROOT = os.path.dirname(os.path.dirname(os.path.dirname(os.path.abspath(__file__))))
sys.path.insert(0, os.path.join(ROOT, 'src'))
warnings.simplefilter('ignore')
import numpy as np
from mbi import Domain, Factor, GraphicalModel, CliqueVector
import mbi
assert os.path.abspath(mbi.__file__).startswith(ROOT), mbi.__file__

failures = []
digest = hashlib.sha256()
nchecks = 0

def record(tag, arr):
    a = np.round(np.asarray(arr, dtype=float), 6) + 0.0
    digest.update(tag.encode())
    digest.update(str(a.shape).encode())
    digest.update(np.ascontiguousarray(a).tobytes())

def joint(model):
    dom = model.domain
    logp = np.zeros(dom.shape)
    for cl in model.cliques:
        f = model.potentials[cl]
        shape = [dom[a] if a in f.domain.attrs else 1 for a in dom.attrs]
        order = [f.domain.attrs.index(a) for a in dom.attrs if a in f.domain.attrs]
        logp = logp + np.transpose(f.values, order).reshape(shape)
    p = np.exp(logp - logp.max())
    return p / p.sum() * model.total

def oracle(model, P, attrs):
    dom = model.domain
    drop = tuple(i for i, a in enumerate(dom.attrs) if a not in attrs)
    m = P.sum(axis=drop)
    kept = [a for a in dom.attrs if a in attrs]
    return np.transpose(m, [kept.index(a) for a in attrs])

def check(tag, got, want):
    global nchecks
    nchecks += 1
    got = np.asarray(got); want = np.asarray(want)
    if got.shape != want.shape or not np.allclose(got, want, rtol=1e-7, atol=1e-9):
        err = np.abs(got - want).max() if got.shape == want.shape else float('nan')
        failures.append('%s: max abs error %.4g (total mass %.6g)' % (tag, err, got.sum()))
    record(tag, got)

def build(attrs, shape, cliques, total, seed, zeros=False):
    prng = np.random.RandomState(seed)
    dom = Domain(attrs, shape)
    model = GraphicalModel(dom, cliques, total=total)
    pots = {}
    for cl in model.cliques:
        vals = prng.randn(*dom.project(cl).shape) * 1.5
        if zeros:
            vals[prng.rand(*vals.shape) < 0.15] = -np.inf     # structural zeros
        pots[cl] = Factor(dom.project(cl), vals)
    model.potentials = CliqueVector(pots)
    return model

def run(name, spec, maxlen, seed, **kw):
    attrs = spec[0]
    queries = []
    for r in range(0, maxlen + 1):
        for c in itertools.combinations(attrs, r):
            queries.append(c)
            if r >= 2:
                queries.append(tuple(reversed(c)))
                queries.append(c[1:] + c[:1])
    queries = sorted(set(queries))

    fresh = build(*spec, seed=seed, **kw)
    P = joint(fresh)
    want = {q: oracle(fresh, P, q) for q in queries}
    for q in queries:                                   # (1) no cache
        assert not hasattr(fresh, 'marginals')
        check('%s/%s/nocache' % (name, q), fresh.project(q).values, want[q])

    warm = build(*spec, seed=seed, **kw)                # same parameters
    bulk = warm.calculate_many_marginals(queries[: len(queries) // 2])   # (2) populate the cache
    assert hasattr(warm, 'marginals')
    for q in queries[: len(queries) // 2]:
        check('%s/%s/bulk' % (name, q), bulk[q].values, want[q])
    for q in queries:
        a = warm.project(q).values
        check('%s/%s/cached' % (name, q), a, want[q])
        check('%s/%s/cached-total' % (name, q), a.sum(), warm.total)

    path = os.path.join(tempfile.mkdtemp(), 'model.pkl')   # (3) cache survives save / load
    GraphicalModel.save(warm, path)
    back = GraphicalModel.load(path)
    os.remove(path); os.rmdir(os.path.dirname(path))
    for q in queries:
        check('%s/%s/reloaded' % (name, q), back.project(q).values, want[q])

# the unit tests' model: chain of 2-attribute cliques (overlapping cliques == neighbouring cliques)
run('chain2', (['a', 'b', 'c', 'd'], [2, 3, 4, 5], [('a', 'b'), ('b', 'c'), ('c', 'd')], 10.0), 4, seed=0)
# star of 2-attribute cliques through one hub
run('star', (['h', 'p', 'q', 'r'], [3, 2, 4, 2], [('h', 'p'), ('h', 'q'), ('h', 'r')], 4.0), 4, seed=1)
# attribute-disjoint components (empty separators)
run('split', (['a', 'b', 'c', 'd', 'e'], [2, 3, 2, 3, 2], [('a', 'b'), ('c', 'd'), ('e',)], 6.0), 3, seed=2)
# chain of 3-attribute cliques: ('a','b','c') and ('c','d','e') overlap in c but are NOT neighbours
run('chain3', (['a', 'b', 'c', 'd', 'e'], [2, 3, 2, 3, 2],
               [('a', 'b', 'c'), ('b', 'c', 'd'), ('c', 'd', 'e')], 25.0), 3, seed=3)
# branching tree with 3-attribute cliques
run('tree3', (['a', 'b', 'c', 'd', 'e', 'f', 'g'], [2, 2, 3, 2, 2, 3, 2],
              [('a', 'b', 'c'), ('b', 'c', 'd'), ('c', 'd', 'e'), ('b', 'c', 'f'), ('f', 'g')], 9.0), 3, seed=4)
# the same chain with structural zeros in the potentials
run('chain3-zeros', (['a', 'b', 'c', 'd', 'e'], [2, 3, 2, 3, 2],
                     [('a', 'b', 'c'), ('b', 'c', 'd'), ('c', 'd', 'e')], 3.0), 3, seed=5, zeros=True)

if failures:
    print('FAIL: %d of %d checks disagree with the explicit joint distribution' % (len(failures), nchecks))
    for line in failures[:12]:
        print('  ', line)
    kinds = sorted(set(f.split(':')[0].rsplit('/', 1)[1] for f in failures))
    print('   failing query paths: %s  (nocache answers are right: the answer depends on whether' % kinds)
    print('   clique marginals were cached before the query was asked)')
    sys.exit(1)
print('PASS %d checks' % nchecks)
print('digest', digest.hexdigest())

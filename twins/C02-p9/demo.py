"""C02 / round 7 / pair 1 -- GraphicalModel.krondot: order of elimination.

Checks that model.krondot([Q_1 .. Q_d]) equals (Q_1 x ... x Q_d) applied to the explicit joint
distribution (built here with plain numpy, independent of the library's Factor algebra), with
Q_i paired with the i-th attribute OF THE DOMAIN and the answer laid out in DOMAIN order, for
models whose junction-tree elimination order differs from the domain order.
"""
import os, sys, hashlib, itertools, warnings
ROOT = os.path.dirname(os.path.dirname(os.path.dirname(os.path.abspath(__file__))))
sys.path.insert(0, os.path.join(ROOT, 'src'))
warnings.filterwarnings('ignore')
import numpy as np
from mbi import Domain, Factor, GraphicalModel, CliqueVector
import mbi
assert os.path.abspath(mbi.__file__).startswith(ROOT), mbi.__file__


def joint(model):
    """explicit joint (domain order) from the potentials, numpy only"""
    dom = model.domain
    logp = np.zeros(dom.shape)
    for cl, f in model.potentials.items():
        ax = [dom.attrs.index(a) for a in f.domain.attrs]
        shape = [1] * len(dom)
        for a, i in zip(f.domain.attrs, ax):
            shape[i] = dom[a]
        # f.values axes follow f.domain.attrs; bring them to increasing domain position
        perm = np.argsort(ax)
        logp = logp + np.transpose(f.values, perm).reshape(shape)
    p = np.exp(logp - logp.max())
    return p / p.sum() * model.total


def kron_oracle(P, matrices):
    ans = P
    for i, Q in enumerate(matrices):
        ans = np.moveaxis(np.tensordot(Q, ans, axes=([1], [i])), 0, i)
    return ans


def build(attrs, shape, cliques, total, seed):
    prng = np.random.RandomState(seed)
    dom = Domain(attrs, shape)
    model = GraphicalModel(dom, cliques, total=total)
    pot = {cl: Factor(dom.project(cl), prng.uniform(-1.5, 1.5, size=dom.project(cl).shape))
           for cl in model.cliques}
    model.potentials = CliqueVector(pot)
    return model, prng


CASES = [
    # name, attrs, shape, cliques, total
    ('unit-test chain',        'abcd',  [2, 3, 4, 5],    [('a', 'b'), ('b', 'c'), ('c', 'd')], 1.0),
    ('chain, big first attr',  'abcd',  [5, 3, 3, 2],    [('a', 'b'), ('b', 'c'), ('c', 'd')], 10.0),
    ('chain, equal sizes',     'abcd',  [3, 3, 3, 3],    [('a', 'c'), ('c', 'b'), ('b', 'd')], 7.0),
    ('star of 3-cliques',      'abcde', [3, 3, 3, 3, 3], [('e', 'a', 'b'), ('e', 'c'), ('e', 'd')], 50.0),
    ('branching tree',         'abcde', [4, 2, 3, 2, 3], [('a', 'b'), ('a', 'c'), ('c', 'd'), ('c', 'e')], 3.0),
]

failures, lines = [], []
for k, (name, attrs, shape, cliques, total) in enumerate(CASES):
    model, prng = build(list(attrs), shape, cliques, total, 100 + k)
    P = joint(model)
    differs = list(model.elimination_order) != list(model.domain.attrs)
    for q in range(3):
        matrices = []
        for n in shape:
            kind = prng.randint(4)
            if kind == 0:   Q = np.eye(n)
            elif kind == 1: Q = np.ones((1, n))
            elif kind == 2: Q = prng.rand(prng.randint(1, 4), n)
            else:           Q = np.tril(np.ones((n, n)))      # prefix (range) queries
            matrices.append(Q)
        want = kron_oracle(P, matrices)
        tag = '%s / query %d' % (name, q)
        try:
            got = np.asarray(model.krondot(matrices))
        except Exception as e:
            failures.append('%s: krondot raised %s: %s' % (tag, type(e).__name__, e))
            continue
        if got.shape != want.shape:
            failures.append('%s: answer has shape %s, the Kronecker query has shape %s'
                            % (tag, got.shape, want.shape))
        elif not np.allclose(got, want, rtol=1e-8, atol=1e-10):
            failures.append('%s: answer differs from (Q1 x .. x Qd) @ joint by %.3g (elimination order %s, domain %s)'
                            % (tag, np.abs(got - want).max(), list(model.elimination_order), list(model.domain.attrs)))
        elif not np.isclose(got.sum(), want.sum()):
            failures.append('%s: wrong mass' % tag)
        h = hashlib.sha256(np.round(want, 9).tobytes()).hexdigest()[:12]
        lines.append('%-34s elim!=domain:%-5s shape=%-16s oracle=%s' % (tag, differs, want.shape, h))

if not any('True' in l for l in lines):
    failures.append('demo is vacuous: no model whose elimination order differs from the domain order')

print('\n'.join(lines))
if failures:
    print('FAIL: krondot does not answer the Kronecker query on the joint distribution')
    for f in failures:
        print('  -', f)
    sys.exit(1)
print('PASS')

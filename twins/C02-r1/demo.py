""" Equivalence demo for refactoring 1 (calculate_many_marginals: extracted helper methods).

Prints a deterministic digest of every query path of GraphicalModel on a collection of
models.  The output must be byte-identical on the unmodified and on the refactored code.

run:  PYTHONPATH=<root>/src /venv/bin/python out/refactor1/demo.py
"""
import os, sys

ROOT = os.path.abspath(os.path.join(os.path.dirname(os.path.abspath(__file__)), '..', '..'))
# junction trees / separators are built from sets of strings: pin the string hash seed so
# that two separate interpreter runs make exactly the same (arbitrary) choices
if os.environ.get('PYTHONHASHSEED') != '0':
    env = dict(os.environ, PYTHONHASHSEED='0')
    env['PYTHONPATH'] = os.path.join(ROOT, 'src') + os.pathsep + env.get('PYTHONPATH', '')
    os.execve(sys.executable, [sys.executable] + sys.argv, env)
sys.path.insert(0, os.path.join(ROOT, 'src'))

import hashlib, itertools, tempfile, warnings
import numpy as np
warnings.simplefilter('ignore')
np.seterr(all='ignore')

import mbi
from mbi import Domain, Factor, CliqueVector, GraphicalModel
assert os.path.abspath(mbi.__file__).startswith(ROOT), mbi.__file__


def digest(x):
    x = np.round(np.asarray(x, dtype=float), 8) + 0.0
    h = hashlib.sha256(np.ascontiguousarray(x).tobytes()).hexdigest()[:12]
    return 'shape=%s sum=%.6f sha=%s' % (x.shape, float(np.nansum(x)), h)


def fdigest(f):
    return '%s %s' % (f.domain.attrs, digest(f.values))


def make_model(name, attrs, shape, cliques, total, seed, neg_inf=0, scale=1.0):
    prng = np.random.RandomState(seed)
    dom = Domain(attrs, shape)
    model = GraphicalModel(dom, cliques, total=total)
    pots = {}
    for cl in model.cliques:
        vals = scale * prng.randn(*dom.project(cl).shape)
        for _ in range(neg_inf):
            idx = tuple(prng.randint(n) for n in vals.shape)
            vals[idx] = -np.inf
        pots[cl] = Factor(dom.project(cl), vals)
    model.potentials = CliqueVector(pots)
    return name, model, seed


MODELS = [
    make_model('chain4', 'abcd', (2, 3, 4, 2), [('a', 'b'), ('b', 'c'), ('c', 'd')], 1.0, 0),
    make_model('chain5-total', 'abcde', (2, 3, 2, 3, 2),
               [('a', 'b'), ('b', 'c'), ('c', 'd'), ('d', 'e')], 250.0, 1),
    make_model('star', 'abcde', (3, 2, 2, 3, 2),
               [('a', 'b'), ('a', 'c'), ('a', 'd'), ('a', 'e')], 10.0, 2),
    make_model('branching-tree', 'abcdef', (2, 2, 3, 2, 2, 2),
               [('a', 'b'), ('b', 'c'), ('b', 'd'), ('d', 'e'), ('d', 'f')], 1000.0, 3),
    make_model('triples', 'abcde', (2, 3, 2, 2, 3),
               [('a', 'b', 'c'), ('b', 'c', 'd'), ('d', 'e')], 77.5, 4),
    make_model('permuted-cliques', ['z', 'y', 'x', 'w'], (3, 2, 4, 2),
               [('w', 'z'), ('x', 'w'), ('y', 'x')], 3.0, 5),
    make_model('disconnected', 'abcd', (2, 3, 2, 3), [('a', 'b'), ('c',), ('d',)], 42.0, 6),
    make_model('single-clique', 'abc', (2, 3, 2), [('c', 'a', 'b')], 5.0, 7),
    make_model('neg-inf', 'abcd', (3, 3, 2, 2), [('a', 'b'), ('b', 'c'), ('c', 'd')], 100.0, 8,
               neg_inf=2),
    make_model('sharp', 'abcd', (2, 2, 3, 2), [('a', 'b'), ('b', 'c'), ('b', 'd')], 1.0, 9,
               scale=25.0),
    make_model('loop-triangulated', 'abcd', (2, 3, 2, 3),
               [('a', 'b'), ('b', 'c'), ('c', 'd'), ('d', 'a')], 12.0, 10),
]


def all_tuples(attrs):
    for k in range(len(attrs) + 1):
        for sub in itertools.permutations(attrs, k):
            yield tuple(sub)


def safe(fn):
    try:
        return fn()
    except Exception as e:       # only the type: messages are not part of the contract
        return 'EXC ' + type(e).__name__


def show_many(model, projections, tag):
    res = safe(lambda: model.calculate_many_marginals(projections))
    if isinstance(res, str):
        print('   many[%s] -> %s' % (tag, res))
        return
    print('   many[%s] keys=%d' % (tag, len(res)))
    for key in res:
        print('     ', key, fdigest(res[key]))


for name, model, seed in MODELS:
    attrs = model.domain.attrs
    print('== model', name, model.domain, 'total', model.total)
    print('   cliques', model.cliques)

    tuples = list(all_tuples(attrs))
    if len(tuples) > 400:
        prng = np.random.RandomState(seed)
        keep = sorted(prng.choice(len(tuples), 400, replace=False))
        tuples = [tuples[i] for i in keep]

    # --- bulk queries, cold model (no cache yet): every tuple at once
    assert not hasattr(model, 'marginals')
    show_many(model, tuples, 'all')
    print('   cache after bulk:', sorted(model.marginals.keys()) == sorted(model.cliques))
    for cl in model.cliques:
        print('     cached', cl, fdigest(model.marginals[cl]))

    # --- different interleavings / request lists
    prng = np.random.RandomState(100 + seed)
    perm = [tuples[i] for i in prng.permutation(len(tuples))]
    show_many(model, perm[:25], 'shuffled-25')
    show_many(model, perm[:25] + perm[:5], 'with-duplicates')
    show_many(model, [], 'empty-list')
    show_many(model, [attrs, attrs[::-1], ()], 'full-reverse-empty')
    show_many(model, [list(attrs[:2])], 'list-key')
    show_many(model, [('nope',)], 'unknown-attr')

    # --- single queries after the bulk call populated the cache
    for t in perm[:15]:
        r = safe(lambda: model.project(t))
        print('   project-after-bulk', t, r if isinstance(r, str) else fdigest(r))

    # --- the private building block is a pure function of the marginals: calling the bulk
    #     method twice must give the same thing
    a = model.calculate_many_marginals(perm[:10])
    b = model.calculate_many_marginals(perm[:10])
    print('   repeatable', all(np.array_equal(a[k].values, b[k].values) for k in a))

    # --- save / load then bulk again
    with tempfile.TemporaryDirectory() as tmp:
        path = os.path.join(tmp, 'model.pkl')
        GraphicalModel.save(model, path)
        loaded = GraphicalModel.load(path)
    show_many(loaded, perm[:12], 'reloaded')

    # --- other paths (must be unaffected)
    print('   datavector', digest(model.datavector()))
    Qs = [np.random.RandomState(7 + i).rand(2, n) for i, n in enumerate(model.domain.shape)]
    kd = safe(lambda: model.krondot(Qs))
    print('   krondot', kd if isinstance(kd, str) else digest(kd))

print('done')

""" Equivalence demo for refactoring 2 (variable_elimination / variable_elimination_logspace
    rewritten on top of one shared list-based helper).

Prints a deterministic digest of every query path of GraphicalModel on a collection of
models.  The output must be byte-identical on the unmodified and on the refactored code.

run:  PYTHONPATH=<root>/src /venv/bin/python out/refactor2/demo.py
"""
import os, sys

ROOT = os.path.abspath(os.path.join(os.path.dirname(os.path.abspath(__file__)), '..', '..'))
# junction trees / separators are built from sets of strings: pin the string hash seed so
# that two separate interpreter runs make exactly the same (arbitrary) choices
if os.environ.get('PYTHONHASHSEED') != '0':
    env = dict(os.environ, PYTHONHASHSEED='0')
    env['PYTHONPATH'] = os.path.join(ROOT, 'src') + os.pathsep + env.get('PYTHONPATH', '')
    os.execve(sys.executable, [sys.executable] + sys.argv, env)
sys.path.insert(0, os.path.join(ROOT, 'src'))

import hashlib, itertools, tempfile, warnings
import numpy as np
warnings.simplefilter('ignore')
np.seterr(all='ignore')

import mbi
from mbi import Domain, Factor, CliqueVector, GraphicalModel
from mbi import graphical_model as gm
assert os.path.abspath(mbi.__file__).startswith(ROOT), mbi.__file__


def digest(x):
    x = np.round(np.asarray(x, dtype=float), 8) + 0.0
    h = hashlib.sha256(np.ascontiguousarray(x).tobytes()).hexdigest()[:12]
    return 'shape=%s sum=%.6f sha=%s' % (x.shape, float(np.nansum(x)), h)


def fdigest(f):
    return '%s %s' % (f.domain.attrs, digest(f.values))


def make_model(name, attrs, shape, cliques, total, seed, neg_inf=0, scale=1.0):
    prng = np.random.RandomState(seed)
    dom = Domain(attrs, shape)
    model = GraphicalModel(dom, cliques, total=total)
    pots = {}
    for cl in model.cliques:
        vals = scale * prng.randn(*dom.project(cl).shape)
        for _ in range(neg_inf):
            idx = tuple(prng.randint(n) for n in vals.shape)
            vals[idx] = -np.inf
        pots[cl] = Factor(dom.project(cl), vals)
    model.potentials = CliqueVector(pots)
    return name, model, seed


MODELS = [
    make_model('chain4', 'abcd', (2, 3, 4, 2), [('a', 'b'), ('b', 'c'), ('c', 'd')], 1.0, 0),
    make_model('chain5-total', 'abcde', (2, 3, 2, 3, 2),
               [('a', 'b'), ('b', 'c'), ('c', 'd'), ('d', 'e')], 250.0, 1),
    make_model('star', 'abcde', (3, 2, 2, 3, 2),
               [('a', 'b'), ('a', 'c'), ('a', 'd'), ('a', 'e')], 10.0, 2),
    make_model('branching-tree', 'abcdef', (2, 2, 3, 2, 2, 2),
               [('a', 'b'), ('b', 'c'), ('b', 'd'), ('d', 'e'), ('d', 'f')], 1000.0, 3),
    make_model('triples', 'abcde', (2, 3, 2, 2, 3),
               [('a', 'b', 'c'), ('b', 'c', 'd'), ('d', 'e')], 77.5, 4),
    make_model('permuted-cliques', ['z', 'y', 'x', 'w'], (3, 2, 4, 2),
               [('w', 'z'), ('x', 'w'), ('y', 'x')], 3.0, 5),
    make_model('disconnected', 'abcd', (2, 3, 2, 3), [('a', 'b'), ('c',), ('d',)], 42.0, 6),
    make_model('single-clique', 'abc', (2, 3, 2), [('c', 'a', 'b')], 5.0, 7),
    make_model('neg-inf', 'abcd', (3, 3, 2, 2), [('a', 'b'), ('b', 'c'), ('c', 'd')], 100.0, 8,
               neg_inf=2),
    make_model('sharp', 'abcd', (2, 2, 3, 2), [('a', 'b'), ('b', 'c'), ('b', 'd')], 1.0, 9,
               scale=25.0),
    make_model('loop-triangulated', 'abcd', (2, 3, 2, 3),
               [('a', 'b'), ('b', 'c'), ('c', 'd'), ('d', 'a')], 12.0, 10),
]


def all_tuples(attrs):
    for k in range(len(attrs) + 1):
        for sub in itertools.permutations(attrs, k):
            yield tuple(sub)


def safe(fn):
    try:
        return fn()
    except Exception as e:       # only the type: messages are not part of the contract
        return 'EXC ' + type(e).__name__


def show_many(model, projections, tag):
    res = safe(lambda: model.calculate_many_marginals(projections))
    if isinstance(res, str):
        print('   many[%s] -> %s' % (tag, res))
        return
    print('   many[%s] keys=%d' % (tag, len(res)))
    for key in res:
        print('     ', key, fdigest(res[key]))



def show(tag, fn):
    r = safe(fn)
    if isinstance(r, Factor):
        r = fdigest(r)
    elif not isinstance(r, str):
        r = digest(r)
    print('   %s -> %s' % (tag, r))


for name, model, seed in MODELS:
    attrs = model.domain.attrs
    print('== model', name, model.domain, 'total', model.total)
    print('   cliques', model.cliques)
    tuples = list(all_tuples(attrs))
    if len(tuples) > 400:
        prng = np.random.RandomState(seed)
        keep = sorted(prng.choice(len(tuples), 400, replace=False))
        tuples = [tuples[i] for i in keep]

    # --- project on a cold model: every answer goes through variable_elimination_logspace
    assert not hasattr(model, 'marginals')
    for t in tuples:
        show('project-cold %s' % (t,), lambda: model.project(t))
    show('project-cold list', lambda: model.project(list(attrs[:2])))
    show('project-cold unknown', lambda: model.project(('nope',)))
    show('project-cold repeated', lambda: model.project((attrs[0], attrs[0])))

    # --- direct calls of the module level functions, with explicit elimination orders
    pots = [model.potentials[cl] for cl in model.cliques]
    for r, elim in enumerate([list(attrs), list(attrs[::-1]), list(attrs[1:]), list(attrs[:-2]), []]):
        show('ve-logspace elim=%s' % elim,
             lambda: gm.variable_elimination_logspace(pots, elim, model.total))
        show('ve-logspace reversed-factors elim=%s' % elim,
             lambda: gm.variable_elimination_logspace(pots[::-1], elim, 3.5))
        show('ve-logspace tuple-of-factors elim=%s' % elim,
             lambda: gm.variable_elimination_logspace(tuple(pots), tuple(elim), 1.0))
        facs = [p.exp() for p in pots]
        show('ve elim=%s' % elim, lambda: gm.variable_elimination(facs, elim))
        show('ve duplicated-factors elim=%s' % elim,
             lambda: gm.variable_elimination(facs + facs[:1], elim))
    show('ve-logspace empty-factors', lambda: gm.variable_elimination_logspace([], [], 1.0))
    show('ve empty-factors', lambda: gm.variable_elimination([], []))
    show('ve-logspace uncovered-variable',
         lambda: gm.variable_elimination_logspace(pots[:1], list(attrs), 1.0))
    show('ve uncovered-variable', lambda: gm.variable_elimination(pots[:1], ['nope']))
    # the input list must not be modified
    before = list(pots)
    gm.variable_elimination_logspace(pots, list(attrs[1:]), 1.0)
    print('   input-untouched', len(before) == len(pots) and all(a is b for a, b in zip(before, pots)))

    # --- greedy order itself (input of the elimination; must be unaffected)
    for t in tuples[:20]:
        elim = model.domain.invert(t)
        print('   greedy_order', t, gm.greedy_order(model.domain, model.cliques + [t], elim))

    # --- Kronecker queries: variable_elimination with query factors
    for r, rows in enumerate([1, 2, 3]):
        Qs = [np.random.RandomState(7 + 10 * r + i).rand(rows + (i % 2), n)
              for i, n in enumerate(model.domain.shape)]
        show('krondot rows=%d' % rows, lambda: model.krondot(Qs))
    Qs = [np.eye(n) for n in model.domain.shape]
    show('krondot identity', lambda: model.krondot(Qs))
    Qs = [np.ones((1, n)) for n in model.domain.shape]
    show('krondot total', lambda: model.krondot(Qs))
    show('krondot bad-shape', lambda: model.krondot([np.ones((1, n + 1)) for n in model.domain.shape]))

    # --- cache populated, then the same single queries again; bulk falls back to project
    #     (hence to variable elimination) for tuples not covered by a pair of cliques
    res = model.calculate_many_marginals(tuples)
    for key in res:
        print('   bulk', key, fdigest(res[key]))
    for t in tuples[::7]:
        show('project-warm %s' % (t,), lambda: model.project(t))

    with tempfile.TemporaryDirectory() as tmp:
        path = os.path.join(tmp, 'model.pkl')
        GraphicalModel.save(model, path)
        loaded = GraphicalModel.load(path)
    del loaded.marginals
    for t in tuples[::11]:
        show('project-reloaded-cold %s' % (t,), lambda: loaded.project(t))
    show('datavector', lambda: model.datavector())

print('done')

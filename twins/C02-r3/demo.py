""" Equivalence demo for refactoring 3 (Factor: shared _aggregate / _aligned helpers for
    sum, logsumexp, max and for +, *, logaddexp;  Domain.marginalize expressed via invert).

Prints a deterministic digest of every query path of GraphicalModel on a collection of
models.  The output must be byte-identical on the unmodified and on the refactored code.

run:  PYTHONPATH=<root>/src /venv/bin/python out/refactor3/demo.py
"""
import os, sys

ROOT = os.path.abspath(os.path.join(os.path.dirname(os.path.abspath(__file__)), '..', '..'))
# junction trees / separators are built from sets of strings: pin the string hash seed so
# that two separate interpreter runs make exactly the same (arbitrary) choices
if os.environ.get('PYTHONHASHSEED') != '0':
    env = dict(os.environ, PYTHONHASHSEED='0')
    env['PYTHONPATH'] = os.path.join(ROOT, 'src') + os.pathsep + env.get('PYTHONPATH', '')
    os.execve(sys.executable, [sys.executable] + sys.argv, env)
sys.path.insert(0, os.path.join(ROOT, 'src'))

import hashlib, itertools, tempfile, warnings
import numpy as np
warnings.simplefilter('ignore')
np.seterr(all='ignore')

import mbi
from mbi import Domain, Factor, CliqueVector, GraphicalModel
assert os.path.abspath(mbi.__file__).startswith(ROOT), mbi.__file__


def digest(x):
    x = np.round(np.asarray(x, dtype=float), 8) + 0.0
    h = hashlib.sha256(np.ascontiguousarray(x).tobytes()).hexdigest()[:12]
    return 'shape=%s sum=%.6f sha=%s' % (x.shape, float(np.nansum(x)), h)


def fdigest(f):
    return '%s %s' % (f.domain.attrs, digest(f.values))


def make_model(name, attrs, shape, cliques, total, seed, neg_inf=0, scale=1.0):
    prng = np.random.RandomState(seed)
    dom = Domain(attrs, shape)
    model = GraphicalModel(dom, cliques, total=total)
    pots = {}
    for cl in model.cliques:
        vals = scale * prng.randn(*dom.project(cl).shape)
        for _ in range(neg_inf):
            idx = tuple(prng.randint(n) for n in vals.shape)
            vals[idx] = -np.inf
        pots[cl] = Factor(dom.project(cl), vals)
    model.potentials = CliqueVector(pots)
    return name, model, seed


MODELS = [
    make_model('chain4', 'abcd', (2, 3, 4, 2), [('a', 'b'), ('b', 'c'), ('c', 'd')], 1.0, 0),
    make_model('chain5-total', 'abcde', (2, 3, 2, 3, 2),
               [('a', 'b'), ('b', 'c'), ('c', 'd'), ('d', 'e')], 250.0, 1),
    make_model('star', 'abcde', (3, 2, 2, 3, 2),
               [('a', 'b'), ('a', 'c'), ('a', 'd'), ('a', 'e')], 10.0, 2),
    make_model('branching-tree', 'abcdef', (2, 2, 3, 2, 2, 2),
               [('a', 'b'), ('b', 'c'), ('b', 'd'), ('d', 'e'), ('d', 'f')], 1000.0, 3),
    make_model('triples', 'abcde', (2, 3, 2, 2, 3),
               [('a', 'b', 'c'), ('b', 'c', 'd'), ('d', 'e')], 77.5, 4),
    make_model('permuted-cliques', ['z', 'y', 'x', 'w'], (3, 2, 4, 2),
               [('w', 'z'), ('x', 'w'), ('y', 'x')], 3.0, 5),
    make_model('disconnected', 'abcd', (2, 3, 2, 3), [('a', 'b'), ('c',), ('d',)], 42.0, 6),
    make_model('single-clique', 'abc', (2, 3, 2), [('c', 'a', 'b')], 5.0, 7),
    make_model('neg-inf', 'abcd', (3, 3, 2, 2), [('a', 'b'), ('b', 'c'), ('c', 'd')], 100.0, 8,
               neg_inf=2),
    make_model('sharp', 'abcd', (2, 2, 3, 2), [('a', 'b'), ('b', 'c'), ('b', 'd')], 1.0, 9,
               scale=25.0),
    make_model('loop-triangulated', 'abcd', (2, 3, 2, 3),
               [('a', 'b'), ('b', 'c'), ('c', 'd'), ('d', 'a')], 12.0, 10),
]


def all_tuples(attrs):
    for k in range(len(attrs) + 1):
        for sub in itertools.permutations(attrs, k):
            yield tuple(sub)


def safe(fn):
    try:
        return fn()
    except Exception as e:       # only the type: messages are not part of the contract
        return 'EXC ' + type(e).__name__


def show_many(model, projections, tag):
    res = safe(lambda: model.calculate_many_marginals(projections))
    if isinstance(res, str):
        print('   many[%s] -> %s' % (tag, res))
        return
    print('   many[%s] keys=%d' % (tag, len(res)))
    for key in res:
        print('     ', key, fdigest(res[key]))



def show(tag, fn):
    r = safe(fn)
    if isinstance(r, Factor):
        r = fdigest(r)
    elif isinstance(r, Domain):
        r = repr(r)
    elif not isinstance(r, str):
        r = digest(r)
    print('   %s -> %s' % (tag, r))


# ---------------------------------------------------------------- Domain.marginalize
print('== Domain.marginalize')
dom = Domain(['a', 'b', 'c', 'd'], [2, 3, 4, 5])
for arg in [(), [], ('a',), ['d', 'a'], ('c', 'b', 'a', 'd'), {'b', 'c'}, 'a', 'ab', 'xyz',
            ('nope',), {'a': 1, 'c': 2}.keys(), {'b': 0}, frozenset(['d']), ('a', 'a'),
            Domain(['c', 'q'], [4, 9])]:
    show('marginalize %r' % (sorted(arg) if isinstance(arg, (set, frozenset)) else arg,),
         lambda: dom.marginalize(arg))
    show('invert      %r' % (sorted(arg) if isinstance(arg, (set, frozenset)) else arg,),
         lambda: Domain(dom.invert(arg), [dom[a] for a in dom.invert(arg)]))
show('marginalize None', lambda: dom.marginalize(None))
show('marginalize 3', lambda: dom.marginalize(3))
show('marginalize generator', lambda: dom.marginalize(a for a in ['b', 'c']))
show('empty-domain marginalize', lambda: Domain([], []).marginalize(('a',)))
show('merge', lambda: dom.project(['c', 'a']).merge(Domain(['e', 'a', 'b'], [6, 2, 3])))
show('merge-self', lambda: dom.merge(dom))

# ---------------------------------------------------------------- Factor aggregations
print('== Factor aggregations')
prng = np.random.RandomState(0)
vals = prng.randn(2, 3, 4, 5)
vals[0, 1, 2, 3] = -np.inf
vals[1, :, 0, :] = -np.inf
F = Factor(dom, vals)
G = Factor(dom.project(['d', 'b']), prng.rand(5, 3))
H = Factor(Domain(['e', 'c'], [2, 4]), prng.randn(2, 4))
E = Factor(Domain([], []), np.array(2.5))
ARGS = [None, (), [], ('a',), ['d'], ('b', 'c'), ['c', 'b'], {'a', 'd'}, ('a', 'b', 'c', 'd'),
        ('d', 'c', 'b', 'a'), 'a', 'bc', ('nope',), ('a', 'a'), {'a': 0}.keys(), 'xyz']
for arg in ARGS:
    lab = sorted(arg) if isinstance(arg, set) else arg
    for meth in ['sum', 'logsumexp', 'max']:
        show('F.%s(%r)' % (meth, lab), lambda: getattr(F, meth)(arg))
    show('G.sum(%r)' % (lab,), lambda: G.sum(arg))
    show('E.logsumexp(%r)' % (lab,), lambda: E.logsumexp(arg))
for attrs in [(), ('a',), ('c', 'a'), ('d', 'c', 'b', 'a'), ['b', 'd'], ('nope',)]:
    show('F.project(%r)' % (attrs,), lambda: F.project(attrs))
    show('F.project(%r, logsumexp)' % (attrs,), lambda: F.project(attrs, agg='logsumexp'))
show('F.project bad agg', lambda: F.project(('a',), agg='mean'))
show('F.condition', lambda: F.condition({'a': 0, 'c': 3}))
show('F.exp.sum via expand', lambda: F.exp().expand(Domain(['z', 'd', 'c', 'b', 'a'], [2, 5, 4, 3, 2])).sum(['z', 'a']))
ints = Factor(dom.project(['a', 'b']), np.arange(6))
for meth in ['sum', 'logsumexp', 'max']:
    show('int-factor.%s' % meth, lambda: getattr(ints, meth)(['a']))
    show('int-factor.%s()' % meth, lambda: getattr(ints, meth)())

# ---------------------------------------------------------------- Factor binary operations
print('== Factor binary operations')
operands = [('F', F), ('G', G), ('H', H), ('E', E), ('Gt', G.transpose(['b', 'd'])),
            ('2', 2), ('2.5', 2.5), ('np2', np.float64(-1.5)), ('inf', -np.inf), ('0', 0)]
for ln, left in operands[:5]:
    for rn, right in operands:
        show('%s + %s' % (ln, rn), lambda: left + right)
        show('%s * %s' % (ln, rn), lambda: left * right)
        show('%s - %s' % (ln, rn), lambda: left - right)
        show('%s + %s (reflected)' % (rn, ln), lambda: right + left)
        show('%s * %s (reflected)' % (rn, ln), lambda: right * left)
        show('%s logaddexp %s' % (ln, rn), lambda: left.logaddexp(right))
show('F + None', lambda: F + None)
show('F * array', lambda: F * np.ones(3))
show('F + clash', lambda: F + Factor(Domain(['a'], [7]), np.ones(7)))
show('sum-builtin', lambda: sum([G, H, E]))
a0 = G.values.copy()
_ = G + H; _ = G * H; _ = G.logaddexp(H); _ = G.sum(['d'])
print('   operands untouched', np.array_equal(a0, G.values))
res = G * H
print('   result owns its data', res.values.flags.writeable, res.values.base is None or res.values.base is not G.values)

# ---------------------------------------------------------------- whole-model query paths

for name, model, seed in MODELS:
    attrs = model.domain.attrs
    print('== model', name, model.domain, 'total', model.total)
    tuples = list(all_tuples(attrs))
    if len(tuples) > 150:
        prng = np.random.RandomState(seed)
        keep = sorted(prng.choice(len(tuples), 150, replace=False))
        tuples = [tuples[i] for i in keep]
    for t in tuples[::3]:
        show('project-cold %s' % (t,), lambda: model.project(t))
    res = model.calculate_many_marginals(tuples)
    for key in res:
        print('   bulk', key, fdigest(res[key]))
    for t in tuples[1::3]:
        show('project-warm %s' % (t,), lambda: model.project(t))
    show('datavector', lambda: model.datavector())
    show('datavector-unflattened', lambda: model.datavector(flatten=False))
    Qs = [np.random.RandomState(7 + i).rand(2 + (i % 2), n) for i, n in enumerate(model.domain.shape)]
    show('krondot', lambda: model.krondot(Qs))
    show('logZ', lambda: model.belief_propagation(model.potentials, logZ=True))
    with tempfile.TemporaryDirectory() as tmp:
        path = os.path.join(tmp, 'model.pkl')
        GraphicalModel.save(model, path)
        loaded = GraphicalModel.load(path)
    for t in tuples[2::9]:
        show('project-reloaded %s' % (t,), lambda: loaded.project(t))

print('done')

"""
C04 / pair 1 -- smoothness constant of the squared loss.

Clause checked: "the smoothness constant computed for the squared loss is an upper
bound on the largest eigenvalue of its Hessian".

For several measurement sets the program
  * runs engine._setup + engine._lipschitz,
  * builds the Hessian of the L2 loss explicitly (block per model clique,
    H_cl = sum_m  P_m^T Q_m^T Q_m P_m / sigma_m^2, P_m = marginalisation matrix
    built with plain numpy index arithmetic),
  * checks  L >= lambda_max(H)  and, as an independent witness, that the gradient
    returned by engine._marginal_loss does not move faster than L along the top
    eigenvector of H.
Exit status 0 + "PASS" + digest when every configuration satisfies the bound,
exit status 1 + "FAIL" otherwise.
"""
import os, sys, hashlib, warnings
warnings.filterwarnings('ignore')
HERE = os.path.abspath(__file__)
ROOT = os.path.dirname(os.path.dirname(os.path.dirname(HERE)))
sys.path.insert(0, os.path.join(ROOT, 'src'))

import numpy as np
from scipy import sparse
from scipy.sparse.linalg import LinearOperator
from mbi import Domain, FactoredInference, CliqueVector, Factor
import mbi
assert os.path.abspath(mbi.__file__).startswith(ROOT), mbi.__file__


def prefix(n):
    return np.tril(np.ones((n, n)))

def all_range(n):
    rows = []
    for i in range(n):
        for j in range(i, n):
            r = np.zeros(n); r[i:j+1] = 1.0; rows.append(r)
    return np.array(rows)

def dense(Q, p):
    if sparse.issparse(Q):
        return np.asarray(Q.todense(), dtype=float)
    if isinstance(Q, LinearOperator):
        return np.column_stack([Q @ e for e in np.eye(p)])
    return np.asarray(Q, dtype=float)

def marg_matrix(domain, cl, proj):
    """ P with (P mu_cl) = datavector of mu_cl projected onto proj (in proj order) """
    shape = tuple(domain[a] for a in cl)
    n = int(np.prod(shape))
    coords = np.unravel_index(np.arange(n), shape)
    pc = [coords[cl.index(a)] for a in proj]
    pshape = tuple(domain[a] for a in proj)
    rows = np.ravel_multi_index(pc, pshape)
    P = np.zeros((int(np.prod(pshape)), n))
    P[rows, np.arange(n)] = 1.0
    return P


def configs():
    rng = np.random.RandomState(20240404)
    out = []

    # 1. chain of overlapping pairs, identity queries, distinct noise, one 1-way
    dom = Domain(['a', 'b', 'c', 'd'], [2, 3, 4, 2])
    ms = [(None, rng.rand(6), 0.5, ('a', 'b')),
          (None, rng.rand(12), 2.0, ('b', 'c')),
          (None, rng.rand(8), 1.5, ('c', 'd')),
          (None, rng.rand(3), 0.25, 'b')]
    out.append(('chain-identity', dom, ms))

    # 2. one query-matrix OBJECT shared by two different marginals of equal size
    dom = Domain(['a', 'b', 'c'], [4, 4, 3])
    W = prefix(4)
    ms = [(W, rng.rand(4), 1.0, ('a',)),
          (W, rng.rand(4), 0.5, ('b',)),
          (sparse.eye(12, format='csr'), rng.rand(12), 3.0, ('b', 'c'))]
    out.append(('shared-query-object', dom, ms))

    # 3. the same marginal measured twice with identity queries, different noise
    dom = Domain(['a', 'b', 'c'], [3, 2, 4])
    ms = [(None, rng.rand(6), 1.0, ('a', 'b')),
          (None, rng.rand(6), 0.3, ('a', 'b')),
          (None, rng.rand(8), 2.0, ('b', 'c'))]
    out.append(('same-marginal-same-query', dom, ms))

    # 4. the same marginal measured with two DIFFERENT workloads:
    #    first the identity (largest eigenvalue 1), then all range queries
    dom = Domain(['a', 'b', 'c'], [6, 2, 3])
    R = all_range(6)
    ms = [(np.eye(6), rng.rand(6), 1.0, ('a',)),
          (R, rng.rand(R.shape[0]), 1.0, ('a',)),
          (None, rng.rand(6), 2.0, ('b', 'c'))]
    out.append(('same-marginal-two-workloads', dom, ms))

    # 5. as 4 but on a two-way marginal inside a bigger clique, sparse / operator forms
    dom = Domain(['a', 'b', 'c'], [3, 4, 2])
    K = sparse.kron(prefix(3), prefix(4), format='csr')
    Kop = LinearOperator((12, 12), matvec=lambda v, K=K: K @ v,
                         rmatvec=lambda v, K=K: K.T @ v, dtype=float)
    ms = [(sparse.eye(12, format='csr'), rng.rand(12), 2.0, ('a', 'b')),
          (Kop, rng.rand(12), 0.5, ('a', 'b')),
          (None, rng.rand(24), 1.0, ('a', 'b', 'c'))]
    out.append(('two-workloads-operator', dom, ms))
    return out


def main():
    lines, bad = [], []
    for name, dom, ms in configs():
        engine = FactoredInference(dom, metric='L2', iters=1)
        fixed = engine.fix_measurements(ms)
        engine._setup(fixed, 1.0)
        L = float(engine._lipschitz(fixed))

        lam, top = 0.0, None
        for cl in engine.model.cliques:
            n = dom.size(cl)
            H = np.zeros((n, n))
            for Q, y, noise, proj in engine.groups[cl]:
                A = dense(Q, dom.size(proj)) @ marg_matrix(dom, cl, proj)
                H += A.T @ A / noise**2
            w, V = np.linalg.eigh(H)
            if w[-1] > lam:
                lam, top = float(w[-1]), (cl, V[:, -1])

        # independent witness through the engine's own gradient
        rng = np.random.RandomState(7)
        x = CliqueVector({cl: Factor(dom.project(cl), rng.rand(dom.size(cl)))
                          for cl in engine.model.cliques})
        step = CliqueVector({cl: Factor.zeros(dom.project(cl)) for cl in engine.model.cliques})
        step[top[0]] = Factor(dom.project(top[0]), top[1].copy())
        _, g0 = engine._marginal_loss(x)
        _, g1 = engine._marginal_loss(x + step)
        d = g1 - g0
        growth = float(np.sqrt(d.dot(d) / step.dot(step)))

        ok = (L >= lam * (1 - 1e-9)) and (L >= growth * (1 - 1e-9))
        lines.append('%-28s cliques=%s L=%.8g lambda_max=%.8g grad_growth=%.8g %s'
                     % (name, list(engine.model.cliques), L, lam, growth,
                        'ok' if ok else 'VIOLATED'))
        if not ok:
            bad.append('%s: smoothness constant %.8g is below the largest Hessian '
                       'eigenvalue %.8g (gradient moves by %.8g per unit step)'
                       % (name, L, lam, growth))

    for l in lines:
        print(l)
    if bad:
        print('FAIL')
        for b in bad:
            print('  ' + b)
        sys.exit(1)
    print('PASS digest=' + hashlib.sha256('\n'.join(lines).encode()).hexdigest()[:16])
    sys.exit(0)


if __name__ == '__main__':
    main()

""" C04 / pair 2 -- the smoothness constant of the squared loss.

FactoredInference._lipschitz(measurements) must be an upper bound on the
largest eigenvalue of the Hessian of the L2 loss that _marginal_loss computes
(as a function of the concatenated vector of clique marginals).

For several measurement sets the exact Hessian is assembled twice
  - from numpy alone (marginalisation matrices P, H_cl = sum P'Q'QP / noise^2)
  - from differences of the gradient returned by engine._marginal_loss
and the demo checks
  (i)   both Hessians agree,
  (ii)  L >= lambda_max(H),
  (iii) the test_lipschitz style ratio |g(x)-g(y)| / |x-y| <= L for random pairs
        and for the pair that differs along the top eigenvector.

exit 0 + PASS + digest  /  exit 1 + FAIL + explanation
"""
import os, sys, hashlib, warnings
ROOT = os.path.dirname(os.path.dirname(os.path.dirname(os.path.abspath(__file__))))
sys.path.insert(0, os.path.join(ROOT, 'src'))
warnings.filterwarnings('ignore')

import numpy as np
from scipy import sparse
from scipy.sparse.linalg import aslinearoperator
import mbi
from mbi import Domain, FactoredInference, Factor, CliqueVector

assert os.path.abspath(mbi.__file__).startswith(os.path.abspath(ROOT)), mbi.__file__

lines = []
failures = []
def out(s):
    lines.append(s)
    print(s)

def dense(Q, n):
    if Q is None:
        return np.eye(n)
    if sparse.issparse(Q):
        return np.asarray(Q.todense())
    if isinstance(Q, np.ndarray):
        return Q
    return np.asarray(Q @ np.eye(n))

def as_tuple(proj):
    return (proj,) if isinstance(proj, str) else tuple(proj)

def size(domain, attrs):
    return int(np.prod([domain[a] for a in attrs], dtype=int))

def host(model, proj):
    """ the smallest model clique containing proj (ties: model order) """
    for cl in sorted(model.cliques, key=lambda c: size(model.domain, c)):
        if set(proj) <= set(cl):
            return cl
    raise KeyError(proj)

def marginaliser(domain, cl, proj):
    """ matrix P with  P @ vec(mu_cl) = vec(marginal of mu_cl on proj, in proj order) """
    shape = tuple(domain[a] for a in cl)
    n = size(domain, cl)
    P = np.zeros((size(domain, proj), n))
    drop = tuple(i for i, a in enumerate(cl) if a not in proj)
    kept = [a for a in cl if a in proj]
    perm = [kept.index(a) for a in proj]
    for i in range(n):
        e = np.zeros(n); e[i] = 1.0
        P[:, i] = np.transpose(e.reshape(shape).sum(axis=drop), perm).reshape(-1)
    return P

def flat(vec, cliques):
    return np.concatenate([np.asarray(vec[cl].values).reshape(-1) for cl in cliques])

def unflat(x, domain, cliques):
    ans, k = {}, 0
    for cl in cliques:
        d = domain.project(cl)
        ans[cl] = Factor(d, x[k:k + d.size()].copy())
        k += d.size()
    return CliqueVector(ans)

def check(name, domain, raw, seed):
    rng = np.random.RandomState(seed)
    engine = FactoredInference(domain, metric='L2', iters=10)
    fixed = engine.fix_measurements(list(raw))
    engine._setup(fixed, 10.0)
    model = engine.model
    cliques = list(model.cliques)
    L = float(engine._lipschitz(fixed))

    # reference Hessian (block diagonal over the model cliques)
    offs, k = {}, 0
    for cl in cliques:
        offs[cl] = k
        k += size(domain, cl)
    N = k
    H = np.zeros((N, N))
    for Q, y, noise, proj in raw:
        proj = as_tuple(proj)
        cl = host(model, proj)
        A = dense(Q, size(domain, proj)) @ marginaliser(domain, cl, proj) / noise
        o, n = offs[cl], size(domain, cl)
        H[o:o + n, o:o + n] += A.T @ A

    # Hessian of the loss the engine actually evaluates
    x0 = rng.rand(N)
    g0 = flat(engine._marginal_loss(unflat(x0, domain, cliques))[1], cliques)
    G = np.zeros((N, N))
    for i in range(N):
        e = np.zeros(N); e[i] = 1.0
        gi = flat(engine._marginal_loss(unflat(x0 + e, domain, cliques))[1], cliques)
        G[:, i] = gi - g0
    if not np.allclose(G, H, rtol=1e-8, atol=1e-8):
        failures.append('%s: Hessian of _marginal_loss differs from the reference Hessian '
                        '(max abs diff %.3g)' % (name, np.abs(G - H).max()))

    w, V = np.linalg.eigh(H)
    lam = float(w[-1])
    if L < lam * (1 - 1e-9) - 1e-12:
        failures.append('%s: _lipschitz = %.10g is smaller than the largest Hessian '
                        'eigenvalue %.10g (ratio %.4f)' % (name, L, lam, L / lam))

    # ratio test in the style of test_lipschitz
    worst = 0.0
    pairs = [(rng.rand(N), rng.rand(N)) for _ in range(50)]
    pairs.append((x0, x0 + V[:, -1]))
    for x, y in pairs:
        gx = flat(engine._marginal_loss(unflat(x, domain, cliques))[1], cliques)
        gy = flat(engine._marginal_loss(unflat(y, domain, cliques))[1], cliques)
        worst = max(worst, np.linalg.norm(gx - gy) / np.linalg.norm(x - y))
    if worst > L * (1 + 1e-9) + 1e-12:
        failures.append('%s: gradient changes %.10g times faster than the argument, '
                        'but _lipschitz = %.10g' % (name, worst, L))

    hosted = {}
    for Q, y, noise, proj in raw:
        hosted.setdefault(host(model, as_tuple(proj)), []).append(as_tuple(proj))
    out('%-20s cliques=%s' % (name, cliques))
    out('   hosted      %s' % sorted(hosted.items()))
    out('   lipschitz   %.9g' % L)
    out('   lambda_max  %.9g   worst ratio %.9g' % (lam, worst))


def main():
    rng = np.random.RandomState(424242)

    # A: the configuration of test_lipschitz: one single-attribute marginal per clique
    domA = Domain(['a', 'b', 'c', 'd', 'e'], [2, 3, 4, 5, 6])
    rawA = []
    for a in ['a', 'b', 'c', 'd']:
        rawA.append((np.eye(domA.size(a)), rng.rand(domA.size(a)), 1.0, a))
    check('A unit-test-like', domA, rawA, 1)

    # B: the same marginal measured three times (different queries / noise / spelling)
    domB = Domain(['a', 'b', 'c'], [2, 3, 4])
    rawB = [
        (rng.rand(4, 6),                      rng.rand(4),  2.0, ('a', 'b')),
        (None,                                rng.rand(6),  0.5, ['a', 'b']),
        (sparse.csr_matrix(rng.rand(3, 6)),   rng.rand(3),  1.5, ('a', 'b')),
        (aslinearoperator(rng.rand(7, 12)),   rng.rand(7),  6.0, ('b', 'c')),
    ]
    check('B repeated marginal', domB, rawB, 2)

    # C: a two-way marginal together with its two one-way marginals
    #    (three different projections hosted by one clique)
    rawC = [
        (None,                rng.rand(6),  1.0, ('a', 'b')),
        (None,                rng.rand(2),  1.0, 'a'),
        (None,                rng.rand(3),  1.0, ('b',)),
    ]
    check('C nested marginals', domB, rawC, 3)

    # D: overlapping cliques of different size, weighted queries, several noise levels
    domD = Domain(['p', 'q', 'r', 's'], [3, 2, 2, 3])
    rawD = [
        (None,                               rng.rand(6),   0.7, ('p', 'q')),
        (rng.rand(2, 2),                     rng.rand(2),   0.4, ('q',)),
        (sparse.eye(12).tocsr()[::2],        rng.rand(6),   2.0, ('q', 'r', 's')),
        (rng.rand(5, 6),                     rng.rand(5),   0.9, ('s', 'r')),
        (None,                               rng.rand(3),   0.3, 's'),
        (None,                               rng.rand(3),   0.6, ['s']),
    ]
    check('D overlapping', domD, rawD, 4)

    digest = hashlib.sha256('\n'.join(lines).encode()).hexdigest()
    if failures:
        print('FAIL')
        for f in failures:
            print('  -', f)
        sys.exit(1)
    print('PASS', digest)
    sys.exit(0)

if __name__ == '__main__':
    main()

""" C04 / pair 1 -- FactoredInference._lipschitz: per-clique accumulation done "in one shot" with numpy.

Checks, on several measurement sets, that the constant returned by engine._lipschitz(measurements)
  (a) is an upper bound on the largest eigenvalue of the Hessian of the squared loss that
      engine._marginal_loss actually evaluates (Hessian built explicitly from engine.groups), and
  (b) equals the documented per-clique sum  max_cl sum_{m in cl} eig(Q^T Q) * n/p / noise^2.
Exit 0 + PASS + digest when both hold everywhere, exit 1 + FAIL otherwise.
"""
import os, sys, warnings
ROOT = os.path.dirname(os.path.dirname(os.path.dirname(os.path.abspath(__file__))))
sys.path.insert(0, os.path.join(ROOT, 'src'))
warnings.simplefilter('ignore')
import numpy as np
from scipy import sparse
from scipy.sparse.linalg import aslinearoperator
import mbi
assert os.path.abspath(mbi.__file__).startswith(ROOT), mbi.__file__
from mbi import Domain, Factor, FactoredInference

def projection_matrix(dom_cl, proj):
    """ dense matrix P with P @ mu_cl.datavector() == mu_cl.project(proj).datavector() """
    n = dom_cl.size()
    cols = []
    for j in range(n):
        e = np.zeros(n); e[j] = 1.0
        cols.append(Factor(dom_cl, e).project(proj).datavector())
    return np.array(cols).T

def dense(Q, p):
    return aslinearoperator(Q) @ np.eye(p)

def hessian_top(engine):
    """ largest eigenvalue of the (block diagonal) Hessian of the L2 loss the engine evaluates """
    top, formula = 0.0, 0.0
    for cl in engine.model.cliques:
        dom = engine.domain.project(cl)
        H = np.zeros((dom.size(), dom.size()))
        acc = 0.0
        for Q, y, noise, proj in engine.groups[cl]:
            P = projection_matrix(dom, proj)
            A = dense(Q, P.shape[0]) @ P / noise
            H += A.T @ A
            Qd = dense(Q, P.shape[0])
            acc += np.linalg.eigvalsh(Qd.T @ Qd)[-1] * dom.size() / P.shape[0] / noise**2
        top = max(top, np.linalg.eigvalsh(H)[-1])
        formula = max(formula, acc)
    return top, formula

def configs():
    prng = np.random.RandomState(20240804)
    dom = Domain(['a','b','c','d'], [2,3,4,3])
    out = []
    # 1. the unit-test shape: one identity measurement per attribute, noise 1
    ms = [(np.eye(dom[a]), prng.rand(dom[a]), 1.0, a) for a in 'abcd']
    out.append(('one-per-attribute', dom, ms))
    # 2. the same two-way marginal measured twice with different noise (re-measured marginal)
    ms = [(None, prng.rand(6), 2.0, ('a','b')), (None, prng.rand(6), 0.5, ('a','b'))]
    out.append(('remeasured-marginal', dom, ms))
    # 3. chain a-b-c-d, one- and two-way measurements landing in shared cliques, mixed spellings
    W = np.tril(np.ones((4,4)))
    ms = [(sparse.eye(6), prng.rand(6), 1.5, ('a','b')),
          (np.eye(2), prng.rand(2), 0.7, 'a'),
          (None, prng.rand(12), 3.0, ['b','c']),
          (W, prng.rand(4), 1.0, ('c',)),
          (aslinearoperator(sparse.eye(12)), prng.rand(12), 2.0, ('c','d')),
          (np.ones((1,3)), prng.rand(1), 0.25, 'd'),
          (None, prng.rand(3), 0.9, 'b')]
    out.append(('chain-mixed', dom, ms))
    # 4. a single clique carrying five measurements (AIM / MWEM style history on one marginal)
    ms = [(None, prng.rand(12), s, ('b','c')) for s in (4.0, 2.0, 1.0, 2.0, 8.0)]
    out.append(('history-on-one-clique', dom, ms))
    # 5. a measurement in a non canonical attribute order + a total query
    ms = [(None, prng.rand(12), 1.0, ('d','c')), (np.ones((1,4)), prng.rand(1), 1.0, 'c'),
          (prng.rand(5,3), prng.rand(5), 0.6, ('d',))]
    out.append(('non-canonical-order', dom, ms))
    return out

def main():
    lines, bad = [], []
    for name, dom, ms in configs():
        engine = FactoredInference(dom, iters=1)
        ms = engine.fix_measurements(ms)
        engine._setup(ms, 10.0)
        L = float(engine._lipschitz(ms))
        top, formula = hessian_top(engine)
        lines.append('%-24s L=%.8e  lambda_max(H)=%.8e  formula=%.8e' % (name, L, top, formula))
        if L < top*(1 - 1e-8):
            bad.append('%s: _lipschitz returned %.6g but the Hessian of the loss has an eigenvalue %.6g '
                       '(not an upper bound)' % (name, L, top))
        elif abs(L - formula) > 1e-8*max(1.0, formula):
            bad.append('%s: _lipschitz returned %.6g, the per-clique sum is %.6g' % (name, L, formula))
    print('\n'.join(lines))
    if bad:
        print('FAIL')
        for b in bad: print('  ' + b)
        return 1
    print('PASS')
    return 0

if __name__ == '__main__':
    sys.exit(main())

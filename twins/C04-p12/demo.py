""" C04 / pair 2 -- FactoredInference._marginal_loss: noise weight applied to the scalar loss / gradient.

For several measurement sets, both metrics (L2 and L1) and several noise regimes, compares
  engine._marginal_loss(mu)  (after engine._setup)
with the stated loss recomputed independently from the measurement list,
     L2:  sum_m 0.5 * || (Q_m mu_proj - y_m) / sigma_m ||_2^2
     L1:  sum_m      || (Q_m mu_proj - y_m) / sigma_m ||_1
and checks the returned gradient against a central finite difference of the engine's own loss
along random directions.  Exit 0 + PASS + digest if everything agrees, exit 1 + FAIL otherwise.
"""
import os, sys, warnings
ROOT = os.path.dirname(os.path.dirname(os.path.dirname(os.path.abspath(__file__))))
sys.path.insert(0, os.path.join(ROOT, 'src'))
warnings.simplefilter('ignore')
import numpy as np
from scipy import sparse
from scipy.sparse.linalg import aslinearoperator
import mbi
assert os.path.abspath(mbi.__file__).startswith(ROOT), mbi.__file__
from mbi import Domain, Factor, FactoredInference, CliqueVector

def reference_loss(model, mu, measurements, metric):
    """ the stated loss, from the raw measurement list and the (consistent) marginals mu """
    total = 0.0
    for Q, y, noise, proj in measurements:
        proj = (proj,) if type(proj) is str else tuple(proj)
        cl = next(c for c in model.cliques if set(proj) <= set(c))
        x = mu[cl].project(proj).datavector()
        r = (x if Q is None else aslinearoperator(Q) @ x) - y
        r = r / noise
        total += np.abs(r).sum() if metric == 'L1' else 0.5*np.sum(r**2)
    return total

def measurement_sets(prng, dom):
    W = np.tril(np.ones((4,4)))
    def build(sig):
        return [(sparse.eye(6), 10*prng.rand(6), sig[0], ('a','b')),
                (np.eye(2), 10*prng.rand(2), sig[1], 'a'),
                (None, 10*prng.rand(12), sig[2], ['b','c']),
                (W, 10*prng.rand(4), sig[3], ('c',)),
                (aslinearoperator(sparse.eye(12)), 10*prng.rand(12), sig[4], ('d','c')),
                (np.ones((1,3)), 10*prng.rand(1), sig[5], 'd')]
    yield 'unit-noise', build([1.0]*6)
    yield 'common-noise-2', build([2.0]*6)
    yield 'mixed-noise', build([0.5, 3.0, 1.5, 0.25, 7.0, 1.0])
    yield 'integer-noise', build([2, 1, 4, 1, 3, 5])
    yield 'single-marginal', [(None, 10*prng.rand(12), 10.0, ('b','c'))]

def main():
    prng = np.random.RandomState(80402)
    dom = Domain(['a','b','c','d'], [2,3,4,3])
    lines, bad = [], []
    for name, ms in measurement_sets(prng, dom):
        for metric in ['L2', 'L1']:
            engine = FactoredInference(dom, metric=metric, iters=1)
            fixed = engine.fix_measurements(ms)
            engine._setup(fixed, 10.0)
            model = engine.model
            theta = CliqueVector({cl: Factor(dom.project(cl), prng.randn(dom.size(cl)))
                                  for cl in model.cliques})
            mu = model.belief_propagation(theta)
            loss, grad = engine._marginal_loss(mu)
            ref = reference_loss(model, mu, ms, metric)
            # derivative test along a random direction in marginal space
            d = CliqueVector({cl: Factor(dom.project(cl), prng.randn(dom.size(cl)))
                              for cl in model.cliques})
            h = 1e-6
            fd = (engine._marginal_loss(mu + h*d)[0] - engine._marginal_loss(mu + (-h)*d)[0]) / (2*h)
            an = grad.dot(d)
            lines.append('%-16s %s  loss=%.8e  stated=%.8e  dloss=%.6e' % (name, metric, loss, ref, an))
            if abs(loss - ref) > 1e-9*max(1.0, abs(ref)):
                bad.append('%s/%s: _marginal_loss = %.8g but the stated loss '
                           'sum |(Q mu - y)/sigma| is %.8g' % (name, metric, loss, ref))
            if abs(fd - an) > 1e-5*max(1.0, abs(an)):
                bad.append('%s/%s: gradient.dot(d) = %.8g but finite difference of the loss = %.8g'
                           % (name, metric, an, fd))
    print('\n'.join(lines))
    if bad:
        print('FAIL')
        for b in bad: print('  ' + b)
        return 1
    print('PASS')
    return 0

if __name__ == '__main__':
    sys.exit(main())

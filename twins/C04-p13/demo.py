""" C04 / pair 1 -- Factor.expand: np.moveaxis replaced by transpose + reshape

Checks, for several measurement sets, that the gradient returned by
FactoredInference._marginal_loss is the derivative of the loss it returns:
  (1) against an independent closed-form reference written with einsum, and
  (2) against central finite differences along random directions.
The loss itself is compared with the reference as well.
"""
import os, sys, warnings
ROOT = os.path.dirname(os.path.dirname(os.path.dirname(os.path.abspath(__file__))))
sys.path.insert(0, os.path.join(ROOT, 'src'))
warnings.filterwarnings('ignore')
import numpy as np
from scipy import sparse
from mbi import Domain, FactoredInference, Factor, CliqueVector
import mbi
assert os.path.abspath(mbi.__file__).startswith(ROOT), mbi.__file__


def reference(engine, mu, metric):
    """ loss and gradient from the definition, no Factor arithmetic involved """
    loss = 0.0
    grad = {cl: np.zeros(mu[cl].domain.shape) for cl in mu}
    for cl in mu:
        cidx = list(range(len(cl)))
        for Q, y, noise, proj in engine.groups[cl]:
            pidx = [cl.index(a) for a in proj]
            x = np.einsum(mu[cl].values, cidx, pidx).reshape(-1)
            Qd = Q.toarray() if sparse.issparse(Q) else np.asarray(Q)
            r = (Qd.dot(x) - y) / noise
            if metric == 'L1':
                loss += np.abs(r).sum()
                g = Qd.T.dot(np.sign(r)) / noise
            else:
                loss += 0.5 * r.dot(r)
                g = Qd.T.dot(r) / noise
            g = g.reshape([engine.domain[a] for a in proj])
            grad[cl] += np.einsum(g, pidx, np.ones(mu[cl].domain.shape), cidx, cidx)
    return loss, grad


def make(prng, domain, proj, noise, kind):
    n = domain.size(proj)
    if kind == 'identity':
        Q = None
        y = prng.rand(n)
    elif kind == 'sparse':
        Q = sparse.csr_matrix(np.triu(np.ones((n, n))))
        y = prng.rand(n)
    else:
        Q = prng.randn(n + 2, n)
        y = prng.rand(n + 2)
    return (Q, y, noise, proj)


def run_case(name, domain, specs, metric, seed):
    prng = np.random.RandomState(seed)
    ms = [make(prng, domain, proj, noise, kind) for proj, noise, kind in specs]
    engine = FactoredInference(domain, metric=metric, iters=1)
    fixed = engine.fix_measurements(ms)
    engine._setup(fixed, 1.0)
    cliques = engine.model.cliques
    mu = CliqueVector({cl: Factor(domain.project(cl), prng.rand(*domain.project(cl).shape)) for cl in cliques})
    loss, grad = engine._marginal_loss(mu)
    rloss, rgrad = reference(engine, mu, metric)

    problems = []
    if not np.isclose(loss, rloss, rtol=1e-9, atol=1e-12):
        problems.append('loss %.12g differs from the definition %.12g' % (loss, rloss))
    for cl in cliques:
        err = np.abs(grad[cl].values - rgrad[cl]).max()
        if err > 1e-8 * (1 + np.abs(rgrad[cl]).max()):
            problems.append('gradient block %s differs from d loss / d mu (max abs error %.3g)' % (str(cl), err))
    # directional derivatives
    dots = []
    for k in range(3):
        d = CliqueVector({cl: Factor(domain.project(cl), prng.randn(*domain.project(cl).shape)) for cl in cliques})
        h = 1e-6
        lp = engine._marginal_loss(mu + h * d)[0]
        lm = engine._marginal_loss(mu + (-h) * d)[0]
        fd = (lp - lm) / (2 * h)
        an = grad.dot(d)
        dots.append(an)
        if not np.isclose(fd, an, rtol=1e-5, atol=1e-6):
            problems.append('directional derivative %d: finite difference %.8g, gradient.dot(direction) %.8g' % (k, fd, an))
    gnorm = np.sqrt(grad.dot(grad))
    line = '%-34s %s cliques=%s loss=%.10e |g|=%.10e dots=%s' % (
        name, metric, cliques, loss, gnorm, ' '.join('%.8e' % v for v in dots))
    return line, problems


def main():
    D1 = Domain(['a', 'b', 'c', 'd'], [2, 3, 4, 3])
    D2 = Domain(['x', 'y', 'z', 'w'], [3, 3, 3, 2])
    cases = [
        ('pairs, both orders', D1, [(('b', 'a'), 0.5, 'dense'), (('a', 'b'), 2.0, 'identity'), (('d', 'c'), 1.5, 'sparse')], 'L2'),
        ('triple, domain order', D1, [(('a', 'b', 'c'), 0.7, 'dense'), (('c',), 1.0, 'identity')], 'L2'),
        ('triple, two attributes swapped', D1, [(('b', 'a', 'c'), 0.7, 'dense'), (('a', 'c', 'b'), 1.3, 'sparse'), (('c', 'b', 'a'), 2.0, 'identity')], 'L2'),
        ('triple, rotated (b,c,a)', D1, [(('b', 'c', 'a'), 0.7, 'dense')], 'L2'),
        ('triple, rotated (c,a,b)', D1, [(('c', 'a', 'b'), 1.9, 'identity'), (('a', 'b'), 1.0, 'identity')], 'L2'),
        ('rotated triple + overlap, L1', D1, [(('c', 'a', 'b'), 0.4, 'sparse'), (('b', 'd'), 1.0, 'dense'), ('a', 3.0, 'identity')], 'L1'),
        ('rotated triple, equal sizes', D2, [(('z', 'x', 'y'), 1.1, 'dense'), (('y', 'w'), 0.8, 'identity')], 'L2'),
        ('rotated inside a 4-clique', D1, [(('a', 'b', 'c', 'd'), 1.0, 'identity'), (('d', 'a', 'c'), 0.6, 'dense')], 'L2'),
    ]
    lines, failures = [], []
    for i, (name, dom, specs, metric) in enumerate(cases):
        try:
            line, problems = run_case(name, dom, specs, metric, 1000 + i)
        except Exception as e:
            line, problems = '%-34s raised' % name, ['%s: %s' % (type(e).__name__, e)]
        lines.append(line)
        failures += ['[%s] %s' % (name, p) for p in problems]
    for line in lines:
        print(line)
    if failures:
        print('FAIL: the gradient used by the estimator is not the derivative of its loss')
        for f in failures:
            print('   ', f)
        sys.exit(1)
    print('PASS')
    sys.exit(0)


if __name__ == '__main__':
    main()

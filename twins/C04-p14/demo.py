""" C04 / pair 2 -- measurement normalisation moved from estimate() into _setup()

One set of noisy measurements is written in several equivalent spellings
(attributes as str / list / tuple, query dense / sparse / LinearOperator / None = identity)
and handed to FactoredInference.estimate with the RDA, IG and MD engines.  For every run we
record the smoothness constant the engine actually computed (return value of _lipschitz) and
afterwards evaluate the loss at one fixed vector of clique marginals.  Checks:
  * every spelling gives the same loss and the same smoothness constant,
  * the smoothness constant is >= the largest eigenvalue of the Hessian of the L2 loss
    (Hessian assembled independently from the definition of the loss).
"""
import os, sys, io, contextlib, warnings
ROOT = os.path.dirname(os.path.dirname(os.path.dirname(os.path.abspath(__file__))))
sys.path.insert(0, os.path.join(ROOT, 'src'))
warnings.filterwarnings('ignore')
import numpy as np
from scipy import sparse
from scipy.sparse.linalg import aslinearoperator, LinearOperator
from mbi import Domain, FactoredInference, Factor, CliqueVector
import mbi
assert os.path.abspath(mbi.__file__).startswith(ROOT), mbi.__file__

DOMAIN = Domain(['age', 'sex', 'edu', 'inc'], [3, 2, 4, 3])
TOTAL = 100.0

# record what _lipschitz hands back to the engines
RECORD = []
_orig_lipschitz = FactoredInference._lipschitz
def _recording_lipschitz(self, measurements):
    L = _orig_lipschitz(self, measurements)
    RECORD.append(float(L))
    return L
FactoredInference._lipschitz = _recording_lipschitz


def base():
    prng = np.random.RandomState(42)
    Qas = prng.randn(8, 6)
    Qes = np.tril(np.ones((8, 8)))
    return [
        (np.eye(3), prng.rand(3) * TOTAL, 0.5, ('age',)),
        (Qas, prng.rand(8) * TOTAL, 2.0, ('age', 'sex')),
        (Qes, prng.rand(8) * TOTAL, 1.5, ('edu', 'sex')),
        (np.eye(3), prng.rand(3) * TOTAL, 0.1, ('inc',)),
    ]


def spell(ms, how):
    out = []
    for Q, y, noise, proj in ms:
        ident = Q.shape[0] == Q.shape[1] and np.array_equal(Q, np.eye(Q.shape[0]))
        if how == 'tuple/dense':
            pass
        elif how == 'str/dense':
            proj = proj[0] if len(proj) == 1 else proj
        elif how == 'list/sparse':
            proj, Q = list(proj), sparse.csr_matrix(Q)
        elif how == 'tuple/None':
            Q = None if ident else Q
        elif how == 'str+list/operator':
            proj = proj[0] if len(proj) == 1 else list(proj)
            Q = aslinearoperator(Q)
        elif how == 'str/None+sparse':
            proj = proj[0] if len(proj) == 1 else proj
            Q = None if ident else sparse.csc_matrix(Q)
        out.append((Q, y.copy(), noise, proj))
    return out


def dense(Q, p):
    if Q is None:
        return np.eye(p)
    if sparse.issparse(Q):
        return Q.toarray()
    if isinstance(Q, LinearOperator):
        return Q @ np.eye(p)
    return np.asarray(Q)


def hessian_top(engine):
    """ largest eigenvalue of the Hessian of 0.5*sum ||(Q P mu - y)/sigma||^2 w.r.t. the clique marginals """
    cliques = engine.model.cliques
    sizes = [engine.domain.size(cl) for cl in cliques]
    offs = np.concatenate([[0], np.cumsum(sizes)])
    rows = []
    for k, cl in enumerate(cliques):
        shape = engine.domain.project(cl).shape
        cidx = list(range(len(cl)))
        for Q, y, noise, proj in engine.groups[cl]:
            pidx = [cl.index(a) for a in proj]
            n, p = sizes[k], engine.domain.size(proj)
            P = np.zeros((p, n))
            for i in range(n):
                e = np.zeros(n); e[i] = 1.0
                P[:, i] = np.einsum(e.reshape(shape), cidx, pidx).reshape(-1)
            A = np.zeros((dense(Q, p).shape[0], offs[-1]))
            A[:, offs[k]:offs[k+1]] = dense(Q, p).dot(P) / noise
            rows.append(A)
    A = np.vstack(rows)
    return float(np.linalg.eigvalsh(A.T.dot(A))[-1]), len(rows)


def run(how, engine_name):
    ms = spell(base(), how)
    engine = FactoredInference(DOMAIN, metric='L2', iters=2)
    del RECORD[:]
    with contextlib.redirect_stdout(io.StringIO()):
        engine.estimate(ms, total=TOTAL, engine=engine_name, options={})
    L = RECORD[-1] if RECORD else None
    prng = np.random.RandomState(7)
    mu = CliqueVector({cl: Factor(DOMAIN.project(cl), prng.rand(*DOMAIN.project(cl).shape) * TOTAL)
                       for cl in engine.model.cliques})
    loss = engine._marginal_loss(mu)[0]
    top, counted = hessian_top(engine)
    return L, loss, top, counted, engine.model.cliques


def main():
    spellings = ['tuple/dense', 'list/sparse', 'str/dense', 'tuple/None', 'str+list/operator', 'str/None+sparse']
    failures, lines = [], []
    ref = {}
    for engine_name in ['RDA', 'IG', 'MD']:
        for how in spellings:
            tag = '%-3s %-18s' % (engine_name, how)
            try:
                L, loss, top, counted, cliques = run(how, engine_name)
            except Exception as e:
                lines.append('%s raised %s' % (tag, type(e).__name__))
                failures.append('[%s] estimate raised %s: %s' % (tag.strip(), type(e).__name__, e))
                continue
            Ls = 'n/a' if L is None else '%.8e' % L
            lines.append('%s measurements=%d loss=%.10e hessian_top=%.8e lipschitz=%s' % (tag, counted, loss, top, Ls))
            if counted != 4:
                failures.append('[%s] %d measurements enter the loss instead of 4' % (tag.strip(), counted))
            r = ref.setdefault(engine_name, (L, loss))
            if not np.isclose(loss, r[1], rtol=1e-9):
                failures.append('[%s] loss %.10g differs from the tuple/dense spelling %.10g' % (tag.strip(), loss, r[1]))
            if engine_name != 'MD':
                if L is None:
                    failures.append('[%s] no smoothness constant was computed' % tag.strip())
                    continue
                if not np.isclose(L, r[0], rtol=1e-7):
                    failures.append('[%s] smoothness constant %.8g differs from the tuple/dense spelling %.8g' % (tag.strip(), L, r[0]))
                if L < top * (1 - 1e-9):
                    failures.append('[%s] smoothness constant %.8g is BELOW the top Hessian eigenvalue %.8g' % (tag.strip(), L, top))
    for line in lines:
        print(line)
    if failures:
        print('FAIL: equivalent spellings of the measurements no longer give the same, valid smoothness bound')
        for f in failures:
            print('   ', f)
        sys.exit(1)
    print('PASS')
    sys.exit(0)


if __name__ == '__main__':
    main()

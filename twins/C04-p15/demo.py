""" C04 / pair 1 -- `_marginal_loss`: metric test hoisted out of the loops.

The loss/gradient returned by FactoredInference._marginal_loss(marginals, metric=M) must be
the stated L1 / L2 objective for the metric that is IN EFFECT for the call: the explicit
`metric` argument when given (this is how callbacks.Logger obtains its l1_loss / l2_loss
columns), the engine's own metric otherwise.

For every (engine metric, requested metric) combination the demo compares
  * the loss with an independent re-computation  sum_m  f( (Q_m P_m mu - y_m) / sigma_m ),
  * the gradient with central finite differences of that reference loss along random
    directions.
"""
import os, sys, hashlib, warnings
ROOT = os.path.dirname(os.path.dirname(os.path.dirname(os.path.abspath(__file__))))
sys.path.insert(0, os.path.join(ROOT, 'src'))
warnings.filterwarnings('ignore')
import numpy as np
from scipy import sparse
from scipy.sparse.linalg import LinearOperator
from mbi import Domain, Factor, CliqueVector
from mbi.inference import FactoredInference

prng = np.random.RandomState(20240)
domain = Domain(['a', 'b', 'c', 'd'], [2, 3, 4, 3])


def prefix(n):
    return np.tril(np.ones((n, n)))


def operator(M):
    return LinearOperator(M.shape, matvec=lambda v: M @ v, rmatvec=lambda v: M.T @ v, dtype=float)


def measurements():
    """ several spellings, noise scales and projection orders; answers may be negative """
    ms = []
    ms.append((np.eye(6), prng.normal(3, 4, 6), 2.0, ('a', 'b')))
    ms.append((sparse.csr_matrix(prefix(12)), prng.normal(5, 9, 12), 0.5, ['c', 'b']))
    ms.append((None, prng.normal(2, 3, 4), 3.0, 'c'))
    ms.append((operator(prefix(3)[1:]), prng.normal(4, 2, 2), 0.25, ('d',)))
    ms.append((prng.rand(5, 12), prng.normal(6, 3, 5), 1.5, ('d', 'c')))
    ms.append((np.ones((1, 2)), np.array([21.5]), 4.0, ('a',)))
    return ms


def reference(ms, marginals, metric):
    """ the stated objective, every measurement counted once (marginals are consistent) """
    total = 0.0
    for Q, y, noise, proj in ms:
        cl = [c for c in marginals if set(proj) <= set(c)][0]
        x = marginals[cl].project(proj).datavector()
        r = (Q @ x - y) / noise
        total += np.abs(r).sum() if metric == 'L1' else 0.5 * r @ r
    return float(total)


def consistent_marginals(model):
    pot = CliqueVector({cl: Factor(domain.project(cl), prng.normal(0, 1, domain.project(cl).shape))
                        for cl in model.cliques})
    return model.belief_propagation(pot)


def direction(model, base):
    """ a direction that keeps the marginals consistent: difference of two models' marginals """
    other = consistent_marginals(model)
    return other - base


failures = []
lines = []
raw = measurements()
for engine_metric in ['L2', 'L1']:
    engine = FactoredInference(domain, metric=engine_metric, iters=5)
    ms = engine.fix_measurements(raw)
    engine._setup(ms, 40.0)
    model = engine.model
    for requested in [None, 'L2', 'L1']:
        effective = engine_metric if requested is None else requested
        for trial in range(3):
            mu = consistent_marginals(model)
            if requested is None:
                loss, grad = engine._marginal_loss(mu)
            else:
                loss, grad = engine._marginal_loss(mu, metric=requested)
            ref = reference(ms, mu, effective)
            ok_loss = abs(loss - ref) <= 1e-9 * max(1.0, abs(ref))
            # derivative test along random feasible directions
            worst = 0.0
            for _ in range(3):
                d = direction(model, mu)
                t = 1e-6
                fd = (reference(ms, mu + t * d, effective) - reference(ms, mu + (-t) * d, effective)) / (2 * t)
                an = grad.dot(d)
                worst = max(worst, abs(fd - an) / max(1.0, abs(fd)))
            ok_grad = worst <= 1e-5
            tag = 'engine=%s requested=%-4s trial=%d' % (engine_metric, requested, trial)
            lines.append('%s loss=%.9e' % (tag, loss))
            if not ok_loss:
                failures.append('%s: _marginal_loss returned %.9e but the stated %s objective is %.9e'
                                % (tag, loss, effective, ref))
            if not ok_grad:
                failures.append('%s: gradient is not the derivative of the %s objective '
                                '(relative finite-difference mismatch %.3e)' % (tag, effective, worst))

# what the default Logger callback reports for an L2 engine: (l1_loss, l2_loss) must differ and
# be the two stated objectives
engine = FactoredInference(domain, metric='L2', iters=5)
ms = engine.fix_measurements(raw)
engine._setup(ms, 40.0)
mu = consistent_marginals(engine.model)
l1 = engine._marginal_loss(mu, metric='L1')[0]
l2 = engine._marginal_loss(mu, metric='L2')[0]
lines.append('logger columns l1=%.9e l2=%.9e' % (l1, l2))
if abs(l1 - reference(ms, mu, 'L1')) > 1e-9 * abs(l1) or abs(l2 - reference(ms, mu, 'L2')) > 1e-9 * abs(l2):
    failures.append('Logger columns: l1_loss=%.9e l2_loss=%.9e, stated objectives are %.9e / %.9e'
                    % (l1, l2, reference(ms, mu, 'L1'), reference(ms, mu, 'L2')))

if failures:
    print('FAIL')
    for f in failures:
        print('  ' + f)
    sys.exit(1)
print('PASS')
for l in lines:
    print(l)
print('digest', hashlib.sha256('\n'.join(lines).encode()).hexdigest())

""" C04 / pair 2 -- `_lipschitz`: smallest containing clique found by a single linear scan.

The smoothness constant returned by FactoredInference._lipschitz(measurements) must be an
upper bound on the largest eigenvalue of the Hessian of the squared loss that
_marginal_loss evaluates.  The bound is computed clique by clique, so it is only valid when
_lipschitz charges every measurement to the SAME clique that _setup put it in.  When several
maximal cliques of EQUAL size contain a measured marginal the choice is a tie, and both
methods must break it the same way.

The demo builds the exact Hessian from the library's own gradient (the squared loss is
quadratic, so H e_i = grad(e_i) - grad(0)) and compares its largest eigenvalue to the bound.
"""
import os, sys, hashlib, warnings
ROOT = os.path.dirname(os.path.dirname(os.path.dirname(os.path.abspath(__file__))))
sys.path.insert(0, os.path.join(ROOT, 'src'))
warnings.filterwarnings('ignore')
import numpy as np
from scipy import sparse
from mbi import Domain, Factor, CliqueVector
from mbi.inference import FactoredInference


def prefix(n):
    return np.tril(np.ones((n, n)))


def hessian_lambda_max(engine):
    """ largest eigenvalue of the Hessian of engine._marginal_loss (metric L2), clique blocks """
    model = engine.model
    zero = CliqueVector({cl: Factor.zeros(engine.domain.project(cl)) for cl in model.cliques})
    _, g0 = engine._marginal_loss(zero, metric='L2')
    best = 0.0
    for cl in model.cliques:
        dom = engine.domain.project(cl)
        n = dom.size()
        H = np.zeros((n, n))
        for i in range(n):
            e = np.zeros(n)
            e[i] = 1.0
            point = CliqueVector({c: Factor.zeros(engine.domain.project(c)) for c in model.cliques})
            point[cl] = Factor(dom, e)
            _, g = engine._marginal_loss(point, metric='L2')
            # the loss is separable over cliques: only the block of cl may change
            for c in model.cliques:
                delta = g[c].datavector() - g0[c].datavector()
                if c == cl:
                    H[:, i] = delta
                else:
                    assert np.all(delta == 0)
        H = 0.5 * (H + H.T)
        best = max(best, float(np.linalg.eigvalsh(H)[-1]))
    return best


def y(n, seed):
    return np.random.RandomState(seed).normal(10, 5, n)


CONFIGS = {}

# no ties at all: a chain with cliques of different sizes
CONFIGS['chain, distinct sizes'] = (
    Domain(['a', 'b', 'c'], [2, 3, 5]),
    [(np.eye(6), y(6, 1), 1.0, ('a', 'b')),
     (sparse.eye(15), y(15, 2), 0.5, ('b', 'c')),
     (prefix(3), y(3, 3), 0.25, ('b',))])

# b and c have the same number of values: (a,b) and (a,c) tie for the measurement of 'a'.
# heavy measurement on (a,b)
CONFIGS['tie, heavy (a,b)'] = (
    Domain(['a', 'b', 'c'], [2, 3, 3]),
    [(np.eye(6), y(6, 4), 0.2, ('a', 'b')),
     (np.eye(6), y(6, 5), 5.0, ('a', 'c')),
     (prefix(2), y(2, 6), 0.1, ('a',))])

# the mirror image: heavy measurement on (a,c)
CONFIGS['tie, heavy (a,c)'] = (
    Domain(['a', 'b', 'c'], [2, 3, 3]),
    [(np.eye(6), y(6, 7), 5.0, ('a', 'b')),
     (np.eye(6), y(6, 8), 0.2, ('a', 'c')),
     (prefix(2), y(2, 9), 0.1, ('a',))])

# a star of three equally sized cliques around a; the measurement of 'a' is given out of order
CONFIGS['star of three equal cliques'] = (
    Domain(['a', 'b', 'c', 'd'], [4, 2, 2, 2]),
    [(None, y(8, 10), 0.5, ('b', 'a')),
     (None, y(8, 11), 4.0, ('a', 'c')),
     (None, y(8, 12), 4.0, ('d', 'a')),
     (sparse.csr_matrix(prefix(4)), y(4, 13), 0.3, 'a')])

# a chain a - b - c whose two cliques have equal size: they tie for the measurement of 'b'
CONFIGS['chain with equal cliques'] = (
    Domain(['a', 'b', 'c'], [3, 4, 3]),
    [(np.eye(12), y(12, 14), 0.25, ('b', 'c')),
     (np.eye(12), y(12, 15), 3.0, ('a', 'b')),
     (prefix(4), y(4, 16), 0.2, ('b',))])

failures = []
lines = []
for name, (domain, raw) in CONFIGS.items():
    engine = FactoredInference(domain, metric='L2', iters=5)
    ms = engine.fix_measurements(raw)
    engine._setup(ms, 100.0)
    lip = float(engine._lipschitz(ms))
    lam = hessian_lambda_max(engine)
    groups = {cl: [m[3] for m in engine.groups[cl]] for cl in engine.model.cliques}
    lines.append('%-38s cliques=%s lipschitz=%.8e lambda_max=%.8e' % (name, engine.model.cliques, lip, lam))
    if lip < lam * (1 - 1e-8):
        failures.append('%s: _lipschitz returned %.8e but the Hessian of the loss has an eigenvalue '
                        '%.8e (measurement groups used by the loss: %s)' % (name, lip, lam, groups))

if failures:
    print('FAIL')
    for f in failures:
        print('  ' + f)
    sys.exit(1)
print('PASS')
for l in lines:
    print(l)
print('digest', hashlib.sha256('\n'.join(lines).encode()).hexdigest())

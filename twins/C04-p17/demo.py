""" C04 / pair 1 -- the smoothness constant of FactoredInference._lipschitz must be an upper
bound on the largest Hessian eigenvalue of the squared loss, for every spelling of the query
(dense ndarray, scipy sparse matrix, scipy sparse array, LinearOperator, None). """
import os, sys, warnings, hashlib
ROOT = os.path.dirname(os.path.dirname(os.path.dirname(os.path.abspath(__file__))))
sys.path.insert(0, os.path.join(ROOT, 'src'))
warnings.filterwarnings('ignore')
import numpy as np
from scipy import sparse
from scipy.sparse.linalg import aslinearoperator
from mbi import Domain, FactoredInference, CliqueVector, Factor

np.random.seed(0)
dom = Domain(['a', 'b', 'c'], [3, 4, 2])

def prefix(n):
    return np.tril(np.ones((n, n)))

def hessian_lmax(engine):
    """ the gradient of the squared loss is affine in the marginals: g(mu) = H mu + b.
        Build H column by column from the engine's own gradient and return its top eigenvalue """
    cliques = engine.model.cliques
    sizes = [dom.size(cl) for cl in cliques]
    N = sum(sizes)
    def vec(cv):
        return np.concatenate([cv[cl].datavector() for cl in cliques])
    def unvec(v):
        out, i = {}, 0
        for cl, s in zip(cliques, sizes):
            out[cl] = Factor(dom.project(cl), v[i:i+s].copy()); i += s
        return CliqueVector(out)
    g0 = vec(engine._marginal_loss(unvec(np.zeros(N)), metric='L2')[1])
    H = np.zeros((N, N))
    for i in range(N):
        e = np.zeros(N); e[i] = 1.0
        H[:, i] = vec(engine._marginal_loss(unvec(e), metric='L2')[1]) - g0
    assert np.allclose(H, H.T)
    return np.linalg.eigvalsh(H)[-1]

P12, P4 = prefix(12), prefix(4)
R = np.random.rand(5, 12)              # non-square dense workload
B = np.random.rand(8, 8)               # dense, on ('b','c')
y = lambda n: np.random.rand(n)

def spellings(name, M):
    return [(name + '/dense', M), (name + '/dense-int', M.astype(int)) if np.all(M == M.astype(int)) else None,
            (name + '/csr_matrix', sparse.csr_matrix(M)), (name + '/csr_array', sparse.csr_array(M)),
            (name + '/operator', aslinearoperator(M))]

cases = []
for item in spellings('prefix(a,b)', P12):
    if item is None: continue
    nm, Q = item
    cases.append((nm, [(Q, y(12), 0.7, ('a', 'b')), (None, y(4), 2.0, 'b')]))
for item in spellings('random(b,c)+prefix(b)', B):
    if item is None: continue
    nm, Q = item
    cases.append((nm, [(Q, y(8), 1.5, ['c', 'b']), (sparse.csr_matrix(P4), y(4), 0.5, ('b',)),
                       (np.eye(3), y(3), 1.0, 'a')]))
cases.append(('nonsquare(a,b)', [(R, y(5), 0.9, ('b', 'a')), (np.eye(2), y(2), 1.0, 'c')]))
cases.append(('identity-only', [(np.eye(3), y(3), 1.0, 'a'), (None, y(4), 1.0, 'b'),
                                (sparse.eye(2), y(2), 1.0, 'c')]))

lines, bad = [], []
for name, ms in cases:
    engine = FactoredInference(dom, metric='L2')
    fixed = engine.fix_measurements(ms)
    engine._setup(fixed, 1.0)
    try:
        L = float(engine._lipschitz(fixed))
    except Exception as ex:
        bad.append('%s: _lipschitz raised %r' % (name, ex)); continue
    lam = float(hessian_lmax(engine))
    lines.append('%-34s L=%.8e  lambda_max(H)=%.8e' % (name, L, lam))
    if not lam <= L * (1 + 1e-7):
        bad.append('%s: L=%.6g is NOT an upper bound on lambda_max(Hessian)=%.6g' % (name, L, lam))

for l in lines: print(l)
if bad:
    print('FAIL')
    for b in bad: print('  ' + b)
    sys.exit(1)
print('PASS', hashlib.sha256('\n'.join(lines).encode()).hexdigest()[:16])

""" C04 / pair 2 -- the gradient returned by FactoredInference._marginal_loss is the derivative of
the loss AT THE POINT IT WAS REQUESTED FOR, and stays so while the caller uses it: the line search of
mirror_descent keeps `dL` of the current iterate while it evaluates the loss at several trial points,
and callbacks.Logger evaluates the L1 and the L2 loss between two uses of the engine's gradient. """
import os, sys, warnings, hashlib
ROOT = os.path.dirname(os.path.dirname(os.path.dirname(os.path.abspath(__file__))))
sys.path.insert(0, os.path.join(ROOT, 'src'))
warnings.filterwarnings('ignore')
import numpy as np
from scipy import sparse
from mbi import Domain, FactoredInference, CliqueVector, Factor

np.random.seed(1)
dom = Domain(['a', 'b', 'c'], [3, 4, 2])
P4 = np.tril(np.ones((4, 4)))
y = lambda n: np.random.rand(n)
measurements = [(np.random.rand(7, 12), y(7), 0.5, ('b', 'a')), (sparse.csr_matrix(P4), y(4), 2.0, 'b'),
                (None, y(8), 0.25, ['b', 'c']), (np.eye(3), y(3), 1.0, 'a')]

def rand_point(engine, transposed=False):
    out = {}
    for cl in engine.model.cliques:
        f = Factor.random(dom.project(cl))
        out[cl] = f.transpose(cl[::-1]) if transposed else f
    return CliqueVector(out)

def snapshot(g):
    return { cl : (g[cl].domain.attrs, g[cl].values.copy()) for cl in g }

def same(g, snap):
    return all(g[cl].domain.attrs == snap[cl][0] and np.array_equal(g[cl].values, snap[cl][1]) for cl in snap)

lines, bad = [], []

# 1. derivative test, with further evaluations between obtaining the gradient and using it
for metric in ['L2', 'L1']:
    engine = FactoredInference(dom, metric=metric)
    fixed = engine.fix_measurements(measurements)
    engine._setup(fixed, 1.0)
    for trial in range(3):
        mu = rand_point(engine, transposed=(trial == 2))
        l0, g = engine._marginal_loss(mu)
        snap = snapshot(g)
        dirs = [rand_point(engine) + -0.5 for _ in range(3)]
        fd = []
        for d in dirs:                       # central differences: several more evaluations
            h = 1e-6
            fd.append((engine._marginal_loss(mu + h*d)[0] - engine._marginal_loss(mu + -h*d)[0]) / (2*h))
        for other in ['L1', 'L2']:           # what callbacks.Logger does between two uses of the gradient
            engine._marginal_loss(rand_point(engine), metric=other)
        an = [g.dot(d) for d in dirs]        # ... and only now the gradient obtained at mu is used
        for k, (u, v) in enumerate(zip(an, fd)):
            lines.append('%s trial %d dir %d loss=%.8e <grad,d>=%.5e' % (metric, trial, k, l0, v))
            if abs(u - v) > 1e-4 * max(1.0, abs(v)):
                bad.append('%s trial %d dir %d: <gradient, d> = %.6g but the derivative of the loss is %.6g'
                           % (metric, trial, k, u, v))
        if not same(g, snap):
            bad.append('%s trial %d: the gradient returned for mu changed after later loss evaluations' % (metric, trial))

# 2. mirror descent with line search (the second configuration backtracks several times per step):
#    the run must not depend on whether the engine hands out gradients that nobody else can touch
def run(total, noise, protect):
    engine = FactoredInference(dom, metric='L2', iters=15)
    ms = [(Q, total*v, noise, proj) for Q, v, _, proj in measurements]
    evals = [0]
    orig = engine._marginal_loss
    def wrapped(marginals, metric=None):
        evals[0] += 1
        loss, g = orig(marginals, metric)
        if protect:
            g = CliqueVector({ cl : g[cl].copy() for cl in g })
        return loss, g
    engine._marginal_loss = wrapped
    final = engine.mirror_descent(engine.fix_measurements(ms), total)
    return final, evals[0]

for total, noise in [(1.0, 1.0), (50.0, 0.05)]:
    final, n = run(total, noise, protect=False)
    ref, nref = run(total, noise, protect=True)
    lines.append('mirror_descent total=%g noise=%g evaluations=%d final loss=%.8e' % (total, noise, n, final))
    if (final, n) != (ref, nref):
        bad.append('mirror_descent total=%g noise=%g: final loss %.8e after %d evaluations, but %.8e after %d '
                   'evaluations when every returned gradient is copied before use: the line search used a '
                   'gradient that had been overwritten by a later evaluation' % (total, noise, final, n, ref, nref))

for l in lines: print(l)
if bad:
    print('FAIL')
    for b in bad: print('  ' + b)
    sys.exit(1)
print('PASS', hashlib.sha256('\n'.join(lines).encode()).hexdigest()[:16])

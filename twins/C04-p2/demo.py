"""
C04 / pair 2 -- noise weighting of the residuals.

Clause checked: "the loss the estimator optimises equals the sum over all supplied
measurements of the squared (or absolute) residual of the query applied to the
model's marginal, scaled by the measurement's noise level, and the gradient it uses
is the derivative of that loss".

The program keeps a private snapshot of every measurement it hands to the library
and, the way the mechanisms in mechanisms/ do it, calls estimate() repeatedly on a
growing list of measurements.  After every round it
  * recomputes the loss and a directional derivative from the SNAPSHOT and from
    marginals produced by the model, and compares them with engine._marginal_loss,
  * checks that the caller's measurement arrays still equal the snapshot.
Exit status 0 + "PASS" + digest when everything agrees, exit status 1 + "FAIL" otherwise.
"""
import os, sys, hashlib, warnings
warnings.filterwarnings('ignore')
HERE = os.path.abspath(__file__)
ROOT = os.path.dirname(os.path.dirname(os.path.dirname(HERE)))
sys.path.insert(0, os.path.join(ROOT, 'src'))

import numpy as np
from scipy import sparse
from scipy.sparse.linalg import LinearOperator
from mbi import Domain, FactoredInference, CliqueVector, Factor
import mbi
assert os.path.abspath(mbi.__file__).startswith(ROOT), mbi.__file__


def prefix(n):
    return np.tril(np.ones((n, n)))

def dense(Q, p):
    if Q is None:
        return np.eye(p)
    if sparse.issparse(Q):
        return np.asarray(Q.todense(), dtype=float)
    if isinstance(Q, LinearOperator):
        return np.column_stack([Q @ e for e in np.eye(p)])
    return np.array(Q, dtype=float)

def as_tuple(proj):
    if isinstance(proj, str):
        return (proj,)
    return tuple(proj)

def marg_matrix(domain, cl, proj):
    shape = tuple(domain[a] for a in cl)
    n = int(np.prod(shape))
    coords = np.unravel_index(np.arange(n), shape)
    pc = [coords[cl.index(a)] for a in proj]
    pshape = tuple(domain[a] for a in proj)
    rows = np.ravel_multi_index(pc, pshape)
    P = np.zeros((int(np.prod(pshape)), n))
    P[rows, np.arange(n)] = 1.0
    return P


def reference(domain, cliques, snap, mu, direction, metric):
    """ loss at mu and derivative of the loss along `direction`, from the snapshot only.
        mu and direction are locally consistent, so any clique containing proj will do """
    loss, slope = 0.0, 0.0
    for Qd, y0, noise, proj in snap:
        cl = [c for c in cliques if set(proj) <= set(c)][0]
        A = Qd @ marg_matrix(domain, cl, proj)
        res = (A @ mu[cl].values.flatten() - y0) / noise
        dres = (A @ direction[cl].values.flatten()) / noise
        if metric == 'L1':
            loss += np.abs(res).sum()
            slope += np.sign(res) @ dres
        else:
            loss += 0.5 * res @ res
            slope += res @ dres
    return float(loss), float(slope)


def bp_point(model, domain, rng):
    theta = CliqueVector({cl: Factor(domain.project(cl), rng.randn(domain.size(cl)))
                          for cl in model.cliques})
    return model.belief_propagation(theta)


def configs():
    rng = np.random.RandomState(4242)
    out = []

    # A: unit noise everywhere, identity queries (the regime the unit tests live in)
    dom = Domain(['a', 'b', 'c'], [2, 3, 4])
    rounds = [[(None, 50 * rng.rand(2), 1.0, 'a'), (None, 50 * rng.rand(3), 1.0, 'b')],
              [(np.eye(6), 50 * rng.rand(6), 1.0, ('a', 'b'))],
              [(None, 50 * rng.rand(4), 1.0, ['c'])]]
    out.append(('unit-noise', dom, 'L2', 100.0, rounds))

    # B: mechanism-style history: one new noisy marginal per round, sigma = 8
    dom = Domain(['a', 'b', 'c', 'd'], [3, 2, 4, 2])
    rounds = [[(None, 300 * rng.rand(3) + 8 * rng.randn(3), 8.0, ('a',)),
               (None, 300 * rng.rand(4) + 8 * rng.randn(4), 8.0, ('c',))],
              [(sparse.eye(6, format='csr'), 150 * rng.rand(6) + 8 * rng.randn(6), 8.0, ('a', 'b'))],
              [(sparse.eye(8, format='csr'), 100 * rng.rand(8) + 8 * rng.randn(8), 8.0, ('c', 'd'))]]
    out.append(('mechanism-rounds-sigma8', dom, 'L2', None, rounds))

    # C: mixed noise levels, dense / sparse / operator workloads, reversed projection order
    dom = Domain(['a', 'b', 'c'], [4, 3, 2])
    W = prefix(4)
    K = sparse.kron(prefix(3), sparse.eye(4), format='csr')       # on ('b','a')
    Kop = LinearOperator(K.shape, matvec=lambda v, K=K: K @ v,
                         rmatvec=lambda v, K=K: K.T @ v, dtype=float)
    rounds = [[(W, 200 * rng.rand(4), 0.5, 'a'),
               (Kop, 100 * rng.rand(12), 3.0, ('b', 'a'))],
              [(sparse.csr_matrix(prefix(2)), 90 * rng.rand(2), 0.25, ['c'])],
              [(None, 40 * rng.rand(6), 2.0, ('c', 'b'))]]
    out.append(('mixed-noise-L2', dom, 'L2', 200.0, rounds))

    # D: absolute-error metric with non-unit noise
    dom = Domain(['a', 'b', 'c'], [3, 3, 2])
    rounds = [[(None, 80 * rng.rand(3), 4.0, 'a'), (prefix(3), 80 * rng.rand(3), 0.5, 'b')],
              [(None, 30 * rng.rand(6), 2.5, ('b', 'c'))]]
    out.append(('mixed-noise-L1', dom, 'L1', 80.0, rounds))
    return out


def main():
    lines, bad = [], []
    for name, dom, metric, total, rounds in configs():
        engine = FactoredInference(dom, metric=metric, iters=3, warm_start=True)
        ms, snap = [], []
        for r, new in enumerate(rounds, 1):
            for Q, y, noise, proj in new:
                ms.append((Q, y, noise, proj))
                p = as_tuple(proj)
                snap.append((dense(Q, dom.size(p)), np.array(y, dtype=float), float(noise), p))
            opts = {'stepsize': 1e-3} if metric == 'L1' else {}
            engine.estimate(ms, total=total, engine='MD', options=opts)
            model = engine.model

            rng = np.random.RandomState(1000 + r)
            mu0, mu1 = bp_point(model, dom, rng), bp_point(model, dom, rng)
            d = mu1 - mu0
            ref_loss, ref_slope = reference(dom, model.cliques, snap, mu0, d, metric)
            loss, grad = engine._marginal_loss(mu0)
            slope = float(grad.dot(d))
            untouched = all(np.array_equal(m[1], s[1]) for m, s in zip(ms, snap))

            ok_loss = np.isclose(loss, ref_loss, rtol=1e-9, atol=1e-9)
            ok_grad = np.isclose(slope, ref_slope, rtol=1e-7, atol=1e-7)
            lines.append('%-24s round=%d n=%d total=%.8g loss=%.8g ref=%.8g slope=%.8g ref=%.8g inputs_%s %s'
                         % (name, r, len(ms), model.total, loss, ref_loss, slope, ref_slope,
                            'intact' if untouched else 'MODIFIED',
                            'ok' if (ok_loss and ok_grad and untouched) else 'MISMATCH'))
            if not ok_loss:
                bad.append('%s round %d: engine loss %.8g, loss of the supplied measurements %.8g'
                           % (name, r, loss, ref_loss))
            if not ok_grad:
                bad.append('%s round %d: gradient slope %.8g, derivative of the stated loss %.8g'
                           % (name, r, slope, ref_slope))
            if not untouched:
                bad.append('%s round %d: estimate() rewrote the caller\'s noisy answers in place'
                           % (name, r))

    for l in lines:
        print(l)
    if bad:
        print('FAIL')
        for b in bad:
            print('  ' + b)
        sys.exit(1)
    print('PASS digest=' + hashlib.sha256('\n'.join(lines).encode()).hexdigest()[:16])
    sys.exit(0)


if __name__ == '__main__':
    main()

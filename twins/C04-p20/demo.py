""" C04 / pair 1 -- `_lipschitz` on tiny marginals (dense eigensolver instead of ARPACK)

The smoothness constant returned by FactoredInference._lipschitz must be an upper bound
on the largest eigenvalue of the Hessian of the squared loss.  The Hessian is obtained
here from the library's own gradient (the loss is quadratic, so H[:,j] = g(e_j) - g(0)
exactly) and compared with the bound, for several measurement sets - in particular
non-identity queries on binary attributes (marginals with two cells).
"""
import os, sys, io, contextlib, hashlib
ROOT = os.path.dirname(os.path.dirname(os.path.dirname(os.path.dirname(os.path.abspath(__file__)))))
sys.path.insert(0, os.path.join(ROOT, 'src'))

import numpy as np
from scipy import sparse
from scipy.sparse.linalg import LinearOperator
from mbi import Domain, FactoredInference, Factor, CliqueVector

np.random.seed(0)
domain = Domain(['a', 'b', 'c', 'd'], [2, 3, 2, 4])

prefix2 = np.array([[1., 0.], [1., 1.]])
total2 = np.array([[1., 1.]])
haar2 = np.array([[1., 1.], [1., -1.], [1., 0.]])
prefix3 = np.tril(np.ones((3, 3)))
op2 = LinearOperator((1, 2), matvec=lambda v: np.array([v[0] + v[1]]),
                     rmatvec=lambda w: np.array([w[0], w[0]]), dtype=np.float64)

def y(n):
    return np.random.rand(n) * 10

CASES = [
    ('identity queries, mixed sizes',
        [(None, y(2), 1.0, ('a',)), (None, y(3), 2.0, 'b'), (None, y(6), 0.5, ('a', 'b'))]),
    ('prefix query on a 3-cell marginal (ARPACK path)',
        [(prefix3, y(3), 1.5, ('b',)), (None, y(12), 1.0, ('b', 'd'))]),
    ('total query on a binary attribute, dense',
        [(total2, y(1), 0.5, ('a',)), (None, y(6), 4.0, ('a', 'b'))]),
    ('prefix query on a binary attribute, sparse',
        [(sparse.csr_matrix(prefix2), y(2), 1.0, ['c']), (None, y(8), 3.0, ('c', 'd'))]),
    ('three-row query on a binary attribute, alone',
        [(haar2, y(3), 2.0, 'a')]),
    ('operator total query on a binary attribute + identity on another',
        [(op2, y(1), 0.25, ('c',)), (None, y(3), 5.0, ('b',))]),
    ('two queries on the same binary attribute',
        [(total2, y(1), 1.0, ('a',)), (prefix2, y(2), 1.0, ('a',)), (None, y(4), 2.0, ('d',))]),
]

def hessian(engine):
    """ Hessian of the L2 loss w.r.t. the concatenated clique marginals, from the gradient """
    model = engine.model
    doms = [model.domain.project(cl) for cl in model.cliques]
    sizes = [d.size() for d in doms]
    N = sum(sizes)
    def grad(vec):
        mu, k = {}, 0
        for cl, d, s in zip(model.cliques, doms, sizes):
            mu[cl] = Factor(d, vec[k:k+s].copy()); k += s
        _, g = engine._marginal_loss(CliqueVector(mu), metric='L2')
        return np.concatenate([g[cl].transpose(d.attrs).datavector() for cl, d in zip(model.cliques, doms)])
    g0 = grad(np.zeros(N))
    return np.array([grad(np.eye(N)[j]) - g0 for j in range(N)]).T

ok, lines = True, []
for name, ms in CASES:
    engine = FactoredInference(domain, metric='L2')
    ms = engine.fix_measurements(ms)
    with contextlib.redirect_stdout(io.StringIO()):
        engine._setup(ms, total=100.0)
        bound = float(engine._lipschitz(ms))
    H = hessian(engine)
    assert np.allclose(H, H.T)
    lam = float(np.linalg.eigvalsh(H)[-1])
    good = bound >= lam * (1 - 1e-9)
    lines.append('%-68s bound=%.9g  lambda_max=%.9g  %s' % (name, bound, lam, 'ok' if good else 'VIOLATED'))
    if not good:
        ok = False

print('\n'.join(lines))
if ok:
    print('digest', hashlib.sha256('\n'.join(lines).encode()).hexdigest()[:16])
    print('PASS')
    sys.exit(0)
print('FAIL: _lipschitz returned a value below the largest Hessian eigenvalue of the squared loss '
      '(the smoothness constant is not an upper bound; step sizes 1/L of RDA / IG are then too long, '
      'and L == 0 makes dual_averaging return without fitting)')
sys.exit(1)

import os, sys, hashlib
ROOT = os.path.dirname(os.path.dirname(os.path.dirname(os.path.abspath(__file__))))
sys.path.insert(0, os.path.join(ROOT, 'src'))
import numpy as np
from scipy import sparse
from mbi import Domain, FactoredInference, Factor, CliqueVector

problems, digest = [], []

def reference(engine, marginals, measurements):
    """ stated loss: sum over measurements of 0.5*||(Q mu_proj - y)/sigma||^2, mu_proj by explicit loops """
    total = 0.0
    for Q, y, noise, proj in measurements:
        proj = (proj,) if type(proj) is str else tuple(proj)
        cl = [c for c in sorted(marginals, key=engine.domain.size) if set(proj) <= set(c)][0]
        mu = marginals[cl]
        shape = tuple(engine.domain[a] for a in proj)
        x = np.zeros(shape)
        for cell in np.ndindex(*mu.values.shape):
            at = dict(zip(mu.domain.attrs, cell))
            x[tuple(at[a] for a in proj)] += mu.values[cell]
        x = x.flatten()
        r = (x - y if Q is None else Q @ x - y) / noise
        total += 0.5 * float(r @ r)
    return total

def case(name, domain, cliques, measurements, seed):
    prng = np.random.RandomState(seed)
    engine = FactoredInference(domain, log=False, iters=5)
    fixed = engine.fix_measurements(measurements)
    engine._setup(fixed, 100.0)
    cl = engine.model.cliques
    mu = CliqueVector({c: Factor(domain.project(c), prng.rand(*domain.project(c).shape)) for c in cl})
    try:
        loss, grad = engine._marginal_loss(mu)
    except Exception as e:
        problems.append('%s: _marginal_loss raised %s: %s' % (name, type(e).__name__, e))
        return
    ref = reference(engine, mu, measurements)
    if abs(loss - ref) > 1e-8 * max(1, abs(ref)):
        problems.append('%s: loss %.9f differs from the stated loss %.9f' % (name, loss, ref))
    # derivative test along a random direction
    d = CliqueVector({c: Factor(domain.project(c), prng.randn(*domain.project(c).shape)) for c in cl})
    h = 1e-5
    lp = engine._marginal_loss(mu + h * d)[0]
    lm = engine._marginal_loss(mu + (-h) * d)[0]
    fd, an = (lp - lm) / (2 * h), grad.dot(d)
    if abs(fd - an) > 1e-5 * max(1, abs(fd)):
        problems.append('%s: directional derivative %.9f vs gradient %.9f' % (name, fd, an))
    digest.append('%s loss=%.8e dd=%.6e' % (name, loss, an))

prng = np.random.RandomState(0)
dom = Domain(['a', 'b', 'c'], [3, 3, 3])
# 1. canonical orders, identity queries
case('canonical', dom, None,
     [(None, prng.rand(9), 2.0, ('a', 'b')), (None, prng.rand(9), 0.5, ('b', 'c'))], 1)
# 2. explicit queries, canonical order
case('explicit', dom, None,
     [(prng.rand(4, 9), prng.rand(4), 3.0, ('a', 'b')), (sparse.random(5, 3, 0.8, random_state=3).tocsr(), prng.rand(5), 1.5, 'c')], 2)
# 3. measured marginal written in reverse order inside a larger clique of equal-size attributes
case('reversed-in-clique', dom, None,
     [(None, prng.rand(27), 1.0, ('a', 'b', 'c')), (None, prng.rand(9), 0.7, ('c', 'a'))], 3)
# 4. same with an explicit query and a list spelling
case('reversed-explicit', dom, None,
     [(None, prng.rand(27), 1.0, ('a', 'b', 'c')), (prng.rand(6, 9), prng.rand(6), 1.3, ['c', 'b'])], 4)
# 5. unequal attribute sizes, reversed order
dom2 = Domain(['a', 'b', 'c'], [2, 3, 4])
case('reversed-unequal', dom2, None,
     [(None, prng.rand(24), 1.0, ('a', 'b', 'c')), (None, prng.rand(8), 2.0, ('c', 'a'))], 5)
# 6. size-1 attribute and the empty projection (total query)
dom3 = Domain(['a', 'b', 'c'], [1, 3, 2])
case('size1-and-total', dom3, None,
     [(None, prng.rand(6), 1.0, ('a', 'b', 'c')), (None, np.array([90.0]), 4.0, ()), (None, prng.rand(3), 1.0, ('b', 'a'))], 6)

# 7. a (nearly) exact measurement: a public marginal encoded with a very small noise level, next to noisy ones
case('tiny-noise', dom, None,
     [(None, prng.rand(9), 1e-8, ('a', 'b')), (None, prng.rand(9), 1.0, ('b', 'c'))], 7)
case('small-noise', dom, None,
     [(prng.rand(4, 9), prng.rand(4), 1e-3, ('a', 'c')), (None, prng.rand(3), 2.5e-7, 'b')], 8)
if problems:
    print('FAIL')
    for p in problems:
        print('  ' + p)
    sys.exit(1)
print('PASS')
for line in digest:
    print(line)
print(hashlib.sha256('\n'.join(digest).encode()).hexdigest())

"""
C04 / pair 1 -- equivalent spellings of a measurement's `proj` give the same loss.

FactoredInference.fix_measurements normalises the attribute part of every
measurement to a tuple.  The property says that a single attribute given bare
(a string -- including numpy's str subclass np.str_, which is what
np.random.choice(attrs) / np.array(attrs)[i] hand back -- or any other hashable
attribute name the Domain accepts, e.g. an int), a list and a tuple are all the
same measurement: same loss, same gradient.

The demo builds the same measurement set in several spellings, evaluates
engine._marginal_loss at marginals of one fixed joint distribution and compares
with a loss recomputed directly from the joint array with numpy.
"""
import os, sys, hashlib, warnings
warnings.filterwarnings('ignore')
ROOT = os.path.dirname(os.path.dirname(os.path.dirname(os.path.abspath(__file__))))
sys.path.insert(0, os.path.join(ROOT, 'src'))

import numpy as np
from scipy import sparse
from scipy.sparse.linalg import aslinearoperator
from mbi import Domain, Factor, CliqueVector
from mbi.inference import FactoredInference
import mbi
assert os.path.abspath(mbi.__file__).startswith(ROOT), mbi.__file__

lines = []
failures = []

def say(s):
    lines.append(s)
    print(s)

def joint(domain, seed):
    prng = np.random.RandomState(seed)
    P = prng.rand(*domain.shape)
    return Factor(domain, P / P.sum())

def reference(domain, P, meas, metric):
    """ loss straight from the definition; meas are in canonical (tuple) spelling """
    tot = 0.0
    for Q, y, noise, proj in meas:
        x = P.project(list(proj)).datavector()
        if Q is None:
            Q = np.eye(x.size)
        r = (np.asarray(Q @ x).ravel() - y) / noise
        tot += abs(r).sum() if metric == 'L1' else 0.5 * r @ r
    return tot

def evaluate(domain, P, meas, metric):
    eng = FactoredInference(domain, metric=metric, iters=1)
    fixed = eng.fix_measurements(list(meas))
    eng._setup(fixed, 1.0)
    mu = CliqueVector({cl: P.project(list(cl)) for cl in eng.model.cliques})
    loss, grad = eng._marginal_loss(mu)
    cliques = sorted(tuple(str(a) for a in cl) for cl in eng.model.cliques)
    return loss, float(grad.dot(mu)), cliques

def check(tag, domain, P, canonical, variants):
    for metric in ['L2', 'L1']:
        ref = reference(domain, P, canonical, metric)
        base = evaluate(domain, P, canonical, metric)
        say('%s %s canonical loss=%.10f gdot=%.10f cliques=%s' % (tag, metric, base[0], base[1], base[2]))
        if abs(base[0] - ref) > 1e-9 * max(1, abs(ref)):
            failures.append('%s %s: canonical loss %.12g != definition %.12g' % (tag, metric, base[0], ref))
        for name, meas in variants:
            try:
                got = evaluate(domain, P, meas, metric)
            except Exception as e:
                msg = '%s %s spelling [%s]: raised %s: %s' % (tag, metric, name, type(e).__name__, e)
                failures.append(msg)
                say('%s %s %-28s ERROR' % (tag, metric, name))
                continue
            ok = abs(got[0] - ref) <= 1e-9 * max(1, abs(ref)) and abs(got[1] - base[1]) <= 1e-9 * max(1, abs(base[1])) and got[2] == base[2]
            say('%s %s %-28s loss=%.10f gdot=%.10f' % (tag, metric, name, got[0], got[1]))
            if not ok:
                failures.append('%s %s spelling [%s]: loss %.12g (definition %.12g), <g,mu> %.12g (canonical %.12g), cliques %s (canonical %s)'
                                % (tag, metric, name, got[0], ref, got[1], base[1], got[2], base[2]))

# ---------------------------------------------------------------- scenario 1
# realistic multi-character attribute names; the domain also happens to hold
# attributes called 'a', 'g', 'e' whose sizes multiply to the size of 'age'
dom1 = Domain(['age', 'sex', 'a', 'g', 'e', 'income'], [8, 2, 2, 2, 2, 3])
P1 = joint(dom1, 1)
prng = np.random.RandomState(2)
Q1 = prng.randn(5, 8);  y1 = prng.rand(5)
Q2 = prng.randn(4, 16); y2 = prng.rand(4)
y3 = prng.rand(6)
Q4 = prng.randn(3, 2);  y4 = prng.rand(3)
canon1 = [(Q1, y1, 0.5, ('age',)), (Q2, y2, 2.0, ('sex', 'age')), (None, y3, 1.5, ('income', 'sex')), (Q4, y4, 0.25, ('e',))]
attrs_arr = np.array(dom1.attrs)          # how attribute names look after a trip through numpy
variants1 = [
    ('str',                 [(Q1, y1, 0.5, 'age'), (Q2, y2, 2.0, ('sex', 'age')), (None, y3, 1.5, ('income', 'sex')), (Q4, y4, 0.25, 'e')]),
    ('list',                [(Q1, y1, 0.5, ['age']), (Q2, y2, 2.0, ['sex', 'age']), (None, y3, 1.5, ['income', 'sex']), (Q4, y4, 0.25, ['e'])]),
    ('sparse Q / eye',      [(sparse.csr_matrix(Q1), y1, 0.5, 'age'), (sparse.csr_matrix(Q2), y2, 2.0, ('sex', 'age')), (sparse.eye(6), y3, 1.5, ['income', 'sex']), (Q4, y4, 0.25, 'e')]),
    ('operator Q / np.eye', [(aslinearoperator(Q1), y1, 0.5, ('age',)), (aslinearoperator(Q2), y2, 2.0, ['sex', 'age']), (np.eye(6), y3, 1.5, ('income', 'sex')), (Q4, y4, 0.25, ('e',))]),
    ('np.str_ one letter',  [(Q1, y1, 0.5, ('age',)), (Q2, y2, 2.0, ('sex', 'age')), (None, y3, 1.5, ('income', 'sex')), (Q4, y4, 0.25, attrs_arr[4])]),
    ('np.str_ from array',  [(Q1, y1, 0.5, attrs_arr[0]), (Q2, y2, 2.0, ('sex', 'age')), (None, y3, 1.5, ('income', 'sex')), (Q4, y4, 0.25, ('e',))]),
]
check('S1', dom1, P1, canon1, variants1)

# ---------------------------------------------------------------- scenario 2
# np.str_ name whose letters are not attributes
dom2 = Domain(['sex', 'race', 'edu'], [2, 4, 3])
P2 = joint(dom2, 3)
prng = np.random.RandomState(4)
R1 = prng.randn(3, 4); z1 = prng.rand(3)
R2 = prng.randn(5, 6); z2 = prng.rand(5)
canon2 = [(R1, z1, 0.7, ('race',)), (R2, z2, 3.0, ('edu', 'sex'))]
pick = np.random.RandomState(0).choice(['race'])      # np.str_, as returned by np.random.choice
variants2 = [
    ('str',              [(R1, z1, 0.7, 'race'), (R2, z2, 3.0, ['edu', 'sex'])]),
    ('np.random.choice', [(R1, z1, 0.7, pick), (R2, z2, 3.0, ('edu', 'sex'))]),
]
check('S2', dom2, P2, canon2, variants2)

# ---------------------------------------------------------------- scenario 3
# integer attribute names (e.g. column positions)
dom3 = Domain([0, 1, 2], [2, 3, 4])
P3 = joint(dom3, 5)
prng = np.random.RandomState(6)
T1 = prng.randn(2, 3); w1 = prng.rand(2)
T2 = prng.randn(6, 8); w2 = prng.rand(6)
canon3 = [(T1, w1, 1.3, (1,)), (T2, w2, 0.4, (2, 0))]
variants3 = [
    ('bare int',      [(T1, w1, 1.3, 1), (T2, w2, 0.4, [2, 0])]),
    ('bare np.int64', [(T1, w1, 1.3, np.int64(1)), (T2, w2, 0.4, (2, 0))]),
]
check('S3', dom3, P3, canon3, variants3)

if failures:
    print('FAIL: spellings of the same measurement do not give the same loss')
    for f in failures:
        print('  -', f)
    sys.exit(1)
print('PASS digest=' + hashlib.sha256('\n'.join(lines).encode()).hexdigest())
sys.exit(0)

"""
C04 / pair 2 -- the gradient returned by _marginal_loss is the derivative of the loss.

_marginal_loss scatters each measurement's gradient (a Factor over the
measurement's own attribute order `proj`) into the clique's gradient with
`gradient[cl] += Factor(mu2.domain, grad)`, i.e. through Factor.__iadd__, which
has to re-align the axes of the addend with the clique's axis order.

The demo evaluates loss and gradient at random candidate marginals for several
measurement sets -- including measurements whose proj is a re-ordering of a
whole model clique, over attributes of EQUAL size -- and checks
  * the loss against the definition (numpy only), and
  * <gradient, v> against a central finite difference of the loss along random
    directions v (exact for the quadratic L2 loss, and for L1 away from kinks).
"""
import os, sys, hashlib, warnings
warnings.filterwarnings('ignore')
ROOT = os.path.dirname(os.path.dirname(os.path.dirname(os.path.abspath(__file__))))
sys.path.insert(0, os.path.join(ROOT, 'src'))

import numpy as np
from scipy import sparse
from mbi import Domain, Factor, CliqueVector
from mbi.inference import FactoredInference
import mbi
assert os.path.abspath(mbi.__file__).startswith(ROOT), mbi.__file__

lines = []
failures = []

def say(s):
    lines.append(s)
    print(s)

def rand_vector(domain, cliques, prng, positive):
    ans = {}
    for cl in cliques:
        dom = domain.project(cl)
        vals = prng.rand(*dom.shape) if positive else prng.randn(*dom.shape)
        ans[cl] = Factor(dom, vals)
    return CliqueVector(ans)

def definition(engine, mu, meas, metric):
    """ loss from the definition, numpy only (einsum marginalisation, explicit axis order) """
    tot = 0.0
    for Q, y, noise, proj in meas:
        cl = [c for c in mu if set(proj) <= set(c)][0]
        vals = mu[cl].values
        letters = {a: chr(ord('a') + i) for i, a in enumerate(cl)}
        spec = ''.join(letters[a] for a in cl) + '->' + ''.join(letters[a] for a in proj)
        x = np.einsum(spec, vals).flatten()
        r = (np.asarray(Q @ x).ravel() - y) / noise
        tot += abs(r).sum() if metric == 'L1' else 0.5 * r @ r
    return tot

def run(tag, domain, meas, seed):
    for metric in ['L2', 'L1']:
        engine = FactoredInference(domain, metric=metric, iters=1)
        fixed = engine.fix_measurements(list(meas))
        engine._setup(fixed, 1.0)
        cliques = engine.model.cliques
        prng = np.random.RandomState(seed)
        mu = rand_vector(domain, cliques, prng, positive=True)
        loss, grad = engine._marginal_loss(mu)
        ref = definition(engine, mu, fixed, metric)
        say('%s %s cliques=%s loss=%.10f' % (tag, metric, sorted(cliques), loss))
        if abs(loss - ref) > 1e-9 * max(1.0, abs(ref)):
            failures.append('%s %s: loss %.12g differs from the definition %.12g' % (tag, metric, loss, ref))
        h = 1e-3 if metric == 'L2' else 1e-7
        tol = 1e-6 if metric == 'L2' else 1e-4
        for k in range(4):
            v = rand_vector(domain, cliques, prng, positive=False)
            up, _ = engine._marginal_loss(mu + h * v)
            dn, _ = engine._marginal_loss(mu + (-h) * v)
            fd = (up - dn) / (2 * h)
            an = float(grad.dot(v))
            say('%s %s direction %d  <grad,v>=%.6f' % (tag, metric, k, an))
            if abs(fd - an) > tol * max(1.0, abs(fd)):
                failures.append('%s %s direction %d: <grad,v> = %.9g but d/dt loss(mu+t v) = %.9g' % (tag, metric, k, an, fd))
        # per-clique derivative test (one clique moved at a time) to localise a fault
        for cl in sorted(cliques):
            v = rand_vector(domain, cliques, prng, positive=False)
            for other in cliques:
                if other != cl:
                    v[other] = Factor.zeros(domain.project(other))
            up, _ = engine._marginal_loss(mu + h * v)
            dn, _ = engine._marginal_loss(mu + (-h) * v)
            fd = (up - dn) / (2 * h)
            an = float(grad.dot(v))
            say('%s %s clique %s  <grad,v>=%.6f' % (tag, metric, cl, an))
            if abs(fd - an) > tol * max(1.0, abs(fd)):
                failures.append('%s %s clique %s: <grad,v> = %.9g but d/dt loss = %.9g' % (tag, metric, cl, an, fd))

def M(prng, rows, domain, proj, noise, kind='dense'):
    n = domain.size(proj)
    Q = prng.randn(rows, n)
    if kind == 'sparse':
        Q = sparse.csr_matrix(Q * (prng.rand(rows, n) < 0.5))
    return (Q, prng.rand(rows), noise, proj)

# A: all attribute sizes distinct (the shape of the suite's own fixtures), permuted projections
domA = Domain(['a', 'b', 'c', 'd', 'e'], [2, 3, 4, 5, 6])
prng = np.random.RandomState(10)
measA = [M(prng, 5, domA, ('b', 'a'), 0.6), M(prng, 4, domA, ('c', 'b'), 1.7, 'sparse'),
         M(prng, 7, domA, ('e', 'c', 'd'), 0.9), M(prng, 2, domA, ('a',), 2.5)]
run('A', domA, measA, 11)

# B: equal-size attributes, projections in the cliques' own order
domB = Domain(['a', 'b', 'c', 'd', 'e'], [3, 3, 2, 4, 2])
prng = np.random.RandomState(20)
measB = [M(prng, 5, domB, ('a', 'b'), 0.6), M(prng, 4, domB, ('b', 'c'), 1.7, 'sparse'),
         M(prng, 7, domB, ('c', 'd', 'e'), 0.9), M(prng, 2, domB, ('a',), 2.5)]
run('B', domB, measB, 21)

# C: equal-size attributes, projection is a re-ordering of a whole clique
prng = np.random.RandomState(30)
measC = [M(prng, 5, domB, ('b', 'a'), 0.6), M(prng, 4, domB, ('c', 'b'), 1.7, 'sparse'),
         M(prng, 2, domB, ('a',), 2.5)]
run('C', domB, measC, 31)

# D: three-way clique (c,d,e) of shape (2,4,2) measured as (e,d,c), also shape (2,4,2);
#    plus a second measurement on the same clique in natural order
prng = np.random.RandomState(40)
measD = [M(prng, 7, domB, ('e', 'd', 'c'), 0.9), M(prng, 3, domB, ('c', 'd', 'e'), 1.1),
         M(prng, 3, domB, ('d',), 0.3), M(prng, 4, domB, ('a', 'b'), 2.0)]
run('D', domB, measD, 41)

# E: square two-way marginal on a domain with all sizes equal, identity query (Q omitted)
domE = Domain(['x', 'y', 'z'], [4, 4, 4])
prng = np.random.RandomState(50)
measE = [(None, prng.rand(16), 1.5, ('y', 'x')), (None, prng.rand(16), 0.5, ('y', 'z')), (None, prng.rand(4), 1.0, 'z')]
run('E', domE, measE, 51)

if failures:
    print('FAIL: the gradient used by the estimator is not the derivative of its loss')
    for f in failures:
        print('  -', f)
    sys.exit(1)
print('PASS digest=' + hashlib.sha256('\n'.join(lines).encode()).hexdigest())
sys.exit(0)

"""
C04 / pair 1 -- every supplied measurement must contribute exactly one term to the loss the
estimator optimises, however the measured cliques overlap and in whatever order they arrive.

FactoredInference._setup assigns each measurement to a clique of the model built by
JunctionTree; a measurement whose attributes fit in no model clique is silently left out of
engine.groups (and of the loss, the gradient and the smoothness bound).  So the junction tree
must keep every measured clique inside some maximal clique.

For several measurement sets (ordered chain, chain given out of order, triangle, 4-cycle,
nested / duplicated cliques, structural zeros; mixed noise, dense / sparse / implicit queries)
the program checks
  1. every measurement sits in exactly one group, and its attributes are inside a model clique;
  2. engine._marginal_loss at the marginals of a random model equals the loss recomputed from
     model.project(proj) answers of that model for ALL supplied measurements;
  3. the same at arbitrary (inconsistent) candidate marginals, with an independent assignment;
  4. JunctionTree on random clique collections covers every input clique.

exit 0 + PASS + digest on correct code, exit 1 + FAIL otherwise.
"""
import os, sys, hashlib, warnings
if os.environ.get('PYTHONHASHSEED') != '0':
    # set iteration order (message passing schedule) must not vary between runs of the demo
    os.execve(sys.executable, [sys.executable] + sys.argv, dict(os.environ, PYTHONHASHSEED='0'))
ROOT = os.path.dirname(os.path.dirname(os.path.dirname(os.path.abspath(__file__))))
sys.path.insert(0, os.path.join(ROOT, 'src'))
sys.path.insert(1, ROOT)
warnings.filterwarnings('ignore')

import numpy as np
from scipy import sparse
import mbi
from mbi import Domain, FactoredInference, Factor, CliqueVector
from mbi.junction_tree import JunctionTree

assert os.path.abspath(mbi.__file__).startswith(os.path.join(ROOT, 'src')), mbi.__file__

failures = []
digest_lines = []

def fmt(v):
    return '%.9e' % float(v)

def check(cond, msg):
    if not cond:
        failures.append(msg)

def measurement(prng, dom, proj, kind, noise):
    n = dom.size(proj)
    if kind == 'I':
        Q = None
        m = n
    elif kind == 'D':
        m = max(1, n - 1)
        Q = prng.rand(m, n)
    elif kind == 'S':
        m = n
        Q = sparse.csr_matrix(np.tril(np.ones((n, n))))
    y = prng.rand(m) * 3
    return (Q, y, noise, proj)

def make_cases():
    prng = np.random.RandomState(4242)
    dom = Domain(['a', 'b', 'c', 'd', 'e'], [2, 3, 2, 3, 2])
    spec = {
      'chain-ordered':   [(('a','b'),'I',1.0), (('b','c'),'D',2.0), (('c','d'),'S',0.5)],
      'chain-shuffled':  [(('a','b'),'I',1.0), (('c','d'),'S',0.5), (('b','c'),'D',2.0)],
      'triangle':        [(('a','b'),'D',1.0), (('b','c'),'I',3.0), (('a','c'),'I',0.25)],
      'four-cycle':      [(('a','b'),'I',1.0), (('b','c'),'I',1.0), (('c','d'),'D',2.0), (('d','a'),'S',4.0)],
      'nested':          [(('a',),'I',1.0), (('a','b','c'),'D',5.0), (('b','a'),'S',1.0), (('a','b'),'I',2.0),
                          (('c',),'I',1.0), (('d',),'I',1.0)],
      'singles-then-pair': [(('a',),'I',1.0), (('b',),'I',1.0), (('c',),'I',1.0), (('a','b'),'D',2.0)],
      'star-closing':    [(('a','b','c'),'I',2.0), (('d','e'),'I',1.0), (('c','d'),'D',0.5), ('e','I',1.0)],
    }
    cases = []
    for name in spec:
        ms = [measurement(prng, dom, proj, kind, noise) for proj, kind, noise in spec[name]]
        cases.append((name, dom, ms, {}))
    ms = [measurement(prng, dom, ('a','b'), 'I', 1.0), measurement(prng, dom, ('c','d'), 'D', 2.0)]
    cases.append(('zeros-closing', dom, ms, {('b','c'): [(0, 1), (2, 0)]}))
    return cases

def dense(Q):
    return Q.toarray() if sparse.issparse(Q) else Q

def term(Q, y, noise, x):
    r = (dense(Q) @ x - y) / noise
    return 0.5 * float(r @ r)

for name, dom, raw, zeros in make_cases():
    engine = FactoredInference(dom, structural_zeros=zeros, iters=10)
    ms = engine.fix_measurements(raw)
    engine._setup(ms, 25.0)
    model = engine.model
    cliques = model.cliques

    # 1. bookkeeping
    grouped = [m for cl in engine.groups for m in engine.groups[cl]]
    for i, m in enumerate(ms):
        k = sum(1 for g in grouped if g[1] is m[1])
        check(k == 1, '%s: measurement #%d on %s occurs %d times in engine.groups (model cliques %s)'
                      % (name, i, m[3], k, cliques))
        check(any(set(m[3]) <= set(cl) for cl in cliques),
              '%s: no model clique contains the measured attributes %s (model cliques %s)' % (name, m[3], cliques))
    for cl in zeros:
        check(any(set(cl) <= set(c2) for c2 in cliques), '%s: structural-zero clique %s not in the model' % (name, cl))

    # 2. loss at the marginals of a random model, recomputed from model.project answers
    prng = np.random.RandomState(99)
    pots = CliqueVector({cl: Factor(dom.project(cl), prng.randn(*dom.project(cl).shape)) for cl in cliques})
    model.potentials = pots
    mu = model.belief_propagation(pots)
    loss, grad = engine._marginal_loss(mu)
    ref = sum(term(Q, y, noise, model.project(proj).datavector()) for Q, y, noise, proj in ms)
    check(abs(loss - ref) <= 1e-8 * max(1.0, abs(ref)),
          '%s: engine loss %.9e but the sum over ALL %d supplied measurements computed from model.project is %.9e '
          '(difference %.3e)' % (name, loss, len(ms), ref, ref - loss))

    # 3. loss at arbitrary candidate marginals with an independent assignment
    cand = CliqueVector({cl: Factor(dom.project(cl), prng.rand(*dom.project(cl).shape) * 7) for cl in cliques})
    loss3, _ = engine._marginal_loss(cand)
    ref3, unassigned = 0.0, 0
    for Q, y, noise, proj in ms:
        home = [cl for cl in sorted(cliques, key=dom.size) if set(proj) <= set(cl)]
        if not home:
            unassigned += 1
            continue
        ref3 += term(Q, y, noise, cand[home[0]].project(proj).datavector())
    check(unassigned == 0, '%s: %d supplied measurement(s) cannot be evaluated on any model clique' % (name, unassigned))
    check(abs(loss3 - ref3) <= 1e-8 * max(1.0, abs(ref3)), '%s: loss at candidate marginals %.9e != %.9e' % (name, loss3, ref3))

    digest_lines.append('%s | %s | %s | %s %s %s' % (name, cliques, model.elimination_order,
                        fmt(loss), fmt(loss3), fmt(grad.dot(cand))))

# 4. junction trees of random clique collections
prng = np.random.RandomState(5)
attrs = list('abcdefg')
dom7 = Domain(attrs, [2, 3, 4, 2, 3, 2, 5])
for trial in range(40):
    k = prng.randint(2, 8)
    cls = []
    for _ in range(k):
        r = prng.randint(1, 4)
        cls.append(tuple(str(a) for a in prng.choice(attrs, r, replace=False)))
    if trial % 3 == 0:
        cls.append(cls[0])
    tree = JunctionTree(dom7, cls)
    mc = tree.maximal_cliques()
    for cl in cls:
        check(any(set(cl) <= set(c2) for c2 in mc), 'random #%d: input clique %s is inside no maximal clique %s (input %s)'
              % (trial, cl, mc, cls))
    digest_lines.append('tree %d %s %s %s' % (trial, mc, tree.elimination_order, tree.mp_order()))

if failures:
    print('FAIL')
    for f in failures:
        print(' -', f)
    sys.exit(1)

text = '\n'.join(digest_lines)
print('PASS')
print(text)
print('digest', hashlib.sha256(text.encode()).hexdigest())
sys.exit(0)

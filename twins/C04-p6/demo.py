"""
C04 / pair 2 -- the residual of a measurement is Q applied to the model's marginal over the
measured attributes, enumerated IN THE ORDER THE MEASUREMENT NAMES THEM (last attribute varying
fastest), whatever the layout of the array that holds the marginal; the gradient is the
derivative of that loss, and re-spelling a measurement with its attributes in another order
(and the columns of Q permuted accordingly) gives the same loss.

_marginal_loss obtains the vector through Factor.project(proj).datavector(); project returns a
transposed VIEW whenever proj is not in the clique's own attribute order.

The program evaluates, for L2 and L1, measurement sets whose projections are in canonical order,
reversed (2 attributes), rotated / reversed (3 attributes inside a 4-attribute clique), on
attributes of equal and of different sizes, with implicit / dense / sparse queries, and checks
  1. loss against a plain-numpy recomputation from the candidate marginal arrays;
  2. gradient against the plain-numpy gradient, and a finite-difference derivative test;
  3. equality of the loss with the canonically re-spelled measurement set;
  4. GraphicalModel.datavector() against the brute-force joint distribution.

exit 0 + PASS + digest on correct code, exit 1 + FAIL otherwise.
"""
import os, sys, hashlib, warnings, itertools
if os.environ.get('PYTHONHASHSEED') != '0':
    # set iteration order (message passing schedule) must not vary between runs of the demo
    os.execve(sys.executable, [sys.executable] + sys.argv, dict(os.environ, PYTHONHASHSEED='0'))
ROOT = os.path.dirname(os.path.dirname(os.path.dirname(os.path.abspath(__file__))))
sys.path.insert(0, os.path.join(ROOT, 'src'))
sys.path.insert(1, ROOT)
warnings.filterwarnings('ignore')

import numpy as np
from scipy import sparse
import mbi
from mbi import Domain, FactoredInference, Factor, CliqueVector, GraphicalModel

assert os.path.abspath(mbi.__file__).startswith(os.path.join(ROOT, 'src')), mbi.__file__

failures = []
digest_lines = []

def fmt(v):
    return '%.9e' % float(v)

def check(cond, msg):
    if not cond:
        failures.append(msg)

def make_query(prng, n, kind):
    if kind == 'I':
        return None, n
    if kind == 'D':
        m = max(1, n - 2)
        return prng.rand(m, n), m
    if kind == 'S':
        return sparse.csr_matrix(np.tril(np.ones((n, n)))), n
    if kind == 'R':   # a few range queries
        Q = np.zeros((3, n)); Q[0, :n // 2] = 1; Q[1, n // 2:] = 1; Q[2, 1:] = 1
        return Q, 3

def make_cases():
    prng = np.random.RandomState(31337)
    dom_eq = Domain(['a', 'b', 'c', 'd'], [3, 3, 3, 3])
    dom_ne = Domain(['a', 'b', 'c', 'd'], [2, 3, 4, 5])
    spec = {
        'canonical':      [(('a', 'b'), 'D', 1.0), (('b', 'c'), 'I', 2.0), (('c', 'd'), 'S', 0.5)],
        'reversed-pair':  [(('b', 'a'), 'D', 1.0), (('c', 'b'), 'I', 2.0), (('c', 'd'), 'S', 0.5)],
        'rotated-triple': [(('a', 'b', 'c', 'd'), 'I', 4.0), (('c', 'a', 'b'), 'D', 1.5), (('b', 'c', 'a'), 'R', 0.7)],
        'reversed-triple': [(('a', 'b', 'c', 'd'), 'I', 4.0), (('d', 'c', 'b'), 'S', 3.0), (('d', 'a'), 'D', 1.0)],
        'full-clique-rotated': [(('c', 'a', 'b'), 'I', 1.0), (('d',), 'I', 1.0), (['b', 'a'], 'R', 2.0)],
    }
    cases = []
    for dname, dom in [('eq', dom_eq), ('ne', dom_ne)]:
        for name in spec:
            ms = []
            for proj, kind, noise in spec[name]:
                Q, m = make_query(prng, dom.size(proj), kind)
                ms.append((Q, prng.rand(m) * 4, noise, proj))
            cases.append((name + '/' + dname, dom, ms))
    return cases

def dense(Q):
    return Q.toarray() if sparse.issparse(Q) else Q

def reference(engine, marginals, metric):
    """ loss and gradient recomputed from the raw arrays with plain numpy """
    dom = engine.domain
    loss = 0.0
    grad = {cl: np.zeros(marginals[cl].domain.shape) for cl in marginals}
    for cl in marginals:
        attrs = marginals[cl].domain.attrs
        vals = np.ascontiguousarray(marginals[cl].values)
        for Q, y, noise, proj in engine.groups[cl]:
            Qd = dense(Q)
            other = tuple(i for i, a in enumerate(attrs) if a not in proj)
            rest = [a for a in attrs if a in proj]
            m = vals.sum(axis=other)                       # axes in clique order
            x = np.ascontiguousarray(np.transpose(m, [rest.index(a) for a in proj])).reshape(-1)
            r = (Qd @ x - y) / noise
            if metric == 'L1':
                loss += np.abs(r).sum()
                gx = Qd.T @ np.sign(r) / noise
            else:
                loss += 0.5 * r @ r
                gx = Qd.T @ r / noise
            gx = gx.reshape([dom[a] for a in proj])
            gx = np.transpose(gx, [list(proj).index(a) for a in rest])
            grad[cl] = grad[cl] + gx.reshape([dom[a] if a in proj else 1 for a in attrs])
    return loss, grad

def respell(dom, ms):
    """ the same measurements with attributes in domain order and the columns of Q permuted """
    ans = []
    for Q, y, noise, proj in ms:
        canon = dom.canonical(proj)
        n = dom.size(proj)
        idx = np.arange(n).reshape([dom[a] for a in proj])
        # idx2[j] = position in the proj-ordered vector of the j-th cell of the canon-ordered vector
        idx2 = np.transpose(idx, [list(proj).index(a) for a in canon]).reshape(-1)
        Qd = np.eye(n) if Q is None else dense(Q)
        Q2 = np.zeros(Qd.shape)
        Q2[:, np.arange(n)] = Qd[:, idx2]
        ans.append((Q2, y, noise, canon))
    return ans

for name, dom, raw in make_cases():
    for metric in ['L2', 'L1']:
        prng = np.random.RandomState(11)
        engine = FactoredInference(dom, metric=metric, iters=5)
        ms = engine.fix_measurements(raw)
        engine._setup(ms, 40.0)
        cliques = engine.model.cliques
        cand = CliqueVector({cl: Factor(dom.project(cl), prng.rand(*dom.project(cl).shape) * 5) for cl in cliques})

        loss, grad = engine._marginal_loss(cand)
        rloss, rgrad = reference(engine, cand, metric)
        check(abs(loss - rloss) <= 1e-9 * max(1.0, abs(rloss)),
              '%s/%s: engine loss %.9e, but the sum of the residual terms of (Q mu_proj - y)/sigma with mu_proj enumerated in the '
              'measurement\'s attribute order is %.9e' % (name, metric, loss, rloss))
        gdev = max(np.abs(grad[cl].values - rgrad[cl]).max() for cl in cliques)
        gsc = max(1.0, max(np.abs(rgrad[cl]).max() for cl in cliques))
        check(gdev <= 1e-9 * gsc, '%s/%s: gradient deviates from the analytic gradient by %.3e' % (name, metric, gdev))

        if metric == 'L2':
            direction = CliqueVector({cl: Factor(dom.project(cl), prng.randn(*dom.project(cl).shape)) for cl in cliques})
            eps = 1e-3
            lp = engine._marginal_loss(cand + eps * direction)[0]
            lm = engine._marginal_loss(cand - eps * direction)[0]
            fd = (lp - lm) / (2 * eps)
            an = grad.dot(direction)
            check(abs(fd - an) <= 1e-6 * max(1.0, abs(fd)),
                  '%s/%s: finite-difference directional derivative %.9e but gradient.dot(direction) %.9e' % (name, metric, fd, an))

        engine2 = FactoredInference(dom, metric=metric, iters=5)
        ms2 = engine2.fix_measurements(respell(dom, raw))
        engine2._setup(ms2, 40.0)
        check(engine2.model.cliques == cliques, '%s: respelling changed the model cliques' % name)
        loss2, grad2 = engine2._marginal_loss(cand)
        check(abs(loss - loss2) <= 1e-9 * max(1.0, abs(loss2)),
              '%s/%s: loss %.9e differs from the loss %.9e of the same measurements spelled with attributes in '
              'domain order (columns of Q permuted accordingly)' % (name, metric, loss, loss2))
        g2dev = max(np.abs(grad[cl].values - grad2[cl].values).max() for cl in cliques)
        check(g2dev <= 1e-9 * gsc, '%s/%s: gradient differs from that of the re-spelled measurements by %.3e' % (name, metric, g2dev))

        digest_lines.append('%s %s %s %s %s' % (name, metric, cliques, fmt(loss),
                            fmt(sum(np.abs(grad[cl].values).sum() for cl in cliques))))

# 4. datavector of a small model against the brute-force joint distribution
prng = np.random.RandomState(3)
dom = Domain(['a', 'b', 'c', 'd'], [2, 3, 4, 2])
model = GraphicalModel(dom, [('a', 'b'), ('b', 'c'), ('d', 'c')], total=12.0)
pots = {cl: Factor(dom.project(cl), prng.randn(*dom.project(cl).shape)) for cl in model.cliques}
model.potentials = CliqueVector(pots)
joint = np.zeros(dom.shape)
for cell in itertools.product(*[range(n) for n in dom.shape]):
    asg = dict(zip(dom.attrs, cell))
    joint[cell] = np.exp(sum(pots[cl].values[tuple(asg[a] for a in cl)] for cl in pots))
joint *= 12.0 / joint.sum()
dv = model.datavector()
check(np.allclose(dv, joint.reshape(-1), rtol=1e-9, atol=1e-12), 'GraphicalModel.datavector() is not the joint distribution in domain order')
for proj in [('a', 'b'), ('c', 'a'), ('d', 'c', 'b')]:
    ax = tuple(i for i, a in enumerate(dom.attrs) if a not in proj)
    rest = [a for a in dom.attrs if a in proj]
    want = np.transpose(joint.sum(axis=ax), [rest.index(a) for a in proj]).reshape(-1)
    got = model.project(proj).datavector()
    check(np.allclose(got, want, rtol=1e-9, atol=1e-12), 'model.project(%s).datavector() is not enumerated in the order %s' % (proj, proj))
    digest_lines.append('project %s %s' % (proj, fmt(np.abs(got * np.arange(1, got.size + 1)).sum())))
digest_lines.append('datavector %s' % fmt(np.abs(dv * np.arange(1, dv.size + 1)).sum()))

if failures:
    print('FAIL')
    for f in failures:
        print(' -', f)
    sys.exit(1)

text = '\n'.join(digest_lines)
print('PASS')
print(text)
print('digest', hashlib.sha256(text.encode()).hexdigest())
sys.exit(0)

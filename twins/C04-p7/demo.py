"""C04 / pair 1 -- measurements that share a marginal but not a noise level.

Checks, on several measurement sets, that
  (1) engine._marginal_loss(mu)[0] equals  sum_m  0.5*||(Q_m mu_m - y_m)/sigma_m||^2
      (or sum_m ||(Q_m mu_m - y_m)/sigma_m||_1 for metric='L1'), every supplied measurement counted
      exactly once with ITS OWN noise level,
  (2) the returned gradient is the derivative of the returned loss (central differences along
      random directions),
  (3) engine._lipschitz(measurements) bounds the largest Hessian eigenvalue of the L2 loss,
  (4) after estimate(), the engine's loss at model.marginals equals the loss recomputed from
      model.project(proj) answers.
Exit status 0 and a digest when all hold, 1 otherwise.
"""
import os, sys, hashlib, warnings
ROOT = os.path.dirname(os.path.dirname(os.path.dirname(os.path.abspath(__file__))))
sys.path.insert(0, os.path.join(ROOT, 'src'))
warnings.simplefilter('ignore')

import numpy as np
from scipy import sparse
from scipy.sparse.linalg import LinearOperator
import mbi
from mbi import Domain, Factor, CliqueVector, FactoredInference
assert os.path.abspath(mbi.__file__).startswith(ROOT + os.sep), 'wrong mbi imported: ' + mbi.__file__

DOMAIN = Domain(['a', 'b', 'c', 'd'], [2, 3, 2, 3])
TOTAL = 50.0
lines, failures = [], []

def out(s):
    lines.append(s)
    print(s)

def fail(s):
    failures.append(s)
    print('  !! ' + s)

def as_tuple(proj):
    return tuple(proj) if type(proj) in (list, tuple) else (proj,)

def dense(Q, n):
    if Q is None:
        return np.eye(n)
    if sparse.issparse(Q):
        return Q.toarray()
    if isinstance(Q, LinearOperator):
        return Q @ np.eye(n)
    return np.asarray(Q, dtype=float)

def reference_loss(measurements, answer, metric):
    """ sum over the supplied measurements; `answer(proj)` gives the marginal vector in proj order """
    tot = 0.0
    for Q, y, noise, proj in measurements:
        proj = as_tuple(proj)
        x = answer(proj)
        r = (dense(Q, x.size) @ x - y) / noise
        tot += np.abs(r).sum() if metric == 'L1' else 0.5 * (r @ r)
    return float(tot)

def operator(M):
    M = np.array(M, dtype=float)
    return LinearOperator(M.shape, matvec=lambda v: M @ v, rmatvec=lambda v: M.T @ v, dtype=float)

def prefix(n):
    return sparse.csr_matrix(np.tril(np.ones((n, n))))

def measurement_sets():
    rng = np.random.RandomState(20261004)
    y = lambda k: rng.rand(k) * TOTAL / 2
    sets = {}
    sets['distinct marginals'] = [
        (None, y(6), 1.5, ('a', 'b')),
        (rng.rand(4, 6), y(4), 0.7, ('b', 'c')),
        (prefix(3), y(3), 2.0, 'd'),
    ]
    # the same marginal measured again later with a much smaller noise (what MWEM / AIM style
    # mechanisms do when they come back to a marginal with more budget)
    sets['marginal re-measured, smaller noise'] = [
        (None, y(6), 4.0, ('a', 'b')),
        (sparse.eye(2), y(2), 1.0, ('c',)),
        (None, y(6), 0.5, ('a', 'b')),
    ]
    sets['marginal re-measured, larger noise'] = [
        (np.eye(6), y(6), 0.5, ['c', 'd']),
        (prefix(6), y(6), 5, ['c', 'd']),
    ]
    # three spellings, one marginal in non-canonical order, same noise twice (not adjacent), once different
    M = rng.rand(3, 6)
    sets['three spellings of one marginal'] = [
        (M, y(3), 1.0, ('b', 'a')),
        (prefix(6), y(6), 2.0, ('c', 'd')),
        (operator(rng.rand(5, 6)), y(5), 1.0, ('b', 'a')),
        (sparse.csr_matrix(rng.rand(2, 6)), y(2), 3, ('b', 'a')),
    ]
    sets['overlapping cliques, one-way marginal twice'] = [
        (None, y(6), 1.0, ('a', 'b')),
        (None, y(6), 2.0, ('b', 'c')),
        (None, y(4), 1.5, ('a', 'c')),
        (None, y(2), 3.0, 'a'),
        (np.ones((1, 2)), y(1), 0.25, 'a'),
    ]
    sets['same noise everywhere'] = [
        (None, y(6), 2.0, ('a', 'b')),
        (prefix(6), y(6), 2.0, ('a', 'b')),
        (None, y(3), 2.0, 'd'),
        (rng.rand(2, 3), y(2), 2.0, 'd'),
    ]
    return sets

def consistent_marginals(model, rng):
    P = Factor(DOMAIN, rng.rand(*DOMAIN.shape))
    P = P * (TOTAL / P.sum())
    mu = CliqueVector({cl: P.project(cl) for cl in model.cliques})
    return P, mu

def random_direction(model, rng):
    return CliqueVector({cl: Factor(DOMAIN.project(cl), rng.randn(*DOMAIN.project(cl).shape)) for cl in model.cliques})

def hessian_top(engine, mu):
    """ largest eigenvalue of the Hessian of the (quadratic) L2 loss, from gradient differences """
    cliques = list(mu.keys())
    g0 = engine._marginal_loss(mu)[1]
    cols = []
    for cl in cliques:
        for i in range(mu[cl].domain.size()):
            e = np.zeros(mu[cl].domain.size()); e[i] = 1.0
            step = CliqueVector({c: Factor(mu[c].domain, e if c == cl else np.zeros(mu[c].domain.size())) for c in cliques})
            g1 = engine._marginal_loss(mu + step)[1]
            cols.append(np.concatenate([(g1[c] - g0[c]).datavector() for c in cliques]))
    H = np.array(cols)
    H = 0.5 * (H + H.T)
    return float(np.linalg.eigvalsh(H)[-1])

def check(name, raw, metric):
    out('== %s / %s' % (name, metric))
    engine = FactoredInference(DOMAIN, metric=metric, iters=40)
    ms = engine.fix_measurements(raw)
    engine._setup(ms, TOTAL)
    model = engine.model
    rng = np.random.RandomState(abs(hash_str(name + metric)) % (2**31))
    P, mu = consistent_marginals(model, rng)

    loss, grad = engine._marginal_loss(mu)
    ref = reference_loss(raw, lambda proj: P.project(proj).datavector(), metric)
    out('   loss %.8e   reference %.8e' % (loss, ref))
    if abs(loss - ref) > 1e-9 * max(1.0, abs(ref)):
        fail('%s/%s: loss %.10g differs from the sum over the supplied measurements %.10g' % (name, metric, loss, ref))

    h = 1e-3 if metric == 'L2' else 1e-6
    for k in range(3):
        d = random_direction(model, rng)
        fd = (engine._marginal_loss(mu + h * d)[0] - engine._marginal_loss(mu - h * d)[0]) / (2 * h)
        an = grad.dot(d)
        out('   directional derivative %d: %.6e' % (k, an))
        if abs(fd - an) > 1e-5 * max(1.0, abs(an)):
            fail('%s/%s: gradient.dot(d)=%.10g but finite difference of the loss gives %.10g' % (name, metric, an, fd))

    if metric == 'L2':
        L = engine._lipschitz(ms)
        top = hessian_top(engine, mu)
        out('   lipschitz %.5e   hessian top eigenvalue %.5e' % (L, top))
        if top > L * (1 + 1e-7):
            fail('%s: smoothness constant %.8g is below the largest Hessian eigenvalue %.8g' % (name, L, top))

    # end to end: loss the estimator reports vs loss recomputed from the model's answers
    stepsize = None if metric == 'L2' else 1e-4
    engine2 = FactoredInference(DOMAIN, metric=metric, iters=25)
    model2 = engine2.estimate(list(raw), total=TOTAL, engine='MD', options={'stepsize': stepsize})
    eng_loss = engine2._marginal_loss(model2.marginals)[0]
    ref2 = reference_loss(raw, lambda proj: model2.project(proj).datavector(), metric)
    out('   after estimate: engine loss %.7e   recomputed %.7e' % (eng_loss, ref2))
    if abs(eng_loss - ref2) > 1e-8 * max(1.0, abs(ref2)):
        fail('%s/%s: after estimate the engine loss %.10g differs from the loss recomputed from model.project %.10g'
             % (name, metric, eng_loss, ref2))

def hash_str(s):
    return int(hashlib.sha256(s.encode()).hexdigest()[:8], 16)

def main():
    sets = measurement_sets()
    for name in sets:
        for metric in ['L2', 'L1']:
            try:
                check(name, sets[name], metric)
            except Exception as e:
                fail('%s/%s: raised %r' % (name, metric, e))
    digest = hashlib.sha256('\n'.join(lines).encode()).hexdigest()
    if failures:
        print('FAIL (%d violations of the stated objective)' % len(failures))
        for f in failures:
            print(' - ' + f)
        sys.exit(1)
    print('PASS digest=' + digest)
    sys.exit(0)

if __name__ == '__main__':
    main()

""" C04 / pair 1 -- every supplied measurement enters the loss exactly once.

Checks FactoredInference._setup / _marginal_loss against a reference written
directly in numpy (no Factor.project, no engine.groups):

  (i)   every measurement object sits in exactly one group of engine.groups
  (ii)  _marginal_loss(mu)[0] == sum over ALL measurements of the L2 / L1
        residual of Q applied to the marginal, scaled by 1/noise
        (mu = consistent marginals from belief propagation, so the value does
        not depend on which clique hosts a measurement)
  (iii) the returned gradient is the derivative of that reference loss
        (central differences along random directions)
  (iv)  the loss returned by mirror_descent equals the loss recomputed from
        model.project answers of the returned model

exit 0 + PASS + digest  /  exit 1 + FAIL + explanation
"""
import os, sys, hashlib, warnings
ROOT = os.path.dirname(os.path.dirname(os.path.dirname(os.path.abspath(__file__))))
sys.path.insert(0, os.path.join(ROOT, 'src'))
warnings.filterwarnings('ignore')

import numpy as np
from scipy import sparse
from scipy.sparse.linalg import aslinearoperator
import mbi
from mbi import Domain, FactoredInference, Factor, CliqueVector

assert os.path.abspath(mbi.__file__).startswith(os.path.abspath(ROOT)), mbi.__file__

lines = []
failures = []
def out(s):
    lines.append(s)
    print(s)

def dense(Q, n):
    if Q is None:
        return np.eye(n)
    if sparse.issparse(Q):
        return np.asarray(Q.todense())
    if isinstance(Q, np.ndarray):
        return Q
    return np.asarray(Q @ np.eye(n))       # LinearOperator

def as_tuple(proj):
    if isinstance(proj, str):
        return (proj,)
    return tuple(proj)

def np_marginal(fac, proj):
    """ marginal of a clique factor on proj (in that order), flattened C-order """
    attrs = fac.domain.attrs
    drop = tuple(i for i, a in enumerate(attrs) if a not in proj)
    vals = np.asarray(fac.values).sum(axis=drop)
    kept = [a for a in attrs if a in proj]
    vals = np.transpose(vals, [kept.index(a) for a in proj])
    return vals.reshape(-1)

def host(model, proj):
    """ the smallest model clique containing proj (ties: model order) """
    for cl in sorted(model.cliques, key=lambda c: int(np.prod([model.domain[a] for a in c]))):
        if set(proj) <= set(cl):
            return cl
    raise KeyError(proj)

def ref_loss(domain, model, raw, mu, metric):
    total = 0.0
    for Q, y, noise, proj in raw:
        proj = as_tuple(proj)
        x = np_marginal(mu[host(model, proj)], proj)
        r = (dense(Q, domain.size(proj)) @ x - np.asarray(y, dtype=float)) / noise
        total += np.abs(r).sum() if metric == 'L1' else 0.5 * float(r @ r)
    return float(total)

def check(name, domain, raw, metric, seed, total=10.0):
    rng = np.random.RandomState(seed)
    engine = FactoredInference(domain, metric=metric, iters=30)
    fixed = engine.fix_measurements(list(raw))
    engine._setup(fixed, total)
    model = engine.model

    # (i) exactly-once membership
    seen = {}
    for cl, group in engine.groups.items():
        for m in group:
            seen[id(m[1])] = seen.get(id(m[1]), 0) + 1
    counts = [seen.get(id(m[1]), 0) for m in raw]
    if counts != [1] * len(raw):
        failures.append('%s: measurements are not each in exactly one group, '
                        'multiplicities by input position = %s' % (name, counts))

    # (ii) loss on consistent marginals
    theta = CliqueVector({cl: Factor(domain.project(cl), rng.randn(*domain.project(cl).shape))
                          for cl in model.cliques})
    mu = model.belief_propagation(theta)
    loss, grad = engine._marginal_loss(mu)
    want = ref_loss(domain, model, raw, mu, metric)
    if not np.isclose(loss, want, rtol=1e-9, atol=1e-9):
        failures.append('%s: _marginal_loss = %.10g but the sum over all %d supplied '
                        'measurements is %.10g' % (name, loss, len(raw), want))

    # (iii) gradient = derivative of the reference loss
    dd = []
    for k in range(3):
        d = CliqueVector({cl: Factor(mu[cl].domain, rng.randn(*mu[cl].domain.shape))
                          for cl in model.cliques})
        h = 1e-6
        num = (ref_loss(domain, model, raw, mu + h * d, metric)
               - ref_loss(domain, model, raw, mu + (-h) * d, metric)) / (2 * h)
        ana = grad.dot(d)
        dd.append(ana)
        if not np.isclose(ana, num, rtol=1e-5, atol=1e-5):
            failures.append('%s: directional derivative %d: gradient says %.8g, '
                            'reference loss says %.8g' % (name, k, ana, num))

    # (iv) loss of the estimated model, recomputed from model.project
    step = None if metric == 'L2' else 0.05
    ret = engine.mirror_descent(fixed, total, stepsize=step)
    est = engine.model
    again = 0.0
    for Q, y, noise, proj in raw:
        proj = as_tuple(proj)
        x = est.project(proj).datavector()
        r = (dense(Q, domain.size(proj)) @ x - y) / noise
        again += np.abs(r).sum() if metric == 'L1' else 0.5 * float(r @ r)
    if not np.isclose(ret, again, rtol=1e-8, atol=1e-9):
        failures.append('%s: mirror_descent reports loss %.10g, loss recomputed from '
                        'model.project answers is %.10g' % (name, ret, again))

    out('%-22s metric=%s cliques=%s' % (name, metric, model.cliques))
    out('   groups  %s' % sorted((cl, len(g)) for cl, g in engine.groups.items() if len(g)))
    out('   loss    %.10g   reference %.10g' % (loss, want))
    out('   g.d     %s' % ' '.join('%.10g' % v for v in dd))
    out('   fitted  %.10g   recomputed %.10g' % (ret, again))


def main():
    rng = np.random.RandomState(20240704)

    # A: the shape of the unit tests -- one single-attribute measurement per clique
    domA = Domain(['a', 'b', 'c', 'd', 'e'], [2, 3, 4, 5, 6])
    rawA = []
    for a in ['a', 'b', 'c', 'd']:
        y = rng.rand(domA.size(a)); y /= y.sum()
        rawA.append((np.eye(domA.size(a)), 10 * y, 1.0, a))
    check('A unit-test-like', domA, rawA, 'L2', 1)

    # B: the same marginal measured twice, plus one-way marginals living in the
    #    same cliques, mixed query types / noise levels / attribute spellings
    domB = Domain(['a', 'b', 'c'], [2, 3, 4])
    rawB = [
        (rng.rand(4, 6),                      10 * rng.rand(4),  2.0, ('a', 'b')),
        (None,                                10 * rng.rand(6),  0.5, ['a', 'b']),
        (sparse.csr_matrix(rng.rand(5, 12)),  10 * rng.rand(5),  1.5, ('b', 'c')),
        (None,                                10 * rng.rand(4),  1.0, 'c'),
        (aslinearoperator(rng.rand(2, 3)),    10 * rng.rand(2),  3.0, ['b']),
    ]
    check('B repeated+nested', domB, rawB, 'L2', 2)
    check('B repeated+nested', domB, rawB, 'L1', 3)

    # C: overlapping cliques of different size, measurements listed so that
    #    neighbours in the list share their host clique
    domC = Domain(['p', 'q', 'r', 's'], [3, 2, 2, 3])
    rawC = [
        (None,                               10 * rng.rand(3),  1.0, ('p',)),
        (None,                               10 * rng.rand(6),  0.7, ('p', 'q')),
        (rng.rand(3, 6),                     10 * rng.rand(3),  1.3, ('q', 'p')),
        (sparse.eye(12).tocsr()[::2],        10 * rng.rand(6),  2.0, ('q', 'r', 's')),
        (None,                               10 * rng.rand(6),  0.9, ('r', 's')),
        (None,                               10 * rng.rand(3),  1.1, 's'),
    ]
    check('C overlapping', domC, rawC, 'L2', 4)

    # D: two measurements of one clique that are NOT neighbours in the list
    rawD = [rawC[1], rawC[3], rawC[2]]
    check('D interleaved', domC, rawD, 'L2', 5)

    digest = hashlib.sha256('\n'.join(lines).encode()).hexdigest()
    if failures:
        print('FAIL')
        for f in failures:
            print('  -', f)
        sys.exit(1)
    print('PASS', digest)
    sys.exit(0)

if __name__ == '__main__':
    main()

"""C04 / refactor 1 equivalence demo: FactoredInference.fix_measurements.

Prints a deterministic digest of
  (a) the canonical form produced for many spellings of a measurement (proj as str / list /
      tuple / permuted / tuple- and list-subclasses / integer attribute names, Q omitted /
      dense / sparse / LinearOperator, python / numpy scalar noise),
  (b) the exception (type and message) raised for malformed measurements,
  (c) loss and gradient of _marginal_loss and the value of _lipschitz for equivalent spellings,
  (d) a short end-to-end estimate() through the public API.
The output must be byte-identical before and after the refactoring."""
import os, sys, collections
ROOT = os.path.abspath(os.path.join(os.path.dirname(os.path.abspath(__file__)), '..', '..'))
sys.path.insert(0, os.path.join(ROOT, 'src'))
import numpy as np
from scipy import sparse
from scipy.sparse.linalg import aslinearoperator
import mbi
assert os.path.abspath(mbi.__file__).startswith(ROOT), mbi.__file__
from mbi import Domain, FactoredInference, CliqueVector, Factor


def fmt(a, nd=8):
    a = np.asarray(a, dtype=float).ravel()
    return '[' + ' '.join('%.*e' % (nd, v + 0.0) for v in a) + ']'


def describe(orig, fixed):
    (Q0, y0, n0, p0), (Q, y, n, p) = orig, fixed
    if Q0 is None:
        dense = Q.toarray()
        qdesc = 'eye:%s shape=%s sparse=%s isI=%s' % (type(Q).__name__, Q.shape, sparse.issparse(Q),
                                                     bool((dense == np.eye(dense.shape[0])).all()))
    else:
        qdesc = 'same-object=%s type=%s' % (Q is Q0, type(Q).__name__)
    return '%s | y same-object=%s | noise %r same-object=%s | proj %r (%s) <- %r' % (
        qdesc, y is y0, n, n is n0, p, type(p).__name__, p0)


def main():
    prng = np.random.RandomState(4)
    dom = Domain(['a', 'b', 'c', 'd'], [2, 3, 4, 2])
    eng = FactoredInference(dom, iters=5)

    Pair = collections.namedtuple('Pair', ['x', 'y'])
    class MyList(list):
        pass

    def y(n):
        return np.round(prng.rand(n) * 10, 3)

    print('== (a) canonical forms')
    good = [
        (None, y(2), 1.0, 'a'),
        (None, y(3), 2, ['b']),
        (None, y(4), np.float64(0.5), ('c',)),
        (None, y(12), 3.5, ['b', 'c']),
        (None, y(12), 0.25, ('c', 'b')),
        (np.eye(6)[::-1].copy(), y(6), 1.5, ('a', 'b')),
        (prng.rand(5, 6), y(5), np.float32(2.0), ['b', 'a']),
        (sparse.csr_matrix(np.triu(np.ones((8, 8)))), y(8), 7.0, ('d', 'c')),
        (sparse.eye(3).tocsc(), y(3), 1e-3, 'b'),
        (aslinearoperator(prng.rand(3, 24)), y(3), 4.0, ['a', 'b', 'c']),
        (np.ones((1, 48)), y(1), 10.0, ('d', 'c', 'b', 'a')),
        (None, y(1), 1.0, ()),
        (None, y(1), 1.0, []),
    ]
    fixed = eng.fix_measurements(good)
    print('returns list:', type(fixed).__name__, 'len', len(fixed), 'new object:', fixed is not good)
    for o, f in zip(good, fixed):
        print(' ', type(f).__name__, len(f), describe(o, f))
    print('input list untouched:', all(type(m[3]) in (str, list, tuple) for m in good),
          [type(m[3]).__name__ for m in good])
    print('idempotent:', all(all(u is v for u, v in zip(f, g))
                             for f, g in zip(fixed[5:11], eng.fix_measurements(fixed)[5:11])))
    print('empty list ->', eng.fix_measurements([]))

    idom = Domain([0, 1, 2], [2, 3, 2])
    ieng = FactoredInference(idom)
    ims = [(None, y(3), 1.0, 1), (None, y(4), 2.0, [2, 0]), (np.eye(6), y(6), 3.0, (0, 1))]
    for o, f in zip(ims, ieng.fix_measurements(ims)):
        print('  int-attrs', describe(o, f))

    print('== (b) malformed measurements')
    bad = {
        'not a list (tuple of measurements)': ((None, y(2), 1.0, 'a'),),
        '3-tuple': [(None, y(2), 1.0)],
        '5-tuple': [(None, y(2), 1.0, 'a', 'x')],
        'Q rows != y size': [(np.eye(2), y(3), 1.0, 'a')],
        'Q cols != proj size': [(np.eye(3), y(3), 1.0, 'a')],
        'Q=None, y of wrong size (not checked)': [(None, y(5), 1.0, 'a')],
        'noise is an array': [(None, y(2), np.array([1.0, 2.0]), 'a')],
        'noise is a list': [(np.eye(2), y(2), [1.0], 'a')],
        'unknown attribute, Q given': [(np.eye(2), y(2), 1.0, 'z')],
        'unknown attribute, Q omitted': [(None, y(2), 1.0, ('a', 'z'))],
        'namedtuple projection, Q given': [(np.eye(6), y(6), 1.0, Pair('a', 'b'))],
        'namedtuple projection, Q omitted': [(None, y(6), 1.0, Pair('a', 'b'))],
        'list-subclass projection, Q given': [(np.eye(6), y(6), 1.0, MyList(['a', 'b']))],
        'set projection, Q given': [(np.eye(2), y(2), 1.0, {'a'})],
        'second of two is bad': [(None, y(2), 1.0, 'a'), (np.eye(2), y(3), 1.0, 'a')],
    }
    for name, ms in bad.items():
        try:
            out = eng.fix_measurements(ms)
            print('  %-40s -> accepted: %s' % (name, [(type(m[0]).__name__, m[0].shape, m[2], m[3]) for m in out]))
        except Exception as e:
            print('  %-40s -> %s: %s' % (name, type(e).__name__, str(e)[:90]))

    print('== (c) equivalent spellings give the same loss / gradient / smoothness bound')
    Qbc = np.round(prng.rand(7, 12), 3)
    ybc, ya, yab = y(7), y(2), y(6)
    spellings = {
        'dense/tuple': [(Qbc, ybc, 0.7, ('b', 'c')), (np.eye(2), ya, 3.0, ('a',)), (np.eye(6), yab, 1.3, ('a', 'b'))],
        'sparse/list': [(sparse.csr_matrix(Qbc), ybc, 0.7, ['b', 'c']), (sparse.eye(2), ya, 3.0, ['a']), (sparse.eye(6).tocsr(), yab, 1.3, ['a', 'b'])],
        'operator/None/str': [(aslinearoperator(Qbc), ybc, 0.7, ('b', 'c')), (None, ya, 3.0, 'a'), (None, yab, 1.3, ('a', 'b'))],
    }
    mu_rng = np.random.RandomState(11)
    cliques = [('a', 'b'), ('b', 'c'), ('d',)]
    mu = CliqueVector({cl: Factor(dom.project(cl), mu_rng.rand(*dom.project(cl).shape)) for cl in cliques})
    for metric in ['L2', 'L1']:
        for name, ms in spellings.items():
            e = FactoredInference(dom, metric=metric, iters=5)
            ms = e.fix_measurements(ms)
            e._setup(ms, 20.0)
            assert sorted(e.model.cliques) == cliques, e.model.cliques
            loss, grad = e._marginal_loss(mu)
            print('  %s %-18s loss %.10e' % (metric, name, loss))
            for cl in cliques:
                print('      grad%s %s' % (cl, fmt(grad[cl].values)))
            print('      groups', {cl: [m[3] for m in e.groups[cl]] for cl in cliques})
            if metric == 'L2':
                print('      lipschitz %.6e' % e._lipschitz(ms))

    print('== (d) estimate() end to end (mirror descent, 5 iterations)')
    for name, ms in spellings.items():
        e = FactoredInference(dom, iters=5)
        model = e.estimate(list(ms), total=20.0)
        for cl in [('a',), ('b', 'c'), ('c', 'b'), ('a', 'b')]:
            print('  %-18s %s %s' % (name, cl, fmt(model.project(cl).datavector(), 6)))
    e = FactoredInference(dom, iters=5)
    model = e.estimate([(None, ya, 3.0, 'a'), (None, yab, 1.3, ['b', 'a'])])   # total estimated
    print('  estimated total %.8e' % model.total, fmt(model.project(('a', 'b')).datavector(), 6))


if __name__ == '__main__':
    main()

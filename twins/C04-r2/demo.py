"""C04 / refactor 2 equivalence demo: FactoredInference._marginal_loss.

Prints a deterministic digest (17 significant digits: the refactoring must not change a single
floating point operation) of loss and gradient for
  * L2 and L1 metric, metric given by the engine or by the `metric=` argument, callable metric,
  * dense / sparse / LinearOperator / omitted queries, heterogeneous (int, float, numpy) noise,
  * projections in permuted attribute order, several measurements on one clique, overlapping
    cliques, cliques without measurements, exactly-zero residuals (sign(0) in the L1 branch),
  * candidate marginals given as CliqueVector or plain dict, with attribute order differing from
    the measurement's,
  * a directional-derivative check value,
and of the models estimated by mirror descent (L2 line search, L1 fixed step), dual averaging and
interior gradient (with structural zeros, i.e. -inf potentials).
The output must be byte-identical before and after the refactoring."""
import os, sys, io, contextlib
ROOT = os.path.abspath(os.path.join(os.path.dirname(os.path.abspath(__file__)), '..', '..'))
sys.path.insert(0, os.path.join(ROOT, 'src'))
import numpy as np
from scipy import sparse
from scipy.sparse.linalg import aslinearoperator
import mbi
assert os.path.abspath(mbi.__file__).startswith(ROOT), mbi.__file__
from mbi import Domain, FactoredInference, CliqueVector, Factor


def fmt(a, nd=16):
    a = np.asarray(a, dtype=float).ravel()
    return '[' + ' '.join('%.*e' % (nd, v + 0.0) for v in a) + ']'


def show(tag, ans, cliques):
    loss, grad = ans
    print('  %s: loss %s %.16e   grad type %s keys %s' % (tag, type(loss).__name__, loss,
                                                        type(grad).__name__, list(grad.keys())))
    for cl in cliques:
        g = grad[cl]
        print('      %s attrs=%s shape=%s %s' % (cl, g.domain.attrs, g.values.shape, fmt(g.values)))


def main():
    prng = np.random.RandomState(2)
    dom = Domain(['a', 'b', 'c', 'd'], [2, 3, 4, 2])

    def y(n):
        return np.round(prng.rand(n) * 10, 3)

    Qbc = np.round(prng.rand(7, 12), 3)
    Qcb = np.round(prng.randn(5, 12), 3)
    Qab = sparse.csr_matrix(np.triu(np.ones((6, 6))))
    Qcd = aslinearoperator(np.round(prng.rand(3, 8), 3))
    measurements = [
        (Qbc, y(7), 0.7, ('b', 'c')),
        (Qcb, y(5), np.float64(2.5), ['c', 'b']),          # same clique, permuted order
        (None, y(2), 3, 'a'),                              # int noise, str proj, identity query
        (Qab, y(6), 1.3, ('b', 'a')),                      # sparse, permuted w.r.t. the clique
        (Qcd, y(3), 0.05, ('c', 'd')),                     # operator, very precise
        (None, y(4), 40.0, ('c',)),                        # overlaps (b,c) and (c,d): counted once
        (sparse.eye(2), y(2), np.float32(0.5), ['d']),
        (np.ones((1, 3)), np.array([20.0]), 1.0, 'b'),
    ]

    engines = {}
    for metric in ['L2', 'L1']:
        e = FactoredInference(dom, metric=metric, iters=4)
        ms = e.fix_measurements(list(measurements))
        e._setup(ms, 20.0)
        engines[metric] = (e, ms)
    e2, ms = engines['L2']
    cliques = list(e2.model.cliques)
    print('model cliques', cliques)
    print('groups', {cl: [m[3] for m in e2.groups[cl]] for cl in cliques})

    mu_rng = np.random.RandomState(5)
    mus = {}
    mus['random'] = CliqueVector({cl: Factor(dom.project(cl), mu_rng.rand(*dom.project(cl).shape) * 5) for cl in cliques})
    mus['uniform'] = CliqueVector.uniform(dom, cliques) * 20.0
    mus['model-bp'] = e2.model.belief_propagation(e2.model.potentials)
    spiky = {cl: Factor(dom.project(cl), np.zeros(dom.project(cl).shape)) for cl in cliques}
    for cl in cliques:
        spiky[cl].values.flat[0] = 20.0
    mus['spiky-plain-dict'] = spiky
    # marginals whose attribute order differs from the model clique's
    mus['transposed'] = CliqueVector({cl: mus['random'][cl].transpose(cl[::-1]) for cl in cliques})

    print('== loss / gradient, metric taken from the engine')
    for metric in ['L2', 'L1']:
        e, _ = engines[metric]
        for name, mu in mus.items():
            show('%s %s' % (metric, name), e._marginal_loss(mu), cliques)

    print('== metric= argument overrides the engine metric; callable metric')
    show('L2-engine metric=L1', e2._marginal_loss(mus['random'], metric='L1'), cliques)
    show('L1-engine metric=L2', engines['L1'][0]._marginal_loss(mus['random'], metric='L2'), cliques)
    show('L2-engine metric=other-string', e2._marginal_loss(mus['random'], metric='L3'), cliques)
    custom = lambda marginals: (42.0, CliqueVector({cl: marginals[cl] * 2.0 for cl in marginals}))
    show('callable', e2._marginal_loss(mus['random'], metric=custom), cliques)
    ec = FactoredInference(dom, metric=custom)
    ec._setup(ms, 20.0)
    show('callable engine', ec._marginal_loss(mus['uniform']), cliques)

    print('== subsets / supersets of the model cliques as keys')
    sub = {cliques[0]: mus['random'][cliques[0]]}
    show('only first clique', e2._marginal_loss(sub), [cliques[0]])
    extra = dict(mus['random'])
    extra[('a', 'd')] = Factor(dom.project(('a', 'd')), np.ones((2, 2)))
    show('extra clique without measurements', e2._marginal_loss(extra), cliques + [('a', 'd')])
    del e2.groups[('a', 'd')]
    show('no marginals', e2._marginal_loss({}), [])

    print('== exactly-zero residuals')
    edom = Domain(['p', 'q'], [2, 3])
    target = np.array([[1.0, 2.0, 3.0], [4.0, 0.0, 6.0]])
    for metric in ['L2', 'L1']:
        e = FactoredInference(edom, metric=metric)
        zm = e.fix_measurements([(None, target.flatten(), 2.0, ('p', 'q')),
                                 (None, np.array([6.0, 11.0]), 0.5, 'p'),          # second entry off by one
                                 (np.array([[1.0, -1.0, 0.0]]), np.array([-1.0]), 4.0, ['q'])])
        e._setup(zm, 16.0)
        show('%s exact fit except one cell' % metric,
             e._marginal_loss(CliqueVector({('p', 'q'): Factor(edom, target.copy())})), [('p', 'q')])

    print('== directional derivative (central difference) vs gradient, L2')
    d_rng = np.random.RandomState(9)
    direction = CliqueVector({cl: Factor(dom.project(cl), d_rng.randn(*dom.project(cl).shape)) for cl in cliques})
    base = mus['random']
    h = 1e-4
    lp = e2._marginal_loss(base + h * direction)[0]
    lm = e2._marginal_loss(base + (-h) * direction)[0]
    g = e2._marginal_loss(base)[1]
    print('  fd %.16e   g.d %.16e' % ((lp - lm) / (2 * h), g.dot(direction)))

    print('== estimation through the public API')
    def run(tag, **kw):
        engine_kw = {k: kw.pop(k) for k in ['metric', 'structural_zeros', 'iters'] if k in kw}
        e = FactoredInference(dom, **engine_kw)
        with contextlib.redirect_stdout(io.StringIO()):
            model = e.estimate(list(measurements), **kw)
        print('  %s: total %.16e' % (tag, model.total))
        for cl in [('a',), ('c', 'b'), ('d', 'c'), ('a', 'b')]:
            print('      %s %s' % (cl, fmt(model.project(cl).datavector(), 12)))
        print('      final loss L2 %.16e  L1 %.16e' % (e._marginal_loss(model.marginals, metric='L2')[0],
                                                       e._marginal_loss(model.marginals, metric='L1')[0]))
    run('MD L2 line search', iters=6, total=20.0)
    run('MD L2 estimated total', iters=3)
    run('MD L1 stepsize', metric='L1', iters=6, total=20.0, options={'stepsize': 0.01})
    run('MD L1 stepsize schedule', metric='L1', iters=4, total=20.0, options={'stepsize': lambda t: 0.02 / t})
    zeros = {('a', 'b'): [(0, 0), (1, 2)], ('c',): [(3,)]}
    run('RDA structural zeros', iters=6, total=20.0, engine='RDA', structural_zeros=zeros, options={'lipschitz': 500.0})
    run('IG structural zeros', iters=6, total=20.0, engine='IG', structural_zeros=zeros, options={'lipschitz': 500.0})


if __name__ == '__main__':
    main()

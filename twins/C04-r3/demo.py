"""C04 / refactor 3 equivalence demo: measurement -> clique assignment in FactoredInference._setup
(self.groups) and the per-clique eigenvalue bound FactoredInference._lipschitz.

Prints a deterministic digest of
  * self.groups for several clique structures: projections contained in several cliques of
    different and of equal size, permuted attribute order, empty projection, structural-zero
    cliques, user-supplied elimination order, repeated _setup on one (warm-started) engine,
  * identity of the grouped tuples' members with the supplied objects, and the fact that each
    measurement is grouped exactly once,
  * _lipschitz (10 significant digits; ARPACK starts from a random vector) for heterogeneous
    noise, dense / sparse / operator / omitted queries, for the measurement list used in _setup
    and for other lists, together with the largest Hessian eigenvalue of the L2 loss,
  * dual averaging / interior gradient runs that use _lipschitz internally.
The output must be byte-identical before and after the refactoring."""
import os, sys, io, contextlib
ROOT = os.path.abspath(os.path.join(os.path.dirname(os.path.abspath(__file__)), '..', '..'))
sys.path.insert(0, os.path.join(ROOT, 'src'))
import numpy as np
from scipy import sparse
from scipy.sparse.linalg import aslinearoperator
import mbi
assert os.path.abspath(mbi.__file__).startswith(ROOT), mbi.__file__
from mbi import Domain, FactoredInference, CliqueVector, Factor


def fmt(a, nd=6):
    a = np.asarray(a, dtype=float).ravel()
    return '[' + ' '.join('%.*e' % (nd, v + 0.0) for v in a) + ']'


def dense(Q):
    if sparse.issparse(Q):
        return Q.toarray()
    if isinstance(Q, np.ndarray):
        return Q
    return Q @ np.eye(Q.shape[1])


def hessian_top_eig(engine, measurements):
    """ largest eigenvalue of the Hessian of the L2 loss w.r.t. the stacked clique marginals,
    built from the definition with the engine's own clique assignment """
    model = engine.model
    offs, n = {}, 0
    for cl in model.cliques:
        offs[cl] = n
        n += model.domain.size(cl)
    H = np.zeros((n, n))
    for cl in model.cliques:
        for Q, y, noise, proj in engine.groups[cl]:
            dom = model.domain.project(cl)
            P = np.zeros((model.domain.size(proj), dom.size()))
            for j in range(dom.size()):
                e = np.zeros(dom.size()); e[j] = 1.0
                P[:, j] = Factor(dom, e).project(proj).datavector()
            A = dense(Q) @ P / noise
            s = slice(offs[cl], offs[cl] + dom.size())
            H[s, s] += A.T @ A
    return np.linalg.eigvalsh(H)[-1] if n else 0.0


def report(tag, engine, measurements, total=20.0, lip_lists=None):
    fixed = engine.fix_measurements(list(measurements))
    engine._setup(fixed, total)
    model = engine.model
    print('-- %s' % tag)
    print('   cliques %s  total %.10e' % (model.cliques, model.total))
    print('   groups type %s, keys %s' % (type(engine.groups).__name__, list(engine.groups.keys())))
    index = {id(m[1]): i for i, m in enumerate(fixed)}
    seen = []
    for cl in list(engine.groups.keys()):
        row = []
        for m in engine.groups[cl]:
            i = index[id(m[1])]
            seen.append(i)
            same = all(u is v for u, v in zip(m, fixed[i]))
            row.append('#%d%s noise=%r%s' % (i, m[3], m[2], '' if same else ' (members differ!)'))
            assert type(m) is tuple and len(m) == 4
        print('   %s <- %s' % (cl, row))
    print('   each measurement grouped exactly once: %s (%s of %d)' % (sorted(seen) == list(range(len(fixed))), len(seen), len(fixed)))
    top = hessian_top_eig(engine, fixed)
    L = lip(engine, fixed)
    if isinstance(L, str):
        print('   lipschitz raises %s   top Hessian eigenvalue %.9e' % (L, top))
    else:
        print('   lipschitz %s %.9e   top Hessian eigenvalue %.9e   bound holds %s' % (type(L).__name__, L, top, bool(L >= top * (1 - 1e-9))))
    for name, lst in (lip_lists or {}).items():
        L = lip(engine, engine.fix_measurements(list(lst)))
        print('   lipschitz[%s] %s' % (name, L if isinstance(L, str) else '%.9e' % L))
    return fixed


def lip(engine, measurements):
    """ engine._lipschitz, or a description of the exception it raises (1x1 queries are not
    supported by eigsh: a limitation of the library that the refactoring must preserve too) """
    import warnings
    try:
        with warnings.catch_warnings():
            warnings.simplefilter('ignore')
            return engine._lipschitz(measurements)
    except Exception as ex:
        return '%s(%s)' % (type(ex).__name__, str(ex)[:60])


def main():
    prng = np.random.RandomState(8)

    def y(n):
        return np.round(prng.rand(n) * 10, 3)

    def Qr(m, n):
        return np.round(prng.rand(m, n), 3)

    dom = Domain(['a', 'b', 'c', 'd', 'e'], [2, 3, 4, 2, 5])

    # chain a-b-c-d-e: 'c' lies in (b,c) [12 cells] and (c,d) [8 cells]; 'b' in (a,b) [6] and (b,c) [12];
    # 'd' in (c,d) [8] and (d,e) [10]
    chain = [
        (Qr(4, 6), y(4), 1.5, ('a', 'b')),
        (sparse.csr_matrix(Qr(9, 12)), y(9), 0.3, ('c', 'b')),
        (aslinearoperator(Qr(5, 8)), y(5), 2.0, ['c', 'd']),
        (None, y(10), 4.0, ('e', 'd')),
        (None, y(4), 0.9, 'c'),
        (None, y(3), 7, 'b'),
        (np.triu(np.ones((2, 2))), y(2), np.float64(0.2), ['d']),
        (None, y(5), 11.0, ('e',)),
        (None, y(2), 0.6, 'a'),
        (Qr(2, 4), y(2), 1.0, ('c',)),                       # second measurement of the same marginal
        (np.ones((1, 1)) * 3.0, np.array([60.0]), 5.0, ()),  # empty projection: total count
    ]
    e = FactoredInference(dom, iters=4)
    report('chain', e, chain, lip_lists={'first three only': chain[:3], 'singletons only': chain[4:9],
                                         'all but the 1x1 query': chain[:10], 'reversed': chain[9::-1], 'one': chain[:1]})

    # equal-size ties: (b,c), (c,b2) and (c,z) all have 12 cells, so 'c' goes to the first of them in model order
    tdom = Domain(['a', 'b', 'c', 'b2', 'z'], [2, 3, 4, 3, 3])
    ties = [
        (None, y(12), 1.0, ('b', 'c')),
        (None, y(12), 2.0, ('b2', 'c')),
        (Qr(3, 4), y(3), 0.5, 'c'),
        (None, y(12), 3.0, ('z', 'c')),
        (None, y(4), 1.25, ['c']),
        (None, y(6), 1.0, ['a', 'b']),
        (None, y(3), 0.1, 'b'),
    ]
    for order in [ties, ties[::-1], ties[3:] + ties[:3]]:
        report('ties, %s first' % (order[0][3],), FactoredInference(tdom), order)

    # triangle + pendant: maximal clique (a,b,c) holds every pair; user-supplied elimination orders
    tri = [
        (None, y(6), 1.0, ('a', 'b')),
        (None, y(12), 2.0, ('c', 'b')),
        (Qr(3, 8), y(3), 0.4, ('a', 'c')),
        (None, y(8), 1.0, ('c', 'd')),
        (None, y(10), 6.0, ('d', 'e')),
        (sparse.eye(24).tocsr()[::2], y(12), 0.8, ('c', 'a', 'b')),
        (None, y(2), 3.0, 'd'),
    ]
    report('triangle, greedy order', FactoredInference(dom), tri)
    report('triangle, elim_order edcba', FactoredInference(dom, elim_order=['e', 'd', 'c', 'b', 'a']), tri)
    report('triangle, elim_order acebd (fill-in)', FactoredInference(dom, elim_order=['a', 'c', 'e', 'b', 'd']), tri)

    # structural zeros add cliques nobody measures, and -inf potentials
    zeros = {('a', 'e'): [(0, 0), (1, 4)], ('b',): [(2,)]}
    ez = FactoredInference(dom, structural_zeros=zeros, iters=4)
    report('chain + structural zeros', ez, chain[:9])
    print('   potentials of (a,e)-holding clique contain -inf:',
          any(np.isinf(ez.model.potentials[cl].values).any() for cl in ez.model.cliques))

    # the same engine used repeatedly with a growing measurement list (warm start), as MWEM/AIM do
    ew = FactoredInference(dom, warm_start=True, iters=3)
    for k in [2, 5, 9, 11, 4]:
        report('warm-started engine, first %d measurements' % k, ew, chain[:k])
        with contextlib.redirect_stdout(io.StringIO()):
            ew.mirror_descent(ew.fix_measurements(chain[:k]), 20.0)
        print('   after mirror_descent: groups keys %s, marginal(c) %s' % (list(ew.groups.keys()), fmt(ew.model.project(('c',)).datavector())))

    # unknown total: estimated inside _setup, then grouping
    report('estimated total', FactoredInference(dom), chain, total=None)

    # measurements NOT normalised by fix_measurements: _lipschitz accepts any iterable of attribute names
    e = FactoredInference(dom)
    fixed = e.fix_measurements(list(chain[:4]))
    e._setup(fixed, 20.0)
    raw = [(np.eye(12), None, 2.0, ['c', 'b']), (np.eye(2), None, 0.5, ['a']), (np.eye(8), None, 1.0, {'d', 'c'})]
    print('-- raw projections passed to _lipschitz: %.9e' % e._lipschitz(raw))
    print('-- empty measurement list passed to _lipschitz: %r' % e._lipschitz([]))

    print('== solvers that call _lipschitz internally')
    for engine_name in ['RDA', 'IG']:
        for sz in [{}, zeros]:
            eng = FactoredInference(dom, structural_zeros=sz, iters=5)
            buf = io.StringIO()
            with contextlib.redirect_stdout(buf):
                model = eng.estimate(list(chain[:10]), total=20.0, engine=engine_name, options={})
            printed = [ln for ln in buf.getvalue().splitlines() if ln.startswith('Lipchitz')]
            print('  %s zeros=%s printed=%s' % (engine_name, sorted(sz), ['%.9e' % float(p.split(':')[1]) for p in printed]))
            for cl in [('a',), ('c', 'b'), ('d', 'e'), ('a', 'e')]:
                print('      %s %s' % (cl, fmt(model.project(cl).datavector())))


if __name__ == '__main__':
    main()

"""
Privacy ledger for the Adaptive Grid mechanism (mechanisms/adaptive_grid.py).

For several configurations (targets / split_strategy / epsilon) the mechanism is
run on a dataset D.  Every Gaussian release (np.random.normal) and every private
selection (np.random.choice inside select) is recorded, and each one is charged
by its ACTUAL effect on a neighbouring dataset D' (one record removed):

    Gaussian release  y = Q mu + N(0, s^2)   ->  rho_i = |Q (mu_D - mu_D')|_2^2 / (2 s^2)
    selection with probabilities p (on D), p' (on D', same model, same history)
                                              ->  rho_i = range(log p - log p')^2 / 8

The sum must not exceed rho = cdp_rho(epsilon, delta).

exit 0 + "PASS"  : every configuration stays within its budget
exit 1 + "FAIL"  : some configuration spends more than (epsilon, delta) allows
"""
import os
import sys

if os.environ.get("PYTHONHASHSEED") != "0":      # set iteration order -> RNG stream
    env = dict(os.environ, PYTHONHASHSEED="0")
    os.execve(sys.executable, [sys.executable] + sys.argv, env)

ROOT = os.path.dirname(os.path.dirname(os.path.dirname(os.path.abspath(__file__))))
sys.path.insert(0, ROOT)
sys.path.insert(0, os.path.join(ROOT, "src"))

import contextlib
import hashlib
import io
import warnings

warnings.filterwarnings("ignore")

import numpy as np
import pandas as pd
from scipy import sparse

import mbi
assert os.path.abspath(mbi.__file__).startswith(os.path.join(ROOT, "src")), mbi.__file__
from mbi import Dataset, Domain, FactoredInference, GraphicalModel
from mechanisms import adaptive_grid as ag
from mechanisms.cdp2adp import cdp_rho

assert os.path.abspath(ag.__file__).startswith(ROOT), ag.__file__

# ---------------------------------------------------------------- environment shims
# (1) synthetic_data() raises under pandas 3: the ledger is complete before it is called
GraphicalModel.synthetic_data = lambda self, *a, **k: None


# (2) the installed scipy refuses `Q.T = ...` (adaptive_grid.py "efficiency trick");
#     give the module a csr type whose .T may be cached.  Values are unchanged.
class _CSR(sparse.csr_matrix):
    @property
    def T(self):
        if "_T_cached" in self.__dict__:
            return self.__dict__["_T_cached"]
        return self.transpose()

    @T.setter
    def T(self, value):
        self.__dict__["_T_cached"] = value


class _SparseProxy:
    def __getattr__(self, name):
        return getattr(sparse, name)

    def vstack(self, blocks, *a, **k):
        return _CSR(sparse.vstack(blocks, *a, **k))


ag.sparse = _SparseProxy()

# ---------------------------------------------------------------- recording harness
STATE = {"mode": "off"}
RELEASES = []      # scale of every Gaussian release, in order
MEASUREMENTS = []  # (Q, y, sigma, clique) list as handed to Private-PGM (same order)
SEL_LIVE = []      # (probabilities, chosen index) of every selection on D
SEL_REPLAY = []    # probabilities of the same selections recomputed on D'

_normal = np.random.normal
_choice = np.random.choice


def normal(loc=0.0, scale=1.0, size=None):
    if STATE["mode"] == "live":
        RELEASES.append(float(scale))
    return _normal(loc, scale, size)


def choice(a, size=None, replace=True, p=None):
    if STATE["mode"] == "live":
        idx = _choice(a, size, replace, p)
        SEL_LIVE.append((np.array(p, dtype=float), int(idx)))
        return idx
    if STATE["mode"] == "replay":
        SEL_REPLAY.append(np.array(p, dtype=float))
        return SEL_LIVE[len(SEL_REPLAY) - 1][1]
    return _choice(a, size, replace, p)


class RecordingInference(FactoredInference):
    def estimate(self, measurements, *a, **k):
        MEASUREMENTS[:] = list(measurements)
        return FactoredInference.estimate(self, measurements, *a, **k)


_select = ag.select
NEIGHBOURS = []
SEL_COSTS = []     # per neighbour: list of zCDP charges of the selections


def select(data, model, rho, targets=[]):
    STATE["mode"] = "live"
    del SEL_LIVE[:]
    out = _select(data, model, rho, targets)
    for nbr in NEIGHBOURS:
        STATE["mode"] = "replay"
        del SEL_REPLAY[:]
        _select(nbr, model, rho, targets)
        costs = []
        for (p, _), q in zip(SEL_LIVE, SEL_REPLAY):
            d = np.log(p) - np.log(q)
            costs.append((d.max() - d.min()) ** 2 / 8.0)
        SEL_COSTS.append(costs)
    STATE["mode"] = "live"
    return out


np.random.normal = normal
np.random.choice = choice
ag.FactoredInference = RecordingInference
ag.select = select


# ---------------------------------------------------------------- data
def make_data(seed, n):
    prng = np.random.RandomState(seed)
    dom = Domain(["a", "b", "c", "t", "u"], [3, 4, 2, 2, 3])
    cols = {}
    base = prng.randint(0, 3, n)
    cols["a"] = base
    cols["b"] = (base + prng.randint(0, 2, n)) % 4
    cols["c"] = prng.randint(0, 2, n)
    cols["t"] = (cols["c"] + (prng.rand(n) < 0.2)) % 2
    cols["u"] = prng.choice(3, n, p=[0.7, 0.25, 0.05])
    return Dataset(pd.DataFrame(cols), dom)


def remove_record(data, i):
    return Dataset(data.df.drop(index=i).reset_index(drop=True), data.domain)


# ---------------------------------------------------------------- one audited run
def audit(name, data, epsilon, delta, targets, split, seed):
    rho = cdp_rho(epsilon, delta)
    NEIGHBOURS[:] = [remove_record(data, i) for i in (0, 7, 123)]
    del RELEASES[:], MEASUREMENTS[:], SEL_COSTS[:]
    np.random.seed(seed)
    STATE["mode"] = "live"
    with contextlib.redirect_stdout(io.StringIO()):
        ag.adagrid(data, epsilon, delta, 5.0, targets=list(targets),
                   split_strategy=split, iters=60)
    STATE["mode"] = "off"
    assert len(RELEASES) == len(MEASUREMENTS), (len(RELEASES), len(MEASUREMENTS))

    lines = ["config %s: eps=%g delta=%g targets=%s split=%s" % (name, epsilon, delta, list(targets), split)]
    lines.append("  releases=%d selections=%d" % (len(RELEASES), len(SEL_LIVE)))
    lines.append("  cliques=" + " ".join("".join(m[3]) for m in MEASUREMENTS))
    lines.append("  scales/sqrt(1/(2rho))=" + " ".join("%.9f" % (s * np.sqrt(2 * rho)) for s in RELEASES))
    worst = 0.0
    for j, nbr in enumerate(NEIGHBOURS):
        gauss = 0.0
        for s, (Q, _, _, cl) in zip(RELEASES, MEASUREMENTS):
            diff = data.project(cl).datavector() - nbr.project(cl).datavector()
            gauss += float(np.sum((Q @ diff) ** 2)) / (2 * s ** 2)
        sel = float(sum(SEL_COSTS[j]))
        total = gauss + sel
        worst = max(worst, total / rho)
        lines.append("  neighbour %d: gaussian=%.9f selection=%.9f total=%.9f (fractions of rho)"
                     % (j, gauss / rho, sel / rho, total / rho))
    ok = worst <= 1.0 + 1e-9
    lines.append("  spent/budget = %.9f -> %s" % (worst, "within budget" if ok else "OVER BUDGET"))
    return ok, lines


def main():
    data = make_data(0, 400)
    configs = [
        ("A", 1.0, 1e-6, (), None, 11),
        ("B", 2.0, 1e-9, (), [0.1, 0.1, 0.8], 12),
        ("C", 0.5, 1e-6, (), [1, 2, 1], 13),
        ("D", 1.0, 1e-6, ("t",), None, 14),
        ("E", 2.0, 1e-9, ("t",), [0.1, 0.1, 0.8], 15),
        ("F", 1.0, 1e-6, ("t", "c"), [0.3, 0.2, 0.5], 16),
    ]
    all_ok = True
    out = []
    failed = []
    for cfg in configs:
        ok, lines = audit(cfg[0], data, *cfg[1:])
        out.extend(lines)
        if not ok:
            all_ok = False
            failed.append(cfg[0])
    text = "\n".join(out)
    print(text)
    print("digest", hashlib.sha256(text.encode()).hexdigest())
    if all_ok:
        print("PASS: every configuration of Adaptive Grid stays within rho = cdp_rho(epsilon, delta)")
        return 0
    print("FAIL: configuration(s) %s spend more zCDP on a concrete neighbouring pair than "
          "cdp_rho(epsilon, delta) allows: the Gaussian releases of one step are calibrated for "
          "fewer queries than the step actually answers" % ",".join(failed))
    return 1


if __name__ == "__main__":
    sys.exit(main())

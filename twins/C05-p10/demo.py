"""C05 / round 7 / pair 2 -- Adaptive Grid: "Q has sensitivity 1 by construction".

Runs adagrid on a few datasets (dense / skewed, with and without target
columns), records every Gaussian release -- the query matrix Q handed to
Private-PGM together with the scale handed to numpy.random.normal -- and
charges each release by the ACTUAL change of the released vector when one
record is added:  || Q e_j ||_2^2 / (2 sigma^2)  for the cell j the record falls
into.  The charges are added up for every possible record of the (small) full
domain, the three MST-style selections are charged eps^2/8 each, and the worst
record's total is compared with rho = cdp_rho(epsilon, delta).
"""
import os, sys, io, hashlib, contextlib, warnings, itertools

# adaptive_grid.downward_closure() / get_aggregate() iterate sets of strings: pin the
# string hash seed so that the order of the releases (and the digest) is reproducible
if os.environ.get('PYTHONHASHSEED') != '0':
    os.environ['PYTHONHASHSEED'] = '0'
    os.execv(sys.executable, [sys.executable] + sys.argv)

ROOT = os.path.dirname(os.path.dirname(os.path.dirname(os.path.abspath(__file__))))
sys.path.insert(0, '/tmp/stubs')
sys.path.insert(0, ROOT)
sys.path.insert(0, os.path.join(ROOT, 'src'))

import numpy as np
import pandas as pd
from scipy import sparse
import mbi
assert os.path.abspath(mbi.__file__).startswith(os.path.join(ROOT, 'src')), mbi.__file__
from mbi import Dataset, Domain, GraphicalModel
import mechanisms.adaptive_grid as ag
from mechanisms.cdp2adp import cdp_rho

warnings.filterwarnings('ignore')
GraphicalModel.synthetic_data = lambda self, rows=None, method='round': None


class Recorder(mbi.FactoredInference):
    last = None
    def estimate(self, measurements, *a, **kw):
        Recorder.last = list(measurements)
        return super().estimate(measurements, *a, **kw)

ag.FactoredInference = Recorder


# adagrid does `Q.T = sparse.csr_matrix(Q.T)` (a caching trick); the installed scipy
# makes `.T` a read-only property, so let `sparse.vstack` -- as seen from the
# adaptive_grid module only -- return a csr_matrix whose `.T` can be assigned.
class CSR(sparse.csr_matrix):
    _cached_T = None
    @property
    def T(self):
        return self._cached_T if self._cached_T is not None else self.transpose()
    @T.setter
    def T(self, value):
        self._cached_T = value


class SparseProxy(object):
    def __getattr__(self, name):
        return getattr(sparse, name)
    @staticmethod
    def vstack(blocks, *a, **kw):
        return CSR(sparse.vstack(blocks, *a, **kw).tocsr())

ag.sparse = SparseProxy()


def dense_data(seed, shape, n):
    prng = np.random.RandomState(seed)
    attrs = ['a', 'b', 'c', 'd'][:len(shape)]
    cols = {x: prng.randint(0, k, n) for x, k in zip(attrs, shape)}
    return Dataset(pd.DataFrame(cols), Domain(attrs, shape))


def skewed_data(seed, shape, n):
    """most of the mass on the first values of every attribute: many empty cells"""
    prng = np.random.RandomState(seed)
    attrs = ['a', 'b', 'c', 'd'][:len(shape)]
    cols = {}
    for x, k in zip(attrs, shape):
        p = np.zeros(k)
        heavy = max(1, k // 2)
        p[:heavy] = 1.0 / heavy
        cols[x] = prng.choice(k, n, p=p)
    return Dataset(pd.DataFrame(cols), Domain(attrs, shape))


def run(name, data, epsilon, delta, threshold, targets, split, seed):
    scales, eps_sel = [], []
    orig_normal, orig_choice = np.random.normal, np.random.choice
    orig_em = ag.exponential_mechanism

    def normal(loc=0.0, scale=1.0, size=None):
        scales.append((float(scale), int(size)))
        return orig_normal(loc, scale, size)

    def em(q, eps, sensitivity, prng=np.random, monotonic=False):
        eps_sel.append(float(eps) / float(sensitivity) * (2.0 if monotonic else 1.0))
        return orig_em(q, eps, sensitivity, prng, monotonic)

    np.random.seed(seed)
    np.random.normal = normal
    ag.exponential_mechanism = em
    try:
        with contextlib.redirect_stdout(io.StringIO()):
            ag.adagrid(data, epsilon, delta, threshold, targets=list(targets),
                       split_strategy=split, iters=150)
    finally:
        np.random.normal = orig_normal
        ag.exponential_mechanism = orig_em

    meas = Recorder.last
    assert len(meas) == len(scales), (len(meas), len(scales))
    rho = cdp_rho(epsilon, delta)
    dom = data.domain
    # cost of every possible added record
    worst, worst_rec, max_sens = -1.0, None, 0.0
    colnorm2 = []
    for (Q, y, _, cl), (sigma, size) in zip(meas, scales):
        assert Q.shape[0] == size == y.size
        c2 = np.asarray(sparse.csr_matrix(Q).power(2).sum(axis=0)).ravel()
        colnorm2.append((cl, c2.reshape([dom[x] for x in cl]), sigma))
        max_sens = max(max_sens, float(np.sqrt(c2.max())))
    sel = sum(e**2 / 8.0 for e in eps_sel)
    for rec in itertools.product(*[range(k) for k in dom.shape]):
        pos = dict(zip(dom.attrs, rec))
        cost = sel
        for cl, c2, sigma in colnorm2:
            cost += c2[tuple(pos[x] for x in cl)] / (2 * sigma**2)
        if cost > worst:
            worst, worst_rec = cost, rec
    ok = worst <= rho * (1 + 1e-9)
    yhash = hashlib.sha256(('|'.join(','.join('%.6f' % v for v in y) for _, y, _, _ in meas)).encode()).hexdigest()[:12]
    line = '%-24s releases=%2d rows=%4d selections=%d max_L2_sens=%.6f worst_record_cost/rho=%.9f y=%s' % (
        name, len(meas), sum(m[0].shape[0] for m in meas), len(eps_sel), max_sens, worst / rho, yhash)
    return ok, line, worst / rho, max_sens, worst_rec


def main():
    cases = [
        # dense data, low threshold: every cell is plausible, aggregates are empty
        ('dense-3attr', dense_data(1, (3, 4, 2), 3000), 1.0, 1e-6, 3.0, [], None, 21),
        # skewed data: half of every attribute's values are (nearly) empty, so the
        # 2-way queries mix fine-grained cells and aggregated remainders
        ('skewed-3attr', skewed_data(2, (4, 6, 3), 3000), 1.0, 1e-6, 5.0, [], None, 22),
        ('skewed-4attr-split', skewed_data(3, (4, 5, 2, 6), 4000), 2.0, 1e-9, 5.0, [], [0.1, 0.1, 0.8], 23),
        ('skewed-target', skewed_data(4, (5, 4, 6), 4000), 1.0, 1e-6, 5.0, ['c'], None, 24),
        ('dense-target', dense_data(5, (3, 2, 4), 4000), 1.5, 1e-6, 3.0, ['a'], [1, 1, 2], 25),
    ]
    lines, bad = [], []
    for c in cases:
        ok, line, ratio, sens, rec = run(*c)
        lines.append(line)
        if not ok:
            bad.append((c[0], ratio, sens, rec))
    for l in lines:
        print(l)
    if bad:
        print('FAIL: Adaptive Grid released more than its budget allows:')
        for name, ratio, sens, rec in bad:
            print('   %s: adding the record %s changes the released vectors by a total zCDP cost of %.4f x rho'
                  ' (largest per-query L2 sensitivity %.4f, the noise is calibrated to 1)' % (name, rec, ratio, sens))
        sys.exit(1)
    print('PASS digest=%s' % hashlib.sha256('\n'.join(lines).encode()).hexdigest()[:16])
    sys.exit(0)


if __name__ == '__main__':
    main()

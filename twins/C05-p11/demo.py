"""C05 / round 8 / pair 1 -- Adaptive Grid: one noisy-answer helper for step 1 and step 3.

Runs adagrid on small datasets for several budget splits / target settings, records
  * every np.random.normal call made by adagrid (actual noise scale, size),
  * the query matrix of every measurement handed to Private-PGM (its actual L2 sensitivity),
  * every exponential-mechanism call of step 2 (eps, sensitivity),
and charges  rho = sum_meas  Delta2(Q)^2 / (2 scale^2)  +  sum_select eps^2/8.
The total must not exceed cdp_rho(epsilon, delta).
"""
import os, sys, io, hashlib, contextlib, warnings

if os.environ.get('PYTHONHASHSEED') != '0':      # adagrid iterates over sets of attribute names:
    os.environ['PYTHONHASHSEED'] = '0'           # fix the string hash so that runs are reproducible
    os.execv(sys.executable, [sys.executable] + sys.argv)

ROOT = os.path.dirname(os.path.dirname(os.path.dirname(os.path.abspath(__file__))))
sys.path[:0] = [os.path.join(ROOT, 'src'), ROOT]
warnings.filterwarnings('ignore')

import numpy as np
import pandas as pd
import mbi
from mbi import Dataset, Domain, GraphicalModel, FactoredInference
assert os.path.abspath(mbi.__file__).startswith(ROOT), mbi.__file__
import mechanisms.adaptive_grid as ag
from mechanisms.cdp2adp import cdp_rho

GraphicalModel.synthetic_data = lambda self, *a, **k: None   # crashes under pandas 3

# adagrid assigns `Q.T = ...` (a speed trick); the installed scipy makes `.T` read-only, so
# give adagrid (only) a vstack that returns a csr subclass with a settable `.T`.
from scipy import sparse as _sp


class _CSR(_sp.csr_matrix):
    @property
    def T(self):
        t = self.__dict__.get('_cached_T')
        return self.transpose() if t is None else t

    @T.setter
    def T(self, value):
        self.__dict__['_cached_T'] = value


class _SparseProxy:
    def __getattr__(self, name):
        return getattr(_sp, name)

    @staticmethod
    def vstack(blocks, *a, **k):
        return _CSR(_sp.vstack(blocks, *a, **k).tocsr())


ag.sparse = _SparseProxy()


def make_data(seed, shape, n):
    rs = np.random.RandomState(seed)
    dom = Domain(['a', 'b', 'c', 'd'][:len(shape)], shape)
    base = rs.randint(0, 2, size=n)
    cols = {}
    for attr, k in zip(dom.attrs, shape):
        cols[attr] = (base * (k - 1) + rs.randint(0, k, size=n) * (rs.rand(n) < 0.3)) % k
    return Dataset(pd.DataFrame(cols), dom)


def run(data, epsilon, delta, seed, **kw):
    normals, selects, meas = [], [], []
    real_normal, real_em, real_est = np.random.normal, ag.exponential_mechanism, FactoredInference.estimate

    def normal(loc=0.0, scale=1.0, size=None):
        normals.append((float(scale), int(np.prod(size))))
        return real_normal(loc=loc, scale=scale, size=size)

    def em(q, eps, sensitivity, *a, **k):
        selects.append((float(eps), float(sensitivity), int(q.size)))
        return real_em(q, eps, sensitivity, *a, **k)

    def estimate(self, measurements, *a, **k):
        meas[:] = [(cl, float(np.sqrt(Q.power(2).sum(axis=0).max())),
                    hashlib.sha256(np.round(y, 6).tobytes()).hexdigest()[:12])   # released values
                   for Q, y, s, cl in measurements]
        return real_est(self, measurements, *a, **k)

    np.random.normal, ag.exponential_mechanism, FactoredInference.estimate = normal, em, estimate
    try:
        np.random.seed(seed)
        with contextlib.redirect_stdout(io.StringIO()):
            ag.adagrid(data, epsilon, delta, threshold=5.0, iters=30, **kw)
    finally:
        np.random.normal, ag.exponential_mechanism, FactoredInference.estimate = real_normal, real_em, real_est
    assert len(normals) == len(meas), (len(normals), len(meas))
    return normals, selects, meas


def main():
    d4 = make_data(5, (3, 4, 2, 3), 400)
    d3 = make_data(6, (4, 2, 5), 300)
    cases = [
        ('thirds', d4, 1.0, 1e-9, dict()),
        ('thirds/3attrs', d3, 0.5, 1e-6, dict()),
        ('nist-default-split', d4, 1.0, 1e-9, dict(split_strategy=[0.1, 0.1, 0.8])),
        ('target=c', d4, 1.0, 1e-9, dict(targets=['c'])),
        ('target=c/late-heavy', d4, 2.0, 1e-9, dict(targets=['c'], split_strategy=[0.2, 0.1, 0.7])),
        ('early-heavy-split', d4, 1.0, 1e-9, dict(split_strategy=[0.8, 0.1, 0.1])),
        ('early-heavy-split/3attrs', d3, 1.0, 1e-6, dict(split_strategy=[0.6, 0.2, 0.2])),
    ]
    lines, problems = [], []
    for i, (name, data, eps, delta, kw) in enumerate(cases):
        normals, selects, meas = run(data, eps, delta, 100 + i, **kw)
        budget = cdp_rho(eps, delta)
        costs = [(cl, sens ** 2 * 0.5 / scale ** 2) for (scale, n), (cl, sens, rows) in zip(normals, meas)]
        n3 = len(selects)                       # step 3 measures one marginal per selected edge
        rho1 = sum(c for _, c in costs[:len(costs) - n3])
        rho3 = sum(c for _, c in costs[len(costs) - n3:])
        rho2 = sum(e ** 2 / 8.0 / s ** 2 for e, s, _ in selects)
        total = rho1 + rho2 + rho3
        dig = hashlib.sha256(repr(([(round(s, 9), n) for s, n in normals],
                                   [(round(e, 9), s, n) for e, s, n in selects],
                                   [(cl, round(s, 9), r) for cl, s, r in meas])).encode()).hexdigest()[:16]
        lines.append('%-26s meas=%2d sel=%d  step1=%.6f step2=%.6f step3=%.6f  spent/budget=%.9f  %s'
                     % (name, len(meas), len(selects), rho1 / budget, rho2 / budget, rho3 / budget,
                        total / budget, dig))
        if not total <= budget * (1 + 1e-9):
            problems.append('%s: zCDP spent %.6g > budget rho(%.3g, %.0e) = %.6g (x%.3f); step-3 marginals were '
                            'released with noise scale %.4g' % (name, total, eps, delta, budget, total / budget,
                                                                normals[-1][0]))
    print('\n'.join(lines))
    if problems:
        print('FAIL: adagrid spent more than its (epsilon, delta) budget')
        for p in problems:
            print('  ' + p)
        return 1
    print('PASS: adagrid stayed within its budget on every configuration')
    return 0


if __name__ == '__main__':
    sys.exit(main())

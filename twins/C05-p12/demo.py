"""C05 / round 8 / pair 2 -- MWEM+PGM: which branch is "the default" for the `noise` argument.

mwem_pgm decides TWICE from `noise`: once when it calibrates (sigma, exp_eps) and once
per round when it draws the noise.  The library tolerates any spelling other than
'laplace' as "Gaussian" (e.g. 'normal', 'Gaussian', None).  The demo runs mwem_pgm for
documented and tolerated spellings, records the distribution and scale of every release
and the epsilon of every selection, and charges them against the (epsilon, delta) budget:
  * only Laplace releases:  sum L1/scale + sum eps_select           <= epsilon
  * any Gaussian release:   sum L2^2/(2 scale^2) + sum eps_sel^2/8  <= cdp_rho(epsilon, delta), delta > 0
"""
import os, sys, io, hashlib, contextlib, warnings, importlib.util

ROOT = os.path.dirname(os.path.dirname(os.path.dirname(os.path.abspath(__file__))))
sys.path[:0] = [os.path.join(ROOT, 'src'), ROOT]
warnings.filterwarnings('ignore')

import numpy as np
import pandas as pd
import mbi
from mbi import Dataset, Domain, GraphicalModel
assert os.path.abspath(mbi.__file__).startswith(ROOT), mbi.__file__
from mechanisms.cdp2adp import cdp_rho

spec = importlib.util.spec_from_file_location('mwem_pgm_mod', os.path.join(ROOT, 'mechanisms', 'mwem+pgm.py'))
mw = importlib.util.module_from_spec(spec)
spec.loader.exec_module(mw)

GraphicalModel.synthetic_data = lambda self, *a, **k: None   # crashes under pandas 3


def make_data(seed, shape, n):
    rs = np.random.RandomState(seed)
    dom = Domain(['a', 'b', 'c', 'd'][:len(shape)], shape)
    base = rs.randint(0, 2, size=n)
    cols = {}
    for attr, k in zip(dom.attrs, shape):
        cols[attr] = (base * (k - 1) + rs.randint(0, k, size=n) * (rs.rand(n) < 0.3)) % k
    return Dataset(pd.DataFrame(cols), dom)


def run(data, seed, epsilon, **kw):
    releases, selects = [], []
    real = (np.random.normal, np.random.laplace, mw.worst_approximated)

    def normal(loc=0.0, scale=1.0, size=None):
        out = real[0](loc=loc, scale=scale, size=size)
        releases.append(('gaussian', float(scale), hashlib.sha256(np.round(out, 6).tobytes()).hexdigest()[:10]))
        return out

    def laplace(loc=0.0, scale=1.0, size=None):
        out = real[1](loc=loc, scale=scale, size=size)
        releases.append(('laplace', float(scale), hashlib.sha256(np.round(out, 6).tobytes()).hexdigest()[:10]))
        return out

    def worst_approximated(workload_answers, est, workload, eps, penalty=True, bounded=False):
        ax = real[2](workload_answers, est, workload, eps, penalty, bounded)
        # the score |x - xest|_1 moves by 1 (add/remove) resp. 2 (replace); the function divides by that
        selects.append((float(eps), ax))
        return ax

    np.random.normal, np.random.laplace, mw.worst_approximated = normal, laplace, worst_approximated
    try:
        np.random.seed(seed)
        with contextlib.redirect_stdout(io.StringIO()):
            mw.mwem_pgm(data, epsilon, pgm_iters=40, **kw)
    finally:
        np.random.normal, np.random.laplace, mw.worst_approximated = real
    return releases, selects


def charge(releases, selects, epsilon, delta, bounded):
    """returns (spent, budget, unit)"""
    l1, l2 = (2.0, np.sqrt(2.0)) if bounded else (1.0, 1.0)
    if all(kind == 'laplace' for kind, _, _ in releases):
        return sum(l1 / s for _, s, _ in releases) + sum(e for e, _ in selects), epsilon, 'eps (pure DP)'
    if delta <= 0:
        return float('inf'), epsilon, 'eps (pure DP, but a Gaussian release was made)'
    rho = sum(e ** 2 / 8 for e, _ in selects)
    for kind, s, _ in releases:
        rho += l2 ** 2 / (2 * s ** 2) if kind == 'gaussian' else (l1 / s) ** 2 / 2
    return rho, cdp_rho(epsilon, delta), 'rho (zCDP)'


def main():
    d3 = make_data(7, (3, 4, 2), 300)
    d4 = make_data(8, (2, 3, 2, 3), 250)
    cases = [
        ('gaussian', d3, 1.0, dict(delta=1e-9, noise='gaussian')),
        ('gaussian/bounded', d3, 1.0, dict(delta=1e-6, noise='gaussian', bounded=True, rounds=4)),
        ('laplace', d3, 1.0, dict(noise='laplace')),
        ('laplace/bounded', d4, 2.0, dict(noise='laplace', bounded=True, rounds=3)),
        ('default-noise', d4, 0.5, dict(delta=1e-9)),
        ("tolerated 'normal'", d3, 1.0, dict(delta=1e-9, noise='normal')),
        ("tolerated 'Gaussian'", d4, 1.0, dict(delta=1e-6, noise='Gaussian', rounds=5, alpha=0.8)),
        ('tolerated None', d3, 2.0, dict(delta=1e-9, noise=None, bounded=True)),
    ]
    lines, problems = [], []
    for i, (name, data, eps, kw) in enumerate(cases):
        releases, selects = run(data, 200 + i, eps, **kw)
        spent, budget, unit = charge(releases, selects, eps, kw.get('delta', 0.0), kw.get('bounded', False))
        kinds = sorted(set(k for k, _, _ in releases))
        dig = hashlib.sha256(repr(([(k, round(s, 9), h) for k, s, h in releases],
                                   [(round(e, 9), ax) for e, ax in selects])).encode()).hexdigest()[:16]
        lines.append('%-22s releases=%d %-12s scale=%.6f  spent/budget=%.9f [%s]  %s'
                     % (name, len(releases), '+'.join(kinds), releases[0][1], spent / budget, unit.split()[0], dig))
        if not spent <= budget * (1 + 1e-9):
            problems.append('%s: spent %.6g > budget %.6g %s (x%.2f): %s noise of scale %.4g on every marginal'
                            % (name, spent, budget, unit, spent / budget, '+'.join(kinds), releases[0][1]))
    print('\n'.join(lines))
    if problems:
        print('FAIL: mwem_pgm spent more than its (epsilon, delta) budget')
        for p in problems:
            print('  ' + p)
        return 1
    print('PASS: mwem_pgm stayed within its budget for every noise setting')
    return 0


if __name__ == '__main__':
    sys.exit(main())

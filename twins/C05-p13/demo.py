"""C05 / round 9 / pair 1 -- MWEM+PGM: where the `rounds` argument is normalised.

Runs mwem_pgm for several (noise, bounded, rounds) settings, records every noisy
release (scale of np.random.normal / np.random.laplace) and every private
selection (budget handed to worst_approximated), and adds up the privacy cost:

  gaussian :  sum  Delta2^2/(2 scale^2)  +  eps_sel^2/8     <=  cdp_rho(eps, delta)
  laplace  :  sum  Delta1/scale          +  eps_sel         <=  eps

where Delta is the real change of a marginal between neighbours (1 for
add/remove, 2 resp. sqrt(2) for replace-one) and eps_sel is rescaled by
(real sensitivity of the score)/(sensitivity the code divided by).
"""
import os, sys, io, importlib.util, contextlib, hashlib
ROOT = os.path.dirname(os.path.dirname(os.path.dirname(os.path.abspath(__file__))))
sys.path[:0] = [os.path.join(ROOT, 'src'), ROOT, '/tmp/stubs']
import numpy as np
import mbi
assert os.path.abspath(mbi.__file__).startswith(ROOT), mbi.__file__
from mbi import Dataset, Domain, GraphicalModel
from mechanisms.cdp2adp import cdp_rho

spec = importlib.util.spec_from_file_location('mwem_pgm_mod', os.path.join(ROOT, 'mechanisms', 'mwem+pgm.py'))
mw = importlib.util.module_from_spec(spec)
spec.loader.exec_module(mw)

GraphicalModel.synthetic_data = lambda self, *a, **k: None   # pandas-3 crash is not our concern


def run(noise, bounded, rounds, epsilon=1.0, delta=1e-6):
    np.random.seed(7)
    dom = Domain(['a', 'b', 'c', 'd'], [3, 2, 4, 2])
    data = Dataset.synthetic(dom, 300)
    log = {'releases': [], 'selections': []}
    o_normal, o_laplace, o_wa = np.random.normal, np.random.laplace, mw.worst_approximated

    def normal(loc=0.0, scale=1.0, size=None):
        log['releases'].append(('gaussian', float(scale)))
        return o_normal(loc, scale, size)

    def laplace(loc=0.0, scale=1.0, size=None):
        log['releases'].append(('laplace', float(scale)))
        return o_laplace(loc, scale, size)

    def wa(answers, est, workload, eps, penalty=True, bounded=False):
        declared = 2.0 if bounded else 1.0
        log['selections'].append((float(eps), declared))
        return o_wa(answers, est, workload, eps, penalty=penalty, bounded=bounded)

    np.random.normal, np.random.laplace, mw.worst_approximated = normal, laplace, wa
    status = 'ran'
    try:
        with contextlib.redirect_stdout(io.StringIO()):
            mw.mwem_pgm(data, epsilon, delta, rounds=rounds, noise=noise, bounded=bounded, pgm_iters=30)
    except TypeError as e:
        status = 'rejected(TypeError)'
    finally:
        np.random.normal, np.random.laplace, mw.worst_approximated = o_normal, o_laplace, o_wa

    real_score_sens = 2.0 if bounded else 1.0
    if noise == 'gaussian':
        d2 = np.sqrt(2.0) if bounded else 1.0
        spent = sum(d2**2 / (2 * s**2) for _, s in log['releases'])
        spent += sum((e * real_score_sens / dec)**2 / 8 for e, dec in log['selections'])
        budget = cdp_rho(epsilon, delta)
    else:
        d1 = 2.0 if bounded else 1.0
        spent = sum(d1 / s for _, s in log['releases'])
        spent += sum(e * real_score_sens / dec for e, dec in log['selections'])
        budget = epsilon
    return status, len(log['releases']), len(log['selections']), spent, budget


def main():
    ok = True
    lines = []
    # settings with an integer number of rounds: digest the whole ledger
    for noise in ('gaussian', 'laplace'):
        for bounded in (False, True):
            for rounds in (None, 1, 3, 6):
                st, nr, ns, spent, budget = run(noise, bounded, rounds)
                good = spent <= budget * (1 + 1e-9)
                ok &= good
                lines.append('%-8s bounded=%-5s rounds=%-4s %s releases=%d selections=%d spent/budget=%.9f %s'
                             % (noise, bounded, rounds, st, nr, ns, spent / budget, 'ok' if good else 'OVER BUDGET'))
    # settings where the caller computed `rounds` (a float).  The unmodified code
    # rejects them before anything is released (cost 0); a version that accepts
    # them must still stay inside the budget.  Only the verdict is digested.
    for noise in ('gaussian', 'laplace'):
        for bounded in (False, True):
            for rounds in (4.0, 2.5, 1.2, 0.75 * 4, 4 / 3):
                st, nr, ns, spent, budget = run(noise, bounded, rounds)
                good = spent <= budget * (1 + 1e-9)
                ok &= good
                if good:
                    lines.append('%-8s bounded=%-5s rounds=%-18r within budget' % (noise, bounded, rounds))
                else:
                    lines.append('%-8s bounded=%-5s rounds=%-18r %s: %d releases + %d selections cost %.6f x the budget  OVER BUDGET'
                                 % (noise, bounded, rounds, st, nr, ns, spent / budget))
    for l in lines:
        print(l)
    print('digest', hashlib.sha256('\n'.join(lines).encode()).hexdigest()[:16])
    if ok:
        print('PASS')
        return 0
    print('FAIL: some parameter setting released more than the (epsilon, delta) budget pays for: the per-round '
          'budget was derived from a different number of rounds than the number of rounds executed')
    return 1


if __name__ == '__main__':
    sys.exit(main())

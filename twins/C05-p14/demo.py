"""C05 / round 9 / pair 2 -- MST: the selection loop of `select` and its per-edge budget.

`select(data, rho, log, cliques)` privately picks one edge per exponential-
mechanism call until the graph seeded with `cliques` is a spanning tree.  Every
call is eps-DP, hence eps^2/8-zCDP (score sensitivity 1, non-monotonic), and the
calls together must not cost more than `rho`.

The demo records every call of mst.exponential_mechanism and every Gaussian
release, (a) for the whole mechanism MST(data, eps, delta) and (b) for `select`
seeded with different sets of already-chosen edges (none, forests, an edge given
twice, edge sets containing a cycle).
"""
import os, sys, io, contextlib, hashlib
ROOT = os.path.dirname(os.path.dirname(os.path.dirname(os.path.abspath(__file__))))
sys.path[:0] = [os.path.join(ROOT, 'src'), ROOT, '/tmp/stubs']
import numpy as np
import mbi
assert os.path.abspath(mbi.__file__).startswith(ROOT), mbi.__file__
from mbi import Dataset, Domain, GraphicalModel
from mechanisms import mst
from mechanisms.cdp2adp import cdp_rho


class Stop(Exception):
    pass


def _stop(self, *a, **k):
    raise Stop()


GraphicalModel.synthetic_data = _stop   # pandas-3 crash is not our concern: stop before it


def make_data(seed, shape, n):
    np.random.seed(seed)
    dom = Domain(['a', 'b', 'c', 'd', 'e'][:len(shape)], shape)
    return Dataset.synthetic(dom, n)


def recording(fn):
    """run fn() while recording Gaussian scales and exponential-mechanism calls"""
    log = {'sigmas': [], 'em': []}
    o_normal, o_em = np.random.normal, mst.exponential_mechanism

    def normal(loc=0.0, scale=1.0, size=None):
        log['sigmas'].append(float(scale))
        return o_normal(loc, scale, size)

    def em(q, eps, sensitivity, prng=np.random, monotonic=False):
        log['em'].append((float(eps), float(sensitivity), bool(monotonic), int(q.size)))
        return o_em(q, eps, sensitivity, prng=prng, monotonic=monotonic)

    np.random.normal, mst.exponential_mechanism = normal, em
    try:
        with contextlib.redirect_stdout(io.StringIO()):
            out = fn()
    except Stop:
        out = None
    finally:
        np.random.normal, mst.exponential_mechanism = o_normal, o_em
    return out, log


def em_cost(log):
    # score = L1 error of a 2-way marginal: real sensitivity 1, not monotonic.
    # the sampler uses exp(coef*eps/sensitivity*q): that is (2*coef*eps/sensitivity)-DP
    return sum((2 * (1.0 if mono else 0.5) * eps / sens)**2 / 8 for eps, sens, mono, _ in log['em'])


def main():
    ok = True
    lines = []

    # (a) the whole mechanism
    for seed, shape, n, eps, delta in [(1, (3, 2, 4, 2), 400, 1.0, 1e-6), (2, (2, 2, 3), 200, 0.5, 1e-9),
                                       (3, (4, 3, 2, 2, 3), 1000, 2.0, 1e-5)]:
        data = make_data(seed, shape, n)
        np.random.seed(100 + seed)
        _, log = recording(lambda: mst.MST(data, eps, delta))
        budget = cdp_rho(eps, delta)
        spent = sum(0.5 / s**2 for s in log['sigmas']) + em_cost(log)
        good = spent <= budget * (1 + 1e-9)
        ok &= good
        lines.append('MST shape=%s eps=%g: %d releases, %d selections, spent/budget=%.9f %s'
                     % (shape, eps, len(log['sigmas']), len(log['em']), spent / budget, 'ok' if good else 'OVER BUDGET'))

    # (b) select() seeded with edges that were chosen beforehand
    data = make_data(5, (3, 2, 4, 2, 3), 500)
    np.random.seed(11)
    oneway = mst.measure(data, [(c,) for c in data.domain], 5.0)
    seeds = [
        ('no edge', []),
        ('one edge', [('a', 'b')]),
        ('path a-b-c', [('a', 'b'), ('b', 'c')]),
        ('two separate edges', [('a', 'b'), ('d', 'e')]),
        ('same edge twice', [('a', 'b'), ('b', 'a')]),
        ('spanning path but one', [('a', 'b'), ('b', 'c'), ('c', 'd')]),
        ('triangle a-b-c', [('a', 'b'), ('b', 'c'), ('a', 'c')]),
        ('triangle a-b-c + d-e', [('a', 'b'), ('b', 'c'), ('c', 'a'), ('d', 'e')]),
        ('4-cycle a-b-c-d', [('a', 'b'), ('b', 'c'), ('c', 'd'), ('d', 'a')]),
    ]
    rho = 0.05
    for name, cliques in seeds:
        np.random.seed(23)
        try:
            edges, log = recording(lambda: mst.select(data, rho, oneway, cliques=list(cliques)))
            note = 'tree=%s' % sorted(tuple(sorted(e)) for e in edges)
        except ZeroDivisionError:
            edges, log, note = None, {'sigmas': [], 'em': []}, 'ZeroDivisionError before any selection'
        spent = em_cost(log)
        good = spent <= rho * (1 + 1e-9)
        ok &= good
        lines.append('select seeded with %-24s %d selections eps=%s spent/rho=%.9f %s %s'
                     % (name + ':', len(log['em']), sorted({round(e[0], 9) for e in log['em']}), spent / rho,
                        'ok' if good else 'OVER BUDGET', note))

    for l in lines:
        print(l)
    print('digest', hashlib.sha256('\n'.join(lines).encode()).hexdigest()[:16])
    if ok:
        print('PASS')
        return 0
    print('FAIL: the exponential-mechanism calls of select() together cost more than the rho it was given: the '
          'per-edge epsilon was derived from fewer remaining edges than the loop goes on to select')
    return 1


if __name__ == '__main__':
    sys.exit(main())

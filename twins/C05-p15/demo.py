"""C05 / round 10 / pair 1 -- cdp_rho: lower end of the bisection bracket.

Part A  converts a grid of (epsilon, delta) budgets to zCDP with cdp_rho and checks,
        with an independent evaluation of the rho-zCDP => (eps, delta)-DP bound, that
        the returned rho really implies (epsilon, delta)-DP.
Part B  runs MWEM+PGM and MST, records every Gaussian release (scale handed to
        numpy.random.normal) and every exponential-mechanism call (its epsilon), adds
        up   sum 1/(2 sigma^2) + sum eps^2/8   and checks that this total zCDP cost
        still implies the (epsilon, delta) the caller asked for.

exit 0 + PASS + digest : every budget respected
exit 1 + FAIL          : some (epsilon, delta) is exceeded
"""
import os, sys, io, math, hashlib, contextlib, warnings, importlib.util

if os.environ.get('PYTHONHASHSEED') != '0':
    os.environ['PYTHONHASHSEED'] = '0'
    os.execv(sys.executable, [sys.executable] + sys.argv)

ROOT = os.path.dirname(os.path.dirname(os.path.dirname(os.path.abspath(__file__))))
sys.path[:0] = [os.path.join(ROOT, 'src'), ROOT, '/tmp/stubs']
warnings.filterwarnings('ignore')

import numpy as np
import pandas as pd
from scipy.optimize import minimize_scalar
import mbi
assert os.path.abspath(mbi.__file__).startswith(os.path.join(ROOT, 'src')), mbi.__file__
from mbi import Dataset, Domain
from mechanisms import cdp2adp
import mechanisms.mst as mst

spec = importlib.util.spec_from_file_location('mwem_pgm_mod', os.path.join(ROOT, 'mechanisms', 'mwem+pgm.py'))
mwem = importlib.util.module_from_spec(spec)
spec.loader.exec_module(mwem)


class QuickInference(mbi.FactoredInference):
    """same estimator, fewer iterations (keeps the demo fast)"""
    def estimate(self, *args, **kwargs):
        self.iters = min(self.iters, 60)
        return super().estimate(*args, **kwargs)


mst.FactoredInference = QuickInference
mwem.FactoredInference = QuickInference


def ref_delta(rho, eps):
    """smallest delta such that rho-zCDP implies (eps, delta)-DP
    (Canonne, Kamath, Steinke 2020, Cor. 13), alpha restricted to >= 1.01 like the library"""
    if rho == 0:
        return 0.0
    def logd(alpha):
        return (alpha - 1) * (alpha * rho - eps) + alpha * math.log1p(-1 / alpha) - math.log(alpha - 1)
    hi = (eps + 1) / (2 * rho) + 2
    res = minimize_scalar(logd, bounds=(1.01, hi), method='bounded', options={'xatol': 1e-12})
    best = min(res.fun, logd(1.01), logd(hi))
    return min(math.exp(best), 1.0)


def check(label, rho, eps, delta, failures):
    implied = ref_delta(rho, eps)
    ok = implied <= delta * (1 + 1e-6)
    if not ok:
        failures.append('%s: zCDP cost rho=%.6g only gives (%.4g, %.3e)-DP, but delta=%.3e was promised '
                        '(%.3fx too large)' % (label, rho, eps, implied, delta, implied / delta))
    return ok


def make_data(seed, shape, n):
    prng = np.random.RandomState(seed)
    attrs = ['a', 'b', 'c', 'd'][:len(shape)]
    base = prng.randint(0, 2, n)
    cols = {a: np.where(prng.rand(n) < 0.6, base % k, prng.randint(0, k, n)) for a, k in zip(attrs, shape)}
    return Dataset(pd.DataFrame(cols), Domain(attrs, shape))


def observe(fn, em_module, em_name, eps_arg):
    """run fn() and return the zCDP cost of what it released"""
    scales, epss = [], []
    normal, em = np.random.normal, getattr(em_module, em_name)

    def rec_normal(loc=0.0, scale=1.0, size=None):
        scales.append(float(scale))
        return normal(loc, scale, size)

    def rec_em(*args, **kwargs):
        epss.append(float(args[eps_arg]))
        return em(*args, **kwargs)

    np.random.normal = rec_normal
    setattr(em_module, em_name, rec_em)
    try:
        with contextlib.redirect_stdout(io.StringIO()):
            try:
                fn()
            except Exception:           # synthetic_data() dies under pandas 3
                pass
    finally:
        np.random.normal = normal
        setattr(em_module, em_name, em)
    return sum(0.5 / s ** 2 for s in scales) + sum(e ** 2 / 8 for e in epss), len(scales), len(epss)


GRID = [(0.05, 1e-9), (0.5, 1e-9), (1.0, 1e-9), (1.0, 1e-5), (2.0, 1e-6), (3.0, 1e-9), (5.0, 1e-9),
        (8.0, 1e-9), (10.0, 1e-6), (15.0, 1e-9), (20.0, 1e-5), (40.0, 1e-9), (4.0, 1e-2), (6.0, 0.05)]

RUNS = [('mwem', 1.0, 1e-9, 2, (2, 3, 2), 11), ('mwem', 12.0, 1e-6, 3, (3, 2, 2), 12),
        ('mst', 1.0, 1e-9, None, (2, 3, 2), 13), ('mst', 16.0, 1e-9, None, (3, 3, 2), 14)]


def main():
    digest, failures = hashlib.sha256(), []
    for eps, delta in GRID:
        rho = cdp2adp.cdp_rho(eps, delta)
        ok = check('cdp_rho(%g, %g)' % (eps, delta), rho, eps, delta, failures)
        print('A eps=%-5g delta=%-6g rho=%r %s' % (eps, delta, rho, 'ok' if ok else 'EXCEEDS'))
        digest.update(repr((eps, delta, rho)).encode())
    for kind, eps, delta, rounds, shape, seed in RUNS:
        data = make_data(seed, shape, 300)
        np.random.seed(seed)
        if kind == 'mwem':
            fn = lambda: mwem.mwem_pgm(data, eps, delta, rounds=rounds, pgm_iters=60)
            cost, ng, ns = observe(fn, mwem, 'worst_approximated', 3)
        else:
            fn = lambda: mst.MST(data, eps, delta)
            cost, ng, ns = observe(fn, mst, 'exponential_mechanism', 1)
        ok = check('%s(eps=%g, delta=%g)' % (kind, eps, delta), cost, eps, delta, failures)
        print('B %-4s eps=%-4g delta=%-6g releases=%d selections=%d zCDP cost=%.12g %s'
              % (kind, eps, delta, ng, ns, cost, 'ok' if ok else 'EXCEEDS'))
        digest.update(('%s %.12g' % (kind, cost)).encode())
    if failures:
        print('FAIL: privacy cost exceeds the (epsilon, delta) budget')
        for f in failures:
            print('  ', f)
        return 1
    print('PASS', digest.hexdigest())
    return 0


if __name__ == '__main__':
    sys.exit(main())

"""C05 / round 10 / pair 2 -- AIM: parameters of the final ("use up whatever remains") round.

Runs AIM on small data sets for several (epsilon, delta, rounds) settings and
seeds, records every Gaussian release (scale given to numpy.random.normal) and
every private selection (epsilon and declared sensitivity of the exponential
mechanism, probability vector given to numpy.random.choice) and checks that

    sum_releases 1/(2 sigma^2)  +  sum_selections eps^2/8   <=   rho(epsilon, delta)

exit 0 + PASS + digest  : budget respected in every run
exit 1 + FAIL           : some run spends more than its budget
"""
import os, sys, io, hashlib, contextlib, itertools, warnings

if os.environ.get('PYTHONHASHSEED') != '0':
    # AIM iterates over sets of attribute-name tuples: pin the string hash seed
    os.environ['PYTHONHASHSEED'] = '0'
    os.execv(sys.executable, [sys.executable] + sys.argv)

ROOT = os.path.dirname(os.path.dirname(os.path.dirname(os.path.abspath(__file__))))
sys.path[:0] = [os.path.join(ROOT, 'src'), ROOT, '/tmp/stubs']
warnings.filterwarnings('ignore')

import numpy as np
import pandas as pd
import mbi
assert os.path.abspath(mbi.__file__).startswith(os.path.join(ROOT, 'src')), mbi.__file__
from mbi import Dataset, Domain
from mechanisms import mechanism as mechmod
from mechanisms.aim import AIM, compile_workload
import mechanisms.aim as aimmod


class QuickInference(mbi.FactoredInference):
    """same estimator, fewer mirror-descent iterations (keeps the demo fast)"""
    def estimate(self, *args, **kwargs):
        self.iters = min(self.iters, 60)
        return super().estimate(*args, **kwargs)


aimmod.FactoredInference = QuickInference


def make_data(seed, shape, n):
    prng = np.random.RandomState(seed)
    attrs = ['a', 'b', 'c', 'd'][:len(shape)]
    cols = {}
    base = prng.randint(0, 2, n)
    for a, k in zip(attrs, shape):
        noise = prng.randint(0, k, n)
        cols[a] = np.where(prng.rand(n) < 0.6, base % k, noise)
    return Dataset(pd.DataFrame(cols), Domain(attrs, shape))


class Recorder:
    """observes the releases of one run"""
    def __init__(self):
        self.events = []

    def install(self):
        rec = self
        self._normal, self._choice = np.random.normal, np.random.choice
        self._em = mechmod.Mechanism.exponential_mechanism

        def normal(loc=0.0, scale=1.0, size=None):
            rec.events.append(('gauss', float(scale), int(np.prod(size))))
            return rec._normal(loc, scale, size)

        def choice(a, size=None, replace=True, p=None):
            if p is not None:
                rec.events.append(('probs', np.array(p, dtype=float)))
            return rec._choice(a, size=size, replace=replace, p=p)

        def em(self_, qualities, epsilon, sensitivity=1.0, base_measure=None):
            rec.events.append(('select', float(epsilon), float(sensitivity), dict(qualities)))
            return rec._em(self_, qualities, epsilon, sensitivity, base_measure)

        np.random.normal, np.random.choice = normal, choice
        mechmod.Mechanism.exponential_mechanism = em

    def uninstall(self):
        np.random.normal, np.random.choice = self._normal, self._choice
        mechmod.Mechanism.exponential_mechanism = self._em


def run(eps, delta, rounds, shape, n, seed):
    data = make_data(seed, shape, n)
    W = [(cl, 1.0) for cl in itertools.combinations(data.domain.attrs, 2)]
    weights = compile_workload([cl for cl, _ in W])
    mech = AIM(eps, delta, rounds=rounds, max_model_size=80)
    rec = Recorder()
    np.random.seed(seed)
    rec.install()
    try:
        with contextlib.redirect_stdout(io.StringIO()):
            try:
                mech.run(data, W)
            except Exception as e:          # synthetic_data() dies under pandas 3
                last = repr(e)[:60]
    finally:
        rec.uninstall()

    spent, lines, problems = 0.0, [], []
    for ev in rec.events:
        if ev[0] == 'gauss':
            _, sigma, size = ev
            spent += 0.5 / sigma ** 2       # identity query on one marginal: L2 sensitivity 1
            lines.append('G %.9e %d' % (sigma, size))
        elif ev[0] == 'select':
            _, e, sens, quals = ev
            true_sens = max(abs(weights[cl]) for cl in quals)
            if sens < true_sens:
                problems.append('declared sensitivity %r < %r' % (sens, true_sens))
            spent += e ** 2 / 8.0
            lines.append('S %.9e %.3f %d' % (e, sens, len(quals)))
        else:
            p = ev[1]
            lines.append('P %d %.6e %.6e' % (p.size, p.max(), p.min()))
    return mech.rho, spent, lines, problems


CONFIGS = [
    # eps, delta, rounds, shape, records, seed
    (1.0, 1e-9, None, (2, 3, 2), 300, 0),      # default rounds = 16 d
    (1.0, 1e-9, 3,    (2, 3),    200, 1),      # last round entered with plenty left
    (2.0, 1e-6, 4,    (2, 3),    200, 2),
    (0.5, 1e-6, 5,    (3, 2, 2), 250, 3),
    (3.0, 1e-9, 7,    (2, 2, 3), 400, 4),
    (1.0, 1e-5, 10,   (2, 3, 2), 150, 5),
    (8.0, 1e-9, 6,    (3, 3, 2), 500, 6),
]


def main():
    digest = hashlib.sha256()
    failures = []
    for cfg in CONFIGS:
        rho, spent, lines, problems = run(*cfg)
        ratio = spent / rho
        n_g = sum(1 for l in lines if l[0] == 'G')
        n_s = sum(1 for l in lines if l[0] == 'S')
        print('cfg', cfg, 'releases', n_g, 'selections', n_s, 'spent/rho %.9f' % ratio)
        digest.update(('\n'.join(lines) + '|%.9f' % ratio).encode())
        if ratio > 1 + 1e-9:
            failures.append('%r: spent %.6f x the zCDP budget rho=%.6g implied by (epsilon, delta)'
                            % (cfg, ratio, rho))
        failures.extend('%r: %s' % (cfg, p) for p in problems)
    if failures:
        print('FAIL: AIM spends more than its privacy budget')
        for f in failures:
            print('  ', f)
        return 1
    print('PASS', digest.hexdigest())
    return 0


if __name__ == '__main__':
    sys.exit(main())

"""C05 / round 11 / pair 1 -- MST `measure`: one noise draw for all marginals.

Clause checked: every Gaussian release is charged rho = Delta^2/(2 sigma^2);
that charge is only valid if every released cell carries its OWN independent
noise coordinate.  If two released cells share a noise coordinate, the
difference of the two (rescaled) releases is a noise-free function of the
data and the privacy loss is unbounded.
"""
import os, sys, hashlib, itertools
ROOT = os.path.dirname(os.path.dirname(os.path.dirname(os.path.abspath(__file__))))
sys.path.insert(0, ROOT)
sys.path.insert(0, os.path.join(ROOT, 'src'))
import numpy as np
import pandas as pd
import mbi
assert os.path.abspath(mbi.__file__).startswith(ROOT), mbi.__file__
from mbi import Dataset, Domain
from mechanisms import mst

def make_data(shape, n, seed):
    prng = np.random.RandomState(seed)
    attrs = ['a%d' % i for i in range(len(shape))]
    df = pd.DataFrame({a: prng.randint(0, s, n) for a, s in zip(attrs, shape)})
    return Dataset(df, Domain(attrs, shape))

records = []   # (tag, list of (clique, x, y, scale))
orig_measure = mst.measure
def recording_measure(data, cliques, sigma, weights=None):
    out = orig_measure(data, cliques, sigma, weights)
    rel = []
    for Q, y, scale, proj in out:
        rel.append((tuple(proj), data.project(proj).datavector(), np.array(y), scale))
    records.append(rel)
    return out

def check(rel, tag, failures):
    """Every released cell must carry its own noise coordinate."""
    z = np.concatenate([(y - x) / s for _, x, y, s in rel])
    key = np.round(z, 9)
    distinct = np.unique(key).size
    if distinct != z.size:
        # exhibit the noise-free leak on the first offending pair of cells
        for (c1, x1, y1, s1), (c2, x2, y2, s2) in itertools.combinations(rel, 2):
            d = y1[0] / s1 - y2[0] / s2
            t = x1[0] / s1 - x2[0] / s2
            if abs(d - t) < 1e-9:
                failures.append('%s: %d released cells share only %d noise values; '
                    'y%s[0]/s - y%s[0]/s = %.6f equals the true (noise-free) value %.6f'
                    % (tag, z.size, distinct, c1, c2, d, t))
                return
        failures.append('%s: %d cells, %d distinct noise values' % (tag, z.size, distinct))

def main():
    failures, h = [], hashlib.sha256()
    cases = [((5, 4, 3, 2), 200, 1), ((3, 3, 3), 150, 2), ((6, 2), 80, 3), ((4, 7, 2, 5, 3), 400, 4)]
    for shape, n, seed in cases:
        data = make_data(shape, n, seed)
        one = [(a,) for a in data.domain]
        two = list(itertools.combinations(data.domain.attrs, 2))
        for tag, cliques, wts in [('1way', one, None), ('2way', two, None),
                                  ('2way-weighted', two, list(range(1, len(two) + 1)))]:
            np.random.seed(100 + seed)
            out = orig_measure(data, cliques, 2.5, wts)
            rel = [(tuple(p), data.project(p).datavector(), y, s) for _, y, s, p in out]
            check(rel, 'measure %s %s' % (shape, tag), failures)
            # total charge of the call: sum_i 1/(2 s_i^2) must equal 1/(2 sigma^2)
            rho = sum(0.5 / s ** 2 for _, _, _, s in rel)
            if abs(rho - 0.5 / 2.5 ** 2) > 1e-12:
                failures.append('measure %s %s: charge %.6g' % (shape, tag, rho))
            for _, _, y, s in rel:
                h.update(np.round(y, 8).tobytes()); h.update(np.round(s, 10).tobytes())

    # end-to-end MST run (synthetic_data crashes under pandas 3: observe the releases)
    mst.measure = recording_measure
    FI = mbi.FactoredInference
    mst.FactoredInference = lambda domain, iters=100: FI(domain, iters=60, log=False)
    data = make_data((5, 4, 3, 2), 300, 7)
    np.random.seed(11)
    try:
        mst.MST(data, 1.0, 1e-6)
    except Exception as e:
        pass
    if len(records) != 2:
        failures.append('MST made %d measure calls' % len(records))
    for i, rel in enumerate(records):
        check(rel, 'MST measure call %d' % (i + 1), failures)
        for _, _, y, s in rel:
            h.update(np.round(y, 8).tobytes())

    if failures:
        print('FAIL')
        for f in failures:
            print('  ' + f)
        sys.exit(1)
    print('PASS', h.hexdigest())

if __name__ == '__main__':
    main()

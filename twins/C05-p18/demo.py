"""C05 / round 12 / pair 1 -- AIM: sensitivity handed to the exponential mechanism.

Runs AIM on small datasets, and for every private selection compares the
epsilon the ledger charged with
  (a) the epsilon the selection really has, given the sensitivity that was
      passed to the exponential mechanism and the weights of the candidates
      that took part in THIS round, and
  (b) the largest log-ratio of selection probabilities actually observed
      between the dataset and its remove-one-record neighbours.
Exit 0 + PASS + digest if no selection is sharper than charged and the total
accounted cost stays within rho; exit 1 + FAIL otherwise.
"""
import os, sys
if os.environ.get('PYTHONHASHSEED') != '0':      # candidate order comes from a set of tuples of str
    os.environ['PYTHONHASHSEED'] = '0'
    os.execv(sys.executable, [sys.executable] + sys.argv)

HERE = os.path.abspath(__file__)
ROOT = os.path.dirname(os.path.dirname(os.path.dirname(HERE)))
sys.path[:0] = [os.path.join(ROOT, 'src'), ROOT, '/tmp/stubs']

import io, contextlib, hashlib
import numpy as np
import pandas as pd
import mbi
from mbi import Dataset, Domain
assert os.path.abspath(mbi.__file__).startswith(ROOT), mbi.__file__
import mechanisms.aim as aim
from mechanisms.mechanism import Mechanism

# ---- make the runs quick: fewer mirror-descent iterations ------------------
_FI = aim.FactoredInference
class QuickFI(_FI):
    iters = property(lambda self: 60, lambda self, v: None)   # also ignores the final `engine.iters = 2500`
aim.FactoredInference = QuickFI


class Recorder:
    """stands in for the prng: remembers the probability vector"""
    def __init__(self): self.p = None
    def choice(self, n, p=None):
        self.p = np.array(p); return 0


def make_data(seed, N, shape):
    rs = np.random.RandomState(seed)
    attrs = ['a', 'b', 'c', 'd'][:len(shape)]
    base = rs.randint(0, shape[0], N)
    cols = {}
    for at, n in zip(attrs, shape):          # correlated columns
        flip = rs.rand(N) < 0.25
        cols[at] = np.where(flip, rs.randint(0, n, N), base % n)
    return Dataset(pd.DataFrame(cols), Domain(attrs, shape))


def run_case(name, data, W, eps, delta, rounds, max_model_size, seed):
    log, scales = [], []
    mech = aim.AIM(eps, delta, rounds=rounds, max_model_size=max_model_size)
    cands = aim.compile_workload([cl for cl, _ in W])
    # remove-one-record neighbours (one per distinct record)
    keep = data.df.drop_duplicates().index
    neigh = []
    for i in keep:
        d2 = Dataset(data.df.drop(index=i), data.domain)
        neigh.append({cl: d2.project(cl).datavector() for cl in cands})

    orig_wa = aim.AIM.worst_approximated
    orig_gn = Mechanism.gaussian_noise

    def gn(self, sigma, size):
        scales.append(float(sigma)); return orig_gn(self, sigma, size)

    def wa(self, candidates, answers, model, eps_t, sigma):
        seen = {}
        def spy(qualities, epsilon, sensitivity=1.0, base_measure=None):
            seen['sens'] = float(sensitivity)
            return Mechanism.exponential_mechanism(self, qualities, epsilon, sensitivity, base_measure)
        real_prng, rec = self.prng, Recorder()
        self.prng = rec; self.exponential_mechanism = spy
        try:
            orig_wa(self, candidates, answers, model, eps_t, sigma); p0 = rec.p
            worst = 0.0
            for ans2 in neigh:
                orig_wa(self, candidates, ans2, model, eps_t, sigma)
                worst = max(worst, float(np.abs(np.log(p0) - np.log(rec.p)).max()))
        finally:
            self.prng = real_prng; del self.exponential_mechanism
        true_sens = float(max(abs(w) for w in candidates.values()))
        log.append(dict(n=len(candidates), true_sens=true_sens, used=seen['sens'],
                        eps=float(eps_t), eff=float(eps_t)*true_sens/seen['sens'], obs=worst))
        return orig_wa(self, candidates, answers, model, eps_t, sigma)

    aim.AIM.worst_approximated = wa
    Mechanism.gaussian_noise = gn
    np.random.seed(seed)
    try:
        with contextlib.redirect_stdout(io.StringIO()):
            try:
                mech.run(data, W)
            except Exception as e:      # synthetic_data() dies under pandas 3: expected
                last = type(e).__name__
    finally:
        aim.AIM.worst_approximated = orig_wa
        Mechanism.gaussian_noise = orig_gn

    cost = sum(0.5/s**2 for s in scales) + sum(r['eff']**2/8 for r in log)
    problems = []
    lines = ['case %s: rho=%.6f rounds_run=%d releases=%d' % (name, mech.rho, len(log), len(scales))]
    for t, r in enumerate(log, 1):
        lines.append('  round %2d: candidates=%2d max|w|=%g sens_used=%g eps_charged=%.6f '
                     'eps_effective=%.6f max_observed_logratio=%.6f'
                     % (t, r['n'], r['true_sens'], r['used'], r['eps'], r['eff'], r['obs']))
        if r['eff'] > r['eps']*(1+1e-9):
            problems.append('%s round %d: selection charged eps=%.4f but is only %.4f-DP '
                            '(sensitivity %g passed, candidates have weight up to %g)'
                            % (name, t, r['eps'], r['eff'], r['used'], r['true_sens']))
        if r['obs'] > r['eps']*(1+1e-9):
            problems.append('%s round %d: observed log-ratio %.4f between neighbours exceeds charged eps %.4f'
                            % (name, t, r['obs'], r['eps']))
    lines.append('  accounted cost / rho = %.6f' % (cost/mech.rho))
    if cost > mech.rho*(1+1e-9):
        problems.append('%s: accounted zCDP cost %.6f exceeds rho %.6f' % (name, cost, mech.rho))
    return lines, problems


def main():
    out, problems = [], []
    d3 = make_data(1, 60, (4, 4, 4))
    pairs3 = [(('a','b'),1.0), (('a','c'),1.0), (('b','c'),1.0)]
    d4 = make_data(2, 80, (3, 4, 3, 5))
    pairs4 = [(cl, 1.0) for cl in [('a','b'),('a','c'),('a','d'),('b','c'),('b','d'),('c','d')]]
    cell = 8/2**20     # MB per model cell
    cases = [
        # default size limit: every candidate is admissible from round 1 on
        ('A default-size', d3, pairs3, 3.0, 1e-6, 24, 80, 0),
        ('B default-size-4attr', d4, pairs4, 2.0, 1e-6, 30, 80, 1),
        # tight size limit: the first round(s) admit only the one-way cliques,
        # two-way cliques (twice the weight) join once rho_used/rho has grown
        ('C tight-size', d3, pairs3, 3.0, 1e-6, 24, 40*cell, 0),
        ('D tight-size-4attr', d4, pairs4, 2.0, 1e-6, 30, 40*cell, 1),
        # one-way workload only: all weights equal
        ('E oneway-workload', d3, [(('a',),1.0), (('b',),1.0), (('c',),1.0)], 1.0, 1e-6, 8, 40*cell, 2),
    ]
    for c in cases:
        l, p = run_case(*c)
        out += l; problems += p
    text = '\n'.join(out)
    print(text)
    print('digest', hashlib.sha256(text.encode()).hexdigest()[:16])
    if problems:
        print('FAIL: a private selection is sharper than the ledger charged for')
        for p in problems: print('  -', p)
        sys.exit(1)
    print('PASS')

if __name__ == '__main__':
    main()

"""C05 / round 14 / pair 1 -- cdp_rho: leaving the bisection early once it has converged.

Checks that the zCDP budget handed to the mechanisms by cdp_rho(eps, delta) really
implies (eps, delta)-DP, on a grid that includes very small epsilons, and that an
end-to-end MST run spends (Gaussian releases + exponential-mechanism selections, as
observed at numpy.random.normal / the selection routine) no more than that.
"""
import os, sys, math, hashlib, io, contextlib, warnings

ROOT = os.path.dirname(os.path.dirname(os.path.dirname(os.path.abspath(__file__))))
sys.path.insert(0, ROOT)
sys.path.insert(0, os.path.join(ROOT, 'src'))
sys.path.append('/tmp/stubs')
warnings.filterwarnings('ignore')

import numpy as np
import pandas as pd
import mbi
from mbi import Dataset, Domain, FactoredInference, GraphicalModel
assert os.path.realpath(mbi.__file__).startswith(os.path.realpath(ROOT)), mbi.__file__
from mechanisms import cdp2adp, mst


def ref_cdp_delta(rho, eps):
    """Independent copy of the zCDP -> approx-DP bound (Canonne, Kamath, Steinke 2020).
    Every alpha > 1 gives a valid delta; we take the best one on a fixed search."""
    if rho == 0:
        return 0.0
    amin, amax = 1.01, (eps + 1) / (2 * rho) + 2
    for _ in range(1000):
        alpha = (amin + amax) / 2
        if (2 * alpha - 1) * rho - eps + math.log1p(-1.0 / alpha) < 0:
            amin = alpha
        else:
            amax = alpha
    d = math.exp((alpha - 1) * (alpha * rho - eps) + alpha * math.log1p(-1 / alpha)) / (alpha - 1.0)
    return min(d, 1.0)


failures = []
lines = []
SLACK = 1e-3  # relative slack on delta: bisection / rounding noise is not a finding

# ---- part 1: the conversion itself -------------------------------------------------
EPS = [1e-4, 2e-4, 5e-4, 1e-3, 3e-3, 1e-2, 0.1, 0.5, 1.0, 3.0, 10.0]
DELTA = [1e-12, 1e-9, 1e-6]
for delta in DELTA:
    for eps in EPS:
        rho = cdp2adp.cdp_rho(eps, delta)
        implied = ref_cdp_delta(rho, eps)
        lines.append('cdp_rho eps=%g delta=%g rho=%r' % (eps, delta, rho))
        if not implied <= delta * (1 + SLACK):
            failures.append('cdp_rho(%g, %g) = %.6g is not a sound budget: rho-zCDP only gives '
                            'delta = %.3g > %g' % (eps, delta, rho, implied, delta))


# ---- part 2: MST end to end, accounted at the noise / selection calls ---------------
class Done(Exception):
    pass


class FastInference(FactoredInference):  # post-processing only: fewer iterations
    def __init__(self, domain, iters=1000, **kw):
        super().__init__(domain, iters=min(iters, 40), log=False, **kw)


def run_mst(eps, delta, seed):
    rng = np.random.RandomState(seed)
    dom = Domain(['a', 'b', 'c', 'd'], [3, 2, 4, 2])
    df = pd.DataFrame({c: rng.randint(0, n, 300) for c, n in zip(dom.attrs, dom.shape)})
    data = Dataset(df, dom)

    spent = []
    real_normal, real_em = np.random.normal, mst.exponential_mechanism

    def spy_normal(loc=0.0, scale=1.0, size=None):
        # every Gaussian release of MST is an identity marginal: L2 sensitivity 1 (add/remove)
        spent.append(0.5 / float(scale) ** 2)
        return real_normal(loc, scale, size)

    def spy_em(q, eps, sensitivity, prng=np.random, monotonic=False):
        coef = 1.0 if monotonic else 0.5
        e = 2 * coef * eps / sensitivity  # scores move by at most 1 between neighbours
        spent.append(e ** 2 / 8)
        return real_em(q, eps, sensitivity, prng, monotonic)

    def no_synth(self, *a, **k):
        raise Done()

    saved = (mst.FactoredInference, GraphicalModel.synthetic_data)
    np.random.normal, mst.exponential_mechanism = spy_normal, spy_em
    mst.FactoredInference, GraphicalModel.synthetic_data = FastInference, no_synth
    np.random.seed(seed)
    try:
        with contextlib.redirect_stdout(io.StringIO()):
            mst.MST(data, eps, delta)
    except Done:
        pass
    finally:
        np.random.normal, mst.exponential_mechanism = real_normal, real_em
        mst.FactoredInference, GraphicalModel.synthetic_data = saved
    return len(spent), math.fsum(spent)


for eps, delta in [(1.0, 1e-9), (0.01, 1e-9), (2e-4, 1e-9), (1e-4, 1e-6)]:
    n, rho_spent = run_mst(eps, delta, seed=7)
    lines.append('MST eps=%g delta=%g releases+selections=%d spent_rho=%.12g' % (eps, delta, n, rho_spent))
    implied = ref_cdp_delta(rho_spent * (1 - 1e-9), eps)  # 1e-9: float rounding of the sum
    if not implied <= delta * (1 + SLACK):
        failures.append('MST(eps=%g, delta=%g) spent rho = %.6g over %d releases/selections; that much '
                        'zCDP only gives delta = %.3g > %g' % (eps, delta, rho_spent, n, implied, delta))

digest = hashlib.sha256('\n'.join(lines).encode()).hexdigest()
print('\n'.join(lines))
if failures:
    print('FAIL: the privacy actually spent exceeds the (epsilon, delta) budget')
    for f in failures:
        print('  -', f)
    sys.exit(1)
print('PASS', digest)

"""
Privacy ledger for MWEM+PGM (mechanisms/mwem+pgm.py).

mwem_pgm is run on a dataset D for several configurations
(noise kind x bounded flag x epsilon/alpha/rounds).  Every noisy release
(np.random.laplace / np.random.normal) and every private selection
(np.random.choice inside worst_approximated) is recorded and charged by its
ACTUAL effect on neighbouring datasets D' -- one record removed when
bounded=False, one record replaced when bounded=True:

  noise='laplace'  (pure DP, budget epsilon)
      release   x + Lap(b)        ->  |x_D - x_D'|_1 / b
      selection p on D, p' on D'  ->  max |log p - log p'|
  noise='gaussian' (zCDP, budget rho = cdp_rho(epsilon, delta))
      release   x + N(0, s^2)     ->  |x_D - x_D'|_2^2 / (2 s^2)
      selection p on D, p' on D'  ->  range(log p - log p')^2 / 8

exit 0 + "PASS"  : every configuration stays within its budget
exit 1 + "FAIL"  : some configuration spends more than it was given
"""
import os
import sys

if os.environ.get("PYTHONHASHSEED") != "0":
    env = dict(os.environ, PYTHONHASHSEED="0")
    os.execve(sys.executable, [sys.executable] + sys.argv, env)

ROOT = os.path.dirname(os.path.dirname(os.path.dirname(os.path.abspath(__file__))))
sys.path.insert(0, ROOT)
sys.path.insert(0, os.path.join(ROOT, "src"))

import contextlib
import hashlib
import importlib.util
import io
import warnings

warnings.filterwarnings("ignore")

import numpy as np
import pandas as pd

import mbi
assert os.path.abspath(mbi.__file__).startswith(os.path.join(ROOT, "src")), mbi.__file__
from mbi import Dataset, Domain, GraphicalModel
from mechanisms.cdp2adp import cdp_rho

spec = importlib.util.spec_from_file_location("mwem_pgm", os.path.join(ROOT, "mechanisms", "mwem+pgm.py"))
mw = importlib.util.module_from_spec(spec)
spec.loader.exec_module(mw)

# synthetic_data() raises under pandas 3; the ledger is complete before it is called
GraphicalModel.synthetic_data = lambda self, *a, **k: None

# ---------------------------------------------------------------- recording harness
STATE = {"mode": "off", "clique": None}
RELEASES = []      # (kind, scale, clique)
SEL_LIVE = []      # (p, index) of the current selection on D
SEL_REPLAY = []    # p' of the current selection on D'
SELECTIONS = []    # per round: (clique, p, [p' for each neighbour])
NEIGHBOUR_ANSWERS = []

_normal, _laplace, _choice = np.random.normal, np.random.laplace, np.random.choice


def normal(loc=0.0, scale=1.0, size=None):
    if STATE["mode"] == "live":
        RELEASES.append(("gaussian", float(scale), STATE["clique"]))
    return _normal(loc, scale, size)


def laplace(loc=0.0, scale=1.0, size=None):
    if STATE["mode"] == "live":
        RELEASES.append(("laplace", float(scale), STATE["clique"]))
    return _laplace(loc, scale, size)


def choice(a, size=None, replace=True, p=None):
    if STATE["mode"] == "live":
        idx = _choice(a, size, replace, p)
        SEL_LIVE.append((np.array(p, dtype=float), int(idx)))
        return idx
    if STATE["mode"] == "replay":
        SEL_REPLAY.append(np.array(p, dtype=float))
        return SEL_LIVE[-1][1]
    return _choice(a, size, replace, p)


_worst_approximated = mw.worst_approximated


def worst_approximated(workload_answers, *args, **kwargs):
    STATE["mode"] = "live"
    del SEL_LIVE[:]
    ax = _worst_approximated(workload_answers, *args, **kwargs)
    assert len(SEL_LIVE) == 1
    others = []
    for answers in NEIGHBOUR_ANSWERS:
        STATE["mode"] = "replay"
        del SEL_REPLAY[:]
        ax2 = _worst_approximated(answers, *args, **kwargs)
        assert ax2 == ax and len(SEL_REPLAY) == 1
        others.append(SEL_REPLAY[0])
    SELECTIONS.append((ax, SEL_LIVE[0][0], others))
    STATE["mode"] = "live"
    STATE["clique"] = ax
    return ax


np.random.normal = normal
np.random.laplace = laplace
np.random.choice = choice
mw.worst_approximated = worst_approximated


# ---------------------------------------------------------------- data
def make_data(seed, n):
    prng = np.random.RandomState(seed)
    dom = Domain(["a", "b", "c", "d"], [3, 4, 2, 3])
    cols = {}
    base = prng.randint(0, 3, n)
    cols["a"] = base
    cols["b"] = (base + prng.randint(0, 2, n)) % 4
    cols["c"] = prng.randint(0, 2, n)
    cols["d"] = (cols["c"] + prng.choice(3, n, p=[0.8, 0.15, 0.05])) % 3
    return Dataset(pd.DataFrame(cols), dom)


def remove_record(data, i):
    return Dataset(data.df.drop(index=i).reset_index(drop=True), data.domain)


def replace_record(data, i):
    df = data.df.copy()
    for col in data.domain:
        df.loc[i, col] = (df.loc[i, col] + 1) % data.domain[col]
    return Dataset(df, data.domain)


# ---------------------------------------------------------------- one audited run
def audit(name, data, noise, bounded, epsilon, delta, rounds, alpha, seed):
    workload = [("a", "b"), ("a", "c"), ("a", "d"), ("b", "c"), ("b", "d"), ("c", "d")]
    make = replace_record if bounded else remove_record
    nbrs = [make(data, i) for i in (0, 7, 123)]
    NEIGHBOUR_ANSWERS[:] = [{cl: nb.project(cl).datavector() for cl in workload} for nb in nbrs]
    del RELEASES[:], SELECTIONS[:]
    np.random.seed(seed)
    STATE["mode"] = "live"
    STATE["clique"] = None
    with contextlib.redirect_stdout(io.StringIO()):
        mw.mwem_pgm(data, epsilon, delta, workload=workload, rounds=rounds, pgm_iters=40,
                    noise=noise, bounded=bounded, alpha=alpha)
    STATE["mode"] = "off"
    assert len(RELEASES) == len(SELECTIONS) > 0

    budget = epsilon if noise == "laplace" else cdp_rho(epsilon, delta)
    unit = "epsilon" if noise == "laplace" else "rho"
    lines = ["config %s: noise=%s bounded=%s eps=%g delta=%g rounds=%s alpha=%g"
             % (name, noise, bounded, epsilon, delta, rounds, alpha)]
    lines.append("  rounds run=%d selected=%s" % (len(RELEASES), " ".join("".join(r[2]) for r in RELEASES)))
    worst = 0.0
    for j, nb in enumerate(nbrs):
        rel = sel = 0.0
        for kind, scale, cl in RELEASES:
            assert kind == noise
            diff = data.project(cl).datavector() - nb.project(cl).datavector()
            if kind == "laplace":
                rel += float(np.abs(diff).sum()) / scale
            else:
                rel += float((diff ** 2).sum()) / (2 * scale ** 2)
        for _, p, others in SELECTIONS:
            d = np.log(p) - np.log(others[j])
            if noise == "laplace":
                sel += float(np.abs(d).max())
            else:
                sel += float(d.max() - d.min()) ** 2 / 8.0
        total = rel + sel
        worst = max(worst, total / budget)
        lines.append("  neighbour %d: releases=%.9f selections=%.9f total=%.9f (fractions of %s)"
                     % (j, rel / budget, sel / budget, total / budget, unit))
    ok = worst <= 1.0 + 1e-9
    lines.append("  spent/budget = %.9f -> %s" % (worst, "within budget" if ok else "OVER BUDGET"))
    return ok, lines


def main():
    data = make_data(3, 300)
    configs = [
        # name noise      bounded eps  delta rounds alpha seed
        ("A", "gaussian", False, 1.0, 1e-6, 3, 0.9, 21),
        ("B", "gaussian", True, 1.0, 1e-6, None, 0.9, 22),
        ("C", "gaussian", True, 0.5, 1e-9, 2, 0.5, 23),
        ("D", "laplace", False, 1.0, 0.0, 3, 0.9, 24),
        ("E", "laplace", False, 2.0, 0.0, None, 0.5, 25),
        ("F", "laplace", True, 2.0, 0.0, 3, 0.9, 26),
        ("G", "laplace", True, 0.5, 0.0, 2, 0.5, 27),
    ]
    out, failed = [], []
    for cfg in configs:
        ok, lines = audit(cfg[0], data, *cfg[1:])
        out.extend(lines)
        if not ok:
            failed.append(cfg[0])
    text = "\n".join(out)
    print(text)
    print("digest", hashlib.sha256(text.encode()).hexdigest())
    if not failed:
        print("PASS: every configuration of MWEM+PGM stays within its privacy budget")
        return 0
    print("FAIL: configuration(s) %s spend more than their budget on a concrete neighbouring pair: "
          "the noise added to the selected marginal is too small for the amount the marginal "
          "changes when one record is replaced" % ",".join(failed))
    return 1


if __name__ == "__main__":
    sys.exit(main())

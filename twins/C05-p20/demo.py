"""C05 pair1 demo: the rho handed to every mechanism by cdp_rho(eps, delta) must
really imply (eps, delta)-DP.  The check uses an INDEPENDENT evaluation of the
zCDP -> approximate-DP bound (arXiv 2004.00010, Prop. 12 / Cor. 13):
    delta(rho, eps) = inf_{alpha>1} exp((alpha-1)(alpha rho - eps)) / (alpha-1) * (1-1/alpha)^alpha
"""
import os, sys, math, hashlib
ROOT = os.path.dirname(os.path.dirname(os.path.dirname(os.path.abspath(__file__))))
sys.path.insert(0, ROOT)
sys.path.insert(0, os.path.join(ROOT, 'src'))
import matplotlib
matplotlib.use('Agg')
import numpy as np
from scipy.optimize import minimize_scalar
from mechanisms.cdp2adp import cdp_rho, cdp_delta


def ref_logdelta(alpha, rho, eps):
    return (alpha - 1) * (alpha * rho - eps) + alpha * math.log1p(-1 / alpha) - math.log(alpha - 1)


def ref_delta(rho, eps):
    """best (smallest) delta certified by the bound, searched independently"""
    hi = (eps + 1) / (2 * rho) + 2
    # same admissible range of alpha as the library (alpha >= 1.01)
    res = minimize_scalar(ref_logdelta, bounds=(1.01, hi), args=(rho, eps),
                          method='bounded', options={'xatol': 1e-12})
    grid = np.exp(np.linspace(math.log(1.01), math.log(hi), 20001))
    best = min(res.fun, min(ref_logdelta(a, rho, eps) for a in grid))
    return min(math.exp(best), 1.0)


CASES = [(eps, delta) for eps in (0.1, 0.5, 1.0, 3.0, 10.0) for delta in (1e-3, 1e-6, 1e-9)]
# large eps with a generous delta: the optimal alpha is small (close to 1),
# which is where (alpha-1) and alpha differ most
CASES += [(8.0, 0.05), (20.0, 0.1), (5.0, 0.2)]

lines, bad = [], []
for eps, delta in CASES:
    rho = cdp_rho(eps, delta)
    d_ref = ref_delta(rho, eps)
    d_lib = cdp_delta(rho, eps)
    # what MST does with it: three equal parts, two Gaussian rounds + selection
    sigma = math.sqrt(3 / (2 * rho))
    spent = 2 * 0.5 / sigma ** 2 + rho / 3.0
    ok = d_ref <= delta * (1 + 1e-6) and spent <= rho * (1 + 1e-12)
    lines.append('eps=%g delta=%g rho=%.9e ref_delta/delta=%.6f lib_delta/delta=%.6f'
                 % (eps, delta, rho, d_ref / delta, d_lib / delta))
    if not ok:
        bad.append('eps=%g delta=%g: rho=%.6e spends delta=%.6e > %g (x%.4f)'
                   % (eps, delta, rho, d_ref, delta, d_ref / delta))

# consistency of cdp_delta itself with the reference on a fixed grid of (rho, eps)
for rho in (0.01, 0.1, 1.0, 5.0):
    for eps in (0.5, 2.0, 12.0):
        d_ref, d_lib = ref_delta(rho, eps), cdp_delta(rho, eps)
        lines.append('rho=%g eps=%g cdp_delta=%.9e' % (rho, eps, d_lib))
        if d_lib < d_ref * (1 - 1e-6):
            bad.append('cdp_delta(%g,%g)=%.6e understates the bound %.6e' % (rho, eps, d_lib, d_ref))

for l in lines:
    print(l)
print('digest', hashlib.sha256('\n'.join(lines).encode()).hexdigest()[:16])
if bad:
    print('FAIL: budget handed to the mechanisms exceeds (eps, delta):')
    for b in bad:
        print('  ' + b)
    sys.exit(1)
print('PASS')

"""
C05 / pair 1 -- (epsilon, delta) -> rho conversion behind a "last conversion" cache
in mechanisms/mechanism.py, observed through AIM.

Every scenario is a SEQUENCE of mechanism constructions in one process; the last
mechanism constructed is then run on a dataset D and replayed on a neighbour D'
(D plus one record) under the same output history.  The privacy cost of the run
is accounted from what actually happened:

  * every Gaussian release k (numpy.random.normal call with scale s_k, operand
    x_k on D and x'_k on D'):          rho_k = ||x_k - x'_k||^2 / (2 s_k^2)
  * every private selection t (numpy.random.choice call with probability vector
    p_t on D and p'_t on D'):          rho_t = range_i( ln p_t[i]/p'_t[i] )^2 / 8

and compared with the budget cdp_rho(epsilon, delta) computed by a reference copy
of the conversion kept inside this file.

exit 0 + "PASS" + digest  : no scenario spends more than its budget
exit 1 + "FAIL" + reasons : some scenario does
"""
import os, sys

if os.environ.get('PYTHONHASHSEED') != '0':          # AIM iterates over sets of tuples of str
    os.environ['PYTHONHASHSEED'] = '0'
    os.execv(sys.executable, [sys.executable] + sys.argv)

ROOT = os.path.dirname(os.path.dirname(os.path.dirname(os.path.abspath(__file__))))
for p in ['/tmp/stubs', ROOT, os.path.join(ROOT, 'src')]:
    if p in sys.path:
        sys.path.remove(p)
    sys.path.insert(0, p)

import io, math, hashlib, contextlib, warnings
warnings.filterwarnings('ignore')
import numpy as np
import pandas as pd
import mbi
assert os.path.abspath(mbi.__file__).startswith(ROOT + os.sep), mbi.__file__
from mbi import Dataset, Domain, FactoredInference, GraphicalModel
from mechanisms import aim as aim_mod
from mechanisms import mechanism as mech_mod
assert os.path.abspath(mech_mod.__file__).startswith(ROOT + os.sep), mech_mod.__file__


# ----------------------------------------------------------------------------
# reference conversion (Canonne-Kamath-Steinke, https://arxiv.org/abs/2004.00010)
def ref_cdp_delta(rho, eps):
    if rho == 0:
        return 0
    amin, amax = 1.01, (eps + 1) / (2 * rho) + 2
    for _ in range(1000):
        alpha = (amin + amax) / 2
        derivative = (2 * alpha - 1) * rho - eps + math.log1p(-1.0 / alpha)
        if derivative < 0:
            amin = alpha
        else:
            amax = alpha
    delta = math.exp((alpha - 1) * (alpha * rho - eps) + alpha * math.log1p(-1 / alpha)) / (alpha - 1.0)
    return min(delta, 1.0)


def ref_cdp_rho(eps, delta):
    if delta >= 1:
        return 0.0
    rhomin, rhomax = 0.0, eps + 1
    for _ in range(1000):
        rho = (rhomin + rhomax) / 2
        if ref_cdp_delta(rho, eps) <= delta:
            rhomin = rho
        else:
            rhomax = rho
    return rhomin


# ----------------------------------------------------------------------------
# observation harness
class Stop(Exception):
    pass


def _stop(self, *a, **k):       # synthetic_data() cannot run under pandas 3; it is post-processing anyway
    raise Stop()


GraphicalModel.synthetic_data = _stop


class Engine(FactoredInference):
    """ Private-PGM with a capped iteration count (post-processing; keeps the demo fast).
        Remembers the measurement list it was last given. """
    last_measurements = None

    def __init__(self, *a, **k):
        super().__init__(*a, **k)
        self.iters = min(self.iters, 40)

    def estimate(self, measurements, *a, **k):
        Engine.last_measurements = measurements
        self.iters = min(self.iters, 40)
        return super().estimate(measurements, *a, **k)


aim_mod.FactoredInference = Engine


class Tape:
    """ record mode : draws noise / choices from its own seeded generator and logs them
        replay mode : forces the logged outputs (noisy answers, chosen indices) on another
                      dataset and logs the scales / probability vectors used there """
    def __init__(self, seed):
        self.rs = np.random.RandomState(seed)
        self.scales, self.noise, self.probs, self.picks = [], [], [], []
        self.forced = None

    def normal(self, loc=0.0, scale=1.0, size=None):
        k = len(self.scales)
        self.scales.append(float(scale))
        if self.forced is None:
            z = self.rs.normal(loc, scale, size)
        else:
            z = self.forced['noise'](k)
            assert np.size(z) == (size if np.isscalar(size) else int(np.prod(size))), 'release %d changed shape' % k
        self.noise.append(z)
        return z

    def choice(self, a, size=None, replace=True, p=None):
        t = len(self.probs)
        self.probs.append(np.array(p, dtype=float))
        pick = self.rs.choice(a, p=p) if self.forced is None else self.forced['picks'][t]
        self.picks.append(int(pick))
        return pick


@contextlib.contextmanager
def observed(tape):
    saved = np.random.normal, np.random.choice
    np.random.normal, np.random.choice = tape.normal, tape.choice
    try:
        with contextlib.redirect_stdout(io.StringIO()):
            yield
    finally:
        np.random.normal, np.random.choice = saved


def run_aim(mech, data, W, tape):
    Engine.last_measurements = None
    with observed(tape):
        try:
            mech.run(data, W)
        except Stop:
            pass
    return list(Engine.last_measurements)


def account(mech, D, D1, W, seed):
    """ actual zCDP cost of one execution of mech.run on the neighbouring pair (D, D1) """
    rec = Tape(seed)
    log = run_aim(mech, D, W, rec)
    assert len(log) == len(rec.scales), 'one Gaussian release per measurement expected'
    cliques = [m[3] for m in log]
    ys = [np.array(m[1]) for m in log]
    x0 = [D.project(cl).datavector() for cl in cliques]
    x1 = [D1.project(cl).datavector() for cl in cliques]

    rep = Tape(seed)
    rep.forced = {'noise': lambda k: ys[k] - x1[k], 'picks': rec.picks}
    log1 = run_aim(mech, D1, W, rep)
    assert [m[3] for m in log1] == cliques, 'replay diverged from the recorded history'
    assert np.allclose(rep.scales, rec.scales, rtol=1e-9), 'noise scale depends on the data'
    assert len(rep.probs) == len(rec.probs)

    gauss = sum(float(np.sum((a - b) ** 2)) / (2 * s ** 2) for a, b, s in zip(x0, x1, rec.scales))
    select = 0.0
    for p, q in zip(rec.probs, rep.probs):
        assert p.shape == q.shape, 'candidate set depends on the data'
        ok = (p > 0) & (q > 0)
        assert np.all((p > 0) == (q > 0))
        lr = np.log(p[ok]) - np.log(q[ok])
        select += float(lr.max() - lr.min()) ** 2 / 8
    return gauss, select, len(rec.scales), len(rec.probs)


# ----------------------------------------------------------------------------
def make_data(seed, n):
    rs = np.random.RandomState(seed)
    dom = Domain(['a', 'b', 'c'], [2, 3, 2])
    a = rs.randint(0, 2, n)
    b = (a + rs.randint(0, 2, n)) % 3
    c = (b % 2) ^ (rs.rand(n) < 0.2)
    df = pd.DataFrame({'a': a, 'b': b, 'c': c.astype(int)})
    D = Dataset(df, dom)
    extra = pd.DataFrame({'a': [1], 'b': [2], 'c': [0]})
    D1 = Dataset(pd.concat([df, extra], ignore_index=True), dom)
    return D, D1


W = [(('a', 'b'), 1.0), (('a', 'c'), 1.0), (('b', 'c'), 1.0)]

# (name, sequence of (epsilon, delta) mechanisms constructed one after another; the LAST one is run)
SCENARIOS = [
    ('single mechanism',                        [(1.0, 1e-9)]),
    ('sweep over epsilon',                      [(1.0, 1e-6), (2.0, 1e-6)]),
    ('same parameters twice',                   [(0.5, 1e-5), (0.5, 1e-5)]),
    ('sweep over delta, 1e-3 then 1e-6',        [(1.0, 1e-3), (1.0, 1e-6)]),
    ('sweep over small delta, 1e-9 then 1e-12', [(1.0, 1e-9), (1.0, 1e-12)]),
    ('sweep over small delta, 1e-12 then 1e-9', [(1.0, 1e-12), (1.0, 1e-9)]),
    ('three-step delta sweep ending at 1e-9'  ,    [(1.0, 1e-2), (1.0, 1e-10), (1.0, 1e-9)]),
]


def main():
    lines, failures = [], []
    for i, (name, seq) in enumerate(SCENARIOS):
        for eps, delta in seq:
            mech = aim_mod.AIM(eps, delta, rounds=6)
        eps, delta = seq[-1]
        budget = ref_cdp_rho(eps, delta)
        D, D1 = make_data(100 + i, 80)
        gauss, select, nrel, nsel = account(mech, D, D1, W, seed=7 + i)
        spent = gauss + select
        line = '%-42s eps=%g delta=%g  rho=%.10g  releases=%d selections=%d  gaussian=%.6f select=%.6f  spent/budget=%.6f' % (
            name, eps, delta, mech.rho, nrel, nsel, gauss / budget, select / budget, spent / budget)
        lines.append(line)
        if spent > budget * (1 + 1e-9):
            failures.append('%s: AIM(%g, %g) constructed after %s spent rho=%.6g on the pair (D, D+1 record) but '
                            '(%g, %g)-DP only allows rho=%.6g  [mechanism believed rho=%.6g]'
                            % (name, eps, delta, seq[:-1], spent, eps, delta, budget, mech.rho))

    # the base class, constructed directly, goes through the same conversion
    for eps, delta in [(1.0, 1e-9), (1.0, 1e-11), (3.0, 1e-11), (3.0, 0)]:
        m = mech_mod.Mechanism(eps, delta, bounded=True)
        budget = 0 if delta == 0 else ref_cdp_rho(eps, delta)
        lines.append('Mechanism(%g, %g).rho = %.10g' % (eps, delta, m.rho))
        if m.rho > budget * (1 + 1e-9):
            failures.append('Mechanism(%g, %g) plans to spend rho=%.6g > %.6g' % (eps, delta, m.rho, budget))

    for l in lines:
        print(l)
    if failures:
        print('FAIL')
        for f in failures:
            print('  ' + f)
        sys.exit(1)
    print('PASS', hashlib.sha256('\n'.join(lines).encode()).hexdigest()[:16])
    sys.exit(0)


if __name__ == '__main__':
    main()

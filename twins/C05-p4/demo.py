"""
C05 / pair 2 -- how adagrid() (mechanisms/adaptive_grid.py) turns a user supplied
split_strategy into the zCDP budgets of its three steps.

Each scenario runs adagrid on a dataset D and replays it on a neighbour D' (D plus
one record) under the same output history (same noisy answers, same selected edges).
The privacy cost is accounted from what actually happened:

  * every Gaussian release k (numpy.random.normal call with scale s_k, operand
    Q_k mu_k on D and Q_k mu'_k on D'):  rho_k = ||Q_k (mu_k - mu'_k)||^2 / (2 s_k^2)
  * every private selection t (numpy.random.choice call with probability vector
    p_t on D and p'_t on D'):            rho_t = range_i( ln p_t[i]/p'_t[i] )^2 / 8

and compared with the budget cdp_rho(epsilon, delta) computed by a reference copy of
the conversion kept inside this file.

exit 0 + "PASS" + digest  : no scenario spends more than its budget
exit 1 + "FAIL" + reasons : some scenario does
"""
import os, sys

if os.environ.get('PYTHONHASHSEED') != '0':          # downward_closure iterates over a set of tuples of str
    os.environ['PYTHONHASHSEED'] = '0'
    os.execv(sys.executable, [sys.executable] + sys.argv)

ROOT = os.path.dirname(os.path.dirname(os.path.dirname(os.path.abspath(__file__))))
for p in ['/tmp/stubs', ROOT, os.path.join(ROOT, 'src')]:
    if p in sys.path:
        sys.path.remove(p)
    sys.path.insert(0, p)

import io, math, hashlib, contextlib, warnings
warnings.filterwarnings('ignore')
import numpy as np
import pandas as pd
import mbi
assert os.path.abspath(mbi.__file__).startswith(ROOT + os.sep), mbi.__file__
from mbi import Dataset, Domain, FactoredInference, GraphicalModel
from mechanisms import adaptive_grid as ag
assert os.path.abspath(ag.__file__).startswith(ROOT + os.sep), ag.__file__


# ----------------------------------------------------------------------------
# reference conversion (Canonne-Kamath-Steinke, https://arxiv.org/abs/2004.00010)
def ref_cdp_delta(rho, eps):
    if rho == 0:
        return 0
    amin, amax = 1.01, (eps + 1) / (2 * rho) + 2
    for _ in range(1000):
        alpha = (amin + amax) / 2
        derivative = (2 * alpha - 1) * rho - eps + math.log1p(-1.0 / alpha)
        if derivative < 0:
            amin = alpha
        else:
            amax = alpha
    delta = math.exp((alpha - 1) * (alpha * rho - eps) + alpha * math.log1p(-1 / alpha)) / (alpha - 1.0)
    return min(delta, 1.0)


def ref_cdp_rho(eps, delta):
    if delta >= 1:
        return 0.0
    rhomin, rhomax = 0.0, eps + 1
    for _ in range(1000):
        rho = (rhomin + rhomax) / 2
        if ref_cdp_delta(rho, eps) <= delta:
            rhomin = rho
        else:
            rhomax = rho
    return rhomin


# ----------------------------------------------------------------------------
# observation harness
class Stop(Exception):
    pass


def _stop(self, *a, **k):       # synthetic_data() cannot run under pandas 3; it is post-processing anyway
    raise Stop()


GraphicalModel.synthetic_data = _stop


class Engine(FactoredInference):
    """ Private-PGM that remembers the measurement list it was last given """
    last_measurements = None

    def estimate(self, measurements, *a, **k):
        Engine.last_measurements = measurements
        return super().estimate(measurements, *a, **k)


ag.FactoredInference = Engine


# adagrid assigns `Q.T = csr_matrix(Q.T)`; the installed scipy made .T read-only, so adagrid
# cannot run at all here.  Compatibility shim: sparse.vstack (which builds every Q) returns a
# csr_matrix subclass whose .T can be assigned.  Nothing else is changed.
from scipy import sparse as _sparse


class CSR(_sparse.csr_matrix):
    @property
    def T(self):
        t = self.__dict__.get('_cached_T')
        return self.transpose() if t is None else t

    @T.setter
    def T(self, value):
        self.__dict__['_cached_T'] = value


class SparseShim:
    def __getattr__(self, name):
        return getattr(_sparse, name)

    @staticmethod
    def vstack(blocks, *a, **k):
        return CSR(_sparse.vstack(blocks, *a, **k))


ag.sparse = SparseShim()


class Tape:
    """ record mode : draws noise / choices from its own seeded generator and logs them
        replay mode : forces the logged outputs (noisy answers, chosen indices) on another
                      dataset and logs the scales / probability vectors used there """
    def __init__(self, seed):
        self.rs = np.random.RandomState(seed)
        self.scales, self.probs, self.picks = [], [], []
        self.forced = None

    def normal(self, loc=0.0, scale=1.0, size=None):
        k = len(self.scales)
        self.scales.append(float(scale))
        if self.forced is None:
            return self.rs.normal(loc, scale, size)
        z = self.forced['noise'](k)
        assert np.size(z) == size, 'release %d changed shape' % k
        return z

    def choice(self, a, size=None, replace=True, p=None):
        t = len(self.probs)
        self.probs.append(np.array(p, dtype=float))
        pick = self.rs.choice(a, p=p) if self.forced is None else self.forced['picks'][t]
        self.picks.append(int(pick))
        return pick


@contextlib.contextmanager
def observed(tape):
    saved = np.random.normal, np.random.choice
    np.random.normal, np.random.choice = tape.normal, tape.choice
    try:
        with contextlib.redirect_stdout(io.StringIO()):
            yield
    finally:
        np.random.normal, np.random.choice = saved


def run(data, tape, eps, delta, kwargs):
    Engine.last_measurements = None
    with observed(tape):
        try:
            ag.adagrid(data, eps, delta, iters=30, **kwargs)
        except Stop:
            pass
    return list(Engine.last_measurements)


def account(D, D1, eps, delta, kwargs, seed):
    """ actual zCDP cost of one execution of adagrid on the neighbouring pair (D, D1) """
    rec = Tape(seed)
    log = run(D, rec, eps, delta, kwargs)
    assert len(log) == len(rec.scales), 'one Gaussian release per measurement expected'
    cliques = [m[3] for m in log]
    Qs = [m[0] for m in log]
    ys = [np.array(m[1]) for m in log]
    q0 = [Q @ D.project(cl).datavector() for Q, cl in zip(Qs, cliques)]
    q1 = [Q @ D1.project(cl).datavector() for Q, cl in zip(Qs, cliques)]

    rep = Tape(seed)
    rep.forced = {'noise': lambda k: ys[k] - q1[k], 'picks': rec.picks}
    log1 = run(D1, rep, eps, delta, kwargs)
    assert [m[3] for m in log1] == cliques, 'replay diverged from the recorded history'
    assert all(abs(A - B).sum() < 1e-9 for A, B in zip(Qs, [m[0] for m in log1])), 'query matrix depends on the data'
    assert np.allclose(rep.scales, rec.scales, rtol=1e-9), 'noise scale depends on the data'
    assert len(rep.probs) == len(rec.probs)

    gauss = sum(float(np.sum((a - b) ** 2)) / (2 * s ** 2) for a, b, s in zip(q0, q1, rec.scales))
    select = 0.0
    for p, q in zip(rec.probs, rep.probs):
        assert p.shape == q.shape, 'candidate set depends on the data'
        ok = (p > 0) & (q > 0)
        assert np.all((p > 0) == (q > 0))
        lr = np.log(p[ok]) - np.log(q[ok])
        select += float(lr.max() - lr.min()) ** 2 / 8
    return gauss, select, len(rec.scales), len(rec.probs)


# ----------------------------------------------------------------------------
def make_data(seed, n):
    rs = np.random.RandomState(seed)
    dom = Domain(['a', 'b', 'c', 'd'], [3, 2, 2, 4])
    a = rs.choice(3, n, p=[0.6, 0.38, 0.02])
    b = (a + (rs.rand(n) < 0.3)) % 2
    c = rs.randint(0, 2, n)
    d = np.minimum(3, a + c + (rs.rand(n) < 0.05))
    df = pd.DataFrame({'a': a, 'b': b, 'c': c, 'd': d})
    D = Dataset(df, dom)
    extra = pd.DataFrame({'a': [2], 'b': [1], 'c': [0], 'd': [3]})
    D1 = Dataset(pd.concat([df, extra], ignore_index=True), dom)
    return D, D1


# (name, epsilon, delta, keyword arguments of adagrid)
SCENARIOS = [
    ('default split',                       3.0, 1e-6, dict(threshold=5.0)),
    ('default split, one target',           3.0, 1e-6, dict(threshold=5.0, targets=['c'])),
    ('split [1,1,1]',                       3.0, 1e-6, dict(threshold=5.0, split_strategy=[1, 1, 1])),
    ('split [0.25,0.25,0.5]',               2.0, 1e-9, dict(threshold=4.0, split_strategy=[0.25, 0.25, 0.5])),
    ('split [0.1,0.1,0.8] (command line)',  3.0, 1e-6, dict(threshold=5.0, split_strategy=[0.1, 0.1, 0.8])),
    ('split [1,1,8], one target',           3.0, 1e-6, dict(threshold=5.0, split_strategy=[1, 1, 8], targets=['c'])),
    ('split [2,1,1], low threshold',        4.0, 1e-5, dict(threshold=1.0, split_strategy=[2, 1, 1])),
    ('split (6,3,1) as a tuple, 2 targets', 3.0, 1e-6, dict(threshold=3.0, split_strategy=(6, 3, 1), targets=['b', 'c'])),
]


def main():
    lines, failures = [], []
    for i, (name, eps, delta, kwargs) in enumerate(SCENARIOS):
        budget = ref_cdp_rho(eps, delta)
        D, D1 = make_data(200 + i, 3000)
        gauss, select, nrel, nsel = account(D, D1, eps, delta, kwargs, seed=11 + i)
        spent = gauss + select
        lines.append('%-36s eps=%g delta=%g  releases=%d selections=%d  gaussian=%.6f select=%.6f  spent/budget=%.6f' % (
            name, eps, delta, nrel, nsel, gauss / budget, select / budget, spent / budget))
        if spent > budget * (1 + 1e-9):
            failures.append('%s: adagrid(eps=%g, delta=%g, %s) spent rho=%.6g on the pair (D, D+1 record) but the '
                            'budget is rho=%.6g (%.1f%% over)' % (name, eps, delta, kwargs, spent, budget,
                                                                100 * (spent / budget - 1)))
    for l in lines:
        print(l)
    if failures:
        print('FAIL')
        for f in failures:
            print('  ' + f)
        sys.exit(1)
    print('PASS', hashlib.sha256('\n'.join(lines).encode()).hexdigest()[:16])
    sys.exit(0)


if __name__ == '__main__':
    main()

"""C05 / round 5 / pair 1 -- Adaptive Grid: the "plausible cells" of step 1 must be
derived from the NOISY answers only.

Accounting used here (output coupling):
  run A executes adagrid on D with seeded noise and records every release
        (operand added to the noise vector, noise scale, released vector y) and
        every private selection (probability vector, chosen index);
  run B executes adagrid on a neighbour D' (one record added) and is FORCED onto the
        same random outcome: every noise draw is chosen such that the released vector
        equals the one of run A, every selection returns the index of run A.
For a differentially private mechanism everything that is not a release must then be
identical in both runs (it is post-processing of identical outputs), and the cost of
the outcome is   sum ||op_A - op_B||^2 / (2 sigma^2)  +  sum range(log pA - log pB)^2 / 8
which must not exceed rho = cdp_rho(epsilon, delta).  A release whose operand has a
different shape / scale in the two runs has unbounded cost.
"""
import os, sys, io, hashlib, contextlib, warnings

if os.environ.get('PYTHONHASHSEED') != '0':
    # adagrid iterates over sets of attribute names: fix str hashing so that runs are repeatable
    os.environ['PYTHONHASHSEED'] = '0'
    os.execv(sys.executable, [sys.executable] + sys.argv)

ROOT = os.path.dirname(os.path.dirname(os.path.dirname(os.path.abspath(__file__))))
sys.path.insert(0, ROOT)
sys.path.insert(0, os.path.join(ROOT, 'src'))
warnings.filterwarnings('ignore')

import numpy as np
import pandas as pd
import mbi
assert os.path.abspath(mbi.__file__).startswith(ROOT), mbi.__file__
from mbi import Dataset, Domain, GraphicalModel
from mechanisms import adaptive_grid
from mechanisms.cdp2adp import cdp_rho
assert os.path.abspath(adaptive_grid.__file__).startswith(ROOT)

GraphicalModel.synthetic_data = lambda self, *a, **k: None   # always raises under pandas 3


# The installed scipy no longer allows `Q.T = ...` on a csr_matrix (adagrid line "a trick to
# improve efficiency"); give adagrid a csr subclass whose T can be assigned.  Test scaffolding
# only: values and shapes are those of the ordinary csr_matrix.
from scipy import sparse as _sparse


class _CSR(_sparse.csr_matrix):
    def _get_T(self):
        t = self.__dict__.get('_T_assigned')
        return t if t is not None else self.transpose()

    def _set_T(self, value):
        self.__dict__['_T_assigned'] = value

    T = property(_get_T, _set_T)


class _SparseProxy:
    def __getattr__(self, name):
        return getattr(_sparse, name)

    @staticmethod
    def vstack(blocks, *a, **k):
        return _CSR(_sparse.vstack(blocks, *a, **k))


adaptive_grid.sparse = _SparseProxy()


class Noise(np.ndarray):
    """what the patched np.random.normal returns: `operand + noise` calls back"""
    __array_priority__ = 1000

    def __radd__(self, operand):
        return self.hook(np.asarray(operand, dtype=float), self)

    __add__ = __radd__


class Recorder:
    def __init__(self, seed, replay=None):
        self.rs = np.random.RandomState(seed)
        self.replay = replay
        self.releases = []       # (operand, scale, y)
        self.selections = []     # (p, idx)

    def normal(self, loc=0.0, scale=1.0, size=None):
        vals = self.rs.normal(loc, scale, size)
        out = np.asarray(vals).view(Noise)
        out.hook = lambda operand, nz, scale=float(scale): self._release(operand, nz, scale)
        return out

    def _release(self, operand, nz, scale):
        i = len(self.releases)
        y = operand + np.asarray(nz)
        if self.replay is not None and i < len(self.replay.releases):
            yA = self.replay.releases[i][2]
            if yA.shape == y.shape:
                y = yA.copy()        # forced outcome: same released vector as run A
        self.releases.append((operand, scale, y))
        return y

    def choice(self, n, size=None, replace=True, p=None):
        i = len(self.selections)
        p = np.asarray(p, dtype=float)
        if self.replay is not None and i < len(self.replay.selections) \
                and self.replay.selections[i][0].size == p.size:
            idx = self.replay.selections[i][1]
        else:
            idx = int(self.rs.choice(p.size, p=p))
        self.selections.append((p, idx))
        return idx


def run(data, rec, **kw):
    old = np.random.normal, np.random.choice
    np.random.normal, np.random.choice = rec.normal, rec.choice
    try:
        with contextlib.redirect_stdout(io.StringIO()):
            adaptive_grid.adagrid(data, **kw)
    finally:
        np.random.normal, np.random.choice = old
    return rec


def account(A, B):
    """privacy cost (zCDP) of the common outcome, and a list of complaints"""
    cost, why = 0.0, []
    if len(A.releases) != len(B.releases):
        why.append('number of releases differs: %d vs %d' % (len(A.releases), len(B.releases)))
    for i, ((oa, sa, ya), (ob, sb, yb)) in enumerate(zip(A.releases, B.releases)):
        if oa.shape != ob.shape or sa != sb:
            why.append('release %d: the measured query set depends on the private data '
                       '(%d rows at scale %.6g on D, %d rows at scale %.6g on D\')'
                       % (i, oa.size, sa, ob.size, sb))
            cost = np.inf
        else:
            cost += float(((oa - ob) ** 2).sum()) / (2 * sa ** 2)
    if len(A.selections) != len(B.selections):
        why.append('number of selections differs')
    for i, ((pa, ia), (pb, ib)) in enumerate(zip(A.selections, B.selections)):
        if pa.size != pb.size:
            why.append('selection %d: candidate set differs' % i)
            cost = np.inf
        else:
            lr = np.log(pa) - np.log(pb)
            cost += float(lr.max() - lr.min()) ** 2 / 8
    return cost, why


def dataset(rows, dom):
    df = pd.DataFrame(rows, columns=list(dom.attrs))
    return Dataset(df, dom)


def base_rows():
    # attribute a: value 0 occurs exactly 10 times, value 1: 60, value 2: 90
    rs = np.random.RandomState(7)
    a = np.array([0] * 10 + [1] * 60 + [2] * 90)
    b = rs.randint(0, 4, a.size)
    c = (a + rs.randint(0, 2, a.size)) % 2
    return np.stack([a, b, c], axis=1)


def main():
    dom = Domain(['a', 'b', 'c'], [3, 4, 2])
    rows = base_rows()
    eps, delta = 1.0, 1e-9
    rho = cdp_rho(eps, delta)

    def sigma1(n_marginals, frac):
        return np.sqrt(0.5 / (rho * frac)) * np.sqrt(n_marginals)

    scenarios = []
    # 1. the added record lands in a well populated cell: nothing is near the threshold
    scenarios.append(('far-from-threshold', dict(threshold=10.5 / sigma1(3, 1 / 3.)),
                      [2, 1, 0], 11))
    # 2. the added record lifts the count of a=0 from 10 to 11, across sigma*threshold = 10.5
    scenarios.append(('count-crosses-threshold', dict(threshold=10.5 / sigma1(3, 1 / 3.)),
                      [0, 2, 1], 12))
    # 3. same neighbours, non-default budget split
    scenarios.append(('crossing+split', dict(threshold=10.5 / sigma1(3, 0.1),
                                              split_strategy=[0.1, 0.1, 0.8]),
                      [0, 0, 0], 13))
    # 4. a target column: step 1 also measures (a,c), (b,c); a=0,c=1 count crosses
    cnt = int(((rows[:, 0] == 0) & (rows[:, 2] == 1)).sum())
    scenarios.append(('target-column', dict(threshold=(cnt + 0.5) / sigma1(5, 1 / 3.),
                                             targets=['c']),
                      [0, 3, 1], 14))

    ok, lines = True, []
    h = hashlib.sha256()
    for name, kw, extra, seed in scenarios:
        D = dataset(rows, dom)
        D2 = dataset(np.vstack([rows, [extra]]), dom)
        kw = dict(kw, epsilon=eps, delta=delta, iters=25)
        A = run(D, Recorder(seed), **kw)
        B = run(D2, Recorder(seed + 1000, replay=A), **kw)
        cost, why = account(A, B)
        for op, s, y in A.releases:
            h.update(np.round(y, 6).tobytes())
            h.update(('%.9g' % s).encode())
        for p, i in A.selections:
            h.update(np.round(p, 9).tobytes())
            h.update(bytes([i]))
        good = (not why) and cost <= rho * (1 + 1e-6)
        ok &= good
        lines.append('%-24s releases=%2d selections=%d cost/rho=%s  %s'
                     % (name, len(A.releases), len(A.selections),
                        ('%.6f' % (cost / rho)) if np.isfinite(cost) else 'inf',
                        'ok' if good else 'VIOLATION'))
        for w in why:
            lines.append('      ' + w)
    print('\n'.join(lines))
    if ok:
        print('digest', h.hexdigest()[:24])
        print('PASS')
        return 0
    print('FAIL: for two neighbouring datasets and one and the same sequence of released '
          'values, Adaptive Grid measured different query sets (its plausible-cell masks '
          'were computed from exact counts), so the outcome has unbounded privacy cost '
          '> rho=%.6g' % rho)
    return 1


if __name__ == '__main__':
    sys.exit(main())

"""C05 / round 5 / pair 2 -- MWEM+PGM: the selection step of every round must be paid in the
unit of the mechanism's ledger (epsilon for noise='laplace', rho for noise='gaussian').

Accounting (output coupling, as the property charges "by the actual change"):
  run A executes mwem_pgm on D with seeded noise and records every release (operand added to
        the noise vector, noise scale, released vector) and every selection (probabilities,
        chosen index);
  run B executes mwem_pgm on a neighbour D' and is forced onto the same outcome: each noise
        draw is chosen such that the released vector equals run A's, each selection returns
        run A's index.
Cost of that outcome
  noise='laplace'  (pure DP, budget epsilon):
        sum ||op_A - op_B||_1 / b  +  sum max|log pA - log pB|
  noise='gaussian' (zCDP, budget rho = cdp_rho(epsilon, delta)):
        sum ||op_A - op_B||_2^2 / (2 sigma^2)  +  sum (range(log pA - log pB))^2 / 8
"""
import os, sys, io, hashlib, contextlib, warnings, importlib.util

if os.environ.get('PYTHONHASHSEED') != '0':
    os.environ['PYTHONHASHSEED'] = '0'
    os.execv(sys.executable, [sys.executable] + sys.argv)

ROOT = os.path.dirname(os.path.dirname(os.path.dirname(os.path.abspath(__file__))))
sys.path.insert(0, ROOT)
sys.path.insert(0, os.path.join(ROOT, 'src'))
warnings.filterwarnings('ignore')

import numpy as np
import pandas as pd
import mbi
assert os.path.abspath(mbi.__file__).startswith(ROOT), mbi.__file__
from mbi import Dataset, Domain, GraphicalModel
from mechanisms.cdp2adp import cdp_rho

spec = importlib.util.spec_from_file_location('mwem_pgm_mod', os.path.join(ROOT, 'mechanisms', 'mwem+pgm.py'))
mwem = importlib.util.module_from_spec(spec)
spec.loader.exec_module(mwem)

GraphicalModel.synthetic_data = lambda self, *a, **k: None   # always raises under pandas 3


class Noise(np.ndarray):
    __array_priority__ = 1000

    def __radd__(self, operand):
        return self.hook(np.asarray(operand, dtype=float), self)

    __add__ = __radd__


class Recorder:
    def __init__(self, seed, replay=None):
        self.rs = np.random.RandomState(seed)
        self.replay = replay
        self.releases = []       # (kind, operand, scale, y)
        self.selections = []     # (p, idx)

    def _draw(self, kind, loc, scale, size):
        vals = getattr(self.rs, kind)(loc, scale, size)
        out = np.asarray(vals).view(Noise)
        out.hook = lambda operand, nz, scale=float(scale): self._release(kind, operand, nz, scale)
        return out

    def normal(self, loc=0.0, scale=1.0, size=None):
        return self._draw('normal', loc, scale, size)

    def laplace(self, loc=0.0, scale=1.0, size=None):
        return self._draw('laplace', loc, scale, size)

    def _release(self, kind, operand, nz, scale):
        i = len(self.releases)
        y = operand + np.asarray(nz)
        if self.replay is not None and i < len(self.replay.releases):
            yA = self.replay.releases[i][3]
            if yA.shape == y.shape:
                y = yA.copy()
        self.releases.append((kind, operand, scale, y))
        return y

    def choice(self, n, size=None, replace=True, p=None):
        i = len(self.selections)
        p = np.asarray(p, dtype=float)
        if self.replay is not None and i < len(self.replay.selections) \
                and self.replay.selections[i][0].size == p.size:
            idx = self.replay.selections[i][1]
        else:
            idx = int(self.rs.choice(p.size, p=p))
        self.selections.append((p, idx))
        return idx


def run(data, rec, **kw):
    old = np.random.normal, np.random.laplace, np.random.choice
    np.random.normal, np.random.laplace, np.random.choice = rec.normal, rec.laplace, rec.choice
    try:
        with contextlib.redirect_stdout(io.StringIO()):
            mwem.mwem_pgm(data, **kw)
    finally:
        np.random.normal, np.random.laplace, np.random.choice = old
    return rec


def account(A, B, pure):
    meas, sel, why = 0.0, 0.0, []
    if len(A.releases) != len(B.releases) or len(A.selections) != len(B.selections):
        why.append('number of releases / selections differs')
    for i, ((ka, oa, sa, ya), (kb, ob, sb, yb)) in enumerate(zip(A.releases, B.releases)):
        if oa.shape != ob.shape or sa != sb or ka != kb:
            why.append('release %d differs in shape / scale / noise kind' % i)
            meas = np.inf
        elif pure:
            if ka != 'laplace':
                why.append('release %d: gaussian noise in a pure-DP run' % i)
                meas = np.inf
            meas += float(np.abs(oa - ob).sum()) / sa
        else:
            if ka != 'normal':
                why.append('release %d: laplace noise in a zCDP run' % i)
                meas = np.inf
            meas += float(((oa - ob) ** 2).sum()) / (2 * sa ** 2)
    for i, ((pa, ia), (pb, ib)) in enumerate(zip(A.selections, B.selections)):
        if pa.size != pb.size:
            why.append('selection %d: candidate set differs' % i)
            sel = np.inf
            continue
        lr = np.log(pa) - np.log(pb)
        sel += float(np.abs(lr).max()) if pure else float(lr.max() - lr.min()) ** 2 / 8
    return meas, sel, why


def dataset(rows, dom):
    return Dataset(pd.DataFrame(rows, columns=list(dom.attrs)), dom)


def base_rows():
    rs = np.random.RandomState(3)
    a = rs.randint(0, 3, 120)
    b = (a + rs.randint(0, 2, 120)) % 4
    c = (b + rs.randint(0, 2, 120)) % 2
    d = rs.randint(0, 3, 120)
    return np.stack([a, b, c, d], axis=1)


def main():
    dom = Domain(['a', 'b', 'c', 'd'], [3, 4, 2, 3])
    rows = base_rows()
    added = np.vstack([rows, [[2, 0, 1, 1]]])            # add one record
    replaced = rows.copy(); replaced[5] = [(rows[5, 0] + 1) % 3, (rows[5, 1] + 2) % 4, 1 - rows[5, 2], rows[5, 3]]

    scenarios = [
        # name, kwargs, neighbour rows, seed
        ('gaussian/unbounded eps=1', dict(epsilon=1.0, delta=1e-9), added, 21),
        ('gaussian/bounded   eps=1', dict(epsilon=1.0, delta=1e-9, bounded=True), replaced, 22),
        ('gaussian/unbounded eps=8 rounds=2', dict(epsilon=8.0, delta=1e-6, rounds=2), added, 23),
        ('laplace/unbounded  eps=1', dict(epsilon=1.0, noise='laplace'), added, 24),
        ('laplace/unbounded  eps=0.3 rounds=5 alpha=0.5', dict(epsilon=0.3, noise='laplace', rounds=5, alpha=0.5), added, 25),
        ('laplace/bounded    eps=2', dict(epsilon=2.0, noise='laplace', bounded=True), replaced, 26),
    ]
    ok, lines = True, []
    h = hashlib.sha256()
    for name, kw, nb, seed in scenarios:
        pure = kw.get('noise') == 'laplace'
        budget = kw['epsilon'] if pure else cdp_rho(kw['epsilon'], kw['delta'])
        kw = dict(kw, pgm_iters=40)
        A = run(dataset(rows, dom), Recorder(seed), **kw)
        B = run(dataset(nb, dom), Recorder(seed + 1000, replay=A), **kw)
        meas, sel, why = account(A, B, pure)
        for k, op, s, y in A.releases:
            h.update(np.round(y, 6).tobytes()); h.update(('%s %.9g' % (k, s)).encode())
        for p, i in A.selections:
            h.update(np.round(p, 9).tobytes()); h.update(bytes([i]))
        total = meas + sel
        good = (not why) and total <= budget * (1 + 1e-6)
        ok &= good
        lines.append('%-46s rounds=%d  measure=%.4f select=%.4f  total/budget=%.4f (%s)  %s'
                     % (name, len(A.selections), meas / budget, sel / budget, total / budget,
                        'epsilon' if pure else 'rho', 'ok' if good else 'VIOLATION'))
        lines.extend('      ' + w for w in why)
    print('\n'.join(lines))
    if ok:
        print('digest', h.hexdigest()[:24])
        print('PASS')
        return 0
    print('FAIL: with noise="laplace" (pure epsilon-DP ledger) the selection probabilities of '
          'MWEM+PGM move more between two neighbouring datasets than the (1-alpha) share of '
          'epsilon/rounds allows; measurement + selection exceed epsilon')
    return 1


if __name__ == '__main__':
    sys.exit(main())

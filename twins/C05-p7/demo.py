"""C05 / round 6 / pair 1 -- MST: the exponential mechanism's sampler in the tail regime.

Coupled-run privacy accountant for mechanisms/mst.py.

Part A audits MST() end to end: the mechanism is run on D (recording every noisy
marginal and every selected edge) and on a neighbour D' = D + one record while
replaying the same outcomes.  Gaussian releases are charged |dx|_2^2/(2 s^2),
every private selection eps_t^2/8 with eps_t = max_i |log p_i(D) - log p_i(D')|
(infinite if a candidate is possible on one dataset and impossible on the other).
The total must stay within rho = cdp_rho(epsilon, delta).

Part B audits select() on its own at budgets that put low-ranked candidate edges
at selection probabilities around 1e-6 ... 1e-15 -- the regime MST is in for any
realistic (n, epsilon), e.g. adult at epsilon = 1 -- again on neighbouring datasets.
"""
import os, sys, io, hashlib, contextlib, itertools
ROOT = os.path.dirname(os.path.dirname(os.path.dirname(os.path.abspath(__file__))))
sys.path.insert(0, ROOT)
sys.path.insert(0, os.path.join(ROOT, 'src'))
import warnings
warnings.filterwarnings('ignore')
import numpy as np
import pandas as pd
from scipy.special import softmax
import mbi
from mbi import Dataset, Domain
from mechanisms import mst
from mechanisms.cdp2adp import cdp_rho

assert os.path.realpath(mbi.__file__).startswith(os.path.realpath(ROOT)), mbi.__file__
assert os.path.realpath(mst.__file__).startswith(os.path.realpath(ROOT)), mst.__file__
TOL = 1e-7


class Stop(Exception):
    pass


class Tape:
    def __init__(self, mode, other=None):
        self.mode, self.other = mode, other
        self.sel = []       # (q, eps, p, idx) of every exponential mechanism call
        self.rel = []       # (clique, true vector, scale) of every Gaussian release
        self.logs = []      # measurement logs as returned by measure()


class CachedInference:
    """Private-PGM is pure post-processing of the measurement log: memoise it on the log
    (replayed runs hand it the very same log) so that the audit stays fast."""
    cache = {}
    def __init__(self, domain, **kw):
        self.domain, self.kw = domain, kw
    def estimate(self, log):
        h = hashlib.sha256(repr((self.domain.attrs, self.domain.shape, sorted(self.kw.items()))).encode())
        for Q, y, s, cl in log:
            h.update(repr((tuple(cl), float(s), Q.shape)).encode())
            h.update(np.ascontiguousarray(Q.toarray()).tobytes())
            h.update(np.ascontiguousarray(y, dtype=float).tobytes())
        key = h.hexdigest()
        if key not in self.cache:
            self.cache[key] = REAL_INFERENCE(self.domain, **self.kw).estimate(log)
        return self.cache[key]


REAL_INFERENCE = mst.FactoredInference
mst.FactoredInference = CachedInference


@contextlib.contextmanager
def instrumented(tape, stop_after_measures=None):
    real_choice, real_normal = np.random.choice, np.random.normal
    real_measure, real_em = mst.measure, mst.exponential_mechanism
    scales, pvec = [], []

    def choice(a, size=None, replace=True, p=None):
        idx = real_choice(a, size, replace, p)
        if p is not None and size is None:
            pvec.append(np.array(p, dtype=float))
            if tape.mode == 'replay':
                idx = tape.other.sel[len(tape.sel)][3]
        return idx
    def normal(loc=0.0, scale=1.0, size=None):
        scales.append(float(scale))
        return real_normal(loc, scale, size)
    def em(q, eps, sensitivity, *a, **k):
        assert sensitivity == 1.0 and not a and not k
        idx = real_em(q, eps, sensitivity)
        tape.sel.append((np.array(q, dtype=float), float(eps), pvec.pop(), int(idx)))
        assert not pvec
        return idx
    def measure(data, cliques, sigma, weights=None):
        del scales[:]
        log = real_measure(data, cliques, sigma, weights)
        assert len(scales) == len(log) == len(cliques)
        for cl, s in zip(cliques, scales):
            tape.rel.append((tuple(cl), data.project(cl).datavector(), s))
        if tape.mode == 'replay':          # same released outcome on the neighbour
            rec = tape.other.logs[len(tape.logs)]
            log = [(Q, y0, s, cl) for (Q, y, s, cl), (_, y0, _, _) in zip(log, rec)]
        tape.logs.append(log)
        if stop_after_measures is not None and len(tape.logs) == stop_after_measures:
            raise Stop()
        return log

    np.random.choice, np.random.normal = choice, normal
    mst.measure, mst.exponential_mechanism = measure, em
    try:
        with contextlib.redirect_stdout(io.StringIO()):
            yield
    except Stop:
        pass
    finally:
        np.random.choice, np.random.normal = real_choice, real_normal
        mst.measure, mst.exponential_mechanism = real_measure, real_em


def selection_costs(t1, t2):
    out = []
    assert len(t1.sel) == len(t2.sel)
    for (q, e, p, i), (q2, e2, p2, i2) in zip(t1.sel, t2.sel):
        assert i == i2 and e == e2 and p.size == p2.size
        with np.errstate(divide='ignore', invalid='ignore'):
            lr = np.abs(np.log(p) - np.log(p2))
        lr[(p == 0) & (p2 == 0)] = 0.0
        out.append((e, float(np.max(lr)), int(np.sum((p == 0) != (p2 == 0)))))
    return out


def release_cost(t1, t2):
    tot = 0.0
    assert len(t1.rel) == len(t2.rel)
    for (cl, x, s), (cl2, x2, s2) in zip(t1.rel, t2.rel):
        assert cl == cl2 and s == s2 and x.size == x2.size
        tot += float((x - x2) @ (x - x2)) / (2 * s * s)
    return tot


def fmt(x):
    return 'inf' if not np.isfinite(x) else '%.6f' % x


def audit_mst(name, D, D2, epsilon, delta, seed, out):
    t1 = Tape('record')
    np.random.seed(seed)
    with instrumented(t1, stop_after_measures=2):
        mst.MST(D, epsilon, delta)
    t2 = Tape('replay', t1)
    np.random.seed(seed + 1)
    with instrumented(t2, stop_after_measures=2):
        mst.MST(D2, epsilon, delta)
    rho = cdp_rho(epsilon, delta)
    sel = selection_costs(t1, t2)
    spent = release_cost(t1, t2) + sum(a * a / 8 for _, a, _ in sel)
    out.append('%s releases=%d selections=%d worst eps_sel/charged=%s spent/budget=%s' % (
        name, len(t1.rel), len(sel), fmt(max(a / e for e, a, _ in sel)), fmt(spent / rho)))
    return spent <= rho * (1 + TOL), spent / rho


def audit_select(name, D, D2, log, rho, seed, out):
    t1 = Tape('record')
    np.random.seed(seed)
    with instrumented(t1):
        mst.select(D, rho, log)
    t2 = Tape('replay', t1)
    np.random.seed(seed + 1)
    with instrumented(t2):
        mst.select(D2, rho, log)
    sel = selection_costs(t1, t2)
    spent = sum(a * a / 8 for _, a, _ in sel)
    flips = sum(f for _, _, f in sel)
    out.append('%s rounds=%d worst eps_sel/charged=%s candidates possible on one side only=%d spent/budget=%s' % (
        name, len(sel), fmt(max(a / e for e, a, _ in sel)), flips, fmt(spent / rho)))
    return spent <= rho * (1 + TOL), spent / rho


def make_data(domain, n, seed):
    rng = np.random.RandomState(seed)
    a = rng.choice(3, n, p=[0.6, 0.3, 0.1])
    b = np.where(rng.rand(n) < 0.8, (a + 1) % 4, rng.choice(4, n))
    c = rng.choice(2, n, p=[0.7, 0.3])
    d = np.where(rng.rand(n) < 0.5, 2 * c + (a % 2), rng.choice(5, n))
    e = np.where(rng.rand(n) < 0.15, a, rng.choice(3, n))
    return np.stack([a, b, c, d, e], axis=1)


def dataset(rows, domain):
    return Dataset(pd.DataFrame(rows, columns=list(domain.attrs)), domain)


def main():
    domain = Domain(['a', 'b', 'c', 'd', 'e'], [3, 4, 2, 5, 3])
    base = make_data(domain, 2000, 7)
    D = dataset(base, domain)
    neighbours = [(0, 1, 0, 0, 0), (2, 0, 1, 4, 2), (1, 3, 0, 2, 1), (0, 0, 1, 1, 2), (2, 2, 0, 3, 0), (1, 1, 1, 0, 1)]
    out, failures = [], []

    # ---- Part A: MST end to end --------------------------------------------------------
    for k, (epsilon, delta, rec) in enumerate([(1.0, 1e-9, neighbours[0]), (0.1, 1e-6, neighbours[1]), (5.0, 1e-9, neighbours[2])]):
        D2 = dataset(np.vstack([base, rec]), domain)
        name = 'A%d[MST eps=%g delta=%g +%s]' % (k + 1, epsilon, delta, ''.join(map(str, rec)))
        ok, ratio = audit_mst(name, D, D2, epsilon, delta, 10 + k, out)
        if not ok:
            failures.append('%s: accumulated cost is %s x the budget' % (name, fmt(ratio)))

    # ---- Part B: select() in the tail regime --------------------------------------------
    np.random.seed(3)
    cliques = [(c,) for c in domain.attrs]
    log = mst.measure(D, cliques, 5.0)
    probe = Tape('record')
    np.random.seed(4)
    with instrumented(probe):
        mst.select(D, 1e-3, log)
    q = probe.sel[0][0]                      # first-round scores of the candidate edges
    r = len(domain.attrs)
    order = np.argsort(-q)
    out.append('B  first-round score gaps to the best edge: ' + ' '.join('%.1f' % (q[order[0]] - q[i]) for i in order[1:]))
    k = 0
    for tail in (1e-6, 1e-9, 1e-12, 1e-15):
        for rank in (2, 4):
            # per-round epsilon at which the rank-th edge has selection probability 1.02*tail
            i = order[rank]
            lo, hi = 1e-6, 10.0
            for _ in range(200):
                mid = 0.5 * (lo + hi)
                if softmax(0.5 * mid * (q - q.max()))[i] > 1.02 * tail:
                    lo = mid
                else:
                    hi = mid
            rho = (r - 1) * lo ** 2 / 8
            worst = None
            for rec in neighbours:
                k += 1
                D2 = dataset(np.vstack([base, rec]), domain)
                name = 'B%02d[select tail=%g rank=%d eps_round=%.5f +%s]' % (k, tail, rank, lo, ''.join(map(str, rec)))
                ok, ratio = audit_select(name, D, D2, log, rho, 50 + k, out)
                if not ok:
                    failures.append('%s: accumulated cost is %s x the budget' % (name, fmt(ratio)))

    text = '\n'.join(out)
    print(text)
    print('digest', hashlib.sha256(text.encode()).hexdigest()[:16])
    if failures:
        print('FAIL: MST\'s private edge selection costs more than the budget it is charged:')
        for f in failures[:12]:
            print('   ', f)
        if len(failures) > 12:
            print('    ... and %d more' % (len(failures) - 12))
        print('   (a candidate edge can be selected on one dataset and cannot be selected at all on its neighbour,')
        print('    so no finite epsilon bounds that round of the exponential mechanism)')
        sys.exit(1)
    print('PASS')


if __name__ == '__main__':
    main()

"""C05 / round 6 / pair 2 -- MWEM+PGM: which model total the selection step may see.

Coupled-run privacy accountant for mechanisms/mwem+pgm.py.

For every configuration the mechanism is run on a dataset D (recording every
random outcome it produces: selected candidate, noisy marginal) and then on a
neighbouring dataset D' while *replaying those same outcomes*.  Every private
selection is charged by the actual change of its probability vector
(eps_t = max_i |log p_i(D) - log p_i(D')|, i.e. eps_t^2/8 zCDP), every noisy
release by the actual change of the released marginal (Gaussian:
|dx|_2^2/(2 s^2) zCDP, Laplace: |dx|_1/b pure DP).  The total must not exceed
the budget implied by (epsilon, delta).
"""
import os, sys, io, hashlib, importlib.util, contextlib, itertools
ROOT = os.path.dirname(os.path.dirname(os.path.dirname(os.path.abspath(__file__))))
sys.path.insert(0, ROOT)
sys.path.insert(0, os.path.join(ROOT, 'src'))
import warnings
warnings.filterwarnings('ignore')
import numpy as np
import pandas as pd
import mbi
from mbi import Dataset, Domain, FactoredInference, GraphicalModel
from mechanisms.cdp2adp import cdp_rho

assert os.path.realpath(mbi.__file__).startswith(os.path.realpath(ROOT)), mbi.__file__
spec = importlib.util.spec_from_file_location('mwem_pgm_mod', os.path.join(ROOT, 'mechanisms', 'mwem+pgm.py'))
mwem = importlib.util.module_from_spec(spec)
spec.loader.exec_module(mwem)

TOL = 1e-7


class Tape:
    """records (mode='record') or replays (mode='replay') the random outcomes"""
    def __init__(self, mode, other=None):
        self.mode, self.other = mode, other
        self.sel = []      # (p, idx)
        self.noise = []    # (kind, scale, size)
        self.ys = []       # noisy marginals handed to Private-PGM, in order

def run(data, tape, **kw):
    real_choice, real_normal, real_laplace = np.random.choice, np.random.normal, np.random.laplace
    real_est, real_syn = FactoredInference.estimate, GraphicalModel.synthetic_data

    def choice(a, size=None, replace=True, p=None):
        k = len(tape.sel)
        idx = real_choice(a, size, replace, p)
        if tape.mode == 'replay':
            idx = tape.other.sel[k][1]
        tape.sel.append((np.array(p, dtype=float), int(idx)))
        return idx
    def normal(loc=0.0, scale=1.0, size=None):
        tape.noise.append(('gaussian', float(scale), int(size)))
        return real_normal(loc, scale, size)
    def laplace(loc=0.0, scale=1.0, size=None):
        tape.noise.append(('laplace', float(scale), int(size)))
        return real_laplace(loc, scale, size)
    def estimate(self, measurements, total=None, *a, **k):
        ms = []
        for j, (Q, y, s, cl) in enumerate(measurements):
            if tape.mode == 'replay':
                y = tape.other.ys[j]          # same released outcome on D'
            elif j == len(tape.ys):
                tape.ys.append(np.array(y))
            ms.append((Q, y, s, cl))
        return real_est(self, ms, total, *a, **k)

    np.random.choice, np.random.normal, np.random.laplace = choice, normal, laplace
    FactoredInference.estimate = estimate
    GraphicalModel.synthetic_data = lambda self, *a, **k: None
    try:
        with contextlib.redirect_stdout(io.StringIO()):
            mwem.mwem_pgm(data, **kw)
    finally:
        np.random.choice, np.random.normal, np.random.laplace = real_choice, real_normal, real_laplace
        FactoredInference.estimate, GraphicalModel.synthetic_data = real_est, real_syn


def account(D, D2, workload, epsilon, delta, noise, bounded, rounds, alpha, seed):
    kw = dict(epsilon=epsilon, delta=delta, workload=workload, rounds=rounds, pgm_iters=40,
              noise=noise, bounded=bounded, alpha=alpha)
    t1 = Tape('record')
    np.random.seed(seed); run(D, t1, **kw)
    t2 = Tape('replay', t1)
    np.random.seed(seed + 1); run(D2, t2, **kw)
    assert len(t1.sel) == len(t2.sel) == rounds and len(t1.noise) == len(t2.noise) == rounds
    rows = []
    for t in range(rounds):
        (p, i), (p2, i2) = t1.sel[t], t2.sel[t]
        assert i == i2 and p.size == p2.size
        with np.errstate(divide='ignore', invalid='ignore'):
            lr = np.abs(np.log(p) - np.log(p2))
        lr[(p == 0) & (p2 == 0)] = 0.0
        e_sel = float(np.max(lr))          # actual change of the selection probabilities
        kind, s, n = t1.noise[t]
        assert t2.noise[t] == (kind, s, n), 'noise scale must not depend on the data'
        rows.append((t, e_sel, kind, s, n))
    return rows


def audit(name, D, D2, workload, epsilon, delta, noise, bounded, rounds, alpha, seed, out):
    # record the clique selected in every round by wrapping worst_approximated
    chosen = []
    real_wa = mwem.worst_approximated
    def wa(workload_answers, est, cands, eps, penalty=True, bounded=False):
        ax = real_wa(workload_answers, est, cands, eps, penalty, bounded)
        chosen.append((tuple(ax), list(cands)))
        return ax
    mwem.worst_approximated = wa
    try:
        rows = account(D, D2, workload, epsilon, delta, noise, bounded, rounds, alpha, seed)
    finally:
        mwem.worst_approximated = real_wa
    first, second = chosen[:rounds], chosen[rounds:]
    assert [c for c, _ in first] == [c for c, _ in second], 'replay diverged'
    assert [c for _, c in first] == [c for _, c in second], 'candidate sets must not depend on the data'
    zcdp = pure = 0.0
    for (t, e_sel, kind, s, n), (ax, _) in zip(rows, first):
        dx = D.project(ax).datavector() - D2.project(ax).datavector()
        assert dx.size == n
        if kind == 'gaussian':
            rel = float(dx @ dx) / (2 * s * s); zcdp += rel + e_sel ** 2 / 8
        else:
            rel = float(np.abs(dx).sum()) / s; pure += rel + e_sel
        out.append('%s round %d select %s eps_sel=%.6f release(%s)=%.6f' % (name, t + 1, '-'.join(ax), e_sel, kind, rel))
    if noise == 'gaussian':
        budget, spent, unit = cdp_rho(epsilon, delta), zcdp, 'rho'
    else:
        budget, spent, unit = epsilon, pure, 'eps'
    out.append('%s spent/budget (%s) = %.6f' % (name, unit, spent / budget))
    return spent <= budget * (1 + TOL), spent / budget


def dataset(rows, domain):
    return Dataset(pd.DataFrame(rows, columns=list(domain.attrs)), domain)


def main():
    domain = Domain(['a', 'b', 'c', 'd'], [2, 3, 8, 2])
    workload = list(itertools.combinations(domain.attrs, 2))
    rng = np.random.RandomState(238)
    ws = rng.choice([0.1, 0.5, 2.0], 4)
    probs = [rng.dirichlet(np.ones(n) * w) for n, w in zip(domain.shape, ws)]
    N = rng.randint(15, 60)
    base = np.array([[rng.choice(n, p=q) for n, q in zip(domain.shape, probs)] for _ in range(N)])
    extra = [np.array(r) for r in EXTRA]
    out, failures = [], []
    k = 0
    for rec in extra:
        D = dataset(base, domain)
        Dadd = dataset(np.vstack([base, rec]), domain)          # add/remove neighbour
        Drep = dataset(np.vstack([base[:-1], rec]), domain)     # replace-one neighbour
        for noise, bounded, rounds, alpha in CONFIGS:
            k += 1
            name = 'cfg%02d[%s,%s,T=%d,a=%.1f,+%s]' % (k, noise, 'bounded' if bounded else 'unbounded', rounds, alpha, ''.join(map(str, rec)))
            ok, ratio = audit(name, D, Drep if bounded else Dadd, workload, 1.0, 1e-6, noise, bounded, rounds, alpha, 100 + k, out)
            if not ok:
                failures.append('%s: accumulated privacy cost is %.4f x the budget' % (name, ratio))
    text = '\n'.join(out)
    print(text)
    print('digest', hashlib.sha256(text.encode()).hexdigest()[:16])
    if failures:
        print('FAIL: MWEM+PGM spends more than its (epsilon, delta) budget on neighbouring datasets:')
        for f in failures:
            print('   ', f)
        print('   (a selection step reacts to the neighbour more strongly than the sensitivity it is charged for:')
        print('    the model it scores against already depends on the private data beyond the noisy releases)')
        sys.exit(1)
    print('PASS')


CONFIGS = [('gaussian', False, 1, 0.9), ('gaussian', False, 2, 0.5), ('laplace', False, 1, 0.9),
           ('gaussian', True, 2, 0.9), ('laplace', True, 1, 0.5), ('gaussian', False, 3, 0.9)]
EXTRA = [(1, 1, 3, 0), (0, 0, 0, 0), (1, 2, 7, 1)]

if __name__ == '__main__':
    main()

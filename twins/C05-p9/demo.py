"""C05 / round 7 / pair 1 -- AIM: the ledger entry for the initial one-way releases.

Runs AIM end-to-end on a few small datasets / workloads / `rounds` settings,
records every Gaussian release (scale handed to numpy.random.normal) and every
private selection (epsilon handed to the exponential mechanism) and adds up the
zCDP cost of what was ACTUALLY released:

    sum over Gaussian releases of 1/(2 sigma^2)   (identity queries on one
                                                   marginal, add/remove one
                                                   record => Delta_2 = 1)
  + sum over selections of eps^2/8

and compares it with rho = cdp_rho(epsilon, delta).
"""
import os, sys, io, hashlib, contextlib, warnings

# aim.downward_closure() orders the candidates by iterating a set of string tuples:
# pin the string hash seed so that the run (and the digest) is reproducible
if os.environ.get('PYTHONHASHSEED') != '0':
    os.environ['PYTHONHASHSEED'] = '0'
    os.execv(sys.executable, [sys.executable] + sys.argv)

ROOT = os.path.dirname(os.path.dirname(os.path.dirname(os.path.abspath(__file__))))
sys.path.insert(0, '/tmp/stubs')
sys.path.insert(0, ROOT)
sys.path.insert(0, os.path.join(ROOT, 'src'))

import numpy as np
import pandas as pd
import mbi
assert os.path.abspath(mbi.__file__).startswith(os.path.join(ROOT, 'src')), mbi.__file__
from mbi import Dataset, Domain, GraphicalModel
import mechanisms.aim as aim
from mechanisms.mechanism import Mechanism

warnings.filterwarnings('ignore')

# synthetic_data() is broken under pandas 3 and is pure post-processing anyway
GraphicalModel.synthetic_data = lambda self, rows=None, method='round': None


class FastInference(mbi.FactoredInference):
    """same engine, fewer iterations (keeps the demo quick)"""
    def __init__(self, domain, iters=1000, **kw):
        super().__init__(domain, iters=60, **kw)
    iters = property(lambda self: 60, lambda self, value: None)

aim.FactoredInference = FastInference


def make_data(seed, shape, n):
    prng = np.random.RandomState(seed)
    attrs = ['A', 'B', 'C', 'D', 'E'][:len(shape)]
    cols = {}
    base = prng.randint(0, shape[0], n)
    for a, k in zip(attrs, shape):
        noise = prng.randint(0, k, n)
        keep = prng.rand(n) < 0.6
        cols[a] = np.where(keep, base % k, noise)
    return Dataset(pd.DataFrame(cols), Domain(attrs, shape))


def run(name, data, workload, epsilon, delta, rounds, seed):
    releases = []     # (scale, size)
    selections = []   # epsilon of each exponential-mechanism call
    chosen = []

    orig_normal = np.random.normal
    orig_em = Mechanism.exponential_mechanism

    def normal(loc=0.0, scale=1.0, size=None):
        releases.append((float(scale), int(size)))
        return orig_normal(loc, scale, size)

    def em(self, qualities, epsilon, sensitivity=1.0, base_measure=None):
        selections.append(float(epsilon))
        ans = orig_em(self, qualities, epsilon, sensitivity, base_measure)
        chosen.append(ans)
        return ans

    np.random.seed(seed)
    np.random.normal = normal
    Mechanism.exponential_mechanism = em
    try:
        mech = aim.AIM(epsilon, delta, rounds=rounds, max_model_size=1.0)
        with contextlib.redirect_stdout(io.StringIO()):
            mech.run(data, [(cl, 1.0) for cl in workload])
    finally:
        np.random.normal = orig_normal
        Mechanism.exponential_mechanism = orig_em

    gauss = sum(0.5 / s**2 for s, _ in releases)
    sel = sum(e**2 / 8.0 for e in selections)
    spent = gauss + sel
    ratio = spent / mech.rho
    ok = spent <= mech.rho * (1 + 1e-9)
    line = '%-22s releases=%2d selections=%2d spent/rho=%.9f first_sigma=%.6f chosen=%s' % (
        name, len(releases), len(selections), ratio, releases[0][0],
        ','.join(''.join(c) for c in chosen))
    return ok, line, ratio


def main():
    d3 = make_data(1, (3, 4, 2), 400)
    d4 = make_data(2, (2, 3, 2, 3), 600)
    d5 = make_data(3, (2, 2, 3, 2, 2), 500)
    cases = [
        ('3attr-allpairs', d3, [('A', 'B'), ('A', 'C'), ('B', 'C')], 1.0, 1e-6, 6, 11),
        ('4attr-allpairs', d4, [('A', 'B'), ('A', 'C'), ('A', 'D'), ('B', 'C'), ('B', 'D'), ('C', 'D')], 2.0, 1e-9, 10, 12),
        ('4attr-partial-wkld', d4, [('A', 'B'), ('B', 'C')], 0.5, 1e-6, 8, 13),
        ('5attr-triples', d5, [('A', 'B', 'C'), ('C', 'D', 'E')], 1.0, 1e-9, 12, 14),
        ('5attr-default-rounds', d5, [('A', 'B'), ('D', 'E')], 3.0, 1e-5, None, 15),
    ]
    lines, bad = [], []
    for c in cases:
        ok, line, ratio = run(*c)
        lines.append(line)
        if not ok:
            bad.append((c[0], ratio))
    for l in lines:
        print(l)
    digest = hashlib.sha256('\n'.join(lines).encode()).hexdigest()[:16]
    if bad:
        print('FAIL: AIM released more than its budget allows:')
        for name, ratio in bad:
            print('   %s: actual zCDP cost of the recorded releases and selections is %.4f x rho' % (name, ratio))
        print('   (the initial one-way marginals were released but never entered the rho_used ledger,')
        print('    so the adaptive rounds kept spending as if the whole budget were still available)')
        sys.exit(1)
    print('PASS digest=%s' % digest)
    sys.exit(0)


if __name__ == '__main__':
    main()

#!/usr/bin/env python
"""
C05 equivalence demo, refactoring 1 (mechanisms/adaptive_grid.py).

Runs the Adaptive Grid mechanism `adagrid` end-to-end on several small
datasets / configurations with fixed seeds and prints a deterministic digest
of every privacy-relevant event:

  * every numpy.random.normal call made by the mechanism (scale, size, hash of
    the returned noise),
  * every numpy.random.choice call (the probability vector of each private
    selection and the chosen index),
  * the measurement log handed to Private-PGM (clique, query-matrix shape and
    checksum, noisy answers y, sigma),
  * everything the mechanism printed,
  * selected marginals of the fitted model.

The SAME file must print byte-identical output on the unmodified code and on
the refactored code.

Environment shim (identical for both versions): the installed scipy does not
allow `Q.T = ...` on a csr_matrix, which adagrid does as an efficiency trick,
so `sparse.vstack` *as seen by the adaptive_grid module* returns a csr_matrix
subclass whose `.T` is settable.  GraphicalModel.synthetic_data() always raises
under pandas 3, so it is replaced by a function returning the model itself.
"""
import os, sys, io, hashlib, contextlib, warnings, types

# adagrid iterates over sets of attribute tuples (downward_closure), so the order of
# its releases depends on string hashing: pin it to make the digest reproducible.
if os.environ.get('PYTHONHASHSEED') != '0':
    os.environ['PYTHONHASHSEED'] = '0'
    os.execv(sys.executable, [sys.executable] + sys.argv)

HERE = os.path.dirname(os.path.abspath(__file__))
ROOT = os.path.abspath(os.path.join(HERE, '..', '..'))
sys.path[:0] = [os.path.join(ROOT, 'src'), ROOT, '/tmp/stubs']
warnings.simplefilter('ignore')

import numpy as np
import pandas as pd
from scipy import sparse
import mbi
assert os.path.abspath(mbi.__file__).startswith(ROOT), mbi.__file__
from mbi import Dataset, Domain, GraphicalModel, FactoredInference
from mechanisms import adaptive_grid as ag
assert os.path.abspath(ag.__file__).startswith(ROOT), ag.__file__

np.set_printoptions(precision=9, suppress=False, linewidth=200, threshold=10**6)

# ---------------------------------------------------------------- shims
class SettableT(sparse.csr_matrix):
    @property
    def T(self):
        if '_T_override' in self.__dict__:
            return self.__dict__['_T_override']
        return self.transpose()

    @T.setter
    def T(self, value):
        self.__dict__['_T_override'] = value


class SparseProxy(types.ModuleType):
    def __getattr__(self, name):
        return getattr(sparse, name)

    @staticmethod
    def vstack(blocks, *a, **k):
        return SettableT(sparse.vstack(blocks, *a, **k))


ag.sparse = SparseProxy('sparse_proxy')
GraphicalModel.synthetic_data = lambda self, *a, **k: self

LOG = []


def h(arr):
    arr = np.ascontiguousarray(np.asarray(arr, dtype=float))
    return hashlib.sha256(arr.tobytes()).hexdigest()[:16]


_normal, _choice = np.random.normal, np.random.choice


def normal(loc=0.0, scale=1.0, size=None):
    out = _normal(loc=loc, scale=scale, size=size)
    LOG.append('normal loc=%r scale=%r size=%r noise=%s' % (loc, float(scale), size, h(out)))
    return out


def choice(a, size=None, replace=True, p=None):
    out = _choice(a, size=size, replace=replace, p=p)
    LOG.append('choice a=%r idx=%r p=%s %s' % (a, out, h(p), np.round(np.asarray(p), 12)))
    return out


np.random.normal = normal
np.random.choice = choice


class LoggingFI(FactoredInference):
    def estimate(self, measurements, *a, **k):
        LOG.append('estimate with %d measurements' % len(measurements))
        for Q, y, sigma, cl in measurements:
            Qd = sparse.csr_matrix(Q)
            LOG.append('  meas cl=%r Q%r nnz=%d Qsum=%.9f Qhash=%s sigma=%r yhash=%s y=%s' % (
                cl, Qd.shape, Qd.nnz, Qd.sum(), h(Qd.toarray()), sigma, h(y), np.round(y, 6)))
        return super().estimate(measurements, *a, **k)


ag.FactoredInference = LoggingFI


# ---------------------------------------------------------------- data
def make_data(attrs, shape, n, seed, skew=False):
    rng = np.random.RandomState(seed)
    cols = {}
    for a, s in zip(attrs, shape):
        if skew:
            p = np.zeros(s)
            p[: max(1, s // 2)] = 1.0
            p[0] += 3.0
            p /= p.sum()
            cols[a] = rng.choice(s, n, p=p)
        else:
            cols[a] = rng.randint(0, s, n)
    dom = Domain(attrs, shape)
    return Dataset(pd.DataFrame(cols, columns=attrs), dom)


CASES = [
    dict(name='plain-3attr', data=make_data(['a', 'b', 'c'], [3, 4, 2], 200, 1),
         eps=1.0, delta=1e-6, threshold=3.0, kw=dict(iters=40)),
    dict(name='one-target-permuted-split', data=make_data(['c', 'a', 'd', 'b'], [2, 5, 3, 4], 500, 2),
         eps=2.5, delta=1e-9, threshold=5.0,
         kw=dict(targets=['c'], split_strategy=[0.1, 0.1, 0.8], iters=40, warm_start=True)),
    dict(name='skewed-two-targets', data=make_data(['x', 'b', 'a', 'z'], [6, 2, 3, 8], 300, 3, skew=True),
         eps=0.3, delta=1e-5, threshold=1.5,
         kw=dict(targets=['b', 'a'], split_strategy=[1, 2, 3], iters=30)),
    dict(name='skewed-no-target-high-threshold', data=make_data(['p', 'q', 'r'], [8, 6, 4], 150, 4, skew=True),
         eps=8.0, delta=1e-3, threshold=40.0, kw=dict(split_strategy=[0.5, 0.25, 0.25], iters=30)),
    dict(name='tiny-two-attrs', data=make_data(['u', 'v'], [2, 2], 20, 5),
         eps=0.05, delta=1e-12, threshold=0.0, kw=dict(iters=20)),
]

for case in CASES:
    del LOG[:]
    np.random.seed(12345)
    buf = io.StringIO()
    print('=' * 30, case['name'])
    try:
        with contextlib.redirect_stdout(buf):
            model = ag.adagrid(case['data'], case['eps'], case['delta'], case['threshold'], **case['kw'])
    except Exception as e:  # must be the same on both versions
        print('EXCEPTION', type(e).__name__, e)
        model = None
    for line in LOG:
        print(line)
    print('--- mechanism stdout')
    print(buf.getvalue())
    if model is not None:
        print('--- fitted model')
        print('cliques', model.cliques, 'total', round(float(model.total), 6))
        for cl in model.cliques:
            print(' ', cl, np.round(model.project(cl).datavector(), 4))
    print('next random draw', repr(_normal()))

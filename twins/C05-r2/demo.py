#!/usr/bin/env python
"""
C05 equivalence demo, refactoring 2 (mechanisms/mst.py: measure,
compress_domain, select).

Exercises the three refactored functions directly and the whole MST mechanism
end-to-end, with fixed seeds, and prints a deterministic digest of

  * every numpy.random.normal call (scale, size, hash of the noise drawn),
  * every numpy.random.choice call (probability vector of every private
    selection + outcome),
  * the measurement logs returned by measure() / compress_domain()
    (query matrix, noisy answers, sigma, clique), the supports and the
    compressed domain,
  * the edges returned by select() (with and without pre-selected cliques),
  * the dataset returned by MST().

The SAME file must print byte-identical output on the unmodified code and on
the refactored code.

GraphicalModel.synthetic_data() always raises under the installed pandas 3;
it is replaced (identically for both versions) by a deterministic generator
that lays the records out round-robin over each attribute's values.
"""
import os, sys, io, hashlib, contextlib, warnings

if os.environ.get('PYTHONHASHSEED') != '0':   # belt and braces: pin string hashing
    os.environ['PYTHONHASHSEED'] = '0'
    os.execv(sys.executable, [sys.executable] + sys.argv)

HERE = os.path.dirname(os.path.abspath(__file__))
ROOT = os.path.abspath(os.path.join(HERE, '..', '..'))
sys.path[:0] = [os.path.join(ROOT, 'src'), ROOT, '/tmp/stubs']
warnings.simplefilter('ignore')

import numpy as np
import pandas as pd
from scipy import sparse
import mbi
assert os.path.abspath(mbi.__file__).startswith(ROOT), mbi.__file__
from mbi import Dataset, Domain, GraphicalModel
from mechanisms import mst
assert os.path.abspath(mst.__file__).startswith(ROOT), mst.__file__

np.set_printoptions(precision=9, linewidth=200, threshold=10**6)

LOG = []


def h(arr):
    if arr is None:
        return 'None'
    arr = np.ascontiguousarray(np.asarray(arr, dtype=float))
    return hashlib.sha256(arr.tobytes()).hexdigest()[:16]


_normal, _choice = np.random.normal, np.random.choice


def normal(loc=0.0, scale=1.0, size=None):
    out = _normal(loc=loc, scale=scale, size=size)
    LOG.append('normal loc=%r scale=%r size=%r noise=%s' % (loc, float(scale), size, h(out)))
    return out


def choice(a, size=None, replace=True, p=None):
    out = _choice(a, size=size, replace=replace, p=p)
    pr = None if p is None else np.round(np.asarray(p), 12)
    LOG.append('choice a=%s size=%r out=%s p=%s %s' % (h(a), size, h(out), h(p), pr))
    return out


np.random.normal = normal
np.random.choice = choice


def synthetic_data(self, rows=None, method='round'):
    total = max(1, int(self.total)) if rows is None else rows
    cols = {a: np.arange(total) % n for a, n in zip(self.domain.attrs, self.domain.shape)}
    return Dataset(pd.DataFrame(cols, columns=list(self.domain.attrs)), self.domain)


GraphicalModel.synthetic_data = synthetic_data

# Inference is pure post-processing of the releases; cap its iterations (identically
# for both versions) to keep the demo fast.
_FI = mst.FactoredInference
mst.FactoredInference = lambda domain, iters=1000, **kw: _FI(domain, iters=min(iters, 200), **kw)


def flush(title):
    print('---', title)
    for line in LOG:
        print(line)
    del LOG[:]


def show_measurements(ms):
    for Q, y, sigma, proj in ms:
        Qd = sparse.csr_matrix(Q)
        print('  meas proj=%r Q%r diag=%s sigma=%r yhash=%s y=%s' % (
            proj, Qd.shape, np.round(Qd.diagonal(), 12), float(sigma), h(y), np.round(y, 6)))


def make_data(attrs, shape, n, seed, skew=False):
    rng = np.random.RandomState(seed)
    cols = {}
    for a, s in zip(attrs, shape):
        if skew:
            p = np.zeros(s)
            p[: max(1, s // 2)] = 1.0
            p[0] += 3.0
            p /= p.sum()
            cols[a] = rng.choice(s, n, p=p)
        else:
            cols[a] = rng.randint(0, s, n)
    return Dataset(pd.DataFrame(cols, columns=attrs), Domain(attrs, shape))


uniform = make_data(['a', 'b', 'c', 'd'], [3, 4, 2, 5], 400, 1)
skewed = make_data(['z', 'm', 'b', 'x', 'a'], [8, 2, 6, 3, 10], 600, 2, skew=True)   # permuted attribute order

# ------------------------------------------------------------ measure()
print('=' * 30, 'measure')
for name, data, cliques, sigma, weights in [
    ('oneway-default-weights', uniform, [(c,) for c in uniform.domain], 7.5, None),
    ('hetero-weights', skewed, [('z',), ('b', 'x'), ('a', 'm'), ('x', 'z', 'm')], 2.25, [1.0, 3.0, 0.5, 2.0]),
    ('single-clique', uniform, [('d', 'a')], 0.001, [10]),
    ('int-weights-list', skewed, [('a',), ('b',)], 40.0, [3, 4]),
    ('no-cliques', uniform, [], 1.0, None),
]:
    np.random.seed(2024)
    ms = mst.measure(data, cliques, sigma) if weights is None else mst.measure(data, cliques, sigma, weights)
    flush(name)
    show_measurements(ms)

# ------------------------------------------------------------ compress_domain()
print('=' * 30, 'compress_domain')
compressed = {}
for name, data, sigma, weights in [
    ('uniform-all-supported', uniform, 5.0, None),
    ('skewed-mixed-support', skewed, 6.0, None),
    ('skewed-hetero-sigma', skewed, 3.0, [1.0, 5.0, 0.7, 2.0, 0.2]),
    ('skewed-huge-noise', skewed, 400.0, None),   # (almost) everything below 3 sigma
]:
    np.random.seed(77)
    cliques = [(c,) for c in data.domain]
    log1 = mst.measure(data, cliques, sigma, weights)
    with contextlib.redirect_stdout(io.StringIO()):
        cdata, clog, undo = mst.compress_domain(data, log1)
    flush(name)
    show_measurements(clog)
    print('  new domain', dict(zip(cdata.domain.attrs, cdata.domain.shape)))
    for c in cdata.domain:
        print('   ', c, np.bincount(cdata.df[c].values.astype(int), minlength=cdata.domain.size(c)))
    compressed[name] = (cdata, clog, undo)

# ------------------------------------------------------------ select()
print('=' * 30, 'select')
for name, key, rho, cliques in [
    ('uniform-no-preselected', 'uniform-all-supported', 0.05, None),
    ('skewed-no-preselected', 'skewed-mixed-support', 0.4, None),
    ('skewed-preselected-edges', 'skewed-hetero-sigma', 0.01, [('z', 'm'), ('x', 'a')]),
    ('skewed-large-rho', 'skewed-mixed-support', 50.0, [('b', 'a')]),
]:
    np.random.seed(99)
    cdata, clog, _ = compressed[key]
    with contextlib.redirect_stdout(io.StringIO()):
        edges = mst.select(cdata, rho, clog) if cliques is None else mst.select(cdata, rho, clog, cliques)
    flush(name)
    print('  edges', edges)

# ------------------------------------------------------------ MST() end to end
print('=' * 30, 'MST')
for name, data, eps, delta in [
    ('uniform', uniform, 1.0, 1e-9),
    ('skewed-small-eps', skewed, 0.1, 1e-6),
    ('skewed-large-eps', skewed, 10.0, 1e-5),
]:
    np.random.seed(4242)
    with contextlib.redirect_stdout(io.StringIO()):
        synth = mst.MST(data, eps, delta)
    flush(name)
    print('  synth domain', dict(zip(synth.domain.attrs, synth.domain.shape)), 'records', synth.df.shape[0])
    for c in synth.domain:
        print('   ', c, np.bincount(synth.df[c].values.astype(int), minlength=synth.domain.size(c)))
    print('  df hash', h(synth.df.values))
    print('  next random draw', repr(_normal()))

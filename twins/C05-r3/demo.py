#!/usr/bin/env python
"""
C05 equivalence demo, refactoring 3 (mechanisms/mwem+pgm.py: worst_approximated
and the per-round noisy release of mwem_pgm).

Runs MWEM+PGM end-to-end for gaussian / laplace noise, bounded / unbounded DP,
several alpha / rounds / workload / model-size settings, and calls
worst_approximated() directly (penalty on/off, bounded on/off), all with fixed
seeds.  Prints a deterministic digest of

  * every numpy.random.normal / numpy.random.laplace call (scale, size, hash of
    the noise drawn),
  * every numpy.random.choice call (probability vector of every private
    selection + outcome),
  * the measurement log handed to Private-PGM in the last round,
  * everything the mechanism printed and marginals of the final model.

The SAME file must print byte-identical output on the unmodified code and on
the refactored code.

GraphicalModel.synthetic_data() always raises under the installed pandas 3; it
is replaced (identically for both versions) by a function returning the model.
"""
import os, sys, io, hashlib, contextlib, warnings, importlib.util

if os.environ.get('PYTHONHASHSEED') != '0':   # belt and braces: pin string hashing
    os.environ['PYTHONHASHSEED'] = '0'
    os.execv(sys.executable, [sys.executable] + sys.argv)

HERE = os.path.dirname(os.path.abspath(__file__))
ROOT = os.path.abspath(os.path.join(HERE, '..', '..'))
sys.path[:0] = [os.path.join(ROOT, 'src'), ROOT, '/tmp/stubs']
warnings.simplefilter('ignore')

import numpy as np
import pandas as pd
from scipy import sparse
import mbi
assert os.path.abspath(mbi.__file__).startswith(ROOT), mbi.__file__
from mbi import Dataset, Domain, GraphicalModel, FactoredInference

spec = importlib.util.spec_from_file_location('mwem_pgm_mod', os.path.join(ROOT, 'mechanisms', 'mwem+pgm.py'))
mwem = importlib.util.module_from_spec(spec)
spec.loader.exec_module(mwem)

np.set_printoptions(precision=9, linewidth=200, threshold=10**6)
GraphicalModel.synthetic_data = lambda self, *a, **k: self

LOG = []


def h(arr):
    if arr is None:
        return 'None'
    arr = np.ascontiguousarray(np.asarray(arr, dtype=float))
    return hashlib.sha256(arr.tobytes()).hexdigest()[:16]


_normal, _laplace, _choice = np.random.normal, np.random.laplace, np.random.choice


def normal(loc=0.0, scale=1.0, size=None):
    out = _normal(loc=loc, scale=scale, size=size)
    LOG.append('normal  loc=%r scale=%r size=%r noise=%s' % (loc, float(scale), size, h(out)))
    return out


def laplace(loc=0.0, scale=1.0, size=None):
    out = _laplace(loc=loc, scale=scale, size=size)
    LOG.append('laplace loc=%r scale=%r size=%r noise=%s' % (loc, float(scale), size, h(out)))
    return out


def choice(a, size=None, replace=True, p=None):
    out = _choice(a, size=size, replace=replace, p=p)
    pr = None if p is None else np.round(np.asarray(p), 12)
    LOG.append('choice  a=%r out=%r p=%s %s' % (a, out, h(p), pr))
    return out


np.random.normal = normal
np.random.laplace = laplace
np.random.choice = choice

LAST = {}


class LoggingFI(FactoredInference):
    def estimate(self, measurements, *a, **k):
        LAST['measurements'] = list(measurements)
        LAST['args'] = (a, k)
        return super().estimate(measurements, *a, **k)


mwem.FactoredInference = LoggingFI


def make_data(attrs, shape, n, seed, skew=False):
    rng = np.random.RandomState(seed)
    cols = {}
    for a, s in zip(attrs, shape):
        if skew:
            p = np.zeros(s)
            p[: max(1, s // 2)] = 1.0
            p[0] += 3.0
            p /= p.sum()
            cols[a] = rng.choice(s, n, p=p)
        else:
            cols[a] = rng.randint(0, s, n)
    return Dataset(pd.DataFrame(cols, columns=attrs), Domain(attrs, shape))


uniform = make_data(['a', 'b', 'c', 'd'], [3, 4, 2, 5], 400, 1)
skewed = make_data(['z', 'm', 'b', 'x', 'a'], [8, 2, 6, 3, 10], 600, 2, skew=True)   # permuted attribute order


def flush():
    for line in LOG:
        print(line)
    del LOG[:]


# ------------------------------------------------------------ worst_approximated()
print('=' * 30, 'worst_approximated')
engine = FactoredInference(skewed.domain, log=False, iters=50)
x0 = skewed.project(('z', 'b')).datavector()
est = engine.estimate([(sparse.eye(x0.size), x0 + 1.0, 1.0, ('z', 'b'))])
workload = [('z', 'm'), ('a', 'b'), ('x', 'z', 'm'), ('b', 'z'), ('a',), ('m', 'x')]
answers = {cl: skewed.project(cl).datavector() for cl in workload}
for name, cands, eps, kw in [
    ('default', workload, 0.5, {}),
    ('no-penalty', workload, 0.5, dict(penalty=False)),
    ('bounded', workload, 0.5, dict(bounded=True)),
    ('bounded-no-penalty-subset', workload[1:4], 0.02, dict(bounded=True, penalty=False)),
    ('single-candidate', workload[4:5], 3.0, {}),
    ('huge-eps', workload, 1e6, {}),
    ('zero-eps', workload, 0.0, dict(bounded=True)),
    ('no-candidates', [], 1.0, {}),
]:
    np.random.seed(11)
    print('---', name)
    try:
        pick = mwem.worst_approximated(answers, est, cands, eps, **kw)
        print('  picked', pick)
    except Exception as e:   # must be the same on both versions
        print('  EXCEPTION', type(e).__name__, e)
    flush()

# ------------------------------------------------------------ mwem_pgm() end to end
print('=' * 30, 'mwem_pgm')
three_way = [('a', 'b', 'c'), ('d', 'a'), ('c', 'd'), ('b',), ('d', 'c', 'b')]
CASES = [
    ('gaussian-unbounded-default-workload', uniform, 1.0, dict(delta=1e-9, pgm_iters=60)),
    ('gaussian-bounded', uniform, 1.0, dict(delta=1e-9, bounded=True, pgm_iters=60)),
    ('laplace-unbounded', uniform, 1.0, dict(noise='laplace', pgm_iters=60)),
    ('laplace-bounded-alpha', skewed, 2.0, dict(noise='laplace', bounded=True, alpha=0.5, rounds=3, pgm_iters=40)),
    ('gaussian-bounded-alpha-rounds-workload', uniform, 0.25,
     dict(delta=1e-5, bounded=True, alpha=0.3, rounds=7, workload=three_way, pgm_iters=40)),
    ('gaussian-skewed-small-model-limit', skewed, 5.0, dict(delta=1e-6, rounds=6, maxsize_mb=0.002, pgm_iters=40)),
    ('laplace-delta-ignored-one-round', skewed, 0.1, dict(delta=0.5, noise='laplace', rounds=1, pgm_iters=40)),
    ('unknown-noise-name-means-gaussian', uniform, 1.0, dict(delta=1e-3, noise='Gaussian!', rounds=2, pgm_iters=40)),
    ('gaussian-delta-zero', uniform, 1.0, dict(pgm_iters=40)),          # cdp_rho rejects delta == 0
    ('laplace-zero-rounds', uniform, 1.0, dict(noise='laplace', rounds=0, pgm_iters=40)),
]
for name, data, eps, kw in CASES:
    np.random.seed(31337)
    LAST.clear()
    buf = io.StringIO()
    print('---', name)
    model = None
    try:
        with contextlib.redirect_stdout(buf):
            model = mwem.mwem_pgm(data, eps, **kw)
    except Exception as e:   # must be the same on both versions
        print('  EXCEPTION', type(e).__name__, e)
    flush()
    print(buf.getvalue(), end='')
    if 'measurements' in LAST:
        print('  estimate extra args', LAST['args'])
        for Q, y, sigma, cl in LAST['measurements']:
            Qd = sparse.csr_matrix(Q)
            print('  meas cl=%r Q%r Qsum=%.6f sigma=%r yhash=%s y=%s' % (
                cl, Qd.shape, Qd.sum(), sigma, h(y), np.round(y, 6)))
    if model is not None:
        print('  model cliques', model.cliques, 'total', round(float(model.total), 6))
        for cl in model.cliques:
            print('   ', cl, np.round(model.project(cl).datavector(), 4))
    print('  next random draw', repr(_normal()))

"""
C06 / pair 1 -- mechanisms/mst.py : measure()

Replays MST on neighbouring datasets D, D' while forcing both executions to observe
the SAME released values and the SAME private selections, and checks that
  (1) the sequence of releases (kind, noise scale, vector size) is identical,
  (2) the returned synthetic data is identical,
  (3) the returned data lives in the input's ORIGINAL domain.

exit 0 + "PASS" + digest  : property holds on every scenario
exit 1 + "FAIL" + reason  : some scenario violates it
"""
import os, sys, io, hashlib, contextlib, warnings
warnings.filterwarnings('ignore')

HERE = os.path.abspath(__file__)
ROOT = os.path.dirname(os.path.dirname(os.path.dirname(HERE)))
sys.path.insert(0, '/tmp/stubs')
sys.path.insert(0, ROOT)
sys.path.insert(0, os.path.join(ROOT, 'src'))

import numpy as np
import pandas as pd
import mbi
from mbi import Dataset, Domain, GraphicalModel, FactoredInference
assert os.path.abspath(mbi.__file__).startswith(ROOT), mbi.__file__
from mechanisms import mst

EPS, DELTA = 1.0, 1e-9

# ---------------------------------------------------------------- harness
_real_normal = np.random.normal
_real_choice = np.random.choice


class Tape:
    """ record / replay of every draw the mechanism makes from numpy.random """

    def __init__(self, seed, replay=None):
        self.rng = np.random.RandomState(seed)      # private randomness (record mode)
        self.pub = np.random.RandomState(seed + 1)  # data-independent randomness (undo_compress)
        self.replay = replay
        self.events = []       # what an observer of the DP primitives sees
        self.values = []       # released vectors / selected indices
        self.diverged = None

    def _next(self, event):
        k = len(self.events)
        self.events.append(event)
        if self.replay is None:
            return None
        if k >= len(self.replay.events) or self.replay.events[k] != event:
            if self.diverged is None:
                want = self.replay.events[k] if k < len(self.replay.events) else None
                self.diverged = 'draw #%d is %s on D but %s on D\'' % (k, want, event)
            return None
        return self.replay.values[k]

    def normal(self, loc=0.0, scale=1.0, size=None):
        x = np.asarray(sys._getframe(1).f_locals['x'], dtype=float)  # the exact answer being released
        rec = self._next(('gauss', round(float(scale), 9), int(size)))
        if rec is None:
            # dyadic noise: x + noise and released - x' are exact in floating point
            noise = np.round(self.rng.normal(0, scale, size) * 1024) / 1024
        else:
            noise = rec - x
        self.values.append(x + noise)
        return noise

    def choice(self, a, size=None, replace=True, p=None):
        if p is None:   # reverse_data: uniform fill-in of the merged bin, no private input
            return self.pub.choice(a, size, replace)
        rec = self._next(('select', int(a)))
        idx = int(self.rng.choice(a, p=p)) if rec is None else rec
        self.values.append(idx)
        return idx


def fake_synthetic_data(self, rows=None, method='round'):
    """ deterministic stand-in for GraphicalModel.synthetic_data (which needs pandas<3):
        a function of the fitted model only. """
    total = int(self.total) if rows is None else rows
    cols = {}
    for j, a in enumerate(self.domain.attrs):
        p = self.project([a]).datavector()
        p = np.round(p / p.sum(), 9)
        cnt = np.floor(p * total).astype(int)
        order = np.argsort(-(p * total - cnt), kind='stable')
        cnt[order[:total - cnt.sum()]] += 1
        cols[a] = np.roll(np.repeat(np.arange(p.size), cnt), j)
    return Dataset(pd.DataFrame(cols), self.domain)


def run(data, tape):
    _init = FactoredInference.__init__

    def quick_init(self, *a, **kw):
        _init(self, *a, **kw)
        self.iters = min(self.iters, 40)
    saved = (np.random.normal, np.random.choice, GraphicalModel.synthetic_data)
    np.random.normal, np.random.choice = tape.normal, tape.choice
    GraphicalModel.synthetic_data = fake_synthetic_data
    FactoredInference.__init__ = quick_init
    try:
        with contextlib.redirect_stdout(io.StringIO()):
            return mst.MST(data, EPS, DELTA)
    finally:
        np.random.normal, np.random.choice, GraphicalModel.synthetic_data = saved
        FactoredInference.__init__ = _init


# ---------------------------------------------------------------- scenarios
def make(domain, n, seed, probs):
    rng = np.random.RandomState(seed)
    cols = {a: rng.choice(len(p), size=n, p=np.array(p) / np.sum(p)) for a, p in zip(domain.attrs, probs)}
    df = pd.DataFrame(cols)
    df['B'] = (df['A'] + df['B']) % domain.size('B')     # some correlation for select()
    return df


def scenarios():
    dom = Domain(['A', 'B', 'C', 'D'], [4, 3, 6, 2])
    full = [[4, 3, 2, 1], [1, 1, 1], [5, 4, 3, 3, 2, 2], [1, 1]]
    out = []
    # 1. every code of every attribute occurs; neighbour adds an ordinary record
    df = make(dom, 1500, 1, full)
    out.append(('all codes present', dom, df, {'A': 1, 'B': 2, 'C': 0, 'D': 1}))
    # 2. rare codes (domain compression kicks in); neighbour adds a record to a rare cell
    rare = [[40, 30, 1, 0.4], [1, 1, 1], [50, 40, 30, 1, 1, 0.5], [1, 1]]
    df = make(dom, 1500, 2, rare)
    out.append(('rare codes / compressed domain', dom, df, {'A': 3, 'B': 0, 'C': 5, 'D': 0}))
    # 3. the HIGHEST code of attribute C never occurs in D; the neighbour's extra record carries it
    top = [[4, 3, 2, 1], [1, 1, 1], [5, 4, 3, 3, 2, 0], [1, 1]]
    df = make(dom, 1500, 3, top)
    assert df['C'].max() == 4
    out.append(('top code of C absent from D, present in D\'', dom, df, {'A': 0, 'B': 1, 'C': 5, 'D': 1}))
    # 4. same, but the extra record is an ordinary one (the top code is absent from both)
    out.append(('top code of C absent from D and D\'', dom, df, {'A': 2, 'B': 2, 'C': 1, 'D': 0}))
    return out


def main():
    problems, digest = [], hashlib.sha256()
    for i, (name, dom, df, extra) in enumerate(scenarios(), 1):
        D = Dataset(df, dom)
        D2 = Dataset(pd.concat([df, pd.DataFrame([extra])], ignore_index=True), dom)
        t1 = Tape(100 + i)
        s1 = run(D, t1)
        t2 = Tape(100 + i, replay=t1)
        s2 = run(D2, t2)

        bad = []
        if t2.diverged or t1.events != t2.events:
            bad.append('release sequence depends on the data: ' + str(t2.diverged))
        for tag, s in (('D', s1), ("D'", s2)):
            if s.domain.attrs != dom.attrs or s.domain.shape != dom.shape:
                bad.append('output on %s has domain %s, input domain is %s'
                           % (tag, dict(zip(s.domain.attrs, s.domain.shape)), dict(zip(dom.attrs, dom.shape))))
            elif ((s.df.values < 0) | (s.df.values >= np.array(dom.shape))).any():
                bad.append('output on %s has values outside the input domain' % tag)
        if not bad and not (s1.df.shape == s2.df.shape and (s1.df.values == s2.df.values).all()):
            bad.append('identical releases and selections but different synthetic data')

        ev = hashlib.sha256(repr(t1.events).encode()).hexdigest()[:12]
        sy = hashlib.sha256(np.ascontiguousarray(s1.df.values.astype(np.int64)).tobytes()).hexdigest()[:12]
        print('scenario %d (%s): %d draws, events %s, synth %s rows=%d dom=%s -> %s'
              % (i, name, len(t1.events), ev, sy, s1.df.shape[0], list(s1.domain.shape), 'VIOLATION' if bad else 'ok'))
        for b in bad:
            print('    ' + b)
            problems.append('scenario %d: %s' % (i, b))
        digest.update((ev + sy).encode())

    if problems:
        print('FAIL: MST output / control flow depends on the private data outside the DP primitives')
        for p in problems:
            print('  - ' + p)
        sys.exit(1)
    print('PASS digest=' + digest.hexdigest()[:16])
    sys.exit(0)


if __name__ == '__main__':
    main()

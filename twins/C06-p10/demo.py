"""
C06 / pair 2 -- src/mbi/dataset.py, Dataset.datavector(): the count vector every mechanism noises.

Every release of MST / AIM / MWEM+PGM / AdaGrid has the form
        y = Q @ data.project(cl).datavector() + noise(scale)
and every private selection scores candidates with  data.project(cl).datavector().  The noise
scale / the exponential-mechanism sensitivity are calibrated for a count vector in which adding
or removing ONE record changes exactly ONE cell by one -- the cell is decided by the record and
the (public) domain alone.  Only then is the noisy release a DP primitive, i.e. only then does the
private data reach the output solely *through* the noise.

This program takes datasets D and neighbours D' (one record added / removed) and
  (1) checks the helper contract on several cliques: the vector has the public size, sums to the
      number of records, and  || x_D - x_D' ||_1 == 1;
  (2) runs the release step of MST (mst.measure) on D and D' while replaying IDENTICAL noise
      (numpy.random.normal is wrapped: events are logged, the noise stream is re-seeded), and checks
      that both executions perform the same sequence of releases with the same scales and sizes and
      that each pair of released vectors differs by at most one unit in one cell;
  (3) runs the scoring part of MST's selection step with an identical measurement log and checks that
      no score moves by more than the declared sensitivity 1.
Some of the datasets cover every value of every attribute, others are skewed / sparse: the top or
bottom categories of an attribute are not observed (or are observed only in the neighbour).

Exit 0 + "PASS" + digest if everything holds, exit 1 + "FAIL" otherwise.
"""
import os, sys, hashlib, warnings

ROOT = os.path.dirname(os.path.dirname(os.path.dirname(os.path.abspath(__file__))))
sys.path.insert(0, ROOT)
sys.path.insert(0, os.path.join(ROOT, 'src'))
warnings.filterwarnings('ignore')

import numpy as np
import pandas as pd
import mbi
from mbi import Dataset, Domain
assert os.path.abspath(mbi.__file__).startswith(os.path.join(ROOT, 'src')), mbi.__file__
from mechanisms import mst
from mechanisms.cdp2adp import cdp_rho

TOL = 1e-6


def make_dataset(domain, rows):
    df = pd.DataFrame(np.array(rows, dtype=int).reshape(-1, len(domain)), columns=list(domain.attrs))
    return Dataset(df, domain)


def scenarios():
    out = []
    # A: every value of every attribute occurs
    dom = Domain(['a', 'b', 'c'], [3, 4, 2])
    prng = np.random.RandomState(0)
    rows = [[prng.randint(0, s) for s in dom.shape] for _ in range(60)]
    rows += [[0, 0, 0], [2, 3, 1]]
    out.append(('A-full-coverage', dom, rows, [[1, 2, 0], [2, 3, 1]]))
    # B: skewed: attribute 'age' has 8 levels but only levels 0..4 occur; the neighbour adds level 7
    dom = Domain(['age', 'sex', 'edu'], [8, 2, 5])
    prng = np.random.RandomState(1)
    rows = [[prng.randint(0, 5), prng.randint(0, 2), prng.randint(1, 4)] for _ in range(50)]
    out.append(('B-top-levels-unseen', dom, rows, [[7, 1, 4], [2, 0, 2]]))
    # C: sparse: few records in a large domain
    dom = Domain(['x', 'y'], [10, 6])
    rows = [[3, 2], [4, 2], [4, 3], [5, 1], [3, 3]]
    out.append(('C-sparse', dom, rows, [[9, 5], [0, 0], [4, 2]]))
    # D: constant column
    dom = Domain(['k', 'm'], [4, 3])
    rows = [[2, 0], [2, 1], [2, 2], [2, 1]]
    out.append(('D-constant-column', dom, rows, [[2, 1], [0, 2]]))
    return out


def cliques_of(dom):
    attrs = list(dom.attrs)
    cl = [(a,) for a in attrs]
    cl += [(attrs[i], attrs[j]) for i in range(len(attrs)) for j in range(i + 1, len(attrs))]
    return cl


class NormalLog:
    """ wraps numpy.random.normal: logs (scale, size) and replays one fixed noise stream """
    def __init__(self, seed):
        self.events = []
        self.stream = np.random.RandomState(seed)

    def __call__(self, loc=0.0, scale=1.0, size=None):
        self.events.append(('normal', round(float(np.max(scale)), 9), size if size is None else int(np.prod(size))))
        return self.stream.normal(loc, scale, size)


def release(data, cliques, sigma):
    log = NormalLog(777)
    orig = np.random.normal
    np.random.normal = log
    try:
        ms = mst.measure(data, cliques, sigma)
    finally:
        np.random.normal = orig
    return log.events, ms


def selection_scores(data, rho, log):
    """ the score vector of the first exponential-mechanism call of mst.select """
    seen = []
    def fake_em(q, eps, sensitivity, prng=np.random, monotonic=False):
        seen.append((np.array(q, dtype=float), float(sensitivity)))
        return 0
    orig = mst.exponential_mechanism
    mst.exponential_mechanism = fake_em
    try:
        mst.select(data, rho, log)
    finally:
        mst.exponential_mechanism = orig
    return seen[0]


def main():
    rho = cdp_rho(1.0, 1e-6)
    sigma = np.sqrt(3 / (2 * rho))
    digest = hashlib.sha256()
    problems, lines = [], []

    for name, dom, rows, extra in scenarios():
        D = make_dataset(dom, rows)
        cliques = cliques_of(dom)
        ev0, rel0 = release(D, cliques, sigma)
        oneway_log = rel0[:len(dom)]
        q0, sens = selection_scores(D, rho / 3.0, oneway_log)
        lines.append('%s: records=%d releases=%d' % (name, len(rows), len(rel0)))
        for cl in cliques:
            x = D.project(cl).datavector()
            digest.update(repr(cl).encode() + x.astype(int).tobytes())
            lines.append('   %-14s x=%s' % ('x'.join(cl), x.astype(int).tolist()))
            if x.size != dom.size(cl):
                problems.append('%s %s: vector has %d cells, public domain has %d' % (name, cl, x.size, dom.size(cl)))
            if abs(x.sum() - len(rows)) > TOL:
                problems.append('%s %s: counts sum to %g, dataset has %d records' % (name, cl, x.sum(), len(rows)))
        for (Q, y, s, cl) in rel0:
            digest.update(np.round(y, 6).tobytes())
        digest.update(np.round(q0, 5).tobytes())
        lines.append('   selection scores %s' % np.round(q0, 4).tolist())

        neighbours = [('+%s' % r, rows + [r]) for r in extra] + [('-last', rows[:-1])]
        for tag, nrows in neighbours:
            where = '%s %s' % (name, tag)
            Dn = make_dataset(dom, nrows)
            worst = 0.0
            for cl in cliques:
                d = float(np.abs(D.project(cl).datavector() - Dn.project(cl).datavector()).sum())
                worst = max(worst, d)
                if abs(d - 1.0) > TOL:
                    problems.append('%s: marginal %s of the neighbouring dataset differs by %.1f in L1 '
                                    '(one record must move exactly one cell by one)' % (where, cl, d))
            ev1, rel1 = release(Dn, cliques, sigma)
            if ev0 != ev1:
                problems.append('%s: different sequence of releases / scales' % where)
            worst_y = max(float(np.abs(m0[1] - m1[1]).sum()) for m0, m1 in zip(rel0, rel1))
            if worst_y > 1.0 + TOL:
                problems.append('%s: under identical noise a released vector moved by %.1f in L1; the '
                                'Gaussian noise was calibrated for L2 sensitivity 1' % (where, worst_y))
            q1, _ = selection_scores(Dn, rho / 3.0, oneway_log)
            dq = float(np.abs(q0 - q1).max())
            if dq > sens + TOL:
                problems.append('%s: a selection score moved by %.2f, declared sensitivity %.1f' % (where, dq, sens))
            lines.append('   neighbour %-12s max L1 change: marginals %.1f, releases %.4f, scores %.4f'
                         % (tag, worst, worst_y, dq))
            digest.update(('%s %.3f %.3f %.3f' % (tag, worst, worst_y, dq)).encode())

    print('\n'.join(lines))
    if problems:
        print('FAIL: the vectors that MST noises / scores are not sensitivity-1 counts:')
        for p in problems[:40]:
            print('  -', p)
        if len(problems) > 40:
            print('  ... and %d more' % (len(problems) - 40))
        print('The cell a record is counted in depends on the other records, so the noisy releases '
              'are not DP primitives: the private data leaks past the noise.')
        sys.exit(1)
    print('PASS digest=%s' % digest.hexdigest()[:16])
    sys.exit(0)


if __name__ == '__main__':
    main()

"""
C06 pair 1 -- mechanisms/mst.py: compress_domain / transform_data / reverse_data.

Property clause exercised: MST's post-processing (undoing the domain compression) may only
consume the noisy one-way measurements.  Two neighbouring datasets that observe the SAME noisy
measurements and the SAME random outcomes must get the SAME synthetic data back, and that data
must live in the original domain.

exit 0 + "PASS <digest>" when the clause holds, exit 1 + "FAIL ..." otherwise.
"""
import os, sys, hashlib, io, contextlib

ROOT = os.path.dirname(os.path.dirname(os.path.dirname(os.path.abspath(__file__))))
sys.path.insert(0, ROOT)
sys.path.insert(0, os.path.join(ROOT, 'src'))

import numpy as np
import pandas as pd
import mbi
assert os.path.abspath(mbi.__file__).startswith(os.path.join(ROOT, 'src')), mbi.__file__
from mbi import Dataset, Domain, GraphicalModel
from scipy import sparse
from mechanisms import mst

digest = hashlib.sha256()
failures = []

def note(*parts):
    line = ' '.join(str(p) for p in parts)
    print(line)
    digest.update(line.encode() + b'\n')

def frame_digest(df):
    return hashlib.sha256(df.to_csv(index=False).encode()).hexdigest()[:16]

def conforms(synth, domain):
    if synth.domain.attrs != domain.attrs or synth.domain.shape != domain.shape:
        return False
    vals = synth.df.values
    return bool((vals >= 0).all() and (vals < np.array(domain.shape)).all())

# ---------------------------------------------------------------------------------------
# Part A: neighbouring datasets, identical released one-way measurements, identical
#         randomness -> undo_compress_fn must return identical data in the original domain
# ---------------------------------------------------------------------------------------
domain = Domain(['a', 'b', 'c'], [6, 5, 4])
sigma = 2.0

def released_log():
    # the noisy one-way marginals both executions are made to observe (sigma = 2, cut at 6)
    ya = np.array([41.3, 34.2, 29.9, 0.4, 1.7, -0.8])    # values 3,4,5 of 'a' are merged
    yb = np.array([30.2, 27.1, 25.5, 21.9, 2.3])         # value 4 of 'b' is merged
    yc = np.array([28.0, 27.5, 26.1, 24.9])              # nothing merged
    return [(sparse.eye(6), ya, sigma, ('a',)),
            (sparse.eye(5), yb, sigma, ('b',)),
            (sparse.eye(4), yc, sigma, ('c',))]

def base_records(seed):
    prng = np.random.RandomState(seed)
    n = 105
    return pd.DataFrame({'a': prng.randint(0, 3, n), 'b': prng.randint(0, 4, n), 'c': prng.randint(0, 4, n)})

def compressed_synth(newdom, seed):
    # stand-in for the PGM output over the compressed domain (every code, incl. the merged one)
    prng = np.random.RandomState(seed)
    n = 60
    cols = {col: prng.randint(0, newdom[col], n) for col in newdom.attrs}
    return Dataset(pd.DataFrame(cols), newdom)

def undo_on(df, seed):
    data = Dataset(df, domain)
    compressed, log, undo = mst.compress_domain(data, released_log())
    synth = compressed_synth(compressed.domain, seed)
    np.random.seed(seed)
    return compressed.domain, undo(synth)

scenarios = []
base = base_records(0)
# scenario 1: D holds a single record with the rare value a=4; the neighbour D' does not
extra = pd.DataFrame({'a': [4], 'b': [1], 'c': [2]})
scenarios.append(('one record with rare a=4', pd.concat([base, extra], ignore_index=True), base))
# scenario 2: the differing record carries rare b=4 (the only merged value of b)
extra = pd.DataFrame({'a': [1], 'b': [4], 'c': [0]})
scenarios.append(('one record with rare b=4', pd.concat([base, extra], ignore_index=True), base))
# scenario 3: every merged value occurs in both datasets (differing record is a common one)
full = pd.concat([base, pd.DataFrame({'a': [3, 4, 5], 'b': [4, 4, 0], 'c': [0, 1, 2]})], ignore_index=True)
extra = pd.DataFrame({'a': [0], 'b': [0], 'c': [0]})
scenarios.append(('all rare values present', pd.concat([full, extra], ignore_index=True), full))

for name, D, Dp in scenarios:
    for seed in (1, 2, 3):
        dom1, out1 = undo_on(D, seed)
        dom2, out2 = undo_on(Dp, seed)
        same_dom = dom1 == dom2
        same_out = out1.df.reset_index(drop=True).equals(out2.df.reset_index(drop=True))
        ok_dom = conforms(out1, domain) and conforms(out2, domain)
        note('A', name, 'seed', seed, 'compressed', dom1, 'out', frame_digest(out1.df),
             'a-values', sorted(set(out1.df['a'])), 'b-values', sorted(set(out1.df['b'])))
        if not same_dom:
            failures.append('%s/seed %d: compressed domains differ' % (name, seed))
        if not same_out:
            failures.append('%s/seed %d: neighbours with identical releases and randomness got different '
                            'synthetic data (a-values %s vs %s, b-values %s vs %s)'
                            % (name, seed, sorted(set(out1.df['a'])), sorted(set(out2.df['a'])),
                               sorted(set(out1.df['b'])), sorted(set(out2.df['b']))))
        if not ok_dom:
            failures.append('%s/seed %d: output does not conform to the original domain' % (name, seed))

# ---------------------------------------------------------------------------------------
# Part B: the merged cell must be spread over ALL values the noisy measurement cut off,
#         whether or not they occur in the private data (the support is defined by y only)
# ---------------------------------------------------------------------------------------
_, out = undo_on(base, 7)
seen = sorted(set(out.df['a']) - {0, 1, 2})
note('B', 'values of a restored from the merged cell on data without any rare value:', seen)
if seen != [3, 4, 5]:
    failures.append('merged cell of a restored as %s although no rare value occurs in the data' % seen)

# ---------------------------------------------------------------------------------------
# Part C: end-to-end MST run (GraphicalModel.synthetic_data is replaced by a simple
#         sampler: the installed pandas cannot run the library one) -> digest only
# ---------------------------------------------------------------------------------------
def simple_synthetic_data(self, rows=None, method='round'):
    total = int(self.total) if rows is None else rows
    cols = {}
    for col in self.domain.attrs:
        p = np.clip(self.project([col]).datavector(), 0, None)
        cols[col] = np.random.choice(p.size, total, True, p / p.sum())
    return Dataset(pd.DataFrame(cols), self.domain)

GraphicalModel.synthetic_data = simple_synthetic_data
mst.FactoredInference = lambda dom, iters=1000, **kw: mbi.FactoredInference(dom, iters=min(iters, 150), **kw)

prng = np.random.RandomState(11)
n = 400
df = pd.DataFrame({'a': prng.choice(6, n, p=[.4, .3, .27, .01, .01, .01]),
                   'b': prng.choice(5, n, p=[.3, .3, .2, .19, .01]),
                   'c': prng.randint(0, 4, n)})
data = Dataset(df, domain)
for seed in (5, 6):
    np.random.seed(seed)
    with contextlib.redirect_stdout(io.StringIO()):
        synth = mst.MST(data, 1.0, 1e-6)
    note('C', 'seed', seed, 'rows', synth.df.shape[0], 'domain', synth.domain, 'out', frame_digest(synth.df))
    if not conforms(synth, domain):
        failures.append('end-to-end seed %d: output does not conform to the original domain' % seed)

if failures:
    print('FAIL: MST output depends on the private data other than through its noisy releases')
    for f in failures:
        print('  -', f)
    sys.exit(1)
print('PASS', digest.hexdigest())

"""
C06 pair 2 -- mechanisms/adaptive_grid.py: adagrid(), step 3 (measuring the selected marginals).

Property clause exercised: the private data reaches Private-PGM (and hence the synthetic data)
only through noisy releases -- every measurement vector handed to FactoredInference.estimate must
be  Q @ (true marginal)  PLUS one of the Gaussian vectors the mechanism drew, with the calibrated
scale; the sequence of random draws (kind, scale, size) is the same as ever.

exit 0 + "PASS <digest>" when the clause holds, exit 1 + "FAIL ..." otherwise.
"""
import os, sys, hashlib, io, contextlib

if os.environ.get('PYTHONHASHSEED') != '0':
    # adagrid orders its one-way cliques by iterating over a set of string tuples: pin the string hash
    os.environ['PYTHONHASHSEED'] = '0'
    os.execv(sys.executable, [sys.executable] + sys.argv)

ROOT = os.path.dirname(os.path.dirname(os.path.dirname(os.path.abspath(__file__))))
sys.path.insert(0, ROOT)
sys.path.insert(0, os.path.join(ROOT, 'src'))

import numpy as np
import pandas as pd
import mbi
assert os.path.abspath(mbi.__file__).startswith(os.path.join(ROOT, 'src')), mbi.__file__
from mbi import Dataset, Domain, GraphicalModel, FactoredInference
from mechanisms import adaptive_grid as ag
from mechanisms.cdp2adp import cdp_rho

digest = hashlib.sha256()
failures = []

def note(*parts):
    line = ' '.join(str(p) for p in parts)
    print(line)
    digest.update(line.encode() + b'\n')

def h(arr):
    return hashlib.sha256(np.ascontiguousarray(np.round(np.asarray(arr, dtype=float), 9)).tobytes()).hexdigest()[:12]

# --- GraphicalModel.synthetic_data cannot run under the installed pandas: simple stand-in ----
def simple_synthetic_data(self, rows=None, method='round'):
    total = int(self.total) if rows is None else rows
    cols = {}
    for col in self.domain.attrs:
        p = np.clip(self.project([col]).datavector(), 0, None)
        cols[col] = np.random.choice(p.size, total, True, p / p.sum())
    return Dataset(pd.DataFrame(cols), self.domain)
GraphicalModel.synthetic_data = simple_synthetic_data

# --- the installed scipy refuses `Q.T = ...` (adagrid's caching trick, done right after every
#     sparse.vstack([Q1, Q2])): give adaptive_grid a vstack whose result accepts the assignment --
from scipy import sparse as _sparse
class TMatrix(_sparse.csr_matrix):
    @property
    def T(self):
        cached = self.__dict__.get('_cached_T')
        return self.transpose() if cached is None else cached
    @T.setter
    def T(self, value):
        self.__dict__['_cached_T'] = value
class SparseShim:
    def __getattr__(self, name):
        return getattr(_sparse, name)
    @staticmethod
    def vstack(blocks, *args, **kwargs):
        return TMatrix(_sparse.vstack(blocks, *args, **kwargs))
ag.sparse = SparseShim()

# --- instrumentation: random draws and what reaches the estimator --------------------------
events, draws, calls = [], [], []
real_normal, real_choice = np.random.normal, np.random.choice

def normal(loc=0.0, scale=1.0, size=None):
    out = real_normal(loc=loc, scale=scale, size=size)
    events.append(('normal', round(float(scale), 9), int(np.size(out))))
    draws.append((float(scale), np.array(out, dtype=float)))
    return out

def choice(a, size=None, replace=True, p=None):
    out = real_choice(a, size, replace, p)
    events.append(('choice', None if p is None else len(p), None if size is None else int(np.size(out))))
    return out

real_estimate = FactoredInference.estimate
def estimate(self, measurements, *args, **kwargs):
    calls.append([(Q, np.array(y, dtype=float), noise, tuple(cl)) for Q, y, noise, cl in measurements])
    return real_estimate(self, measurements, *args, **kwargs)

def run(data, seed, **kwargs):
    del events[:], draws[:], calls[:]
    np.random.normal, np.random.choice, FactoredInference.estimate = normal, choice, estimate
    try:
        np.random.seed(seed)
        with contextlib.redirect_stdout(io.StringIO()):
            synth = ag.adagrid(data, **kwargs)
    finally:
        np.random.normal, np.random.choice, FactoredInference.estimate = real_normal, real_choice, real_estimate
    return synth

def check(name, data, seed, expected_scales, **kwargs):
    synth = run(data, seed, **kwargs)
    final = calls[-1]
    unused = list(range(len(draws)))
    for k, (Q, y, noise, cl) in enumerate(final):
        exact = Q @ data.project(cl).datavector()
        resid = y - exact
        match = [i for i in unused if draws[i][1].size == resid.size and np.allclose(draws[i][1], resid, atol=1e-8)]
        if match:
            unused.remove(match[0])
            scale = draws[match[0]][0]
            if not any(abs(scale - s) < 1e-9 for s in expected_scales):
                failures.append('%s: measurement %d on %s perturbed with scale %r (expected one of %s)'
                                % (name, k, cl, scale, expected_scales))
        elif resid.size > 0 and np.abs(resid).max() < 1e-8:
            failures.append('%s: measurement %d on %s reaches Private-PGM UN-NOISED (y == Q @ true marginal, %d answers)'
                            % (name, k, cl, resid.size))
        else:
            failures.append('%s: measurement %d on %s is not (exact answer + a drawn Gaussian vector)' % (name, k, cl))
    note(name, 'seed', seed, 'estimate-calls', len(calls), 'measurements', [m[3] for m in final])
    note('   events', hashlib.sha256(repr(events).encode()).hexdigest()[:12], len(events),
         'released', [h(m[1]) for m in final])
    note('   synth rows', synth.df.shape[0], 'domain', synth.domain, h(synth.df.values))
    if synth.domain != data.domain:
        failures.append('%s: output domain differs from the input domain' % name)

prng = np.random.RandomState(3)
domain = Domain(['a', 'b', 'c', 'd'], [4, 3, 5, 2])
n = 500
a = prng.choice(4, n, p=[.5, .3, .15, .05])
b = (a + prng.choice(3, n, p=[.7, .2, .1])) % 3
c = prng.choice(5, n, p=[.4, .3, .2, .08, .02])
d = (c % 2) ^ (prng.rand(n) < 0.1)
data = Dataset(pd.DataFrame({'a': a, 'b': b, 'c': c, 'd': d.astype(int)}), domain)
neighbour = Dataset(data.df.iloc[1:].reset_index(drop=True), domain)

def scales(eps, delta, split, n1, n3):
    rho = cdp_rho(eps, delta)
    f = np.array(split) / sum(split)
    return [np.sqrt(0.5 / (rho * f[0])) * np.sqrt(n1), np.sqrt(n3) * np.sqrt(0.5 / (rho * f[2]))]

# configuration 1: defaults (equal split, no targets): 4 one-way + 3 two-way measurements
check('defaults', data, 0, scales(1.0, 1e-6, [1, 1, 1], 4, 3), epsilon=1.0, delta=1e-6, threshold=5.0, iters=40)
check('defaults/neighbour', neighbour, 0, scales(1.0, 1e-6, [1, 1, 1], 4, 3), epsilon=1.0, delta=1e-6, threshold=5.0, iters=40)
# configuration 2: competition split, warm start, other seed
check('split 1-1-8', data, 4, scales(2.0, 1e-9, [.1, .1, .8], 4, 3), epsilon=2.0, delta=1e-9, threshold=3.0,
      split_strategy=[0.1, 0.1, 0.8], iters=40, warm_start=True)
# configuration 3: one target column: step 1 measures (x,), (d,), (x,d); step 3 measures (x,y,d)
check('target d', data, 2, scales(1.0, 1e-6, [1, 1, 1], 7, 2), epsilon=1.0, delta=1e-6, threshold=5.0,
      targets=['d'], iters=40)

if failures:
    print('FAIL: private data reaches Private-PGM other than through the noisy releases')
    for f in failures:
        print('  -', f)
    sys.exit(1)
print('PASS', digest.hexdigest())

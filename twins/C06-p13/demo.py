"""
C06 / pair 1 -- mechanisms/aim.py, AIM.run(): sanity check on the exact workload answers.

Replay experiment: AIM is run on a dataset D while every noisy release (exact marginal + Gaussian
noise) and every exponential-mechanism outcome is recorded; it is then run on a neighbour D' with
the noise chosen so that the RELEASED VALUES are identical and with the recorded selections
replayed.  The property demands that both executions perform the same sequence of releases with
the same noise scales, and return the same synthetic data over the original domain.
"""
import os, sys, hashlib, warnings, io, contextlib

if os.environ.get('PYTHONHASHSEED') != '0':      # AIM orders its candidates through a set of tuples of str
    os.environ['PYTHONHASHSEED'] = '0'
    os.execv(sys.executable, [sys.executable] + sys.argv)

ROOT = os.path.dirname(os.path.dirname(os.path.dirname(os.path.abspath(__file__))))
for p in (os.path.join(ROOT, 'src'), ROOT, '/tmp/stubs'):
    if p not in sys.path:
        sys.path.insert(0, p)
warnings.simplefilter('ignore')

import numpy as np
import pandas as pd
import mbi
from mbi import Dataset, Domain, FactoredInference, GraphicalModel
assert os.path.abspath(mbi.__file__).startswith(ROOT), mbi.__file__
from mechanisms import aim


# ---------------------------------------------------------------- helpers
class FastInference(FactoredInference):
    """ same engine, at most 60 iterations per call (keeps the demo quick) """
    @property
    def iters(self):
        return min(self._iters, 60)
    @iters.setter
    def iters(self, v):
        self._iters = v

def fake_synthetic_data(self, rows=None, method='round'):
    """ deterministic stand-in for GraphicalModel.synthetic_data (which raises under pandas 3):
        independent columns, each filled according to the rounded one-way model marginal """
    total = int(self.total) if rows is None else rows
    cols = {}
    for a in self.domain.attrs:
        p = self.project([a]).datavector()
        cum = np.round(np.cumsum(p) / p.sum() * total).astype(int)
        cnt = np.diff(np.concatenate([[0], cum]))
        cols[a] = np.repeat(np.arange(p.size), cnt)[:total]
    return Dataset(pd.DataFrame(cols), self.domain)

LAST = {}
_orig_datavector = Dataset.datavector
def tracking_datavector(self, flatten=True):
    ans = _orig_datavector(self, flatten)
    LAST['x'] = np.array(ans, dtype=float).flatten()
    return ans

class Tape:
    def __init__(self, record=None):
        self.replaying = record is not None
        self.record = record if self.replaying else []
        self.pos = 0
        self.events = []
        self.problems = []

    def normal(self, loc=0.0, scale=1.0, size=None):
        n = int(np.prod(size))
        x = LAST['x']
        self.events.append(('release', round(float(scale), 9), n))
        if not self.replaying:
            noise = _orig_normal(loc, scale, size)
            self.record.append(('release', x + noise))
            return noise
        if self.pos >= len(self.record) or self.record[self.pos][0] != 'release' \
                or self.record[self.pos][1].size != n or x.size != n:
            self.problems.append('release #%d does not line up with the recorded execution' % self.pos)
            self.pos += 1
            return _orig_normal(loc, scale, size)
        y = self.record[self.pos][1]
        self.pos += 1
        return y - x          # the released value x + noise is exactly the recorded one

    def choice(self, a, size=None, replace=True, p=None):
        self.events.append(('select', int(a)))
        if not self.replaying:
            k = _orig_choice(a, size, replace, p)
            self.record.append(('select', int(k)))
            return k
        if self.pos >= len(self.record) or self.record[self.pos][0] != 'select':
            self.problems.append('selection #%d does not line up with the recorded execution' % self.pos)
            self.pos += 1
            return _orig_choice(a, size, replace, p)
        k = self.record[self.pos][1]
        self.pos += 1
        return k

_orig_normal, _orig_choice = np.random.normal, np.random.choice

def execute(data, workload, tape, seed):
    np.random.seed(seed)
    np.random.normal, np.random.choice = tape.normal, tape.choice
    Dataset.datavector = tracking_datavector
    GraphicalModel.synthetic_data = fake_synthetic_data
    aim.FactoredInference = FastInference
    out, err = None, None
    try:
        with contextlib.redirect_stdout(io.StringIO()):
            mech = aim.AIM(1.0, 1e-6, rounds=5, max_model_size=1.0)
            out = mech.run(data, workload)
    except Exception as e:
        err = '%s: %s' % (type(e).__name__, e)
    finally:
        np.random.normal, np.random.choice = _orig_normal, _orig_choice
        Dataset.datavector = _orig_datavector
    return out, err


# ---------------------------------------------------------------- scenarios
DOMAIN = Domain(['a', 'b', 'c'], [3, 4, 2])
WORKLOAD = [(('a', 'b'), 1.0), (('b', 'c'), 1.0), (('a', 'c'), 2.0)]

def base_frame(seed, n):
    rng = np.random.RandomState(seed)
    return pd.DataFrame({'a': rng.randint(0, 3, n), 'b': rng.randint(0, 4, n), 'c': rng.randint(0, 2, n)})

def scenarios():
    df = base_frame(1, 300)
    yield 'add one ordinary record', df, pd.concat([df, pd.DataFrame({'a': [2], 'b': [3], 'c': [1]})], ignore_index=True)
    yield 'remove one record', df, df.iloc[1:].reset_index(drop=True)
    # a record whose code for `a` is not in the domain file (e.g. a category that appeared after the
    # domain was written): Dataset.datavector() drops it from every marginal that involves `a`
    yield 'add a record with an unlisted code', df, pd.concat([df, pd.DataFrame({'a': [5], 'b': [0], 'c': [1]})], ignore_index=True)
    df2 = base_frame(2, 120)
    yield 'add a record with a missing-value code', df2, pd.concat([df2, pd.DataFrame({'a': [1], 'b': [-1], 'c': [0]})], ignore_index=True)


def main():
    failures, digest = [], hashlib.sha256()
    for k, (name, df0, df1) in enumerate(scenarios()):
        D0, D1 = Dataset(df0, DOMAIN), Dataset(df1, DOMAIN)
        t0 = Tape()
        out0, err0 = execute(D0, WORKLOAD, t0, seed=100 + k)
        t1 = Tape(record=t0.record)
        out1, err1 = execute(D1, WORKLOAD, t1, seed=100 + k)
        why = []
        if err0 or err1:
            why.append('an execution aborted (D: %s / neighbour: %s)' % (err0, err1))
        if t1.problems:
            why.append(t1.problems[0])
        if t0.events != t1.events:
            why.append('release/selection sequences differ: %d events on D, %d on the neighbour'
                       % (len(t0.events), len(t1.events)))
        if out0 is not None and out1 is not None:
            if not out0.df.equals(out1.df):
                why.append('returned synthetic data differ')
            for o in (out0, out1):
                if not (o.domain == DOMAIN):
                    why.append('returned data is not over the original domain')
        line = '%-42s events=%d' % (name, len(t0.events))
        if why:
            failures.append((name, why))
            print(line, 'VIOLATION')
        else:
            h = hashlib.sha256(repr(t0.events).encode() + out0.df.to_csv(index=False).encode()).hexdigest()[:16]
            digest.update(h.encode())
            print(line, 'ok', h)
    if failures:
        print('FAIL')
        for name, why in failures:
            print(' *', name)
            for w in why:
                print('     -', w)
        print('The control flow of AIM depends on the private records other than through the noisy')
        print('releases and the exponential mechanism (here: whether the run completes at all).')
        sys.exit(1)
    print('PASS', digest.hexdigest()[:24])
    sys.exit(0)

if __name__ == '__main__':
    main()

"""
C06 / pair 2 -- mechanisms/adaptive_grid.py, tail of adagrid(): what is handed back to the caller.

Replay experiment: adagrid is run on a dataset D while every noisy release (Q @ marginal + Gaussian
noise) and every exponential-mechanism outcome is recorded; it is then run on a neighbour D' with
the noise chosen so that the RELEASED VALUES are identical and with the recorded selections
replayed.  Under these conditions the property demands the same sequence of releases with the same
noise scales and an IDENTICAL returned table over the original domain.
"""
import os, sys, hashlib, warnings, io, contextlib

if os.environ.get('PYTHONHASHSEED') != '0':      # adagrid orders cliques through sets of str
    os.environ['PYTHONHASHSEED'] = '0'
    os.execv(sys.executable, [sys.executable] + sys.argv)

ROOT = os.path.dirname(os.path.dirname(os.path.dirname(os.path.abspath(__file__))))
for p in (os.path.join(ROOT, 'src'), ROOT, '/tmp/stubs'):
    if p not in sys.path:
        sys.path.insert(0, p)
warnings.simplefilter('ignore')

import numpy as np
import pandas as pd
import mbi
from mbi import Dataset, Domain, GraphicalModel
assert os.path.abspath(mbi.__file__).startswith(ROOT), mbi.__file__
from mechanisms import adaptive_grid as ag


def fake_synthetic_data(self, rows=None, method='round'):
    """ deterministic stand-in for GraphicalModel.synthetic_data (which raises under pandas 3):
        independent integer columns, each filled according to the rounded one-way model marginal """
    total = int(self.total) if rows is None else rows
    cols = {}
    for a in self.domain.attrs:
        p = self.project([a]).datavector()
        cum = np.round(np.cumsum(p) / p.sum() * total).astype(int)
        cnt = np.diff(np.concatenate([[0], cum]))
        cols[a] = np.repeat(np.arange(p.size), cnt)[:total].astype(int)
    return Dataset(pd.DataFrame(cols), self.domain)

# adagrid() does `Q.T = sparse.csr_matrix(Q.T)`; the installed scipy has no setter for .T, so the
# demo lets sparse.vstack (as seen from adaptive_grid) return a csr_matrix whose .T can be assigned
from scipy import sparse as _sparse
class _CSR(_sparse.csr_matrix):
    _cached_T = None
    @property
    def T(self):
        return self.transpose() if self._cached_T is None else self._cached_T
    @T.setter
    def T(self, value):
        self._cached_T = value
class _SparseShim:
    def __getattr__(self, name):
        return getattr(_sparse, name)
    @staticmethod
    def vstack(blocks, *args, **kwargs):
        return _CSR(_sparse.vstack(blocks, *args, **kwargs))
ag.sparse = _SparseShim()

_orig_normal, _orig_choice = np.random.normal, np.random.choice

class Tape:
    def __init__(self, record=None):
        self.replaying = record is not None
        self.record = record if self.replaying else []
        self.pos = 0
        self.events = []
        self.problems = []

    def normal(self, loc=0.0, scale=1.0, size=None):
        caller = sys._getframe(1).f_locals          # the frame of adagrid(): Q and mu are its locals
        exact = np.asarray(caller['Q'] @ caller['mu'], dtype=float)
        n = int(np.prod(size))
        self.events.append(('release', round(float(scale), 9), n))
        if not self.replaying:
            noise = _orig_normal(loc, scale, size)
            self.record.append(('release', exact + noise))
            return noise
        if self.pos >= len(self.record) or self.record[self.pos][0] != 'release' \
                or self.record[self.pos][1].size != n:
            self.problems.append('release #%d does not line up with the recorded execution' % self.pos)
            self.pos += 1
            return _orig_normal(loc, scale, size)
        y = self.record[self.pos][1]
        self.pos += 1
        return y - exact       # the released value is exactly the recorded one

    def choice(self, a, size=None, replace=True, p=None):
        self.events.append(('select', int(a)))
        if not self.replaying:
            k = _orig_choice(a, size, replace, p)
            self.record.append(('select', int(k)))
            return k
        if self.pos >= len(self.record) or self.record[self.pos][0] != 'select':
            self.problems.append('selection #%d does not line up with the recorded execution' % self.pos)
            self.pos += 1
            return _orig_choice(a, size, replace, p)
        k = self.record[self.pos][1]
        self.pos += 1
        return k


def execute(data, tape, seed, targets):
    np.random.seed(seed)
    np.random.normal, np.random.choice = tape.normal, tape.choice
    GraphicalModel.synthetic_data = fake_synthetic_data
    out, err = None, None
    try:
        with contextlib.redirect_stdout(io.StringIO()):
            out = ag.adagrid(data, 2.0, 1e-6, 3.0, targets=list(targets), iters=60)
    except Exception as e:
        err = '%s: %s' % (type(e).__name__, e)
    finally:
        np.random.normal, np.random.choice = _orig_normal, _orig_choice
    return out, err


DOMAIN = Domain(['a', 'b', 'c', 'd'], [3, 4, 2, 5])

def base_frame(seed, n):
    rng = np.random.RandomState(seed)
    a = rng.randint(0, 3, n)
    return pd.DataFrame({'a': a, 'b': (a + rng.randint(0, 2, n)) % 4, 'c': rng.randint(0, 2, n),
                         'd': rng.randint(0, 5, n)})

def scenarios():
    df = base_frame(1, 400)
    one = pd.DataFrame({'a': [2], 'b': [3], 'c': [1], 'd': [4]})
    yield 'add one ordinary record', df, pd.concat([df, one], ignore_index=True), []
    yield 'remove one record', df, df.iloc[1:].reset_index(drop=True), []
    yield 'add one ordinary record, targets=[c]', df, pd.concat([df, one], ignore_index=True), ['c']
    # the extra individual did not answer question `d`: the cell is empty in the csv file, so pandas
    # stores the column of the neighbouring table as float64 (NaN); datavector() ignores that cell
    gap = pd.DataFrame({'a': [1], 'b': [0], 'c': [0], 'd': [np.nan]})
    yield 'add a record with an unanswered question', df, pd.concat([df, gap], ignore_index=True), []
    df2 = base_frame(2, 150)
    yield 'remove the only record with a gap', pd.concat([df2, gap], ignore_index=True), df2, []


def describe(out):
    return out.df.to_csv(index=False) + '|' + ','.join(str(t) for t in out.df.dtypes) + '|' + str(out.domain)

def main():
    failures, digest = [], hashlib.sha256()
    for k, (name, df0, df1, targets) in enumerate(scenarios()):
        D0, D1 = Dataset(df0, DOMAIN), Dataset(df1, DOMAIN)
        t0 = Tape()
        out0, err0 = execute(D0, t0, 200 + k, targets)
        t1 = Tape(record=t0.record)
        out1, err1 = execute(D1, t1, 200 + k, targets)
        why = []
        if err0 or err1:
            why.append('an execution aborted (D: %s / neighbour: %s)' % (err0, err1))
        if t1.problems:
            why.append(t1.problems[0])
        if t0.events != t1.events:
            why.append('release/selection sequences differ')
        if out0 is not None and out1 is not None:
            if not (out0.domain == DOMAIN and out1.domain == DOMAIN):
                why.append('returned data is not over the original domain')
            if not out0.df.equals(out1.df):
                d0 = ','.join(str(t) for t in out0.df.dtypes)
                d1 = ','.join(str(t) for t in out1.df.dtypes)
                why.append('returned tables differ although all releases and selections agree '
                           '(column dtypes on D: %s / on the neighbour: %s)' % (d0, d1))
        line = '%-42s events=%d' % (name, len(t0.events))
        if why:
            failures.append((name, why))
            print(line, 'VIOLATION')
        else:
            h = hashlib.sha256((repr(t0.events) + describe(out0)).encode()).hexdigest()[:16]
            digest.update(h.encode())
            print(line, 'ok', h)
    if failures:
        print('FAIL')
        for name, why in failures:
            print(' *', name)
            for w in why:
                print('     -', w)
        print('The table returned by adagrid() depends on the private records other than through the')
        print('noisy releases and the private selections.')
        sys.exit(1)
    print('PASS', digest.hexdigest()[:24])
    sys.exit(0)

if __name__ == '__main__':
    main()

#!/usr/bin/env python
"""
C06 / pair 1 -- mechanisms/mst.py :: reverse_data (the undo step of MST's domain compression)

Clause exercised: "The returned data conforms to the input's original domain"
(plus, as a sanity check, the replay clause: identical releases + selections on a
neighbour give the same event sequence and the same returned table).

MST is run end-to-end on small datasets.  numpy.random.normal / numpy.random.choice are
wrapped so that (a) every call is logged and (b) a run on a neighbouring dataset can be
made to observe exactly the releases / selections of the first run.
GraphicalModel.synthetic_data is replaced by a deterministic pandas-3-safe stand-in
(the real one always raises in this environment).
"""
import os, sys, hashlib, warnings
HERE = os.path.abspath(__file__)
ROOT = os.path.dirname(os.path.dirname(os.path.dirname(HERE)))
sys.path[:0] = [os.path.join(ROOT, 'src'), ROOT, '/tmp/stubs']
warnings.filterwarnings('ignore')

import numpy as np
import pandas as pd
import mbi
from mbi import Dataset, Domain, GraphicalModel, FactoredInference
assert os.path.abspath(mbi.__file__).startswith(ROOT), mbi.__file__
from mechanisms import mst


# ------------------------------------------------------------------ harness
class Noise(np.ndarray):
    """ what the wrapped np.random.normal returns: adding it to anything is a 'release' """
    __array_priority__ = 1e6
    def __radd__(self, other): return HARNESS.release(other, self)
    def __add__(self, other): return HARNESS.release(other, self)

class Harness:
    def __init__(self):
        self.real_normal, self.real_choice = np.random.normal, np.random.choice
    def start(self, seed=None, tape=None):
        self.rng = np.random.RandomState(seed)
        self.replay = tape is not None
        self.tape = list(tape) if self.replay else []
        self.pos = 0
        self.events = []
    def _next(self, value_fn):
        if self.replay:
            val = self.tape[self.pos]
        else:
            val = value_fn()
            self.tape.append(val)
        self.pos += 1
        return val
    def normal(self, loc=0.0, scale=1.0, size=None):
        self.events.append(('normal', round(float(scale), 9), int(size)))
        return self.rng.normal(loc, scale, size).view(Noise)
    def release(self, exact, noise):
        y = self._next(lambda: np.asarray(exact, dtype=float) + noise.view(np.ndarray))
        return np.array(y, dtype=float)
    def choice(self, a, size=None, replace=True, p=None):
        n = int(a) if np.isscalar(a) else len(a)
        self.events.append(('choice', n, None if size is None else int(size)))
        val = self._next(lambda: self.rng.choice(a, size, replace, p))
        return np.array(val) if size is not None else val

HARNESS = Harness()
np.random.normal = HARNESS.normal
np.random.choice = HARNESS.choice

def fake_synthetic_data(self, rows=None, method='round'):
    """ deterministic stand-in: every column is filled from the model's one-way marginal """
    total = int(self.total) if rows is None else rows
    cols = {}
    for k, col in enumerate(self.domain.attrs):
        marg = self.project([col]).datavector()
        counts = marg * total / marg.sum()
        integ = np.floor(counts + 1e-9).astype(int)
        extra = total - integ.sum()
        order = np.argsort(-(counts - integ), kind='stable')
        integ[order[:extra]] += 1
        vals = np.repeat(np.arange(marg.size), integ)
        cols[col] = np.roll(vals, 3 * k)
    return Dataset(pd.DataFrame(cols), self.domain)
GraphicalModel.synthetic_data = fake_synthetic_data

def quick_engine(domain, iters=1000, **kw):        # keep the demo fast
    return FactoredInference(domain, iters=min(iters, 150), **kw)
mst.FactoredInference = quick_engine


# ------------------------------------------------------------------ data
def make_data(attrs, profiles, n, seed):
    """ profiles[attr] = probability vector; tiny entries give 'rare' values that MST merges """
    rng = np.random.RandomState(seed)
    cols = {a: rng.choice(len(profiles[a]), n, p=np.array(profiles[a]) / np.sum(profiles[a])) for a in attrs}
    dom = Domain(attrs, [len(profiles[a]) for a in attrs])
    return pd.DataFrame(cols), dom

COMMON3 = [5, 4, 3]
COMMON4 = [4, 3, 3, 2]
RARE5 = [50, 40, 0, 30, 0]          # values 2 and 4 never occur -> merged
RARE4 = [0, 60, 0, 40]              # values 0 and 2 never occur -> merged

SCENARIOS = [
    # name, attrs (= column order of the input), profiles
    ('mixed: merged column first', ('c', 'a', 'b'), {'c': RARE5, 'a': COMMON3, 'b': RARE4}),
    ('nothing merged',            ('c', 'a', 'b'), {'c': COMMON4, 'a': COMMON3, 'b': COMMON3}),
    ('everything merged',         ('c', 'a'),      {'c': RARE5, 'a': RARE4}),
    ('merged columns last',       ('a', 'b', 'c'), {'a': COMMON3, 'b': COMMON4, 'c': RARE5}),
    ('mixed: merged in the middle', ('zip', 'age', 'sex', 'job'),
        {'zip': COMMON4, 'age': RARE5, 'sex': [1, 1], 'job': RARE4}),
]


def run(df, dom, seed=None, tape=None):
    HARNESS.start(seed, tape)
    out = mst.MST(Dataset(df.copy(), dom), 1.0, 1e-9)
    return out, list(HARNESS.events), list(HARNESS.tape)

def conformance(out, dom):
    """ list of reasons why `out` does not conform to the input domain `dom` """
    bad = []
    if tuple(out.domain.attrs) != tuple(dom.attrs):
        bad.append('attribute order %s, input has %s' % (out.domain.attrs, dom.attrs))
    if tuple(out.domain[a] for a in dom.attrs) != tuple(dom.shape):
        bad.append('attribute sizes differ')
    if list(out.df.columns) != list(dom.attrs):
        bad.append('columns of the table are %s' % list(out.df.columns))
    if not (out.domain == dom):
        bad.append('Domain.__eq__ says the domains differ')
    for a in dom.attrs:
        v = out.df[a].values
        if not (np.issubdtype(v.dtype, np.integer) and v.min() >= 0 and v.max() < dom[a]):
            bad.append('values of %s outside range(%d)' % (a, dom[a]))
    return bad

def digest(out):
    h = hashlib.sha256()
    h.update(repr(tuple(out.domain.attrs)).encode() + repr(tuple(out.domain.shape)).encode())
    h.update(repr(list(out.df.columns)).encode())
    h.update(np.ascontiguousarray(out.df.values.astype(np.int64)).tobytes())
    return h.hexdigest()[:16]


def main():
    failures, lines = [], []
    for k, (name, attrs, profiles) in enumerate(SCENARIOS):
        df, dom = make_data(attrs, profiles, 900, seed=100 + k)
        extra = pd.DataFrame({a: [dom[a] - 1 if i % 2 else 1] for i, a in enumerate(attrs)})
        df2 = pd.concat([df, extra], ignore_index=True)              # neighbour: one more record

        import io, contextlib
        with contextlib.redirect_stdout(io.StringIO()):
            out1, ev1, tape = run(df, dom, seed=7 + k)
            out2, ev2, _ = run(df2, dom, tape=tape)

        nmerged = sum(1 for e in ev1 if e[0] == 'choice' and e[2] is not None)
        lines.append('%-28s input %s  releases/selections %d  undo draws %d  out rows %d  digest %s'
                     % (name, dict(zip(dom.attrs, dom.shape)), len(tape), nmerged, out1.df.shape[0], digest(out1)))
        if ev1 != ev2:
            failures.append('[%s] event sequences differ between D and D\'' % name)
        if digest(out1) != digest(out2):
            failures.append('[%s] returned tables differ between D and D\' under identical releases' % name)
        for why in conformance(out1, dom):
            failures.append('[%s] returned data does not conform to the input domain: %s' % (name, why))
        # a downstream consumer: contingency tables of input and output must be comparable cell by cell
        X = Dataset(df, dom).datavector(flatten=False)
        Y = out1.datavector(flatten=False)
        if X.shape != Y.shape:
            failures.append('[%s] datavector of the output has shape %s, the input %s' % (name, Y.shape, X.shape))

    for l in lines:
        print(l)
    if failures:
        print('FAIL')
        for f in failures:
            print('  ' + f)
        return 1
    print('PASS')
    return 0

if __name__ == '__main__':
    sys.exit(main())

#!/usr/bin/env python
"""
C06 / pair 2 -- mechanisms/mst.py :: transform_data (re-coding the private table over the
compressed domain, between MST's first and second batch of measurements)

Clause exercised: "output and control flow depend on the private data only through the noisy
releases and private selections": a run on D and a run on a neighbour D' = D + one record that
are made to observe identical releases / selections must perform the same sequence of random
events and return the same table.  In particular whether the run FINISHES must not depend on
one record.  The neighbours tried include records with an empty cell / a code outside the
domain: Dataset.datavector() ignores such cells, so the unmodified library treats them like
any other record.

numpy.random.normal / numpy.random.choice are wrapped (log + replay); the pandas-3-broken
GraphicalModel.synthetic_data is replaced by a deterministic stand-in.
"""
import os, sys, hashlib, warnings
HERE = os.path.abspath(__file__)
ROOT = os.path.dirname(os.path.dirname(os.path.dirname(HERE)))
sys.path[:0] = [os.path.join(ROOT, 'src'), ROOT, '/tmp/stubs']
warnings.filterwarnings('ignore')

import numpy as np
import pandas as pd
import mbi
from mbi import Dataset, Domain, GraphicalModel, FactoredInference
assert os.path.abspath(mbi.__file__).startswith(ROOT), mbi.__file__
from mechanisms import mst


# ------------------------------------------------------------------ harness
class Noise(np.ndarray):
    """ what the wrapped np.random.normal returns: adding it to anything is a 'release' """
    __array_priority__ = 1e6
    def __radd__(self, other): return HARNESS.release(other, self)
    def __add__(self, other): return HARNESS.release(other, self)

class Harness:
    def __init__(self):
        self.real_normal, self.real_choice = np.random.normal, np.random.choice
    def start(self, seed=None, tape=None):
        self.rng = np.random.RandomState(seed)
        self.replay = tape is not None
        self.tape = list(tape) if self.replay else []
        self.pos = 0
        self.events = []
    def _next(self, value_fn):
        if self.replay:
            val = self.tape[self.pos]
        else:
            val = value_fn()
            self.tape.append(val)
        self.pos += 1
        return val
    def normal(self, loc=0.0, scale=1.0, size=None):
        self.events.append(('normal', round(float(scale), 9), int(size)))
        return self.rng.normal(loc, scale, size).view(Noise)
    def release(self, exact, noise):
        y = self._next(lambda: np.asarray(exact, dtype=float) + noise.view(np.ndarray))
        return np.array(y, dtype=float)
    def choice(self, a, size=None, replace=True, p=None):
        n = int(a) if np.isscalar(a) else len(a)
        self.events.append(('choice', n, None if size is None else int(size)))
        val = self._next(lambda: self.rng.choice(a, size, replace, p))
        return np.array(val) if size is not None else val

HARNESS = Harness()
np.random.normal = HARNESS.normal
np.random.choice = HARNESS.choice

def fake_synthetic_data(self, rows=None, method='round'):
    """ deterministic stand-in: every column is filled from the model's one-way marginal """
    total = int(self.total) if rows is None else rows
    cols = {}
    for k, col in enumerate(self.domain.attrs):
        marg = self.project([col]).datavector()
        counts = marg * total / marg.sum()
        integ = np.floor(counts + 1e-9).astype(int)
        extra = total - integ.sum()
        order = np.argsort(-(counts - integ), kind='stable')
        integ[order[:extra]] += 1
        vals = np.repeat(np.arange(marg.size), integ)
        cols[col] = np.roll(vals, 3 * k)
    return Dataset(pd.DataFrame(cols), self.domain)
GraphicalModel.synthetic_data = fake_synthetic_data

def quick_engine(domain, iters=1000, **kw):        # keep the demo fast
    return FactoredInference(domain, iters=min(iters, 150), **kw)
mst.FactoredInference = quick_engine


# ------------------------------------------------------------------ data
def make_data(attrs, profiles, n, seed):
    rng = np.random.RandomState(seed)
    cols = {a: rng.choice(len(profiles[a]), n, p=np.array(profiles[a]) / np.sum(profiles[a])) for a in attrs}
    dom = Domain(attrs, [len(profiles[a]) for a in attrs])
    return pd.DataFrame(cols), dom

ATTRS = ('a', 'b', 'c')
PROFILES = {'a': [5, 4, 3], 'b': [50, 40, 0, 30, 0], 'c': [4, 3, 3, 2]}

# the record by which D and D' differ.  None = empty cell (a missing value in the csv)
NEIGHBOURS = [
    ('ordinary record',                     {'a': 1, 'b': 3, 'c': 0}),
    ('record using the last codes',         {'a': 2, 'b': 4, 'c': 3}),
    ('record with an empty cell',           {'a': 1, 'b': None, 'c': 2}),
    ('record with an unknown code (b=7)',   {'a': 0, 'b': 7, 'c': 1}),
    ('record with code == size (c=4)',      {'a': 0, 'b': 1, 'c': 4}),
]


def run(df, dom, seed=None, tape=None):
    """ returns (output or None, events, tape, error) """
    HARNESS.start(seed, tape)
    out = err = None
    try:
        out = mst.MST(Dataset(df.copy(), dom), 1.0, 1e-9)
    except Exception as e:                       # the run aborted: that is what we are looking for
        err = '%s: %s' % (type(e).__name__, str(e).splitlines()[0][:80])
    return out, list(HARNESS.events), list(HARNESS.tape), err

def digest(out):
    h = hashlib.sha256()
    h.update(repr(tuple(out.domain.attrs)).encode() + repr(tuple(out.domain.shape)).encode())
    h.update(np.ascontiguousarray(out.df.values.astype(np.int64)).tobytes())
    return h.hexdigest()[:16]

def ev_digest(events):
    return hashlib.sha256(repr(events).encode()).hexdigest()[:12]


def main():
    import io, contextlib
    failures, lines = [], []
    df, dom = make_data(ATTRS, PROFILES, 900, seed=11)
    for k, (name, rec) in enumerate(NEIGHBOURS):
        extra = pd.DataFrame({a: [np.nan if rec[a] is None else rec[a]] for a in ATTRS})
        df2 = pd.concat([df, extra], ignore_index=True)
        for direction, (first, second) in (('D -> D+r', (df, df2)), ('D+r -> D', (df2, df))):
            with contextlib.redirect_stdout(io.StringIO()):
                out1, ev1, tape, err1 = run(first, dom, seed=40 + k)
                # (a run that aborted leaves a truncated tape: nothing to replay)
                out2, ev2, _, err2 = run(second, dom, tape=tape) if err1 is None else (None, [], None, None)
            tag = '[%s, %s]' % (name, direction)
            lines.append('%-36s %-9s events %2d/%2d  %s' % (name, direction, len(ev1), len(ev2),
                         'digest %s %s' % (ev_digest(ev1), digest(out1)) if out1 is not None else 'aborted'))
            if err1 or err2:
                for which, err, ev in (('recorded', err1, ev1), ('replayed', err2, ev2)):
                    if err:
                        failures.append('%s the %s run aborted after %d random events (%s); whether MST '
                                        'finishes depends on one private record' % (tag, which, len(ev), err))
                continue
            if ev1 != ev2:
                failures.append('%s event sequences differ under identical releases/selections' % tag)
            if digest(out1) != digest(out2):
                failures.append('%s returned tables differ under identical releases/selections' % tag)
            if not (out1.domain == dom):
                failures.append('%s output domain %s' % (tag, out1.domain))

    for l in lines:
        print(l)
    if failures:
        print('FAIL')
        for f in failures:
            print('  ' + f)
        return 1
    print('PASS')
    return 0

if __name__ == '__main__':
    sys.exit(main())

"""C06 pair 1 -- mechanisms/mst.py :: exponential_mechanism (used by select()).

Clause checked: a mechanism's CONTROL FLOW depends on the private data only
through its noisy releases and private selections.  select() is run on two
neighbouring datasets D, D' with the SAME measurement log (identical releases)
and the SAME replayed selection outcomes: both runs must complete and perform
the same sequence of selections.  A data-dependent abort is a side channel.
"""
import os, sys, hashlib, warnings
HERE = os.path.abspath(__file__)
ROOT = os.path.dirname(os.path.dirname(os.path.dirname(HERE)))
sys.path.insert(0, ROOT)
sys.path.insert(0, os.path.join(ROOT, 'src'))
warnings.filterwarnings('ignore')

import itertools
import numpy as np
import pandas as pd
from scipy import sparse
import mbi
from mbi import Dataset, Domain, FactoredInference, GraphicalModel
assert os.path.abspath(mbi.__file__).startswith(ROOT), mbi.__file__
from mechanisms import mst

LOGMAX = float(np.log(np.finfo(float).max))      # 709.78...
events = []
_real_normal, _real_choice = np.random.normal, np.random.choice
noise_rng = np.random.RandomState(12345)

def fake_normal(loc=0, scale=1.0, size=None):
    events.append(('normal', round(float(scale), 9), int(size)))
    return noise_rng.normal(0, 1, size) * scale

def fake_choice(a, size=None, replace=True, p=None):
    if p is not None:                     # a private selection: replay outcome 0
        p = np.asarray(p)
        if not np.all(np.isfinite(p)) or abs(p.sum() - 1) > 1e-6:
            raise ValueError('probabilities are not a distribution: %s' % p)
        events.append(('select', int(a)))
        return 0
    a = np.asarray(a)                     # reverse_data filling merged cells
    events.append(('fill', int(a.size), int(size)))
    return a[np.arange(size) % a.size]

def fake_synth(self, rows=None, method='round'):
    r = np.random.RandomState(7)
    df = pd.DataFrame({c: r.randint(0, n, 40) for c, n in zip(self.domain.attrs, self.domain.shape)})
    return Dataset(df, self.domain)

np.random.normal, np.random.choice = fake_normal, fake_choice
GraphicalModel.synthetic_data = fake_synth

def make(N, extra=()):
    """a == b (perfectly correlated), c independent; `extra` = appended records"""
    r = np.random.RandomState(99)
    a = r.randint(0, 2, N)
    rows = np.stack([a, a, r.randint(0, 3, N)], 1)
    if len(extra):
        rows = np.vstack([rows, np.array(extra)])
    dom = Domain(['a', 'b', 'c'], [2, 2, 3])
    return Dataset(pd.DataFrame(rows, columns=dom.attrs), dom)

def fixed_log(D, sigma):
    r = np.random.RandomState(5)
    return [(sparse.eye(D.domain.size(c)), D.project(c).datavector() + r.normal(0, sigma, D.domain.size(c)), sigma, (c,))
            for c in D.domain]

out, problems = [], []

# ---- scenario 1: select() on neighbours, identical log, replayed selections ------------
N = 4000
D = make(N)
a0 = int(D.df['a'].iloc[0])
D1 = make(N, extra=[(0, 0, 0)])          # one more record in the a=b=0 cell
log = fixed_log(D, 10.0)                 # the releases both runs observe
est = FactoredInference(D.domain, iters=1000).estimate(log)
def wmax(X):
    return max(np.abs(X.project(list(e)).datavector() - est.project(list(e)).datavector()).sum()
               for e in itertools.combinations(X.domain.attrs, 2))
w0, w1 = wmax(D), wmax(D1)
out.append('w0=%.6f w1=%.6f' % (w0, w1))
assert 0.5 < w1 - w0 <= 1.0 + 1e-9
# regime: total budget large enough that 0.5*eps*w approaches log(DBL_MAX)
eps_sel = 2 * (LOGMAX - 0.05) / w0       # score(D) = LOGMAX-0.05 < LOGMAX < score(D')
rho = eps_sel ** 2 * (len(D.domain) - 1) / 8.0
out.append('rho=%.9f' % rho)
results = []
for name, X in (('D', D), ("D'", D1)):
    del events[:]
    try:
        cl = mst.select(X, rho, log)
        results.append((sorted(cl), list(events)))
    except Exception as e:               # noqa
        results.append(('ABORT %s' % type(e).__name__, list(events)))
        problems.append("select() aborted on %s (%s: %s) although releases and selections were "
                        "identical to the neighbour's run" % (name, type(e).__name__, str(e)[:80]))
out.append('select D : %s' % (results[0],))
out.append("select D': %s" % (results[1],))
if results[0] != results[1]:
    problems.append('neighbouring runs of select() diverge: %s vs %s' % (results[0][0], results[1][0]))

# ---- scenario 2: several ordinary configurations, end to end ------------------------
for N, eps in ((300, 1.0), (1500, 0.5), (20000, 1.0)):
    del events[:]
    noise_rng.seed(N)
    try:
        synth = mst.MST(make(N), eps, 1e-9)
        ok = synth.domain == make(1).domain and list(synth.df.columns) == ['a', 'b', 'c']
        sel = [e for e in events if e[0] == 'select']
        out.append('MST N=%d eps=%s: selections=%s normal_calls=%d conforms=%s df=%s' % (
            N, eps, sel, sum(e[0] == 'normal' for e in events), ok,
            hashlib.sha256(synth.df.values.astype(int).tobytes()).hexdigest()[:12]))
        if not ok or len(sel) != 2:
            problems.append('MST N=%d eps=%s: wrong domain or wrong number of selections' % (N, eps))
    except Exception as e:               # noqa
        out.append('MST N=%d eps=%s: ABORT %s' % (N, eps, type(e).__name__))
        problems.append('MST(N=%d, eps=%s) aborted with %s: %s -- the number of records decides whether '
                        'the run completes' % (N, eps, type(e).__name__, str(e)[:80]))

print('\n'.join(out))
if problems:
    print('FAIL')
    for p in problems:
        print(' -', p)
    sys.exit(1)
print('PASS', hashlib.sha256('\n'.join(out).encode()).hexdigest()[:16])

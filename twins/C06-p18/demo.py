"""C06 / pair1 demo: MST on neighbouring datasets under replayed randomness.

For every pair (D, D') of neighbouring datasets MST is executed twice.  All
randomness is replaced by a fixed tape:
  * np.random.normal returns an object that turns `x + noise` into a value that
    depends only on the position of the call (so both executions OBSERVE THE
    SAME RELEASED VALUES whatever the exact counts x are);
  * np.random.choice returns a tape-determined index / sample (so both
    executions observe the same selections).
The property then demands: same sequence of releases, same noise scales, same
returned table, returned table over the input's original domain - and of
course the same control flow (an execution that aborts on one of the two
neighbours only is a violation).
"""
import os, sys, hashlib, io, contextlib

HERE = os.path.abspath(__file__)
ROOT = os.path.dirname(os.path.dirname(os.path.dirname(HERE)))
sys.path.insert(0, '/tmp/stubs')
sys.path.insert(0, ROOT)
sys.path.insert(0, os.path.join(ROOT, 'src'))

import numpy as np
import pandas as pd
import mbi
from mbi import Dataset, Domain, GraphicalModel, FactoredInference

assert os.path.abspath(mbi.__file__).startswith(ROOT), mbi.__file__
from mechanisms import mst

EVENTS = []
COUNTER = [0]


class Release(np.ndarray):
    """noise stand-in: x + Release == tape value, independent of x"""
    __array_priority__ = 1000

    def __array_ufunc__(self, ufunc, method, *inputs, **kw):
        assert ufunc is np.add and method == '__call__', ufunc
        return np.array(self.view(np.ndarray))


def fake_normal(loc=0.0, scale=1.0, size=None):
    k = COUNTER[0]; COUNTER[0] += 1
    n = int(np.prod(size))
    EVENTS.append(('normal', '%.9g' % float(scale), n))
    tape = np.random.RandomState(1000 + k)
    vals = np.round(tape.uniform(-10, 60, n), 3)
    return vals.view(Release)


def fake_choice(a, size=None, replace=True, p=None):
    k = COUNTER[0]; COUNTER[0] += 1
    tape = np.random.RandomState(5000 + k)
    if np.ndim(a) == 0:
        EVENTS.append(('choice', int(a), size))
        return int(tape.randint(int(a))) if size is None else tape.randint(int(a), size=size)
    a = np.asarray(a)
    EVENTS.append(('choice-from', a.tolist(), int(size)))
    return a[tape.randint(a.size, size=size)]


def fake_synthetic_data(self, rows=None, method='round'):
    """deterministic stand-in (the real one dies under pandas 3)"""
    total = int(self.total) if rows is None else rows
    cols = {}
    for i, a in enumerate(self.domain.attrs):
        marg = np.maximum(self.project([a]).datavector(), 0)
        cnt = np.floor(marg * total / max(marg.sum(), 1e-12) + 1e-9).astype(int)
        vals = np.repeat(np.arange(cnt.size), cnt)[:total]
        vals = np.append(vals, np.zeros(total - vals.size, dtype=int))
        cols[a] = np.roll(vals, i)
    return Dataset(pd.DataFrame(cols, columns=list(self.domain.attrs)), self.domain)


_init = FactoredInference.__init__
def quick_init(self, *args, **kw):
    _init(self, *args, **kw)
    self.iters = min(self.iters, 40)


def run(data):
    """one replayed execution; returns (status, events, table, domain)"""
    EVENTS.clear(); COUNTER[0] = 0
    saved = (np.random.normal, np.random.choice, GraphicalModel.synthetic_data, FactoredInference.__init__)
    np.random.normal, np.random.choice = fake_normal, fake_choice
    GraphicalModel.synthetic_data = fake_synthetic_data
    FactoredInference.__init__ = quick_init
    try:
        with contextlib.redirect_stdout(io.StringIO()):
            out = mst.MST(data, 1.0, 1e-6)
        status = 'ok'
        table = out.df.to_csv(index=False)
        dom = repr(out.domain)
    except Exception as e:
        status, table, dom = 'abort:%s' % type(e).__name__, '', ''
    finally:
        (np.random.normal, np.random.choice, GraphicalModel.synthetic_data, FactoredInference.__init__) = saved
    return status, list(EVENTS), table, dom


def make(domain, rows, seed):
    prng = np.random.RandomState(seed)
    vals = np.array([prng.randint(0, n, size=rows) for n in domain.shape]).T.reshape(rows, len(domain))
    return pd.DataFrame(vals, columns=list(domain.attrs)).astype(int)


def cases():
    dom = Domain(['a', 'b', 'c'], [3, 4, 2])
    dom2 = Domain(['u', 'v'], [5, 2])
    out = []
    for name, d, rows, seed in [('n=60', dom, 60, 1), ('n=7', dom, 7, 2), ('n=1', dom, 1, 3),
                                ('n=0', dom, 0, 4), ('n=25,2attrs', dom2, 25, 5), ('n=0,2attrs', dom2, 0, 6)]:
        df = make(d, rows, seed)
        extra = pd.DataFrame([[n - 1 for n in d.shape]], columns=list(d.attrs))
        df2 = pd.concat([df, extra], ignore_index=True).astype(int)   # neighbour: one more record
        out.append((name, d, Dataset(df, d), Dataset(df2, d)))
    return out


def main():
    lines, bad = [], []
    for name, dom, D, D2 in cases():
        r1, r2 = run(D), run(D2)
        h = hashlib.sha256(repr(r1).encode()).hexdigest()[:16]
        lines.append('%-12s status=%s releases=%d rows=%d digest=%s' % (
            name, r1[0], sum(e[0] == 'normal' for e in r1[1]), r1[2].count('\n') - 1, h))
        if r1[0] != r2[0]:
            bad.append('%s: control flow differs between neighbours (%s vs %s) although both saw the same tape' % (name, r1[0], r2[0]))
            continue
        if r1[0] != 'ok':
            bad.append('%s: execution aborted (%s)' % (name, r1[0])); continue
        if r1[1] != r2[1]:
            bad.append('%s: sequence of releases / scales / selections differs' % name)
        if r1[2] != r2[2]:
            bad.append('%s: returned tables differ' % name)
        if r1[3] != repr(dom) or r2[3] != repr(dom):
            bad.append('%s: returned domain %s is not the input domain %s' % (name, r1[3], repr(dom)))
    print('\n'.join(lines))
    if bad:
        print('FAIL')
        for b in bad: print('  ' + b)
        return 1
    print('PASS')
    return 0


if __name__ == '__main__':
    sys.exit(main())

"""C06 pair 1 -- AIM.run(): everything the mechanism leaves behind is a function of its releases.

Runs AIM on a dataset D while recording every random outcome (noisy releases and the
indices drawn by the exponential mechanism), then replays the SAME releases and selections on
a neighbouring dataset D'.  With identical releases and selections the two executions must be
indistinguishable: same sequence of draws and noise scales, same synthetic data, same printed
trace, and the same state left on the mechanism object.
"""
import os, sys, io, types, hashlib, contextlib

if os.environ.get('PYTHONHASHSEED') != '0':
    # AIM orders its candidates by iterating over a set of tuples of strings: pin the hash seed
    os.environ['PYTHONHASHSEED'] = '0'
    os.execv(sys.executable, [sys.executable] + sys.argv)

ROOT = os.path.dirname(os.path.dirname(os.path.dirname(os.path.abspath(__file__))))
sys.path[:0] = [os.path.join(ROOT, 'src'), ROOT]

import numpy as np
import pandas as pd
from scipy import sparse

# autodp / hdmm are not installed: AIM only needs hdmm.matrix.Identity and the import of autodp
for name in ('autodp', 'autodp.privacy_calibrator', 'hdmm', 'hdmm.matrix'):
    sys.modules.setdefault(name, types.ModuleType(name))
sys.modules['autodp'].privacy_calibrator = sys.modules['autodp.privacy_calibrator']
sys.modules['hdmm'].matrix = sys.modules['hdmm.matrix']
sys.modules['hdmm.matrix'].Identity = lambda n: sparse.eye(n)

import mbi
from mbi import Dataset, Domain, GraphicalModel
assert os.path.abspath(mbi.__file__).startswith(ROOT), mbi.__file__
from mechanisms import aim as aim_mod
assert os.path.abspath(aim_mod.__file__).startswith(ROOT), aim_mod.__file__


def synthetic_data(self, rows=None, method='round'):
    """ deterministic stand-in (the library's own sampler crashes under pandas 3) """
    counts = np.floor(self.datavector() + 0.5).astype(int)
    cells = np.repeat(np.arange(counts.size), np.maximum(counts, 0))
    cols = np.unravel_index(cells, self.domain.shape)
    return Dataset(pd.DataFrame(dict(zip(self.domain.attrs, cols))), self.domain)
GraphicalModel.synthetic_data = synthetic_data


class FastInference(aim_mod.FactoredInference):
    """ same estimator with the number of iterations capped, to keep the demo short """
    iters = property(lambda self: min(self._iters, 40), lambda self, value: setattr(self, '_iters', value))
aim_mod.FactoredInference = FastInference


class Release:
    """ what np.random.normal hands back: `x + Release` is the noisy release y """
    __array_ufunc__ = None
    def __init__(self, tape, noise): self.tape, self.noise = tape, noise
    def __radd__(self, x):
        if self.tape.replay:
            y = self.tape.releases[self.tape.k].copy()
        else:
            y = np.asarray(x, dtype=float) + self.noise
            self.tape.releases.append(y.copy())
        self.tape.k += 1
        return y


class Tape:
    def __init__(self, seed):
        self.rng = np.random.RandomState(seed)
        self.releases, self.picks = [], []
        self.start(False)
    def start(self, replay):
        self.replay, self.k, self.j, self.events = replay, 0, 0, []
    def normal(self, loc=0.0, scale=1.0, size=None):
        self.events.append(('normal', float(loc), repr(float(scale)), int(np.prod(size))))
        return Release(self, None if self.replay else self.rng.normal(loc, scale, size))
    def choice(self, a, size=None, replace=True, p=None):
        self.events.append(('choice', int(a)))
        if self.replay:
            idx = self.picks[self.j]
        else:
            idx = int(self.rng.choice(a, p=p))
            self.picks.append(idx)
        self.j += 1
        return idx


def execute(data, workload, params, tape, replay):
    tape.start(replay)
    saved = np.random.normal, np.random.choice
    np.random.normal, np.random.choice = tape.normal, tape.choice
    out = io.StringIO()
    try:
        with contextlib.redirect_stdout(out):
            mech = aim_mod.AIM(**params)
            synth = mech.run(data, workload)
    finally:
        np.random.normal, np.random.choice = saved
    state = { k : v for k, v in vars(mech).items() if k != 'prng' }
    return { 'events' : list(tape.events), 'stdout' : out.getvalue(), 'state' : repr(sorted(state.items())),
             'domain' : (synth.domain.attrs, synth.domain.shape),
             'synth' : synth.df.values.tolist(), 'columns' : list(synth.df.columns) }


def make(rows, domain):
    return Dataset(pd.DataFrame(rows, columns=list(domain.attrs)), domain)


def cases():
    domain = Domain(['a', 'b', 'c'], [2, 3, 2])
    prng = np.random.RandomState(0)
    base = np.column_stack([prng.randint(0, n, 60) for n in domain.shape])
    base[:, 1] = (base[:, 0] + base[:, 1]) % 3            # some correlation to find
    pairs = [('a', 'b'), ('b', 'c'), ('a', 'c')]
    W = [(cl, 1.0) for cl in pairs]
    add = np.vstack([base, [[1, 2, 1]]])
    drop = base[1:]
    swap = base.copy(); swap[0] = [(swap[0, 0] + 1) % 2, (swap[0, 1] + 1) % 3, swap[0, 2]]
    p1 = dict(epsilon=2.0, delta=1e-6, rounds=14)
    p2 = dict(epsilon=8.0, delta=1e-6, rounds=16, max_model_size=1e-4)
    yield 'add-one-record', domain, base, add, W, p1, 11
    yield 'drop-one-record', domain, base, drop, W, p1, 12
    yield 'change-one-record', domain, base, swap, W[:2], p2, 13
    yield 'empty-neighbour', domain, base[:1], base[:0], W, p1, 14


def main():
    digest = hashlib.sha256()
    failures = []
    for name, domain, D, D2, W, params, seed in cases():
        tape = Tape(seed)
        first = execute(make(D, domain), W, params, tape, replay=False)
        again = execute(make(D2, domain), W, params, tape, replay=True)
        for key in first:
            if first[key] != again[key]:
                failures.append('%s: %s differs between D and its neighbour although every release '
                                'and every selection was identical' % (name, key))
                if key == 'state':
                    failures.append('    on D : %s' % first[key][:400])
                    failures.append('    on D\': %s' % again[key][:400])
        if first['domain'] != (domain.attrs, domain.shape) or first['columns'] != list(domain.attrs):
            failures.append('%s: synthetic data does not conform to the input domain' % name)
        summary = (name, first['events'], [np.round(y, 6).tolist() for y in tape.releases], tape.picks,
                   first['synth'], first['stdout'])
        digest.update(repr(summary).encode())
        print('%-18s releases=%d selections=%d synthetic_rows=%d' %
              (name, len(tape.releases), len(tape.picks), len(first['synth'])))
    if failures:
        print('FAIL')
        print('\n'.join(failures))
        return 1
    print('PASS', digest.hexdigest())
    return 0

if __name__ == '__main__':
    sys.exit(main())

"""
C06 / pair 2 -- mechanisms/adaptive_grid.py : adagrid(), step 1 (plausibility thresholding)

Replays adagrid on neighbouring datasets D, D' while forcing both executions to observe
the SAME released vectors and the SAME private selections, and checks that
  (1) the sequence of releases (kind, noise scale, number of queries) is identical,
  (2) the measurement log handed to Private-PGM (query matrices + answers) is identical,
  (3) the returned synthetic data is identical and lives in the input domain.
Everything adagrid derives after a release (which cells are "plausibly non-zero", hence which
queries step 3 asks) must be a function of the noisy answers only.

exit 0 + "PASS" + digest  : property holds on every scenario
exit 1 + "FAIL" + reason  : some scenario violates it
"""
import os, sys, io, hashlib, contextlib, warnings
if os.environ.get('PYTHONHASHSEED') != '0':   # adagrid iterates over sets of attribute tuples
    os.environ['PYTHONHASHSEED'] = '0'
    os.execv(sys.executable, [sys.executable] + sys.argv)
warnings.filterwarnings('ignore')

HERE = os.path.abspath(__file__)
ROOT = os.path.dirname(os.path.dirname(os.path.dirname(HERE)))
sys.path.insert(0, '/tmp/stubs')
sys.path.insert(0, ROOT)
sys.path.insert(0, os.path.join(ROOT, 'src'))

import numpy as np
import pandas as pd
from scipy import sparse
import mbi
from mbi import Dataset, Domain, GraphicalModel, FactoredInference
assert os.path.abspath(mbi.__file__).startswith(ROOT), mbi.__file__
from mechanisms import adaptive_grid as ag
from mechanisms.cdp2adp import cdp_rho

DELTA = 1e-10
THRESHOLD = 5.0


class Forced(np.ndarray):
    """ "noise" that makes `answers + noise` (or `answers += noise`) equal to a prescribed released
        vector bit for bit, whatever the exact answers are (replay of a recorded release on D'). """
    __array_priority__ = 1000

    def __new__(cls, released):
        return np.array(released, dtype=float).view(cls)

    def __array_ufunc__(self, ufunc, method, *inputs, out=None, **kw):
        assert ufunc is np.add and method == '__call__', 'harness: noise is only ever added to the answers'
        released = self.view(np.ndarray)
        if out is not None:              # in-place form: answers += noise
            target = out[0]
            target[...] = released
            return target
        return released.copy()           # answers + noise


class Tape:
    """ record / replay of every draw the mechanism makes from numpy.random """

    def __init__(self, seed, replay=None):
        self.rng = np.random.RandomState(seed)
        self.replay = replay
        self.events, self.values = [], []
        self.diverged = None

    def _next(self, event):
        k = len(self.events)
        self.events.append(event)
        if self.replay is None:
            return None
        if k >= len(self.replay.events) or self.replay.events[k] != event:
            if self.diverged is None:
                want = self.replay.events[k] if k < len(self.replay.events) else None
                self.diverged = "draw #%d is %s on D but %s on D'" % (k, want, event)
            return None
        return self.replay.values[k]

    def normal(self, loc=0.0, scale=1.0, size=None):
        loc_ = sys._getframe(1).f_locals
        exact = np.asarray(loc_['Q'] @ loc_['mu'], dtype=float)    # the exact answers being released
        rec = self._next(('gauss', round(float(scale), 9), int(size)))
        if rec is None:
            noise = np.round(self.rng.normal(0, scale, size) * 1024) / 1024
            self.values.append(exact + noise)
            return noise
        # replay: whatever the exact answers on D' are, the observer sees the recorded release
        self.values.append(rec)
        return Forced(rec)

    def choice(self, a, size=None, replace=True, p=None):
        assert p is not None
        rec = self._next(('select', int(a)))
        idx = int(self.rng.choice(a, p=p)) if rec is None else rec
        self.values.append(idx)
        return idx


def fake_synthetic_data(self, rows=None, method='round'):
    """ deterministic stand-in for GraphicalModel.synthetic_data (which needs pandas<3):
        a function of the fitted model only. """
    total = int(self.total) if rows is None else rows
    cols = {}
    for j, a in enumerate(self.domain.attrs):
        p = self.project([a]).datavector()
        p = np.round(p / p.sum(), 9)
        cnt = np.floor(p * total).astype(int)
        order = np.argsort(-(p * total - cnt), kind='stable')
        cnt[order[:total - cnt.sum()]] += 1
        cols[a] = np.roll(np.repeat(np.arange(p.size), cnt), j)
    return Dataset(pd.DataFrame(cols), self.domain)


class _CSR(sparse.csr_matrix):
    """ adagrid does `Q.T = csr_matrix(Q.T)`; the installed scipy has no setter for .T any more """
    _t = None
    T = property(lambda self: self.transpose() if self._t is None else self._t,
                 lambda self, value: setattr(self, '_t', value))


class _SparseShim:
    """ scipy.sparse as seen by adaptive_grid.py, with vstack returning a matrix whose .T is assignable """
    def __getattr__(self, name):
        return getattr(sparse, name)

    def vstack(self, blocks, *a, **kw):
        return _CSR(sparse.vstack(blocks, *a, **kw))


def run(data, tape, eps, split):
    log = []
    ag.sparse = _SparseShim()
    _estimate = FactoredInference.estimate

    def spy_estimate(self, measurements, *a, **kw):
        log[:] = [(cl, Q.shape, hashlib.sha256(np.ascontiguousarray(Q.toarray())).hexdigest()[:10],
                   hashlib.sha256(np.ascontiguousarray(y)).hexdigest()[:10]) for Q, y, _, cl in measurements]
        return _estimate(self, measurements, *a, **kw)
    saved = (np.random.normal, np.random.choice, GraphicalModel.synthetic_data)
    np.random.normal, np.random.choice = tape.normal, tape.choice
    GraphicalModel.synthetic_data = fake_synthetic_data
    FactoredInference.estimate = spy_estimate
    try:
        with contextlib.redirect_stdout(io.StringIO()):
            synth = ag.adagrid(data, eps, DELTA, THRESHOLD, split_strategy=split, iters=40)
    finally:
        np.random.normal, np.random.choice, GraphicalModel.synthetic_data = saved
        FactoredInference.estimate = _estimate
        ag.sparse = sparse
    return synth, list(log)


def step1_cut(eps, split, nattr):
    """ the (public) count above which adagrid keeps a cell at fine granularity """
    rho = cdp_rho(eps, DELTA)
    frac = 1.0 / 3 if not split else split[0] / sum(split)
    return np.sqrt(0.5 / (rho * frac)) * np.sqrt(nattr) * THRESHOLD


def base_frame(dom, n, seed):
    rng = np.random.RandomState(seed)
    df = pd.DataFrame({a: rng.randint(0, k, size=n) for a, k in zip(dom.attrs, dom.shape)})
    df['B'] = (df['A'] + df['B']) % dom.size('B')
    return df


def with_count(df, col, code, other, count):
    """ same table, but exactly `count` rows have df[col] == code (surplus rows are moved to `other`) """
    df = df.copy()
    rows = np.where(df[col].values == code)[0]
    assert len(rows) >= count
    df.loc[rows[count:], col] = other
    return df


def scenarios():
    dom = Domain(['A', 'B', 'C'], [5, 4, 3])
    out = []
    eps, split = 1.0, None
    df = base_frame(dom, 3000, 11)
    # 1. every cell far above the cut; D' = D + one ordinary record
    out.append(('dense cells, add a record', dom, df, ('add', {'A': 2, 'B': 1, 'C': 0}), eps, split))
    # 2. one cell of A holds EXACTLY ceil(cut) records in D; D' = D minus one of them
    cut = step1_cut(eps, split, 3)
    df2 = with_count(df, 'A', 4, 0, int(np.ceil(cut)))
    out.append(('cell A=4 sits exactly on the cut (%d records), remove one' % np.ceil(cut), dom, df2,
                ('drop', ('A', 4)), eps, split))
    # 3. the cell holds ceil(cut)-1 records in D; D' = D plus one such record
    df3 = with_count(df, 'A', 4, 0, int(np.ceil(cut)) - 1)
    out.append(('cell A=4 one below the cut, add one', dom, df3, ('add', {'A': 4, 'B': 0, 'C': 1}), eps, split))
    # 4. other budget split / epsilon, cell B=3 on the cut
    eps4, split4 = 2.0, [0.1, 0.1, 0.8]
    cut4 = step1_cut(eps4, split4, 3)
    df4 = with_count(df, 'B', 3, 1, int(np.ceil(cut4)))
    out.append(('eps=2 split=.1/.1/.8, cell B=3 on the cut (%d records), remove one' % np.ceil(cut4), dom, df4,
                ('drop', ('B', 3)), eps4, split4))
    # 5. sparse cell far below the cut
    df5 = with_count(df, 'C', 2, 0, 7)
    out.append(('sparse cell C=2 (7 records), add one', dom, df5, ('add', {'A': 1, 'B': 2, 'C': 2}), eps, split))
    return out


def neighbour(df, how):
    kind, arg = how
    if kind == 'add':
        return pd.concat([df, pd.DataFrame([arg])], ignore_index=True)
    col, code = arg
    i = np.where(df[col].values == code)[0][0]
    return df.drop(index=i).reset_index(drop=True)


def main():
    problems, digest = [], hashlib.sha256()
    for i, (name, dom, df, how, eps, split) in enumerate(scenarios(), 1):
        D, D2 = Dataset(df, dom), Dataset(neighbour(df, how), dom)
        assert abs(D.records - D2.records) == 1
        t1 = Tape(200 + i)
        s1, log1 = run(D, t1, eps, split)
        t2 = Tape(200 + i, replay=t1)
        s2, log2 = run(D2, t2, eps, split)

        bad = []
        if t2.diverged or t1.events != t2.events:
            bad.append('release sequence depends on the data: ' + str(t2.diverged))
        if log1 != log2:
            diff = [a[0] for a, b in zip(log1, log2) if a != b]
            bad.append('same releases observed, but the measurement log given to Private-PGM differs on %s' % diff[:3])
        for tag, s in (('D', s1), ("D'", s2)):
            if s.domain.attrs != dom.attrs or s.domain.shape != dom.shape:
                bad.append('output on %s is not over the input domain' % tag)
        if not bad and not (s1.df.shape == s2.df.shape and (s1.df.values == s2.df.values).all()):
            bad.append('identical releases and selections but different synthetic data')

        ev = hashlib.sha256(repr(t1.events).encode()).hexdigest()[:12]
        lg = hashlib.sha256(repr(log1).encode()).hexdigest()[:12]
        sy = hashlib.sha256(np.ascontiguousarray(s1.df.values.astype(np.int64)).tobytes()).hexdigest()[:12]
        sizes = [e[2] for e in t1.events if e[0] == 'gauss']
        print('scenario %d (%s): query counts %s, events %s, log %s, synth %s rows=%d -> %s'
              % (i, name, sizes, ev, lg, sy, s1.df.shape[0], 'VIOLATION' if bad else 'ok'))
        for b in bad:
            print('    ' + b)
            problems.append('scenario %d: %s' % (i, b))
        digest.update((ev + lg + sy).encode())

    if problems:
        print('FAIL: adagrid post-processing depends on the private data outside the DP primitives')
        for p in problems:
            print('  - ' + p)
        sys.exit(1)
    print('PASS digest=' + digest.hexdigest()[:16])
    sys.exit(0)


if __name__ == '__main__':
    main()

import os, sys, hashlib, importlib.util, io, contextlib
ROOT = os.path.dirname(os.path.dirname(os.path.dirname(os.path.abspath(__file__))))
sys.path[:0] = [os.path.join(ROOT, 'src'), ROOT, '/tmp/stubs']
import numpy as np, pandas as pd
import mbi
from mbi import Dataset, Domain, GraphicalModel
assert os.path.abspath(mbi.__file__).startswith(ROOT), mbi.__file__
spec = importlib.util.spec_from_file_location('mwem_pgm_mod', os.path.join(ROOT, 'mechanisms', 'mwem+pgm.py'))
M = importlib.util.module_from_spec(spec); spec.loader.exec_module(M)

class Stop(Exception): pass
domain = Domain(['a', 'b', 'c'], [2, 3, 4])
def make(rows): return Dataset(pd.DataFrame(rows, columns=['a', 'b', 'c']), domain)
rng = np.random.RandomState(7)
base = [(0, 1, 3)]*9 + [(1, 1, 3)]*6 + [(0, 2, 0)]*5 + [tuple(rng.randint(0, s) for s in (2, 3, 4)) for _ in range(10)]

def first_round(rows, **kw):
    """ start model's total + probabilities of the first private selection """
    rec = {}
    real_choice, real_est = np.random.choice, M.FactoredInference.estimate
    def choice(n, p=None, **k):
        rec['p'] = np.array(p); raise Stop
    def est(self, measurements, *a, **k):
        model = real_est(self, measurements, *a, **k)
        if not measurements: rec['total0'] = float(model.total)
        return model
    np.random.choice, M.FactoredInference.estimate = choice, est
    try:
        with contextlib.redirect_stdout(io.StringIO()):
            M.mwem_pgm(make(rows), 1.0, 1e-6, pgm_iters=50, **kw)
    except Stop: pass
    finally: np.random.choice, M.FactoredInference.estimate = real_choice, real_est
    return rec

def full_run(rows, seed, **kw):
    """ whole mechanism with the releases recorded (synthetic_data stubbed: pandas 3) """
    events = []
    real = (np.random.choice, np.random.normal, GraphicalModel.synthetic_data)
    def choice(n, p=None, **k):
        i = real[0](n, p=p, **k); events.append(('choice', int(n), int(i))); return i
    def normal(loc=0, scale=1, size=None):
        z = real[1](loc=loc, scale=scale, size=size); events.append(('normal', round(float(scale), 9), int(size))); return z
    np.random.choice, np.random.normal = choice, normal
    GraphicalModel.synthetic_data = lambda self, *a, **k: ('synth', round(float(self.total), 6))
    np.random.seed(seed)
    try:
        with contextlib.redirect_stdout(io.StringIO()):
            out = M.mwem_pgm(make(rows), 1.0, 1e-6, pgm_iters=50, rounds=2, **kw)
    finally: np.random.choice, np.random.normal, GraphicalModel.synthetic_data = real
    return events, out

fails, lines = [], []
exp_eps = np.sqrt(8*0.1*M.cdp_rho(1.0, 1e-6)/3)   # budget of one selection (rounds = 3 attributes)
r0 = first_round(base)
lines.append('D  total0=%r p=%s' % (r0['total0'], np.round(r0['p'], 9).tolist()))
worst = 0.0
for extra in [(0, 1, 3), (1, 0, 0), (1, 2, 1), (0, 0, 2), (1, 1, 3)]:
    r1 = first_round(base + [extra])
    gap = float(np.abs(np.log(r1['p']) - np.log(r0['p'])).max()); worst = max(worst, gap)
    lines.append("D+%s total0=%r gap=%.9f" % (extra, r1['total0'], gap))
    if r1['total0'] != r0['total0']:
        fails.append('unbounded: model before any release has total %r on D and %r on D+%s: the record count reached the model un-noised' % (r0['total0'], r1['total0'], extra))
    if gap > exp_eps + 1e-9:
        fails.append('unbounded: first selection on D vs D+%s: |log-prob gap| %.6f > eps of the selection %.6f' % (extra, gap, exp_eps))
lines.append('worst gap %.9f  eps %.9f' % (worst, exp_eps))
rb = first_round(base, bounded=True)
lines.append('bounded total0=%r p=%s' % (rb['total0'], np.round(rb['p'], 9).tolist()))
if rb['total0'] != len(base): fails.append('bounded: start total %r != records %d' % (rb['total0'], len(base)))
for kw in [{}, {'bounded': True}, {'noise': 'laplace'}]:
    try: ev, out = full_run(base, 3, **kw)
    except Exception as e: ev, out = [('raised', type(e).__name__)], None
    lines.append('run %s -> %s %s' % (sorted(kw.items()), ev, out))
text = '\n'.join(lines)
print(text); print('digest', hashlib.sha256(text.encode()).hexdigest()[:16])
if fails:
    print('FAIL'); [print(' -', f) for f in fails]; sys.exit(1)
print('PASS')

"""
C06 / pair 1 -- mechanisms/mwem+pgm.py : how many synthetic records are generated.

Replay harness.  The mechanism is run on a dataset D and on a neighbour D'.  Every
noisy release is FORCED to the same (data independent, dyadic-grid valued) vector in both
runs and every exponential-mechanism draw is FORCED to the same index, i.e. the two
executions "observe identical released values and identical selections".  Under the
property, the two executions must then issue the same sequence of DP-primitive calls
(kind, scale, size), ask for the same number of synthetic records, and end with the
same fitted model.

exit 0 + "PASS <digest>"  : property holds on all scenarios
exit 1 + "FAIL ..."       : some scenario distinguishes D from D' although all releases
                            and selections were identical
"""
import os, sys, io, hashlib, importlib.util, contextlib, warnings

ROOT = os.path.dirname(os.path.dirname(os.path.dirname(os.path.abspath(__file__))))
sys.path.insert(0, ROOT)
sys.path.insert(0, os.path.join(ROOT, 'src'))
warnings.filterwarnings('ignore')

import numpy as np
import pandas as pd
import mbi
from mbi import Dataset, Domain, GraphicalModel

assert os.path.abspath(mbi.__file__).startswith(os.path.join(ROOT, 'src')), mbi.__file__

spec = importlib.util.spec_from_file_location('mwem_pgm_mod', os.path.join(ROOT, 'mechanisms', 'mwem+pgm.py'))
mwem = importlib.util.module_from_spec(spec)
spec.loader.exec_module(mwem)


class Replay:
    """ forces the outcome of every DP primitive to a public, data independent value """

    def __init__(self, tag):
        self.tag = tag
        self.events = []
        self.last_x = None
        self.result = None

    # -- forced values -------------------------------------------------------------
    def _target(self, k, size):
        # released vector number k: public, on a 2^-10 grid so that x + (t - x) == t exactly
        rs = np.random.RandomState(10007 * self.tag + k)
        return np.round(rs.uniform(-2.0, 60.0, size) * 1024) / 1024

    def _release(self, kind, scale, size):
        size = int(np.prod(size))
        k = len(self.events)
        self.events.append((kind, float(np.round(scale, 9)), size))
        t = self._target(k, size)
        x = self.last_x
        if x is not None and x.size == size:
            return t - x
        return t

    def normal(self, loc=0.0, scale=1.0, size=None):
        return self._release('normal', scale, size)

    def laplace(self, loc=0.0, scale=1.0, size=None):
        return self._release('laplace', scale, size)

    def choice(self, a, size=None, replace=True, p=None):
        n = int(a) if np.isscalar(a) else len(a)
        k = len(self.events)
        self.events.append(('choice', n, None if p is None else len(p)))
        return (7 * k + 3 * self.tag + 1) % n

    # -- plumbing --------------------------------------------------------------------
    @contextlib.contextmanager
    def installed(self):
        harness = self
        saved = (np.random.normal, np.random.laplace, np.random.choice,
                 Dataset.datavector, GraphicalModel.synthetic_data)
        orig_datavector = Dataset.datavector

        def datavector(ds, flatten=True):
            ans = orig_datavector(ds, flatten)
            harness.last_x = ans.flatten()
            return ans

        def synthetic_data(model, rows=None, method='round'):
            # the real one crashes under pandas 3; record what was asked for instead
            n = int(model.total) if rows is None else int(rows)
            marg = []
            for a in model.domain.attrs:
                marg.extend(np.round(model.project([a]).datavector(), 4).tolist())
            harness.result = {'records_generated': n,
                              'model_total': float(np.round(model.total, 6)),
                              'model_oneway': marg}
            cols = {a: np.arange(n) % model.domain[a] for a in model.domain.attrs}
            return Dataset(pd.DataFrame(cols), model.domain)

        np.random.normal, np.random.laplace, np.random.choice = self.normal, self.laplace, self.choice
        Dataset.datavector = datavector
        GraphicalModel.synthetic_data = synthetic_data
        try:
            yield self
        finally:
            (np.random.normal, np.random.laplace, np.random.choice,
             Dataset.datavector, GraphicalModel.synthetic_data) = saved


def run(data, tag, **kw):
    h = Replay(tag)
    out = None
    with h.installed(), contextlib.redirect_stdout(io.StringIO()):
        try:
            out = mwem.mwem_pgm(data, **kw)
            status = 'ok'
        except Exception as e:          # a data dependent crash is a side channel as well
            status = 'raised %s' % type(e).__name__
    shape = None if out is None else tuple(out.df.shape)
    return {'status': status, 'events': h.events, 'synthetic': h.result, 'returned_shape': shape}


def make_data(seed, n):
    rs = np.random.RandomState(seed)
    dom = Domain(['a', 'b', 'c', 'd'], [2, 3, 4, 2])
    a = rs.randint(0, 2, n)
    b = (a + rs.randint(0, 2, n)) % 3
    c = rs.randint(0, 4, n)
    d = (c % 2 + (rs.rand(n) < 0.2)) % 2
    return Dataset(pd.DataFrame({'a': a, 'b': b, 'c': c, 'd': d}), dom)


def drop_record(data, i):
    return Dataset(data.df.drop(data.df.index[i]).reset_index(drop=True), data.domain)

def add_record(data, row):
    df = pd.concat([data.df, pd.DataFrame([row], columns=data.df.columns)], ignore_index=True)
    return Dataset(df, data.domain)

def replace_record(data, i, row):
    df = data.df.copy()
    df.iloc[i] = row
    return Dataset(df, data.domain)


D = make_data(0, 57)
SCENARIOS = [
    # name, D, D', parameters
    ('gaussian/unbounded/remove', D, drop_record(D, 5),
        dict(epsilon=1.0, delta=1e-6, rounds=3, pgm_iters=40)),
    ('gaussian/unbounded/add', D, add_record(D, [1, 2, 3, 1]),
        dict(epsilon=0.5, delta=1e-6, rounds=2, pgm_iters=40, alpha=0.8)),
    ('laplace/unbounded/remove', D, drop_record(D, 11),
        dict(epsilon=2.0, rounds=3, pgm_iters=40, noise='laplace')),
    ('gaussian/bounded/replace', D, replace_record(D, 7, [0, 0, 0, 0]),
        dict(epsilon=1.0, delta=1e-6, rounds=3, pgm_iters=40, bounded=True)),
    ('laplace/bounded/replace', D, replace_record(D, 9, [1, 1, 1, 1]),
        dict(epsilon=1.0, rounds=2, pgm_iters=40, noise='laplace', bounded=True)),
    ('gaussian/unbounded/workload', D, drop_record(D, 0),
        dict(epsilon=1.0, delta=1e-6, rounds=2, pgm_iters=40,
             workload=[('a', 'b'), ('c', 'd'), ('a', 'd')], maxsize_mb=1)),
]


def main():
    failures = []
    digest = hashlib.sha256()
    for tag, (name, d0, d1, kw) in enumerate(SCENARIOS, 1):
        r0 = run(d0, tag, **kw)
        r1 = run(d1, tag, **kw)
        for key in ['status', 'events', 'synthetic', 'returned_shape']:
            if r0[key] != r1[key]:
                v0, v1 = r0[key], r1[key]
                if key == 'synthetic' and v0 and v1:
                    diff = [k for k in v0 if v0[k] != v1[k]]
                    v0 = {k: v0[k] for k in diff if k != 'model_oneway'}
                    v1 = {k: v1[k] for k in diff if k != 'model_oneway'}
                failures.append('%s: %s differs between D (%d records) and D\' (%d records) although '
                                'all releases and selections were identical:\n      D : %s\n      D\': %s'
                                % (name, key, d0.records, d1.records, v0, v1))
        line = '%s | %s | %d primitive calls | rows %s | total %s' % (
            name, r0['status'], len(r0['events']),
            r0['synthetic'] and r0['synthetic']['records_generated'],
            r0['synthetic'] and r0['synthetic']['model_total'])
        print(line)
        digest.update(repr((name, r0)).encode())

    if failures:
        print('FAIL: the mechanism distinguishes neighbouring datasets outside the DP primitives')
        for f in failures:
            print('  - ' + f)
        return 1
    print('PASS', digest.hexdigest()[:32])
    return 0


if __name__ == '__main__':
    sys.exit(main())

"""
C06 / pair 2 -- mechanisms/mst.py : transform_data (domain of the compressed dataset).

Replay harness.  MST is run on a dataset D and on a neighbour D'.  Every noisy release is
FORCED to the same (data independent, dyadic-grid valued) vector in both runs and every
exponential-mechanism draw is FORCED to the same index, i.e. the two executions "observe
identical released values and identical selections".  Under the property the two
executions must then behave identically: same status (both finish / both raise), same
sequence of DP-primitive calls (kind, scale, size), same fitted model, identical returned
synthetic data, and that data must live in the ORIGINAL domain of the input.

The first-round (one-way) releases are forced so that a chosen set of attribute values
falls below MST's 3*sigma threshold and is merged into one "rare values" bin
(compress_domain); the scenarios differ in whether D / D' contain records with such values.

exit 0 + "PASS <digest>"  : property holds on all scenarios
exit 1 + "FAIL ..."       : some scenario distinguishes D from D' although all releases
                            and selections were identical (or the output left the domain)
"""
import os, sys, io, hashlib, contextlib, warnings

ROOT = os.path.dirname(os.path.dirname(os.path.dirname(os.path.abspath(__file__))))
sys.path.insert(0, ROOT)
sys.path.insert(0, os.path.join(ROOT, 'src'))
warnings.filterwarnings('ignore')

import numpy as np
import pandas as pd
import mbi
from mbi import Dataset, Domain, GraphicalModel, FactoredInference

assert os.path.abspath(mbi.__file__).startswith(os.path.join(ROOT, 'src')), mbi.__file__

from mechanisms import mst
assert os.path.abspath(mst.__file__).startswith(os.path.join(ROOT, 'mechanisms')), mst.__file__

DOMAIN = Domain(['a', 'b', 'c', 'd'], [2, 3, 6, 4])


class QuickInference(FactoredInference):
    """ same estimator, fewer iterations (MST asks for 1000 + 5000) """
    def __init__(self, domain, **kw):
        kw['iters'] = min(kw.get('iters', 1000), 30)
        super().__init__(domain, **kw)


class Replay:
    """ forces the outcome of every DP primitive to a public, data independent value """

    def __init__(self, tag, unsupported):
        self.tag = tag
        self.unsupported = unsupported        # { attribute : values forced below the threshold }
        self.events = []
        self.last_x = None
        self.result = None

    def _target(self, k, size):
        # released vector number k: public, on a 2^-10 grid so that x + (t - x) == t exactly
        rs = np.random.RandomState(10007 * self.tag + k)
        if k < len(DOMAIN):                   # first round: one-way marginal of attribute k
            attr = DOMAIN.attrs[k]
            t = rs.uniform(300.0, 500.0, size)
            for v in self.unsupported.get(attr, []):
                t[v] = rs.uniform(-4.0, 4.0)
        else:
            t = rs.uniform(-2.0, 60.0, size)
        return np.round(t * 1024) / 1024

    def normal(self, loc=0.0, scale=1.0, size=None):
        size = int(np.prod(size))
        k = len(self.events)
        self.events.append(('normal', float(np.round(scale, 9)), size))
        t = self._target(k, size)
        x = self.last_x
        if x is not None and x.size == size:
            return t - x
        return t

    def choice(self, a, size=None, replace=True, p=None):
        arr = np.arange(a) if np.isscalar(a) else np.asarray(a)
        k = len(self.events)
        if p is not None:                     # exponential mechanism
            self.events.append(('select', len(arr), len(p)))
            return (7 * k + 3 * self.tag + 1) % len(arr)
        # post-processing randomness (reverse_data): deterministic stand-in
        self.events.append(('choice', len(arr), None if size is None else int(size)))
        if size is None:
            return arr[k % len(arr)]
        return arr[(np.arange(int(size)) * 5 + k) % len(arr)]

    @contextlib.contextmanager
    def installed(self):
        harness = self
        saved = (np.random.normal, np.random.choice, Dataset.datavector,
                 GraphicalModel.synthetic_data, mst.FactoredInference)
        orig_datavector = Dataset.datavector

        def datavector(ds, flatten=True):
            ans = orig_datavector(ds, flatten)
            harness.last_x = ans.flatten()
            return ans

        def synthetic_data(model, rows=None, method='round'):
            # the real one crashes under pandas 3; produce a deterministic table that uses
            # every code of the model's (compressed) domain
            n = max(int(model.total) if rows is None else int(rows), 40)
            marg = []
            for a in model.domain.attrs:
                marg.extend(np.round(model.project([a]).datavector(), 4).tolist())
            harness.result = {'model_domain': repr(model.domain),
                              'model_total': float(np.round(model.total, 6)),
                              'model_oneway': marg}
            cols = {a: (np.arange(n) * (i + 1)) % model.domain[a]
                    for i, a in enumerate(model.domain.attrs)}
            return Dataset(pd.DataFrame(cols), model.domain)

        np.random.normal, np.random.choice = self.normal, self.choice
        Dataset.datavector = datavector
        GraphicalModel.synthetic_data = synthetic_data
        mst.FactoredInference = QuickInference
        try:
            yield self
        finally:
            (np.random.normal, np.random.choice, Dataset.datavector,
             GraphicalModel.synthetic_data, mst.FactoredInference) = saved


def run(data, tag, unsupported, epsilon, delta):
    h = Replay(tag, unsupported)
    out, status = None, 'ok'
    with h.installed(), contextlib.redirect_stdout(io.StringIO()):
        try:
            out = mst.MST(data, epsilon, delta)
        except Exception as e:          # a data dependent crash is a side channel as well
            status = 'raised %s: %s' % (type(e).__name__, str(e)[:60])
    res = {'status': status, 'events': h.events, 'model': h.result, 'output': None, 'conforms': None}
    if out is not None:
        vals = out.df.values
        res['output'] = (tuple(vals.shape), hashlib.sha256(np.ascontiguousarray(vals).astype('int64').tobytes()).hexdigest()[:16])
        res['conforms'] = bool(out.domain == data.domain and list(out.df.columns) == list(data.domain.attrs)
                               and (vals >= 0).all() and (vals.max(axis=0) < np.array(data.domain.shape)).all())
    return res


def make_data(seed, n, c_values):
    rs = np.random.RandomState(seed)
    a = rs.randint(0, 2, n)
    b = (a + rs.randint(0, 2, n)) % 3
    c = rs.choice(c_values, n)
    d = (c + rs.randint(0, 2, n)) % 4
    return Dataset(pd.DataFrame({'a': a, 'b': b, 'c': c, 'd': d}), DOMAIN)

def drop_record(data, i):
    return Dataset(data.df.drop(data.df.index[i]).reset_index(drop=True), data.domain)

def add_record(data, row):
    df = pd.concat([data.df, pd.DataFrame([row], columns=data.df.columns)], ignore_index=True)
    return Dataset(df, data.domain)


COMMON = make_data(1, 80, [0, 1, 2, 3])            # values 4 and 5 of 'c' never occur
RARE = add_record(add_record(COMMON, [1, 0, 4, 2]), [0, 2, 5, 1])   # ... here they occur once each
i_common = 3
i_rare = RARE.records - 2                         # the only record with c == 4

SCENARIOS = [
    # name, D, D', values forced below the threshold, epsilon, delta
    ('nothing merged / remove a record', RARE, drop_record(RARE, i_common), {}, 1.0, 1e-6),
    ('c:{4,5} merged, both present / remove a common record', RARE, drop_record(RARE, i_common), {'c': [4, 5]}, 1.0, 1e-6),
    ('c:{4,5} merged, both present / remove the c=4 record', RARE, drop_record(RARE, i_rare), {'c': [4, 5]}, 1.0, 1e-6),
    ('c:{4,5} d:{3} merged, present / add a record', RARE, add_record(RARE, [1, 1, 5, 3]), {'c': [4, 5], 'd': [3]}, 2.0, 1e-9),
    ('b entirely merged / remove a record', RARE, drop_record(RARE, 10), {'b': [0, 1, 2], 'c': [5]}, 1.0, 1e-6),
    ('c:{4,5} merged, absent from D / add a c=4 record', COMMON, add_record(COMMON, [1, 0, 4, 2]), {'c': [4, 5]}, 1.0, 1e-6),
    ('c:{5} merged, absent from D / add a c=5 record', COMMON, add_record(COMMON, [0, 1, 5, 0]), {'c': [5]}, 0.5, 1e-6),
    ('c:{5} merged, present once in D / remove that record', RARE, drop_record(RARE, RARE.records - 1), {'c': [5]}, 1.0, 1e-6),
]


def main():
    failures = []
    digest = hashlib.sha256()
    for tag, (name, d0, d1, unsupported, eps, delta) in enumerate(SCENARIOS, 1):
        r0 = run(d0, tag, unsupported, eps, delta)
        r1 = run(d1, tag, unsupported, eps, delta)
        for key in ['status', 'events', 'model', 'output']:
            if r0[key] != r1[key]:
                v0, v1 = r0[key], r1[key]
                if key == 'events':
                    v0, v1 = '%d primitive calls' % len(v0), '%d primitive calls' % len(v1)
                if key == 'model':
                    v0, v1 = v0 and v0['model_domain'], v1 and v1['model_domain']
                failures.append('%s: %s differs between D (%d records) and D\' (%d records) although '
                                'all releases and selections were identical:\n      D : %s\n      D\': %s'
                                % (name, key, d0.records, d1.records, v0, v1))
        for which, r in [('D', r0), ("D'", r1)]:
            if r['conforms'] is False:
                failures.append('%s: data returned for %s does not conform to the original domain' % (name, which))
        print('%s | %s | %d primitive calls | model %s | output %s' % (
            name, r0['status'], len(r0['events']), r0['model'] and r0['model']['model_domain'], r0['output']))
        digest.update(repr((name, r0)).encode())

    if failures:
        print('FAIL: MST distinguishes neighbouring datasets outside the DP primitives')
        for f in failures:
            print('  - ' + f)
        return 1
    print('PASS', digest.hexdigest()[:32])
    return 0


if __name__ == '__main__':
    sys.exit(main())

"""C06 pair 1 -- MST(): is the domain-compression step driven by the noisy log only?

Replays MST on neighbouring datasets D / D' while forcing both executions to
observe the same released values (noisy marginals) and the same selections
(exponential-mechanism draws).  C06 demands that both executions then perform
the same sequence of releases (sizes, noise scales), hand the same measurement
log to Private-PGM and return the same synthetic data, in the ORIGINAL domain.
"""
import os, sys, io, hashlib, itertools, contextlib, warnings

ROOT = os.path.dirname(os.path.dirname(os.path.dirname(os.path.abspath(__file__))))
sys.path.insert(0, ROOT)
sys.path.insert(0, os.path.join(ROOT, 'src'))
if os.path.isdir('/tmp/stubs'):
    sys.path.append('/tmp/stubs')
warnings.filterwarnings('ignore')

import numpy as np
import pandas as pd
import mbi
from mbi import Dataset, Domain, GraphicalModel
from mechanisms import mst

assert os.path.abspath(mbi.__file__).startswith(ROOT), mbi.__file__
assert os.path.abspath(mst.__file__).startswith(ROOT), mst.__file__

EPS, DELTA = 1.0, 1e-6          # sigma = 7.85; 1-way marginals are released with scale sigma*sqrt(3) = 13.59
DOMAIN = Domain(['a', 'b', 'c'], [5, 4, 3])


# ----------------------------------------------------------------- harness
class Harness:
    """Wraps every source of randomness MST uses.

    record mode : phase-1 releases are the crafted `forced` vectors, later
                  releases / selections are drawn from a seeded generator and
                  remembered.
    replay mode : every release and every selection is forced to the remembered
                  value, whatever the dataset is.
    """
    def __init__(self, forced, recorded=None):
        self.forced = forced
        self.replay = recorded is not None
        self.rel = list(recorded[0]) if self.replay else []
        self.sel = list(recorded[1]) if self.replay else []
        self.rng = np.random.RandomState(20240)
        self.fill_rng = np.random.RandomState(7)      # reverse_data(): public post-processing
        self.k_rel = self.k_sel = 0
        self.last_x = None
        self.events = []
        self.logs = []

    def normal(self, loc=0.0, scale=1.0, size=None):
        x = self.last_x
        assert x is not None and x.size == size
        k = self.k_rel
        self.k_rel += 1
        if k < len(self.forced):
            t = np.asarray(self.forced[k], dtype=float)
        elif self.replay:
            t = self.rel[k]
        else:
            t = np.round((x + self.rng.normal(loc, scale, size)) * 1024) / 1024
        if not self.replay:
            self.rel.append(t)
        assert t.size == size, 'replayed release has %d cells, this execution asks for %d' % (t.size, size)
        self.events.append(('release', int(size), round(float(scale), 9)))
        return t - x                      # x + (t - x) == t exactly (dyadic values)

    def choice(self, a, size=None, replace=True, p=None):
        if np.ndim(a) == 0 and p is not None:          # exponential mechanism
            k = self.k_sel
            self.k_sel += 1
            if self.replay:
                idx = self.sel[k]
            else:
                idx = int(self.rng.choice(a, p=p))
                self.sel.append(idx)
            self.events.append(('select', int(a), idx))
            return idx
        self.events.append(('fill', int(np.size(a)), int(size)))
        return self.fill_rng.choice(a, size)


def fake_synthetic_data(model, rows=None, method='round'):
    """pandas-3 safe stand-in: one record per cell of the model's domain."""
    cells = list(itertools.product(*[range(n) for n in model.domain.shape]))
    df = pd.DataFrame(np.array(cells, dtype=int), columns=list(model.domain.attrs))
    return Dataset(df, model.domain)


def run_mst(data, forced, recorded=None):
    h = Harness(forced, recorded)
    real_dv = Dataset.datavector
    real_fi = mst.FactoredInference

    def datavector(self, flatten=True):
        v = real_dv(self, flatten)
        h.last_x = v
        return v

    class QuickInference(real_fi):
        def __init__(self, domain, **kw):
            kw['iters'] = min(kw.get('iters', 1000), 25)
            real_fi.__init__(self, domain, **kw)

        def estimate(self, measurements, *a, **kw):
            h.logs.append([(tuple(proj), Q.shape, round(float(s), 9),
                            tuple(np.round(np.asarray(y, dtype=float), 6)))
                           for Q, y, s, proj in measurements])
            return real_fi.estimate(self, measurements, *a, **kw)

    saved = (np.random.normal, np.random.choice, GraphicalModel.synthetic_data)
    np.random.normal, np.random.choice = h.normal, h.choice
    GraphicalModel.synthetic_data = fake_synthetic_data
    Dataset.datavector = datavector
    mst.FactoredInference = QuickInference
    try:
        with contextlib.redirect_stdout(io.StringIO()):
            out = mst.MST(data, EPS, DELTA)
    finally:
        np.random.normal, np.random.choice, GraphicalModel.synthetic_data = saved
        Dataset.datavector = real_dv
        mst.FactoredInference = real_fi
    result = {
        'events': h.events,
        'final_log': h.logs[-1],
        'domain': (tuple(out.domain.attrs), tuple(int(n) for n in out.domain.shape)),
        'data': hashlib.sha256(np.ascontiguousarray(out.df.values.astype(np.int64)).tobytes()).hexdigest(),
        'in_domain': bool((out.df.values >= 0).all() and (out.df.values < np.array(out.domain.shape)).all()),
    }
    return result, (h.rel, h.sel)


# ----------------------------------------------------------------- inputs
def base_rows(exclude):
    """60 records; `exclude` = {attr: set(values that no record takes)}"""
    rs = np.random.RandomState(5)
    rows = []
    while len(rows) < 60:
        r = [int(rs.randint(n)) for n in DOMAIN.shape]
        if all(r[i] not in exclude.get(a, ()) for i, a in enumerate(DOMAIN.attrs)):
            rows.append(r)
    return rows


def dataset(rows, weighted=False):
    df = pd.DataFrame(np.array(rows, dtype=int), columns=list(DOMAIN.attrs))
    weights = np.array([1.0 + 0.5 * (sum(r) % 3) for r in rows]) if weighted else None
    return Dataset(df, DOMAIN, weights)


H = 100.0   # comfortably above the threshold (3 * 13.59 = 40.8)
CASES = [
    # name, crafted phase-1 releases (a, b, c), values D avoids, neighbours (+record / -index)
    ('full-support',
     [[H] * 5, [H] * 4, [H] * 3], {},
     [('add', [4, 0, 2]), ('del', 0)]),
    ('full-support/weighted',
     [[H] * 5, [H] * 4, [H] * 3], {},
     [('add', [0, 3, 1]), ('del', 20)]),
    ('trailing-cells-merged',
     [[H, H, H, 2.0, -3.5], [H] * 4, [H, H, 1.25]], {'a': {3, 4}, 'c': {2}},
     [('add', [4, 0, 0]), ('add', [0, 1, 2]), ('add', [1, 1, 1]), ('del', 3)]),
    ('middle-cells-merged',
     [[H, 1.0, H, H, 2.0], [H, H, -1.5, H], [H] * 3], {},
     [('add', [1, 2, 0]), ('add', [0, 0, 0]), ('del', 7)]),
    ('one-cell-merged',
     [[H] * 5, [H, 3.0, H, H], [0.5, H, H]], {'b': {1}},
     [('add', [2, 1, 0]), ('add', [2, 0, 0]), ('del', 11)]),
]


def main():
    failures, digest = [], hashlib.sha256()
    for name, forced, exclude, neighbours in CASES:
        rows = base_rows(exclude)
        weighted = name.endswith('/weighted')
        ref, recorded = run_mst(dataset(rows, weighted), forced)
        digest.update(repr((name, ref)).encode())
        print('%-24s D : %d releases, %d selections, returned domain %s'
              % (name, sum(e[0] == 'release' for e in ref['events']),
                 sum(e[0] == 'select' for e in ref['events']), ref['domain'][1]))
        if ref['domain'] != (tuple(DOMAIN.attrs), tuple(DOMAIN.shape)) or not ref['in_domain']:
            failures.append('%s: D: returned data does not conform to the input domain: %s' % (name, ref['domain']))
        for kind, arg in neighbours:
            rows2 = rows + [arg] if kind == 'add' else rows[:arg] + rows[arg + 1:]
            tag = '%s %s%s' % (name, '+' if kind == 'add' else '-', arg)
            try:
                res, _ = run_mst(dataset(rows2, weighted), forced, recorded)
            except AssertionError as e:
                failures.append("%s: D' cannot even replay D's releases: %s" % (tag, e))
                print('    D\' %-22s DIVERGED (%s)' % (('+' if kind == 'add' else '-') + str(arg), e))
                continue
            digest.update(repr((tag, res)).encode())
            diff = [k for k in ref if ref[k] != res[k]]
            print('    D\' %-22s %s' % (('+' if kind == 'add' else '-') + str(arg),
                                       'same' if not diff else 'DIFFERS in ' + ', '.join(diff)))
            if diff:
                failures.append('%s: with identical released values and selections the two executions differ in %s '
                                '(returned domain D %s vs D\' %s; events D %s vs D\' %s)'
                                % (tag, diff, ref['domain'][1], res['domain'][1],
                                   [e for e in ref['events'] if e not in res['events']],
                                   [e for e in res['events'] if e not in ref['events']]))
    if failures:
        print('FAIL: MST depends on the private table outside its noisy releases / selections')
        for f in failures:
            print('  -', f)
        return 1
    print('PASS digest', digest.hexdigest())
    return 0


if __name__ == '__main__':
    sys.exit(main())

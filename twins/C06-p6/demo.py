"""C06 pair 2 -- mwem_pgm(): are the noise scales independent of the private table?

Replays MWEM+PGM on neighbouring (optionally weighted) datasets D / D' while
forcing both executions to observe the same released values and the same
selections.  C06 demands that both executions then perform the same sequence of
releases WITH THE SAME NOISE SCALES, hand the same measurement log / total to
Private-PGM and produce a model over the input's original domain.
"""
import os, sys, io, hashlib, contextlib, warnings, importlib.util

ROOT = os.path.dirname(os.path.dirname(os.path.dirname(os.path.abspath(__file__))))
sys.path.insert(0, ROOT)
sys.path.insert(0, os.path.join(ROOT, 'src'))
if os.path.isdir('/tmp/stubs'):
    sys.path.append('/tmp/stubs')
warnings.filterwarnings('ignore')

import numpy as np
import pandas as pd
import mbi
from mbi import Dataset, Domain, GraphicalModel

spec = importlib.util.spec_from_file_location('mwem_pgm_module', os.path.join(ROOT, 'mechanisms', 'mwem+pgm.py'))
mwem = importlib.util.module_from_spec(spec)
spec.loader.exec_module(mwem)
assert os.path.abspath(mbi.__file__).startswith(ROOT), mbi.__file__

DOMAIN = Domain(['a', 'b', 'c'], [3, 4, 2])


class Harness:
    def __init__(self, recorded=None):
        self.replay = recorded is not None
        self.rel = list(recorded[0]) if self.replay else []
        self.sel = list(recorded[1]) if self.replay else []
        self.rng = np.random.RandomState(4711)
        self.k_rel = self.k_sel = 0
        self.last_x = None
        self.events = []
        self.logs = []

    def _release(self, kind, loc, scale, size):
        x = self.last_x
        assert x is not None and x.size == size
        k = self.k_rel
        self.k_rel += 1
        if self.replay:
            t = self.rel[k]
        else:
            draw = self.rng.laplace if kind == 'laplace' else self.rng.normal
            t = np.round((x + draw(loc, scale, size)) * 1024) / 1024
            self.rel.append(t)
        assert t.size == size
        self.events.append(('release', kind, int(size), round(float(scale), 9)))
        return t - x                         # x + (t - x) == t exactly (dyadic values)

    def normal(self, loc=0.0, scale=1.0, size=None):
        return self._release('normal', loc, scale, size)

    def laplace(self, loc=0.0, scale=1.0, size=None):
        return self._release('laplace', loc, scale, size)

    def choice(self, a, size=None, replace=True, p=None):
        k = self.k_sel
        self.k_sel += 1
        if self.replay:
            idx = self.sel[k]
        else:
            idx = int(self.rng.choice(a, p=p))
            self.sel.append(idx)
        self.events.append(('select', int(a), idx))
        return idx


def run(data, recorded=None, **kw):
    h = Harness(recorded)
    real_dv = Dataset.datavector
    real_fi = mwem.FactoredInference

    def datavector(self, flatten=True):
        v = real_dv(self, flatten)
        h.last_x = v
        return v

    class LoggingInference(real_fi):
        def estimate(self, measurements, total=None, *a, **k):
            h.logs.append((total, [(tuple(proj), Q.shape, round(float(s), 9),
                                    tuple(np.round(np.asarray(y, dtype=float), 6)))
                                   for Q, y, s, proj in measurements]))
            return real_fi.estimate(self, measurements, total, *a, **k)

    saved = (np.random.normal, np.random.laplace, np.random.choice, GraphicalModel.synthetic_data)
    np.random.normal, np.random.laplace, np.random.choice = h.normal, h.laplace, h.choice
    GraphicalModel.synthetic_data = lambda model, rows=None, method='round': model   # pandas-3 safe stand-in
    Dataset.datavector = datavector
    mwem.FactoredInference = LoggingInference
    try:
        with contextlib.redirect_stdout(io.StringIO()):
            model = mwem.mwem_pgm(data, pgm_iters=20, **kw)
    finally:
        np.random.normal, np.random.laplace, np.random.choice, GraphicalModel.synthetic_data = saved
        Dataset.datavector = real_dv
        mwem.FactoredInference = real_fi
    result = {
        'events': h.events,
        'final_log': h.logs[-1],
        'domain': (tuple(model.domain.attrs), tuple(int(n) for n in model.domain.shape)),
    }
    return result, (h.rel, h.sel)


def table(rows, weights=None):
    df = pd.DataFrame(np.array(rows, dtype=int), columns=list(DOMAIN.attrs))
    w = None if weights is None else np.array(weights, dtype=float)
    return Dataset(df, DOMAIN, w)


rs = np.random.RandomState(11)
ROWS = [[int(rs.randint(n)) for n in DOMAIN.shape] for _ in range(50)]
# survey-style weights: mostly 1, some 0.5, one heavy record (index 17) with weight 2.5
WEIGHTS = [1.0] * 50
for i in (3, 8, 21, 30, 44):
    WEIGHTS[i] = 0.5
WEIGHTS[17] = 2.5


def drop(seq, i):
    return seq[:i] + seq[i + 1:]


GAUSS = dict(epsilon=1.0, delta=1e-6, rounds=3)
LAPLACE = dict(epsilon=1.0, rounds=3, noise='laplace')
CASES = [
    # name, mechanism arguments, D, [(label, D')]
    ('unweighted/gaussian', GAUSS, table(ROWS),
     [('+record', table(ROWS + [[2, 3, 1]])), ('-record 5', table(drop(ROWS, 5)))]),
    ('unweighted/laplace', LAPLACE, table(ROWS),
     [('+record', table(ROWS + [[0, 0, 0]]))]),
    ('unweighted/gaussian/bounded', dict(GAUSS, bounded=True), table(ROWS),
     [('record 9 replaced', table(ROWS[:9] + [[1, 1, 1]] + ROWS[10:]))]),
    ('weighted/gaussian', GAUSS, table(ROWS, WEIGHTS),
     [('-light record 3', table(drop(ROWS, 3), drop(WEIGHTS, 3))),
      ('-heaviest record 17', table(drop(ROWS, 17), drop(WEIGHTS, 17))),
      ('+record of weight 1', table(ROWS + [[2, 0, 1]], WEIGHTS + [1.0]))]),
    ('weighted/laplace', dict(LAPLACE, workload=[('a', 'b'), ('b', 'c'), ('a',)]), table(ROWS, WEIGHTS),
     [('-heaviest record 17', table(drop(ROWS, 17), drop(WEIGHTS, 17))),
      ('+record of weight 4', table(ROWS + [[1, 2, 0]], WEIGHTS + [4.0]))]),
    ('weighted/gaussian/bounded', dict(GAUSS, bounded=True, alpha=0.8), table(ROWS, WEIGHTS),
     [('heaviest record 17 replaced by a unit-weight one',
       table(ROWS[:17] + [[0, 3, 1]] + ROWS[18:], WEIGHTS[:17] + [1.0] + WEIGHTS[18:]))]),
]


def main():
    failures, digest = [], hashlib.sha256()
    for name, kw, D, neighbours in CASES:
        ref, recorded = run(D, **kw)
        digest.update(repr((name, ref)).encode())
        scales = sorted({e[3] for e in ref['events'] if e[0] == 'release'})
        print('%-30s D : %d releases, scales %s, total passed to PGM %s'
              % (name, sum(e[0] == 'release' for e in ref['events']), scales, ref['final_log'][0]))
        if ref['domain'] != (tuple(DOMAIN.attrs), tuple(DOMAIN.shape)):
            failures.append('%s: model domain %s is not the input domain' % (name, ref['domain']))
        for label, D2 in neighbours:
            res, _ = run(D2, recorded, **kw)
            digest.update(repr((name, label, res)).encode())
            diff = [k for k in ref if ref[k] != res[k]]
            print("    D' %-52s %s" % (label, 'same' if not diff else 'DIFFERS in ' + ', '.join(diff)))
            if diff:
                s2 = sorted({e[3] for e in res['events'] if e[0] == 'release'})
                failures.append("%s, D' = %s: with identical released values and selections the executions differ in %s "
                                "(noise scales D %s vs D' %s)" % (name, label, diff, scales, s2))
    if failures:
        print('FAIL: MWEM+PGM depends on the private table outside its noisy releases / selections')
        for f in failures:
            print('  -', f)
        return 1
    print('PASS digest', digest.hexdigest())
    return 0


if __name__ == '__main__':
    sys.exit(main())

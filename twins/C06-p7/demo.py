"""
C06 / pair 1 -- mechanisms/mwem+pgm.py, resolution of the data-derived defaults
(`rounds=None`, `total` under bounded adjacency) at the top of mwem_pgm().

The demo runs MWEM+PGM on neighbouring datasets D / D' while
  * every numpy.random.normal / laplace call is recorded (scale, size) and
    answered from an identical seeded stream, and
  * every numpy.random.choice call (the private selection) is recorded
    (number of candidates) and answered from an identical script,
so both executions observe the same random outcomes.  The property demands that
the two executions then perform the same sequence of releases with the same
noise scales, and that the number of rounds is the documented default
(number of attributes), never a function of the record count.

exit 0 + "PASS" on correct code, exit 1 + "FAIL" otherwise.
"""
import os, sys, io, hashlib, contextlib, warnings, importlib.util

HERE = os.path.abspath(__file__)
ROOT = os.path.dirname(os.path.dirname(os.path.dirname(HERE)))
sys.path.insert(0, ROOT)
sys.path.insert(0, os.path.join(ROOT, 'src'))
if os.path.isdir('/tmp/stubs'):
    sys.path.append('/tmp/stubs')
warnings.filterwarnings('ignore')

import numpy as np
import pandas as pd
import mbi
from mbi import Dataset, Domain, GraphicalModel

assert os.path.abspath(mbi.__file__).startswith(ROOT), 'mbi is not imported from this worktree: ' + mbi.__file__

spec = importlib.util.spec_from_file_location('mwem_pgm_mod', os.path.join(ROOT, 'mechanisms', 'mwem+pgm.py'))
mwem = importlib.util.module_from_spec(spec)
spec.loader.exec_module(mwem)

# synthetic_data() is broken under pandas 3 in this environment; the demo only
# looks at the releases, so the last step is replaced by a stub.
GraphicalModel.synthetic_data = lambda self, rows=None, method='round': None


class Recorder(mwem.FactoredInference):
    """ FactoredInference that remembers the `total` it was given """
    totals = []
    def estimate(self, measurements, total=None, *args, **kwargs):
        Recorder.totals.append(total)
        return super().estimate(measurements, total, *args, **kwargs)

mwem.FactoredInference = Recorder


def execute(data, seed, **kwargs):
    """ run mwem_pgm with recorded / scripted randomness, return the event trace """
    trace = []
    noise = np.random.RandomState(seed)
    script = np.random.RandomState(seed + 1)
    Recorder.totals = []

    def normal(loc=0.0, scale=1.0, size=None):
        trace.append(('normal', round(float(scale), 9), int(size)))
        return noise.normal(loc, scale, size)

    def laplace(loc=0.0, scale=1.0, size=None):
        trace.append(('laplace', round(float(scale), 9), int(size)))
        return noise.laplace(loc, scale, size)

    def choice(a, size=None, replace=True, p=None):
        n = int(a) if np.isscalar(a) else len(a)
        trace.append(('choice', n))
        return int(script.randint(0, 10**6)) % n

    saved = np.random.normal, np.random.laplace, np.random.choice
    np.random.normal, np.random.laplace, np.random.choice = normal, laplace, choice
    try:
        with contextlib.redirect_stdout(io.StringIO()):
            mwem.mwem_pgm(data, pgm_iters=25, **kwargs)
    finally:
        np.random.normal, np.random.laplace, np.random.choice = saved
    return trace, list(Recorder.totals)


def dataset(rows, domain):
    df = pd.DataFrame(rows, columns=list(domain.attrs))
    return Dataset(df, domain)


domain = Domain(['a', 'b', 'c', 'd'], [2, 3, 2, 2])
prng = np.random.RandomState(0)
base = [[prng.randint(0, n) for n in domain.shape] for _ in range(9)]

cases = []
# (name, D rows, D' rows, kwargs, expected rounds)
cases.append(('gaussian, default rounds, 7 vs 6 records', base[:7], base[:6],
              dict(epsilon=1.0, delta=1e-6), 4))
cases.append(('gaussian, default rounds, 9 vs 8 records', base[:9], base[:8],
              dict(epsilon=2.0, delta=1e-9), 4))
cases.append(('gaussian, rounds=3 given, 7 vs 6 records', base[:7], base[:6],
              dict(epsilon=1.0, delta=1e-6, rounds=3), 3))
cases.append(('laplace, default rounds, 5 vs 4 records', base[:5], base[:4],
              dict(epsilon=1.0, noise='laplace'), 4))
cases.append(('gaussian, default rounds, 1 vs 0 records', base[:1], base[:0],
              dict(epsilon=1.0, delta=1e-6), 4))
swapped = [list(r) for r in base[:6]]
swapped[2] = [(v + 1) % n for v, n in zip(swapped[2], domain.shape)]
cases.append(('gaussian, bounded (replace one record), 6 records', base[:6], swapped,
              dict(epsilon=1.0, delta=1e-6, bounded=True), 4))

problems = []
lines = []
for k, (name, rows1, rows2, kwargs, expected_rounds) in enumerate(cases):
    D1, D2 = dataset(rows1, domain), dataset(rows2, domain)
    try:
        t1, tot1 = execute(D1, 100 + k, **kwargs)
        t2, tot2 = execute(D2, 100 + k, **kwargs)
    except Exception as e:
        problems.append('%s: execution raised %s: %s' % (name, type(e).__name__, e))
        continue
    releases1 = [e for e in t1 if e[0] != 'choice']
    releases2 = [e for e in t2 if e[0] != 'choice']
    lines.append('%-55s releases=%d/%d scale=%s totals=%s/%s' % (
        name, len(releases1), len(releases2), releases1[0][1] if releases1 else None,
        sorted(set(map(str, tot1))), sorted(set(map(str, tot2)))))
    if t1 != t2:
        problems.append('%s: the two executions replay the same random outcomes but their event '
                        'sequences differ:\n      D : %s\n      D\': %s' % (name, t1, t2))
    for tag, rel in (('D', releases1), ("D'", releases2)):
        if len(rel) != expected_rounds:
            problems.append('%s: execution on %s made %d releases, expected %d (number of attributes / '
                            'the requested rounds)' % (name, tag, len(rel), expected_rounds))
    if kwargs.get('bounded'):
        for tag, tot, D in (('D', tot1, D1), ("D'", tot2, D2)):
            if set(tot) != {D.records}:
                problems.append('%s: under bounded adjacency the engine must be told total=%d, got %s'
                                % (name, D.records, sorted(set(tot))))
    else:
        if set(tot1) != {None} or set(tot2) != {None}:
            problems.append('%s: total must be left to be estimated from the noisy answers, got %s / %s'
                            % (name, set(tot1), set(tot2)))
    lines.append('    trace D : %s' % (t1,))

digest = hashlib.sha256('\n'.join(lines).encode()).hexdigest()
print('\n'.join(lines))
print('digest', digest)
if problems:
    print('FAIL: the number of rounds / the noise scale of MWEM+PGM depends on the private data')
    for p in problems:
        print('  -', p)
    sys.exit(1)
print('PASS')
sys.exit(0)

"""
C06 / pair 2 -- mechanisms/mst.py, compress_domain(): the closure that undoes the
domain compression (`undo_compress_fn`).

Clause checked: MST's returned dataset is a post-processing of the noisy
releases only.  Two executions on neighbouring datasets D / D' that observe
identical released values and identical selections must return identical
synthetic data, and that data must live in the input's original domain.

Part A calls compress_domain() directly on D and D' with the SAME noisy one-way
answers and applies both undo functions to the SAME synthetic dataset.
Part B runs MST() end to end; the releases of measure() and the selections of
exponential_mechanism() recorded on D are replayed on D'.

exit 0 + "PASS" on correct code, exit 1 + "FAIL" otherwise.
"""
import os, sys, io, hashlib, contextlib, warnings

HERE = os.path.abspath(__file__)
ROOT = os.path.dirname(os.path.dirname(os.path.dirname(HERE)))
sys.path.insert(0, ROOT)
sys.path.insert(0, os.path.join(ROOT, 'src'))
if os.path.isdir('/tmp/stubs'):
    sys.path.append('/tmp/stubs')
warnings.filterwarnings('ignore')

import numpy as np
import pandas as pd
from scipy import sparse
import mbi
from mbi import Dataset, Domain, GraphicalModel
import mechanisms.mst as mst

assert os.path.abspath(mbi.__file__).startswith(ROOT), 'mbi is not imported from this worktree: ' + mbi.__file__
assert os.path.abspath(mst.__file__).startswith(ROOT)

problems = []
lines = []


def frame_digest(df):
    return hashlib.sha256(df.to_csv(index=False).encode()).hexdigest()[:16]


def make_data(domain, n, seed, rare=None):
    prng = np.random.RandomState(seed)
    cols = {}
    for a, k in zip(domain.attrs, domain.shape):
        p = np.ones(k)
        if rare and a in rare:
            p[rare[a]] = 0.002
        cols[a] = prng.choice(k, n, p=p / p.sum())
    return Dataset(pd.DataFrame(cols), domain)


def neighbour(data):
    """ remove the last record """
    return Dataset(data.df.iloc[:-1].reset_index(drop=True), data.domain)


def in_domain(ds, domain):
    if ds.domain != domain:
        return False
    v = ds.df.values
    return bool((v >= 0).all() and (v < np.array(domain.shape)).all())


# ---------------------------------------------------------------- part A
def part_a(name, domain, n, seed, sigma, rare=None):
    D = make_data(domain, n, seed, rare)
    D2 = neighbour(D)
    prng = np.random.RandomState(seed + 1)
    released = []
    for col in domain:
        x = D.project((col,)).datavector()
        y = x + prng.normal(0, sigma, x.size)
        released.append((sparse.eye(x.size), y, sigma, (col,)))
    supports = {m[3][0]: m[1] >= 3 * sigma for m in released}

    outs = []
    for tag, data in (('D', D), ("D'", D2)):
        cdata, cmeas, undo = mst.compress_domain(data, list(released))
        # a synthetic dataset over the compressed domain (what Private-PGM would hand back)
        sp = np.random.RandomState(seed + 2)
        synth = Dataset(pd.DataFrame({a: sp.randint(0, k, 40) for a, k in
                                      zip(cdata.domain.attrs, cdata.domain.shape)}), cdata.domain)
        np.random.seed(seed + 3)
        try:
            out = undo(synth)
        except Exception as e:
            problems.append('A/%s: undo on %s raised %s: %s' % (name, tag, type(e).__name__, e))
            return
        np.random.seed(seed + 3)
        ref = mst.reverse_data(synth, supports)
        outs.append(out)
        if not in_domain(out, domain):
            problems.append('A/%s: undo(%s) does not conform to the original domain %s (got %s)'
                            % (name, tag, domain, out.domain))
        if out.df.shape != ref.df.shape or not np.array_equal(out.df.values, ref.df.values):
            problems.append('A/%s: undo built from %s is not the decoding of the synthetic data it was given '
                            '(rows %d, expected %d); equals the private input: %s'
                            % (name, tag, out.df.shape[0], ref.df.shape[0],
                               out.df.shape == data.df.shape and np.array_equal(out.df.values, data.df.values)))
    a, b = outs
    if a.df.shape != b.df.shape or not np.array_equal(a.df.values, b.df.values):
        problems.append('A/%s: same releases, same synthetic data, but the outputs for D and D\' differ '
                        '(%d vs %d rows)' % (name, a.df.shape[0], b.df.shape[0]))
    lines.append('A %-28s supports=%s out=%s rows=%d' % (
        name, [int(s.sum()) for s in supports.values()], frame_digest(a.df), a.df.shape[0]))


part_a('full supports', Domain(['a', 'b', 'c'], [3, 4, 2]), 3000, 1, 10.0)
part_a('rare last value', Domain(['a', 'b', 'c'], [3, 4, 2]), 3000, 2, 10.0, rare={'b': 3})
part_a('two rare values', Domain(['a', 'b'], [5, 3]), 4000, 3, 8.0, rare={'a': [3, 4]})
part_a('tiny data, all compressed', Domain(['a', 'b'], [3, 2]), 12, 4, 10.0)


# ---------------------------------------------------------------- part B
def fake_synthetic_data(self, rows=None, method='round'):
    """ stand-in for GraphicalModel.synthetic_data (broken under pandas 3 here):
        independent draws from the model's one-way marginals, own fixed seed """
    prng = np.random.RandomState(4242)
    np.random.seed(4243)   # whatever follows (reverse_data) sees the same global stream in every run
    total = int(self.total) if rows is None else rows
    cols = {}
    for a in self.domain.attrs:
        p = np.maximum(self.project([a]).datavector(), 0)
        cols[a] = prng.choice(p.size, total, p=p / p.sum())
    return Dataset(pd.DataFrame(cols), self.domain)

GraphicalModel.synthetic_data = fake_synthetic_data

_FI = mst.FactoredInference
mst.FactoredInference = lambda domain, iters=1000, **kw: _FI(domain, iters=min(iters, 150), **kw)

real_measure, real_em = mst.measure, mst.exponential_mechanism


def run_mst(data, eps, delta, seed, replay=None):
    """ run MST; record (replay=None) or replay the outcomes of the DP primitives """
    log = {'measure': [], 'select': [], 'trace': []}
    it_m = iter(replay['measure']) if replay else None
    it_s = iter(replay['select']) if replay else None

    def measure(d, cliques, sigma, weights=None):
        log['trace'].append(('measure', tuple(map(tuple, cliques)), round(float(sigma), 9),
                             tuple(d.domain.shape)))
        if replay:
            return [(Q, y.copy(), s, proj) for Q, y, s, proj in next(it_m)]
        out = real_measure(d, cliques, sigma, weights)
        log['measure'].append([(Q, y.copy(), s, proj) for Q, y, s, proj in out])
        return out

    def em(q, eps, sensitivity, prng=np.random, monotonic=False):
        log['trace'].append(('select', int(q.size), round(float(eps), 9)))
        if replay:
            return next(it_s)
        idx = real_em(q, eps, sensitivity, prng, monotonic)
        log['select'].append(idx)
        return idx

    mst.measure, mst.exponential_mechanism = measure, em
    np.random.seed(seed)
    try:
        with contextlib.redirect_stdout(io.StringIO()):
            out = mst.MST(data, eps, delta)
    finally:
        mst.measure, mst.exponential_mechanism = real_measure, real_em
    return out, log


def part_b(name, domain, n, seed, eps, rare=None):
    D = make_data(domain, n, seed, rare)
    D2 = neighbour(D)
    try:
        out1, log1 = run_mst(D, eps, 1e-9, seed)
        out2, log2 = run_mst(D2, eps, 1e-9, seed, replay=log1)
    except Exception as e:
        problems.append('B/%s: MST raised %s: %s' % (name, type(e).__name__, e))
        return
    if log1['trace'] != log2['trace']:
        problems.append('B/%s: sequence of releases / selections differs between D and D\'' % name)
    for tag, out, data in (('D', out1, D), ("D'", out2, D2)):
        if not in_domain(out, domain):
            problems.append('B/%s: MST(%s) does not conform to the original domain' % (name, tag))
        if out.df.shape == data.df.shape and np.array_equal(out.df.values, data.df.values):
            problems.append('B/%s: MST(%s) returned the private input records verbatim' % (name, tag))
    # fake_synthetic_data re-seeds np.random, so the random filling done by reverse_data is the
    # same in both executions and the outputs must agree exactly
    if out1.df.shape != out2.df.shape or not np.array_equal(out1.df.values, out2.df.values):
        problems.append('B/%s: identical releases and selections, yet MST(D) and MST(D\') return different '
                        'data (%d vs %d rows)' % (name, out1.df.shape[0], out2.df.shape[0]))
    lines.append('B %-28s events=%d rows=%d out=%s' % (
        name, len(log1['trace']), out1.df.shape[0], frame_digest(out1.df)))


part_b('large counts', Domain(['a', 'b', 'c'], [2, 3, 2]), 6000, 11, 1.0)
part_b('rare value compressed', Domain(['a', 'b', 'c'], [2, 4, 2]), 6000, 12, 1.0, rare={'b': 3})

digest = hashlib.sha256('\n'.join(lines).encode()).hexdigest()
print('\n'.join(lines))
print('digest', digest)
if problems:
    print('FAIL: the dataset returned by MST is not a function of the noisy releases alone')
    for p in problems:
        print('  -', p)
    sys.exit(1)
print('PASS')
sys.exit(0)

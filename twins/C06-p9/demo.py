"""
C06 / pair 1 -- mechanisms/mst.py, select(): the scores handed to the exponential mechanism.

MST's private selection step scores every attribute pair (a, b) by
        q[a,b] = || x_ab - xhat_ab ||_1
where x_ab is the exact pairwise marginal of the private data and xhat_ab is the pairwise
marginal of the model fitted to the *noisy* one-way releases.  xhat is a function of released
values only, so adding / removing one record moves every score by at most 1 -- exactly the
`sensitivity=1.0` that select() declares to the exponential mechanism.  That is what makes the
selection a DP primitive: the private data may reach the chosen edges only through scores of
sensitivity 1.

This program replays select() on neighbouring datasets D, D' (one record added or removed)
  * with the SAME released measurement log (identical released values), and
  * with the SAME scripted outcomes of the exponential mechanism (identical selections),
and records the (scores, eps, sensitivity) of every call of mst.exponential_mechanism.

It checks, for every call and every neighbour,
  (1) the calls line up: same number of calls, same candidate count, same eps, same sensitivity;
  (2) max |q_D - q_D'| <= declared sensitivity;
  (3) the selection probabilities obey the exponential-mechanism guarantee
        |log p_D(e) - log p_D'(e)| <= eps      for every candidate e.

Exit 0 + "PASS" + digest if all hold, exit 1 + "FAIL" otherwise.
"""
import os, sys, hashlib, itertools, warnings

ROOT = os.path.dirname(os.path.dirname(os.path.dirname(os.path.abspath(__file__))))
sys.path.insert(0, ROOT)
sys.path.insert(0, os.path.join(ROOT, 'src'))
warnings.filterwarnings('ignore')

import numpy as np
import pandas as pd
from scipy.special import logsumexp
import mbi
from mbi import Dataset, Domain
assert os.path.abspath(mbi.__file__).startswith(os.path.join(ROOT, 'src')), mbi.__file__
from mechanisms import mst
from mechanisms.cdp2adp import cdp_rho

TOL = 1e-6


def make_dataset(domain, rows):
    df = pd.DataFrame(np.array(rows, dtype=int).reshape(-1, len(domain)), columns=list(domain.attrs))
    return Dataset(df, domain)


def correlated(domain, n, seed, flip=0.1):
    """ n records whose attributes are noisy copies of one latent value """
    prng = np.random.RandomState(seed)
    rows = []
    for _ in range(n):
        z = prng.randint(0, 1000)
        rows.append([z % s if prng.rand() > flip else prng.randint(0, s) for s in domain.shape])
    return rows


def scenarios():
    out = []
    # A: three binary-ish attributes, strongly dependent, few records
    dom = Domain(['a', 'b', 'c'], [2, 2, 3])
    rows = correlated(dom, 12, seed=1, flip=0.0)
    out.append(('A-small-dependent', 1.0, dom, rows, [[0, 1, 2], [1, 0, 0], [1, 1, 1]]))
    # B: four attributes, moderate size
    dom = Domain(['p', 'q', 'r', 's'], [3, 3, 2, 4])
    rows = correlated(dom, 60, seed=2, flip=0.2)
    out.append(('B-medium', 1.0, dom, rows, [[2, 0, 1, 3], [0, 0, 0, 0]]))
    # C: uniform independent data
    dom = Domain(['u', 'v', 'w'], [4, 3, 2])
    prng = np.random.RandomState(3)
    rows = [[prng.randint(0, s) for s in dom.shape] for _ in range(40)]
    out.append(('C-independent', 1.0, dom, rows, [[3, 2, 1], [0, 0, 0]]))
    # D: a single record (its neighbour is the empty dataset)
    dom = Domain(['a', 'b', 'c'], [2, 3, 2])
    out.append(('D-one-record', 1.0, dom, [[1, 2, 0]], [[0, 0, 0]]))
    # E: four binary attributes, large budget (little noise on the one-way releases)
    dom = Domain(['w', 'x', 'y', 'z'], [2, 2, 2, 2])
    rows = [[0, 0, 0, 0], [1, 0, 0, 1], [0, 1, 1, 1], [1, 0, 1, 1], [1, 1, 0, 1],
            [0, 1, 0, 1], [0, 0, 1, 1], [1, 1, 0, 0], [1, 1, 0, 1], [1, 1, 0, 1]]
    out.append(('E-binary-large-eps', 8.0, dom, rows, [[0, 0, 1, 0], [1, 1, 1, 1]]))
    return out


class Recorder:
    """ stands in for mst.exponential_mechanism: records the call, returns a scripted index """
    def __init__(self, script):
        self.calls = []
        self.script = list(script)

    def __call__(self, q, eps, sensitivity, prng=np.random, monotonic=False):
        q = np.array(q, dtype=float)
        k = len(self.calls)
        self.calls.append((q, float(eps), float(sensitivity), bool(monotonic)))
        return self.script[k % len(self.script)] % q.size


def em_logprobs(q, eps, sensitivity, monotonic):
    coef = 1.0 if monotonic else 0.5
    scores = coef * eps / sensitivity * q
    return scores - logsumexp(scores)


def run_select(data, rho, log, script):
    rec = Recorder(script)
    orig = mst.exponential_mechanism
    mst.exponential_mechanism = rec
    try:
        edges = mst.select(data, rho, log)
    finally:
        mst.exponential_mechanism = orig
    return rec.calls, edges


def main():
    delta = 1e-6
    script = [1, 0, 2, 0]
    digest = hashlib.sha256()
    problems = []
    lines = []

    for name, epsilon, dom, rows, extra_records in scenarios():
        rho = cdp_rho(epsilon, delta)
        sigma = np.sqrt(3 / (2 * rho))
        D = make_dataset(dom, rows)
        # the released values: noisy one-way marginals of D (fixed seed)
        np.random.seed(12345)
        log = mst.measure(D, [(c,) for c in dom.attrs], sigma)
        base_calls, base_edges = run_select(D, rho / 3.0, log, script)
        lines.append('%s: epsilon=%.1f records=%d edges=%s' % (name, epsilon, len(rows), sorted(base_edges)))
        for q, eps, sens, mono in base_calls:
            digest.update(np.round(q, 5).tobytes())
            digest.update(('%.9f %.3f %d' % (eps, sens, mono)).encode())
            lines.append('   eps=%.6f sens=%.1f q=%s' % (eps, sens, np.round(q, 4).tolist()))
        digest.update(repr(sorted(base_edges)).encode())

        neighbours = [('+%s' % r, rows + [r]) for r in extra_records]
        neighbours.append(('-first', rows[1:]))
        for tag, nrows in neighbours:
            Dn = make_dataset(dom, nrows)
            calls, edges = run_select(Dn, rho / 3.0, log, script)
            where = '%s %s' % (name, tag)
            if len(calls) != len(base_calls) or sorted(edges) != sorted(base_edges):
                problems.append('%s: different selection sequence / edges although releases and '
                                'selections were replayed' % where)
                continue
            worst_dq, worst_ratio = 0.0, 0.0
            for t, ((q0, e0, s0, m0), (q1, e1, s1, m1)) in enumerate(zip(base_calls, calls)):
                if q0.size != q1.size or e0 != e1 or s0 != s1 or m0 != m1:
                    problems.append('%s: call %d differs in shape / eps / sensitivity' % (where, t))
                    continue
                dq = float(np.abs(q0 - q1).max())
                ratio = float(np.abs(em_logprobs(q0, e0, s0, m0) - em_logprobs(q1, e1, s1, m1)).max())
                worst_dq, worst_ratio = max(worst_dq, dq), max(worst_ratio, ratio)
                if dq > s0 + TOL:
                    problems.append('%s: EM call %d: a score moved by %.4f between neighbouring '
                                    'datasets, declared sensitivity is %.1f' % (where, t, dq, s0))
                if ratio > e0 + TOL:
                    problems.append('%s: EM call %d: selection log-probability ratio %.4f exceeds '
                                    'eps=%.4f' % (where, t, ratio, e0))
            lines.append('   neighbour %-14s max|dq|=%.4f  max log-ratio/eps=%.4f'
                         % (tag, worst_dq, worst_ratio / base_calls[0][1]))
            digest.update(('%s %.4f %.4f' % (tag, worst_dq, worst_ratio)).encode())

    print('\n'.join(lines))
    if problems:
        print('FAIL: the selection step of MST is not a sensitivity-1 exponential mechanism:')
        for p in problems:
            print('  -', p)
        print('The private data reaches the selected edges through scores whose sensitivity is '
              'larger than the one the exponential mechanism was calibrated for.')
        sys.exit(1)
    print('PASS digest=%s' % digest.hexdigest()[:16])
    sys.exit(0)


if __name__ == '__main__':
    main()

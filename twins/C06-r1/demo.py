"""Equivalence demo for refactoring 1 (mechanisms/mst.py).

Run with:
  PYTHONPATH=<root>/src:<root>:/tmp/stubs /venv/bin/python out/refactor1/demo.py
Prints a deterministic digest; output must be byte-identical before/after the patch.
"""
import os, sys, io, hashlib, contextlib

# str hashing is randomised per process and the library iterates over sets of
# attribute names, so pin the hash seed to make the digest reproducible
if os.environ.get('PYTHONHASHSEED') != '0':
    os.environ['PYTHONHASHSEED'] = '0'
    os.execv(sys.executable, [sys.executable] + sys.argv)

ROOT = os.path.abspath(os.path.join(os.path.dirname(os.path.abspath(__file__)), '..', '..'))
for p in (os.path.join(ROOT, 'src'), ROOT, '/tmp/stubs'):
    if p not in sys.path:
        sys.path.insert(0, p)

import numpy as np
import pandas as pd
import mbi
from mbi import Dataset, Domain, GraphicalModel

assert os.path.abspath(mbi.__file__).startswith(ROOT), mbi.__file__


def _synthetic_data(self, rows=None, method='round'):
    """pandas-3 compatible re-implementation of GraphicalModel.synthetic_data
    (the shipped one always raises under the installed pandas)."""
    total = int(self.total) if rows is None else rows
    cols = list(self.domain.attrs)
    out = {c: np.zeros(total, dtype=int) for c in cols}
    cliques = [set(cl) for cl in self.cliques]

    def synthetic_col(counts, total):
        counts = np.array(counts, dtype=float)
        if method == 'sample':
            probas = counts / counts.sum()
            return np.random.choice(counts.size, total, True, probas)
        counts *= total / counts.sum()
        frac, integ = np.modf(counts)
        integ = integ.astype(int)
        extra = total - integ.sum()
        if extra > 0:
            idx = np.random.choice(counts.size, extra, False, frac / frac.sum())
            integ[idx] += 1
        vals = np.repeat(np.arange(counts.size), integ)
        np.random.shuffle(vals)
        return vals

    order = self.elimination_order[::-1]
    col = order[0]
    marg = self.project([col]).datavector(flatten=False)
    out[col] = synthetic_col(marg, total)
    used = [col]
    for col in order[1:]:
        relevant = [cl for cl in cliques if col in cl]
        relevant = set.union(*relevant) if relevant else set()
        proj = tuple(c for c in used if c in relevant)
        used.append(col)
        marg = self.project(proj + (col,)).datavector(flatten=False)
        if len(proj) >= 1:
            keys = np.stack([out[p] for p in proj], axis=1)
            uniq, inv = np.unique(keys, axis=0, return_inverse=True)
            inv = np.asarray(inv).reshape(-1)
            vals = np.zeros(total, dtype=int)
            for g, key in enumerate(uniq):
                rows_g = np.where(inv == g)[0]
                vals[rows_g] = synthetic_col(marg[tuple(key)], rows_g.size)
            out[col] = vals
        else:
            out[col] = synthetic_col(marg, total)
    df = pd.DataFrame({c: out[c] for c in cols})
    return Dataset(df, self.domain)


GraphicalModel.synthetic_data = _synthetic_data

from mechanisms import mst

# keep the demo fast: cap the number of mirror-descent iterations (identically for every run)
_FI = mbi.FactoredInference
mst.FactoredInference = lambda domain, iters=1000, **kw: _FI(domain, iters=min(iters, 300), **kw)


def digest_array(a):
    a = np.asarray(a)
    return '%s %s %s' % (a.dtype, a.shape, hashlib.sha256(np.ascontiguousarray(a).tobytes()).hexdigest()[:16])


def digest_df(df):
    cols = list(df.columns)
    parts = [','.join(map(str, cols))]
    for c in cols:
        v = df[c].to_numpy()
        parts.append('%s:%s:%s' % (c, v.dtype, hashlib.sha256(np.ascontiguousarray(v.astype(np.int64)).tobytes()).hexdigest()[:16]))
    return ' | '.join(parts)


def make_data(seed, attrs, shape, n, skew=True):
    prng = np.random.RandomState(seed)
    dom = Domain(attrs, shape)
    cols = {}
    for a, k in zip(attrs, shape):
        if skew:
            p = prng.dirichlet(0.3 * np.ones(k))
        else:
            p = np.ones(k) / k
        cols[a] = prng.choice(k, size=n, p=p)
    return Dataset(pd.DataFrame(cols), dom)


class Recorder:
    """Wrap numpy.random entry points used by the mechanisms and log (name, scale, size)."""
    def __init__(self):
        self.events = []
        self._orig = {}

    def __enter__(self):
        for name in ('normal', 'laplace', 'choice'):
            orig = getattr(np.random, name)
            self._orig[name] = orig
            setattr(np.random, name, self._wrap(name, orig))
        return self

    def _wrap(self, name, orig):
        def f(*args, **kw):
            out = orig(*args, **kw)
            if name == 'choice':
                p = kw.get('p', args[3] if len(args) > 3 else None)
                n = args[0] if args else kw.get('a')
                nn = n if np.isscalar(n) else len(n)
                self.events.append(('choice', int(nn), None if p is None else digest_array(np.asarray(p, dtype=float)), repr(np.asarray(out).tolist())))
            else:
                scale = kw.get('scale', args[1] if len(args) > 1 else None)
                size = kw.get('size', args[2] if len(args) > 2 else None)
                self.events.append((name, repr(float(scale)), repr(size if size is None else int(np.prod(size)))))
            return out
        return f

    def __exit__(self, *exc):
        for name, orig in self._orig.items():
            setattr(np.random, name, orig)


def section(title):
    print('=' * 8, title)


# ---------------------------------------------------------------- unit level
section('measure: heterogeneous weights')
data = make_data(0, ['a', 'b', 'c', 'd'], [3, 7, 2, 11], 500)
np.random.seed(11)
log = mst.measure(data, [('a',), ('b',), ('c',), ('d',)], 2.5, weights=[1.0, 3.0, 0.5, 2.0])
for Q, y, s, proj in log:
    print(proj, repr(float(s)), Q.shape, digest_array(y))

section('compress_domain: hand-made logs (all kept / some dropped / all dropped / single cell / nan)')
from scipy import sparse
cases = {
    'all_kept': [np.array([50., 60., 70.]), np.array([10., 11., 12., 13., 14., 15., 16.]), np.array([9., 9.]), np.arange(20., 31.)],
    'some_dropped': [np.array([50., 0.5, 70.]), np.array([10., -3., 12., 0., 14., 1., 16.]), np.array([9., 9.]), np.array([0., 100., 0., 0., 2., 0., 1., 0., 0., 0., 40.])],
    'all_dropped': [np.array([0., 0.5, -1.]), np.array([1., -3., 2., 0., 1., 1., 0.]), np.array([-9., 2.9]), np.zeros(11)],
    'nan_inf': [np.array([np.nan, 50., 3.0]), np.array([np.inf, -np.inf, 12., 0., 14., 1., 16.]), np.array([3.0, 2.9999999]), np.array([0., 100., 0., 0., 2., 0., 1., 0., 0., 0., 40.])],
}
for name, ys in cases.items():
    for sig in (1.0, 0.25):
        meas = [(sparse.eye(y.size), y.copy(), sig * (i + 1), (col,)) for i, (col, y) in enumerate(zip(['a', 'b', 'c', 'd'], ys))]
        d2, new, undo = mst.compress_domain(data, meas)
        print(name, sig, 'domain', dict(zip(d2.domain.attrs, d2.domain.shape)))
        print('  df', digest_df(d2.df), 'dv', digest_array(d2.datavector()))
        for (Q, y, s, proj), (Q0, y0, s0, p0) in zip(new, meas):
            Qd = Q.toarray() if hasattr(Q, 'toarray') else np.asarray(Q)
            print('  ', proj, repr(float(s)), type(Q).__name__, Qd.shape, digest_array(np.round(Qd, 12)), np.round(y, 9).tolist(), 'same_obj' if y is y0 else 'new_obj')
        # input log must be untouched
        print('  inputs intact', all(np.array_equal(m[1], y, equal_nan=True) for m, y in zip(meas, ys)))
        np.random.seed(5)
        back = undo(d2)
        print('  undo domain', dict(zip(back.domain.attrs, back.domain.shape)), digest_df(back.df))

section('transform_data / reverse_data directly (permuted attribute order, all-false, all-true supports)')
dataP = make_data(3, ['d', 'a', 'c', 'b'], [11, 3, 2, 7], 300)
supports = {
    'a': np.array([True, False, True]),
    'b': np.array([False] * 7),
    'c': np.array([True, True]),
    'd': np.array([False, True, False, False, True, True, False, False, False, True, False]),
}
t = mst.transform_data(dataP, supports)
print(dict(zip(t.domain.attrs, t.domain.shape)), digest_df(t.df))
print([(c, str(t.df[c].dtype), sorted(map(int, pd.unique(t.df[c])))) for c in t.df.columns])
np.random.seed(17)
r = mst.reverse_data(t, supports)
print(dict(zip(r.domain.attrs, r.domain.shape)), digest_df(r.df))
print('kept cells round-trip', all(bool(((r.df[c] == dataP.df[c]) | ~supports[c][dataP.df[c].to_numpy()]).all()) for c in supports))

# ---------------------------------------------------------------- end to end
def run_mst(tag, data, eps, delta, seed):
    buf = io.StringIO()
    with Recorder() as rec, contextlib.redirect_stdout(buf):
        np.random.seed(seed)
        synth = mst.MST(data, eps, delta)
    print(tag, 'events', len(rec.events), hashlib.sha256(repr(rec.events).encode()).hexdigest()[:16])
    for ev in rec.events:
        if ev[0] != 'choice' or ev[2] is not None:
            print('   ', ev[:3])
    print(tag, 'domain', dict(zip(synth.domain.attrs, synth.domain.shape)), 'rows', synth.df.shape[0])
    print(tag, 'df', digest_df(synth.df))
    print(tag, 'in-domain', all(int(synth.df[c].min()) >= 0 and int(synth.df[c].max()) < n for c, n in zip(synth.domain.attrs, synth.domain.shape)) if synth.df.shape[0] else True)

section('MST end-to-end')
run_mst('skewed eps=1', make_data(1, ['a', 'b', 'c', 'd'], [3, 7, 2, 11], 400), 1.0, 1e-6, 101)
run_mst('skewed eps=0.3 (heavy compression)', make_data(2, ['x', 'y', 'z'], [12, 5, 9], 250), 0.3, 1e-9, 202)
run_mst('uniform eps=5 (no compression)', make_data(4, ['q', 'p', 'r'], [4, 3, 5], 3000, skew=False), 5.0, 1e-6, 303)
run_mst('permuted attrs', make_data(3, ['d', 'a', 'c', 'b'], [11, 3, 2, 7], 300), 1.0, 1e-6, 404)
# neighbouring dataset: drop one record, same seed
base = make_data(1, ['a', 'b', 'c', 'd'], [3, 7, 2, 11], 400)
nb = Dataset(base.df.iloc[1:].reset_index(drop=True), base.domain)
run_mst('neighbour of skewed eps=1', nb, 1.0, 1e-6, 101)

"""Equivalence demo for refactoring 2 (mechanisms/mwem+pgm.py).

Run with:
  PYTHONPATH=<root>/src:<root>:/tmp/stubs /venv/bin/python out/refactor2/demo.py
Prints a deterministic digest; output must be byte-identical before/after the patch.
"""
import os, sys, io, hashlib, contextlib

# str hashing is randomised per process and the library iterates over sets of
# attribute names, so pin the hash seed to make the digest reproducible
if os.environ.get('PYTHONHASHSEED') != '0':
    os.environ['PYTHONHASHSEED'] = '0'
    os.execv(sys.executable, [sys.executable] + sys.argv)

ROOT = os.path.abspath(os.path.join(os.path.dirname(os.path.abspath(__file__)), '..', '..'))
for p in (os.path.join(ROOT, 'src'), ROOT, '/tmp/stubs'):
    if p not in sys.path:
        sys.path.insert(0, p)

import numpy as np
import pandas as pd
import mbi
from mbi import Dataset, Domain, GraphicalModel

assert os.path.abspath(mbi.__file__).startswith(ROOT), mbi.__file__


def _synthetic_data(self, rows=None, method='round'):
    """pandas-3 compatible re-implementation of GraphicalModel.synthetic_data
    (the shipped one always raises under the installed pandas)."""
    total = int(self.total) if rows is None else rows
    cols = list(self.domain.attrs)
    out = {c: np.zeros(total, dtype=int) for c in cols}
    cliques = [set(cl) for cl in self.cliques]

    def synthetic_col(counts, total):
        counts = np.array(counts, dtype=float)
        if method == 'sample':
            probas = counts / counts.sum()
            return np.random.choice(counts.size, total, True, probas)
        counts *= total / counts.sum()
        frac, integ = np.modf(counts)
        integ = integ.astype(int)
        extra = total - integ.sum()
        if extra > 0:
            idx = np.random.choice(counts.size, extra, False, frac / frac.sum())
            integ[idx] += 1
        vals = np.repeat(np.arange(counts.size), integ)
        np.random.shuffle(vals)
        return vals

    order = self.elimination_order[::-1]
    col = order[0]
    marg = self.project([col]).datavector(flatten=False)
    out[col] = synthetic_col(marg, total)
    used = [col]
    for col in order[1:]:
        relevant = [cl for cl in cliques if col in cl]
        relevant = set.union(*relevant) if relevant else set()
        proj = tuple(c for c in used if c in relevant)
        used.append(col)
        marg = self.project(proj + (col,)).datavector(flatten=False)
        if len(proj) >= 1:
            keys = np.stack([out[p] for p in proj], axis=1)
            uniq, inv = np.unique(keys, axis=0, return_inverse=True)
            inv = np.asarray(inv).reshape(-1)
            vals = np.zeros(total, dtype=int)
            for g, key in enumerate(uniq):
                rows_g = np.where(inv == g)[0]
                vals[rows_g] = synthetic_col(marg[tuple(key)], rows_g.size)
            out[col] = vals
        else:
            out[col] = synthetic_col(marg, total)
    df = pd.DataFrame({c: out[c] for c in cols})
    return Dataset(df, self.domain)


GraphicalModel.synthetic_data = _synthetic_data

import importlib.util
from scipy import sparse
from mbi import FactoredInference, Factor, CliqueVector

_spec = importlib.util.spec_from_file_location('mwem_pgm_module', os.path.join(ROOT, 'mechanisms', 'mwem+pgm.py'))
mw = importlib.util.module_from_spec(_spec)
_spec.loader.exec_module(mw)
assert os.path.abspath(mw.__file__).startswith(ROOT)


def digest_array(a):
    a = np.asarray(a)
    return '%s %s %s' % (a.dtype, a.shape, hashlib.sha256(np.ascontiguousarray(a).tobytes()).hexdigest()[:16])


def digest_df(df):
    cols = list(df.columns)
    parts = [','.join(map(str, cols))]
    for c in cols:
        v = df[c].to_numpy()
        parts.append('%s:%s:%s' % (c, v.dtype, hashlib.sha256(np.ascontiguousarray(v.astype(np.int64)).tobytes()).hexdigest()[:16]))
    return ' | '.join(parts)


def make_data(seed, attrs, shape, n, skew=True):
    prng = np.random.RandomState(seed)
    dom = Domain(attrs, shape)
    cols = {}
    for a, k in zip(attrs, shape):
        if skew:
            p = prng.dirichlet(0.3 * np.ones(k))
        else:
            p = np.ones(k) / k
        cols[a] = prng.choice(k, size=n, p=p)
    return Dataset(pd.DataFrame(cols), dom)


class Recorder:
    """Wrap numpy.random entry points used by the mechanisms and log (name, scale, size)."""
    def __init__(self):
        self.events = []
        self._orig = {}

    def __enter__(self):
        for name in ('normal', 'laplace', 'choice'):
            orig = getattr(np.random, name)
            self._orig[name] = orig
            setattr(np.random, name, self._wrap(name, orig))
        return self

    def _wrap(self, name, orig):
        def f(*args, **kw):
            out = orig(*args, **kw)
            if name == 'choice':
                p = kw.get('p', args[3] if len(args) > 3 else None)
                n = args[0] if args else kw.get('a')
                nn = n if np.isscalar(n) else len(n)
                self.events.append(('choice', int(nn), None if p is None else digest_array(np.asarray(p, dtype=float)), repr(np.asarray(out).tolist())))
            else:
                scale = kw.get('scale', args[1] if len(args) > 1 else None)
                size = kw.get('size', args[2] if len(args) > 2 else None)
                self.events.append((name, repr(float(scale)), repr(size if size is None else int(np.prod(size)))))
            return out
        return f

    def __exit__(self, *exc):
        for name, orig in self._orig.items():
            setattr(np.random, name, orig)


def section(title):
    print('=' * 8, title)



# ---------------------------------------------------------------- worst_approximated on its own
section('worst_approximated: penalty on/off, bounded on/off, permuted cliques, -inf potentials')
data = make_data(0, ['a', 'b', 'c', 'd'], [3, 4, 2, 5], 600)
dom = data.domain
np.random.seed(1)
meas = []
for cl, s in [(('a',), 2.0), (('b', 'a'), 5.0), (('c', 'd'), 1.0)]:
    x = data.project(cl).datavector()
    meas.append((sparse.eye(x.size), x + np.random.normal(0, s, x.size), s, cl))
zeros = {('c', 'd'): [(0, 1), (1, 4)]}          # structural zeros -> -inf potentials in the model
engine = FactoredInference(dom, log=False, iters=200, structural_zeros=zeros)
est = engine.estimate(meas)
print('model has -inf potentials:', bool(np.isneginf(est.potentials[('c', 'd')].values).any()))
workloads = {
    'pairs': list(__import__('itertools').combinations(dom.attrs, 2)),
    'permuted': [('b', 'a'), ('d', 'c'), ('d', 'a'), ('c', 'b', 'a')],
    'mixed-size': [('a',), ('d', 'b'), ('a', 'b', 'c', 'd')],
    'single': [('c', 'd')],
}
for wname, wl in workloads.items():
    answers = {cl: data.project(cl).datavector() for cl in wl}
    for penalty in (True, False):
        for bounded in (False, True):
            for eps in (0.05, 1.0, 50.0):
                with Recorder() as rec:
                    np.random.seed(99)
                    picks = [mw.worst_approximated(answers, est, wl, eps, penalty=penalty, bounded=bounded) for _ in range(4)]
                print(wname, 'penalty', penalty, 'bounded', bounded, 'eps', eps, picks, rec.events[0][2])
try:
    mw.worst_approximated({}, est, [], 1.0)
except Exception as e:
    print('empty candidate list ->', type(e).__name__, str(e)[:60])

# ---------------------------------------------------------------- mwem_pgm end to end
def run(tag, data, seed, **kw):
    buf = io.StringIO()
    with Recorder() as rec, contextlib.redirect_stdout(buf):
        np.random.seed(seed)
        synth = mw.mwem_pgm(data, **kw)
    print(tag, 'events', len(rec.events), hashlib.sha256(repr(rec.events).encode()).hexdigest()[:16])
    for ev in rec.events:
        if ev[0] != 'choice' or ev[2] is not None:
            print('   ', ev[:3])
    print(tag, 'stdout', hashlib.sha256(buf.getvalue().encode()).hexdigest()[:16], buf.getvalue().count('\n'), 'lines')
    print(tag, 'domain', dict(zip(synth.domain.attrs, synth.domain.shape)), 'rows', synth.df.shape[0])
    print(tag, 'df', digest_df(synth.df))

section('mwem_pgm end-to-end')
d1 = make_data(1, ['a', 'b', 'c', 'd'], [3, 4, 2, 5], 500)
d2 = make_data(2, ['z', 'x', 'y'], [6, 2, 4], 200)
nb = Dataset(d1.df.iloc[:-1].reset_index(drop=True), d1.domain)
run('gaussian unbounded', d1, 7, epsilon=1.0, delta=1e-6, pgm_iters=150)
run('gaussian bounded', d1, 7, epsilon=1.0, delta=1e-6, pgm_iters=150, bounded=True)
run('gaussian bounded neighbour', nb, 7, epsilon=1.0, delta=1e-6, pgm_iters=150, bounded=True)
run('laplace unbounded', d1, 8, epsilon=2.0, pgm_iters=150, noise='laplace')
run('laplace bounded alpha=.5', d1, 8, epsilon=2.0, pgm_iters=150, noise='laplace', bounded=True, alpha=0.5)
run('gaussian rounds=2 small model', d2, 9, epsilon=0.5, delta=1e-9, pgm_iters=150, rounds=2, maxsize_mb=0.001)
run('gaussian custom permuted workload', d2, 10, epsilon=3.0, delta=1e-5, pgm_iters=150, rounds=4,
    workload=[('y', 'z'), ('x',), ('x', 'z', 'y'), ('y', 'x')], alpha=0.7)
run('unknown noise name falls back to gaussian', d2, 11, epsilon=1.0, delta=1e-6, pgm_iters=100, rounds=1, noise='Gauss')
for kw in (dict(epsilon=1.0, delta=1e-6, rounds=0), dict(epsilon=1.0, noise='laplace', rounds=0)):
    try:
        with contextlib.redirect_stdout(io.StringIO()):
            mw.mwem_pgm(d2, pgm_iters=10, **kw)
        print('rounds=0 ->', 'returned')
    except Exception as e:
        print('rounds=0 ->', type(e).__name__, str(e)[:60])

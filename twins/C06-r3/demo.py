"""Equivalence demo for refactoring 3 (mechanisms/aim.py).

Run with:
  PYTHONPATH=<root>/src:<root>:/tmp/stubs /venv/bin/python out/refactor3/demo.py
Prints a deterministic digest; output must be byte-identical before/after the patch.
"""
import os, sys, io, hashlib, contextlib

# str hashing is randomised per process and the library iterates over sets of
# attribute names, so pin the hash seed to make the digest reproducible
if os.environ.get('PYTHONHASHSEED') != '0':
    os.environ['PYTHONHASHSEED'] = '0'
    os.execv(sys.executable, [sys.executable] + sys.argv)

ROOT = os.path.abspath(os.path.join(os.path.dirname(os.path.abspath(__file__)), '..', '..'))
for p in (os.path.join(ROOT, 'src'), ROOT, '/tmp/stubs'):
    if p not in sys.path:
        sys.path.insert(0, p)

import numpy as np
import pandas as pd
import mbi
from mbi import Dataset, Domain, GraphicalModel

assert os.path.abspath(mbi.__file__).startswith(ROOT), mbi.__file__


def _synthetic_data(self, rows=None, method='round'):
    """pandas-3 compatible re-implementation of GraphicalModel.synthetic_data
    (the shipped one always raises under the installed pandas)."""
    total = int(self.total) if rows is None else rows
    cols = list(self.domain.attrs)
    out = {c: np.zeros(total, dtype=int) for c in cols}
    cliques = [set(cl) for cl in self.cliques]

    def synthetic_col(counts, total):
        counts = np.array(counts, dtype=float)
        if method == 'sample':
            probas = counts / counts.sum()
            return np.random.choice(counts.size, total, True, probas)
        counts *= total / counts.sum()
        frac, integ = np.modf(counts)
        integ = integ.astype(int)
        extra = total - integ.sum()
        if extra > 0:
            idx = np.random.choice(counts.size, extra, False, frac / frac.sum())
            integ[idx] += 1
        vals = np.repeat(np.arange(counts.size), integ)
        np.random.shuffle(vals)
        return vals

    order = self.elimination_order[::-1]
    col = order[0]
    marg = self.project([col]).datavector(flatten=False)
    out[col] = synthetic_col(marg, total)
    used = [col]
    for col in order[1:]:
        relevant = [cl for cl in cliques if col in cl]
        relevant = set.union(*relevant) if relevant else set()
        proj = tuple(c for c in used if c in relevant)
        used.append(col)
        marg = self.project(proj + (col,)).datavector(flatten=False)
        if len(proj) >= 1:
            keys = np.stack([out[p] for p in proj], axis=1)
            uniq, inv = np.unique(keys, axis=0, return_inverse=True)
            inv = np.asarray(inv).reshape(-1)
            vals = np.zeros(total, dtype=int)
            for g, key in enumerate(uniq):
                rows_g = np.where(inv == g)[0]
                vals[rows_g] = synthetic_col(marg[tuple(key)], rows_g.size)
            out[col] = vals
        else:
            out[col] = synthetic_col(marg, total)
    df = pd.DataFrame({c: out[c] for c in cols})
    return Dataset(df, self.domain)


GraphicalModel.synthetic_data = _synthetic_data

import itertools
from scipy import sparse
from mbi import FactoredInference
from mechanisms import aim
from mechanisms.aim import AIM

assert os.path.abspath(aim.__file__).startswith(ROOT)


class CappedInference(FactoredInference):
    """FactoredInference whose iteration count is capped, to keep the demo fast
    (applied identically whichever version of aim.py is under test)."""
    CAP = 120

    @property
    def iters(self):
        return min(self._iters, self.CAP)

    @iters.setter
    def iters(self, value):
        self._iters = value


aim.FactoredInference = CappedInference


def digest_array(a):
    a = np.asarray(a)
    return '%s %s %s' % (a.dtype, a.shape, hashlib.sha256(np.ascontiguousarray(a).tobytes()).hexdigest()[:16])


def digest_df(df):
    cols = list(df.columns)
    parts = [','.join(map(str, cols))]
    for c in cols:
        v = df[c].to_numpy()
        parts.append('%s:%s:%s' % (c, v.dtype, hashlib.sha256(np.ascontiguousarray(v.astype(np.int64)).tobytes()).hexdigest()[:16]))
    return ' | '.join(parts)


def make_data(seed, attrs, shape, n, skew=True):
    prng = np.random.RandomState(seed)
    dom = Domain(attrs, shape)
    cols = {}
    for a, k in zip(attrs, shape):
        if skew:
            p = prng.dirichlet(0.3 * np.ones(k))
        else:
            p = np.ones(k) / k
        cols[a] = prng.choice(k, size=n, p=p)
    return Dataset(pd.DataFrame(cols), dom)


class Recorder:
    """Wrap numpy.random entry points used by the mechanisms and log (name, scale, size)."""
    def __init__(self):
        self.events = []
        self._orig = {}

    def __enter__(self):
        for name in ('normal', 'laplace', 'choice'):
            orig = getattr(np.random, name)
            self._orig[name] = orig
            setattr(np.random, name, self._wrap(name, orig))
        return self

    def _wrap(self, name, orig):
        def f(*args, **kw):
            out = orig(*args, **kw)
            if name == 'choice':
                p = kw.get('p', args[3] if len(args) > 3 else None)
                n = args[0] if args else kw.get('a')
                nn = n if np.isscalar(n) else len(n)
                self.events.append(('choice', int(nn), None if p is None else digest_array(np.asarray(p, dtype=float)), repr(np.asarray(out).tolist())))
            else:
                scale = kw.get('scale', args[1] if len(args) > 1 else None)
                size = kw.get('size', args[2] if len(args) > 2 else None)
                self.events.append((name, repr(float(scale)), repr(size if size is None else int(np.prod(size)))))
            return out
        return f

    def __exit__(self, *exc):
        for name, orig in self._orig.items():
            setattr(np.random, name, orig)


def section(title):
    print('=' * 8, title)




# ---------------------------------------------------------------- worst_approximated on its own
section('AIM.worst_approximated: heterogeneous / negative / zero weights, permuted cliques, -inf potentials')
data = make_data(0, ['a', 'b', 'c', 'd'], [3, 4, 2, 5], 600)
dom = data.domain
np.random.seed(1)
meas = []
for cl, s in [(('a',), 2.0), (('b', 'a'), 5.0), (('c', 'd'), 1.0)]:
    x = data.project(cl).datavector()
    meas.append((sparse.eye(x.size), x + np.random.normal(0, s, x.size), s, cl))
zeros = {('c', 'd'): [(0, 1), (1, 4)]}
est = FactoredInference(dom, log=False, iters=200, structural_zeros=zeros).estimate(meas)
print('model has -inf potentials:', bool(np.isneginf(est.potentials[('c', 'd')].values).any()))
cand_sets = {
    'uniform': {cl: 1.0 for cl in itertools.combinations(dom.attrs, 2)},
    'heterogeneous': {('b', 'a'): 3.0, ('d', 'c'): 0.25, ('a',): 7, ('c', 'b', 'a'): 1.5, ('d',): 0.0},
    'negative+int weights': {('a', 'b'): -2, ('c',): 1, ('b', 'd'): 4},
    'single': {('c', 'd'): 0.5},
}
for name, cands in cand_sets.items():
    answers = {cl: data.project(cl).datavector() for cl in cands}
    snapshot = {cl: v.copy() for cl, v in answers.items()}
    for eps, sigma in ((0.01, 30.0), (0.5, 4.0), (20.0, 0.1)):
        mech = AIM(1.0, 1e-6)
        with Recorder() as rec:
            np.random.seed(5)
            picks = [mech.worst_approximated(cands, answers, est, eps, sigma) for _ in range(4)]
        print(name, 'eps', eps, 'sigma', sigma, picks, rec.events[0][2])
    print(name, 'answers untouched', all(np.array_equal(answers[cl], snapshot[cl]) for cl in cands), 'candidates untouched', list(cands.items()))
try:
    AIM(1.0, 1e-6).worst_approximated({}, {}, est, 1.0, 1.0)
except Exception as e:
    print('empty candidates ->', type(e).__name__, str(e))

# ---------------------------------------------------------------- AIM.run end to end
def run(tag, data, W, seed, **kw):
    buf = io.StringIO()
    with Recorder() as rec, contextlib.redirect_stdout(buf):
        np.random.seed(seed)
        mech = AIM(**kw)
        synth = mech.run(data, W)
    print(tag, 'events', len(rec.events), hashlib.sha256(repr(rec.events).encode()).hexdigest()[:16])
    for ev in rec.events:
        if ev[0] != 'choice' or ev[2] is not None:
            print('   ', ev[:3])
    print(tag, 'stdout', hashlib.sha256(buf.getvalue().encode()).hexdigest()[:16], buf.getvalue().count('\n'), 'lines,',
          buf.getvalue().count('Selected'), 'rounds,', buf.getvalue().count('Reducing sigma'), 'annealing steps')
    print(tag, 'domain', dict(zip(synth.domain.attrs, synth.domain.shape)), 'rows', synth.df.shape[0])
    print(tag, 'df', digest_df(synth.df))

section('AIM.run end-to-end')
d1 = make_data(1, ['a', 'b', 'c', 'd'], [3, 4, 2, 5], 500)
d2 = make_data(2, ['z', 'x', 'y'], [6, 2, 4], 200)
nb = Dataset(d1.df.iloc[:-1].reset_index(drop=True), d1.domain)
W1 = [(cl, 1.0) for cl in itertools.combinations(d1.domain.attrs, 2)]
W1h = [(('b', 'a'), 3.0), (('d', 'c'), 0.5), (('c', 'b', 'a'), 1.0), (('d', 'a'), 2)]
W2 = [(('y', 'z'), 1.0), (('x', 'z', 'y'), 0.1), (('x',), 5.0)]
run('all pairs rounds=10', d1, W1, 7, epsilon=1.0, delta=1e-6, rounds=10)
run('all pairs rounds=10 neighbour', nb, W1, 7, epsilon=1.0, delta=1e-6, rounds=10)
run('heterogeneous permuted workload rounds=12', d1, W1h, 8, epsilon=3.0, delta=1e-9, rounds=12)
run('tiny model budget', d2, W2, 9, epsilon=0.5, delta=1e-6, rounds=8, max_model_size=0.0005)
run('high eps (annealing) rounds=9', d2, W2, 10, epsilon=30.0, delta=1e-6, rounds=9)
run('structural zeros', d2, W2, 11, epsilon=2.0, delta=1e-6, rounds=7, structural_zeros={('x', 'y'): [(0, 0), (1, 3)]})
run('default rounds, big eps', make_data(4, ['p', 'q'], [3, 2], 150), [(('p', 'q'), 1.0)], 12, epsilon=8.0, delta=1e-6)

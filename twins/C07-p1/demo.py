"""Pair 1 demo (C07): the closed form evaluated at the end of cdp_delta.

Checks, on a fixed grid of (rho, eps) that includes the eps ~ rho corner:
  A. cdp_delta(rho,eps) equals an INDEPENDENT evaluation of the published bound
       inf_{alpha>=1.01} exp((alpha-1)(alpha*rho-eps)) * (1-1/alpha)^alpha / (alpha-1)
     (own search for alpha, own log-space evaluation), to 1e-9 relative;
  B. cdp_delta(rho,eps) is an upper bound on the exact delta of the Gaussian
     mechanism with that rho;
  C. budgets derived from it are sound w.r.t. the independent bound:
     ref_delta(cdp_rho(eps,delta),eps) <= delta and ref_delta(rho,cdp_eps(rho,delta)) <= delta.
Exit 0 + PASS + digest if all hold, exit 1 + FAIL otherwise.
"""
import os, sys, math, hashlib
ROOT = os.path.dirname(os.path.dirname(os.path.dirname(os.path.abspath(__file__))))
sys.path.insert(0, ROOT)
sys.path.insert(0, os.path.join(ROOT, 'src'))
import matplotlib
matplotlib.use('Agg')
from scipy.stats import norm
from mechanisms import cdp2adp
assert os.path.abspath(cdp2adp.__file__).startswith(ROOT), cdp2adp.__file__
from mechanisms.cdp2adp import cdp_delta, cdp_eps, cdp_rho


def ref_logbound(rho, eps, a):
    # log of the published bound at Renyi order a (arXiv 2004.00010v3, Prop. 12)
    return (a - 1) * (a * rho - eps) + a * math.log1p(-1.0 / a) - math.log(a - 1.0)


def ref_delta(rho, eps):
    # the log-bound is convex in a; its derivative is (2a-1)rho - eps + log(1-1/a)
    lo, hi = 1.01, (eps + 1) / (2 * rho) + 2
    for _ in range(200):
        mid = 0.5 * (lo + hi)
        if (2 * mid - 1) * rho - eps + math.log1p(-1.0 / mid) < 0:
            lo = mid
        else:
            hi = mid
    best = min(ref_logbound(rho, eps, lo), ref_logbound(rho, eps, hi))
    return min(math.exp(best), 1.0)


def gauss_delta(rho, eps):
    # exact delta(eps) of the Gaussian mechanism with rho = 1/(2 sigma^2), sensitivity 1
    mu = math.sqrt(2 * rho)
    t1 = norm.cdf(-eps / mu + mu / 2)
    t2 = math.exp(eps + norm.logcdf(-eps / mu - mu / 2))
    return t1 - t2, t1


def sig(x):
    return '%.9e' % x


fails = []
lines = []

# ---- A and B on a grid (typical regime and the eps ~ rho corner)
grid = []
for rho in [1e-6, 1e-4, 1e-2, 0.1, 1.0, 5.0, 10.0, 50.0, 100.0]:
    for ratio in [0.5, 0.9, 1.0, 1.05, 1.3, 2.0, 5.0, 30.0, 1e3, 1e5]:
        eps = rho * ratio
        if 1e-3 <= eps <= 1e2:
            grid.append((rho, eps))
for rho, eps in grid:
    d = cdp_delta(rho, eps)
    r = ref_delta(rho, eps)
    g, t1 = gauss_delta(rho, eps)
    lines.append('delta %s %s %s' % (sig(rho), sig(eps), sig(d)))
    if abs(d - r) > 1e-9 * r:
        fails.append('A: cdp_delta(%g,%g)=%.12g but the optimum of the published bound is %.12g (ratio %.6f)'
                     % (rho, eps, d, r, d / r))
    if d < g * (1 - 1e-9) - 1e-13 * t1:
        fails.append('B: cdp_delta(%g,%g)=%.6g is BELOW the exact Gaussian delta %.6g'
                     % (rho, eps, d, g))

# ---- C: budgets computed through the searches
for eps, delta in [(1.0, 1e-9), (0.1, 1e-6), (10.0, 1e-5), (2.0, 0.3), (50.0, 0.45)]:
    rho = cdp_rho(eps, delta)
    lines.append('rho %s %s %s' % (sig(eps), sig(delta), sig(rho)))
    r = ref_delta(rho, eps)
    if r > delta * (1 + 1e-9):
        fails.append('C: cdp_rho(%g,%g)=%.9g, but rho-zCDP only gives delta=%.6g > %g at that eps'
                     % (eps, delta, rho, r, delta))
for rho, delta in [(0.01, 1e-9), (1.0, 1e-6), (20.0, 0.4), (100.0, 0.5)]:
    eps = cdp_eps(rho, delta)
    lines.append('eps %s %s %s' % (sig(rho), sig(delta), sig(eps)))
    r = ref_delta(rho, eps)
    if r > delta * (1 + 1e-9):
        fails.append('C: cdp_eps(%g,%g)=%.9g, but at that eps the bound gives delta=%.6g > %g'
                     % (rho, delta, eps, r, delta))

if fails:
    print('FAIL (%d violations of C07: delta is not the optimum of the published bound / not an upper '
          'bound on the Gaussian delta / budgets unsound)' % len(fails))
    for tag in 'ABC':
        sel = [f for f in fails if f.startswith(tag + ':')]
        print('  clause %s: %d violations' % (tag, len(sel)))
        for f in sel[:8]:
            print('    ' + f)
    sys.exit(1)
print('PASS %d values checked' % len(lines))
print('digest ' + hashlib.sha256('\n'.join(lines).encode()).hexdigest())
for l in lines[::7]:
    print(l)
sys.exit(0)

"""C07 pair 2 - cdp_eps returns the SMALLEST eps: it inverts cdp_delta and cdp_rho.

For a grid of (rho, delta) - including the large deltas and the small budgets
where the best Renyi order changes quickly with eps - the returned eps is
checked for soundness (implied delta <= target), tightness (implied delta equals
the target, or eps is 0), monotonicity in delta and the round trip through
cdp_rho.  The implied delta is computed by an independent re-implementation of
the optimum of the published bound.
"""
import os, sys, math, hashlib

ROOT = os.path.dirname(os.path.dirname(os.path.dirname(os.path.abspath(__file__))))
sys.path.insert(0, ROOT)
from mechanisms import cdp2adp as M  # noqa: E402

assert os.path.abspath(M.__file__).startswith(ROOT), M.__file__


def ref_delta(rho, eps):
    lo, hi = 1.01, (eps + 1) / (2 * rho) + 2
    for _ in range(200):
        a = (lo + hi) / 2
        if (2 * a - 1) * rho - eps + math.log1p(-1.0 / a) < 0:
            lo = a
        else:
            hi = a
    d = math.exp((a - 1) * (a * rho - eps) + a * math.log1p(-1 / a)) / (a - 1.0)
    return min(d, 1.0)


def fmt(x):
    return "0" if abs(x) < 1e-290 else "%.8e" % x


failures = []
lines = []

# ---- 1. cdp_delta itself is untouched ------------------------------------------
for rho, eps in [(1e-6, 0.01), (1e-3, 1.0), (0.3, 0.9), (5.0, 6.0), (100.0, 150.0), (100.0, 1e-3)]:
    d = M.cdp_delta(rho, eps)
    lines.append("delta(%r,%r) = %s" % (rho, eps, fmt(d)))
    if abs(d - ref_delta(rho, eps)) > 1e-9 * d + 1e-290:
        failures.append("cdp_delta(%r,%r) = %.6e, optimum of the bound %.6e"
                        % (rho, eps, d, ref_delta(rho, eps)))

# ---- 2. cdp_eps: sound, tight, monotone in delta ---------------------------------
RHOS = [1e-6, 1e-3, 0.1, 1.0, 10.0, 100.0]
DELTAS = [1e-15, 1e-6, 1e-2, 0.5]
for rho in RHOS:
    prev = None
    for delta in DELTAS:
        e = M.cdp_eps(rho, delta)
        lines.append("eps(%r,%r) = %s" % (rho, delta, fmt(e)))
        implied = ref_delta(rho, e)
        if implied > delta * (1 + 1e-9):
            failures.append("cdp_eps(%r,%r) = %.9g is unsound: implied delta %.6e" % (rho, delta, e, implied))
        if e > 1e-12 and implied < delta * (1 - 1e-6):
            failures.append("cdp_eps(%r,%r) = %.9g is not the smallest eps: implied delta %.6e < target"
                            % (rho, delta, e, implied))
        if e <= 1e-12 and ref_delta(rho, 0.0) > delta:
            failures.append("cdp_eps(%r,%r) = %.3g but eps=0 is not enough" % (rho, delta, e))
        if prev is not None and e > prev * (1 + 1e-9):
            failures.append("cdp_eps(%r,.) not decreasing in delta at %r" % (rho, delta))
        prev = e

# ---- 3. round trips ----------------------------------------------------------------
for eps, delta in [(1e-3, 1e-9), (0.5, 1e-6), (3.0, 0.1), (50.0, 0.5)]:
    rho = M.cdp_rho(eps, delta)
    back = M.cdp_eps(rho, delta)
    lines.append("rho(%r,%r) = %s ; back = %s" % (eps, delta, fmt(rho), fmt(back)))
    if abs(back - eps) > 1e-6 * eps:
        failures.append("cdp_eps(cdp_rho(%r,%r),%r) = %.9g (relative error %.2e)"
                        % (eps, delta, delta, back, abs(back - eps) / eps))

if failures:
    print("FAIL: cdp_eps does not invert cdp_delta / cdp_rho")
    for f in failures:
        print("  -", f)
    sys.exit(1)
print("PASS")
for ln in lines:
    print(ln)
print("digest", hashlib.sha256("\n".join(lines).encode()).hexdigest())

"""C07 pair 1 - cdp_eps / cdp_rho routed through a shared bisection helper.

Checks, on fixed inputs, the clauses of C07 that concern the two inverse
conversions:
  (S)  soundness      cdp_delta(rho, cdp_eps(rho,delta)) <= delta
                      cdp_delta(cdp_rho(eps,delta), eps) <= delta
  (T)  tightness      cdp_eps returns the SMALLEST such eps (a slightly smaller
                      eps violates delta, unless eps=0 already suffices, in which
                      case the answer must be ~0); cdp_rho returns the LARGEST rho
  (M)  monotonicity   cdp_eps(rho, .) is non-increasing in delta
  (I)  inversion      cdp_rho(cdp_eps(rho,delta), delta) ~= rho  when the
                      constraint is active
Exit 0 + PASS + digest when all hold, exit 1 + FAIL otherwise.
"""
import os, sys, hashlib
os.environ.setdefault("MPLBACKEND", "Agg")
ROOT = os.path.dirname(os.path.dirname(os.path.dirname(os.path.abspath(__file__))))
sys.path.insert(0, ROOT)
from mechanisms.cdp2adp import cdp_delta, cdp_eps, cdp_rho

failures = []
lines = []

def check(cond, msg):
    if not cond:
        failures.append(msg)

# ---- cdp_eps ---------------------------------------------------------------
# second block of each row: "large delta / small rho" cells where eps=0 is
# already enough (cdp_delta(rho,0)<=delta); these are inside the C07 ranges.
EPS_CASES = [
    (1e-6, [1e-15, 1e-9, 1e-4, 5e-4, 1e-3, 1e-2, 0.5]),
    (1e-4, [1e-15, 1e-6, 5e-3, 1e-2, 0.1, 0.5]),
    (1e-2, [1e-12, 1e-3, 5e-2, 0.1, 0.5]),
    (1.0,  [1e-15, 1e-6, 1e-2, 0.5]),
    (100., [1e-15, 1e-3, 0.5]),
]
for rho, deltas in EPS_CASES:
    prev = None
    for delta in deltas:
        e = cdp_eps(rho, delta)
        lines.append("cdp_eps(%r,%r)=%r" % (rho, delta, e))
        check(cdp_delta(rho, e) <= delta,
              "(S) cdp_eps(%g,%g)=%g is not sound" % (rho, delta, e))
        if cdp_delta(rho, 0.0) <= delta:
            check(e <= 1e-12,
                  "(T) eps=0 already gives delta<=%g at rho=%g, but cdp_eps returned %g"
                  % (delta, rho, e))
        else:
            check(cdp_delta(rho, e * (1 - 1e-9)) > delta,
                  "(T) cdp_eps(%g,%g)=%g is not the smallest sound eps" % (rho, delta, e))
            r = cdp_rho(e, delta)
            lines.append("  cdp_rho(%r,%r)=%r" % (e, delta, r))
            check(abs(r - rho) <= 1e-7 * rho,
                  "(I) cdp_rho(cdp_eps(%g,%g),%g)=%g, expected %g" % (rho, delta, delta, r, rho))
        if prev is not None:
            check(e <= prev * (1 + 1e-12),
                  "(M) cdp_eps(%g,.) increases from %g to %g as delta grows to %g"
                  % (rho, prev, e, delta))
        prev = e

# ---- cdp_rho ---------------------------------------------------------------
RHO_CASES = [(1e-3, 1e-15), (1e-3, 0.5), (0.1, 1e-9), (1.0, 1e-9), (1.0, 0.5),
             (10.0, 1e-6), (100.0, 1e-15), (100.0, 0.5)]
for eps, delta in RHO_CASES:
    r = cdp_rho(eps, delta)
    lines.append("cdp_rho(%r,%r)=%r" % (eps, delta, r))
    check(r > 0 and cdp_delta(r, eps) <= delta,
          "(S) cdp_rho(%g,%g)=%g is not sound" % (eps, delta, r))
    check(cdp_delta(r * (1 + 1e-9), eps) > delta,
          "(T) cdp_rho(%g,%g)=%g is not the largest sound rho" % (eps, delta, r))

digest = hashlib.sha256("\n".join(lines).encode()).hexdigest()
if failures:
    print("FAIL: %d violation(s) of C07" % len(failures))
    for f in failures:
        print("  " + f)
    sys.exit(1)
print("PASS")
for l in lines[:6]:
    print(l)
print("results:", len(lines), "sha256:", digest)
sys.exit(0)

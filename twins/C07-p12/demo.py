"""C07 pair 2 - cdp_delta searching over lam = alpha-1 instead of alpha.

Clauses of C07 checked for cdp_delta(rho, eps) on a log grid of the quantified
ranges rho in [1e-6,1e2], eps in [1e-3,1e2]:
  (U)  upper bound  cdp_delta >= exact delta of the Gaussian mechanism with
                    rho = 1/(2 sigma^2)
  (O)  optimum      cdp_delta equals the minimum over the Renyi order
                    alpha >= 1.01 (the documented floor) of
                    exp((a-1)(a rho-eps) + a log(1-1/a)) / (a-1), capped at 1
                    - not a looser value
  (M)  monotone     non-increasing in eps, non-decreasing in rho
plus the consequence for the inverse conversions in the high-budget regime
  (R)  cdp_rho(eps,delta) is the largest budget whose OPTIMAL delta bound at eps
       is <= delta (reference computed from the alpha-grid optimum).
Numbers are printed with 9 significant digits.
"""
import os, sys, math, hashlib
os.environ.setdefault("MPLBACKEND", "Agg")
ROOT = os.path.dirname(os.path.dirname(os.path.dirname(os.path.abspath(__file__))))
sys.path.insert(0, ROOT)
import numpy as np
from mechanisms.cdp2adp import cdp_delta, cdp_eps, cdp_rho

failures, lines = [], []
def check(cond, msg):
    if not cond:
        failures.append(msg)

# orders alpha = 1.01 + t, t on a dense log grid (plus t=0)
T = np.concatenate([[0.0], np.logspace(-9, 8.5, 350001)])
ALPHA = 1.01 + T
LOG1M = np.log1p(-1.0 / ALPHA)
def log_opt(rho, eps):
    """log of the optimum of the published bound over alpha >= 1.01, capped at 0"""
    v = (ALPHA - 1) * (ALPHA * rho - eps) + ALPHA * LOG1M - np.log(ALPHA - 1)
    return min(float(v.min()), 0.0)

def Phi(x):
    return 0.5 * math.erfc(-x / math.sqrt(2))
def gauss_delta(rho, eps):
    s = 1 / math.sqrt(2 * rho)
    a, b = 1 / (2 * s) - eps * s, -1 / (2 * s) - eps * s
    lb = math.log(Phi(b)) + eps if Phi(b) > 0 else -math.inf
    return Phi(a) - (math.exp(lb) if lb > -745 else 0.0)

RHOS = [10 ** k for k in np.linspace(-6, 2, 17)]
EPSS = [10 ** k for k in np.linspace(-3, 2, 16)]
table = {}
for rho in RHOS:
    for eps in EPSS:
        d = cdp_delta(rho, eps)
        table[rho, eps] = d
        lines.append("cdp_delta(%.4e,%.4e)=%.9e" % (rho, eps, d))
        check(0 <= d <= 1, "cdp_delta(%g,%g)=%g outside [0,1]" % (rho, eps, d))
        check(d >= gauss_delta(rho, eps) * (1 - 1e-9),
              "(U) cdp_delta(%g,%g)=%g below the exact Gaussian delta %g"
              % (rho, eps, d, gauss_delta(rho, eps)))
        lo = log_opt(rho, eps)
        if lo > -600:
            check(d > 0 and abs(math.log(d) - lo) <= 1e-5,
                  "(O) cdp_delta(%g,%g)=%.6g but the optimum over the Renyi order is %.6g"
                  % (rho, eps, d, math.exp(lo)))
for i, rho in enumerate(RHOS):
    for j, eps in enumerate(EPSS):
        d = table[rho, eps]
        if j + 1 < len(EPSS):
            check(table[rho, EPSS[j + 1]] <= d * (1 + 1e-12), "(M) not monotone in eps at (%g,%g)" % (rho, eps))
        if i + 1 < len(RHOS):
            check(table[RHOS[i + 1], eps] >= d * (1 - 1e-12), "(M) not monotone in rho at (%g,%g)" % (rho, eps))

# inverse conversions, including the high-budget corner of the quantified box
for eps, delta in [(1.0, 1e-9), (0.1, 1e-6), (10.0, 0.1), (30.0, 0.3), (100.0, 0.5), (100.0, 1e-3)]:
    r = cdp_rho(eps, delta)
    lines.append("cdp_rho(%r,%r)=%.9e" % (eps, delta, r))
    check(log_opt(r, eps) <= math.log(delta) + 1e-6, "(R) cdp_rho(%g,%g)=%g not sound" % (eps, delta, r))
    check(log_opt(r * 1.001, eps) > math.log(delta),
          "(R) cdp_rho(%g,%g)=%.6g is not tight: budget %.6g still has optimal delta %.4g <= %g"
          % (eps, delta, r, r * 1.001, math.exp(log_opt(r * 1.001, eps)), delta))
for rho, delta in [(1e-3, 1e-9), (1.0, 0.1), (100.0, 0.5)]:
    e = cdp_eps(rho, delta)
    lines.append("cdp_eps(%r,%r)=%.9e" % (rho, delta, e))
    check(log_opt(rho, e * 0.999) > math.log(delta),
          "(R) cdp_eps(%g,%g)=%.6g is not tight: eps %.6g already has optimal delta %.4g"
          % (rho, delta, e, e * 0.999, math.exp(log_opt(rho, e * 0.999))))

digest = hashlib.sha256("\n".join(lines).encode()).hexdigest()
if failures:
    print("FAIL: %d violation(s) of C07" % len(failures))
    for f in failures[:60]:
        print("  " + f)
    sys.exit(1)
print("PASS")
for l in lines[::37]:
    print(l)
print("results:", len(lines), "sha256:", digest)
sys.exit(0)

#!/usr/bin/env python
"""C07 pair 1 - cdp_rho must return a budget that is sound, tight and inverted by cdp_eps.

For a set of (eps, delta) targets (including very small eps with very small delta, where the
correct budget is ~1e-8) the demo checks, against an independent copy of the published bound:
  sound   : delta_bound(cdp_rho(eps,delta), eps) <= delta                (rel. slack 1e-10)
  tight   : delta_bound(cdp_rho(eps,delta)*(1+1e-8), eps) > delta
  inverse : cdp_eps(cdp_rho(eps,delta), delta) == eps                    (rel. tol 1e-8)
  monotone: cdp_rho is nondecreasing in eps and in delta
"""
import hashlib
import math
import os
import sys

ROOT = os.path.dirname(os.path.dirname(os.path.dirname(os.path.abspath(__file__))))
sys.path.insert(0, ROOT)
sys.path.insert(0, os.path.join(ROOT, 'src'))

from mechanisms.cdp2adp import cdp_rho, cdp_eps  # noqa: E402


def ref_delta(rho, eps):
    """Independent evaluation of the CKS20 bound (optimal Renyi order >= 1.01)."""
    lo, hi = 1.01, (eps + 1) / (2 * rho) + 2
    for _ in range(200):
        a = (lo + hi) / 2
        if (2 * a - 1) * rho - eps + math.log1p(-1.0 / a) < 0:
            lo = a
        else:
            hi = a
    a = (lo + hi) / 2
    return min(math.exp((a - 1) * (a * rho - eps) + a * math.log1p(-1 / a)) / (a - 1.0), 1.0)


TARGETS = [
    (1e-3, 1e-15), (1e-3, 1e-12), (1e-3, 1e-9), (1e-3, 1e-6), (1e-3, 1e-3), (1e-3, 0.5),
    (3e-3, 1e-10), (1e-2, 1e-15), (1e-2, 1e-12), (1e-2, 1e-9), (1e-2, 1e-5), (3e-2, 1e-8),
    (0.1, 1e-12), (0.1, 1e-9), (0.1, 1e-6), (0.3, 1e-7), (1.0, 1e-9), (1.0, 1e-6),
    (1.0, 1e-2), (2.5, 1e-5), (10.0, 1e-5), (10.0, 1e-15), (100.0, 1e-15), (100.0, 0.5),
    (0.0123, 3.3e-11), (0.0047, 7.1e-14), (0.77, 2.2e-4), (31.0, 1e-3),
]

problems = []
lines = []
rhos = {}
for eps, delta in TARGETS:
    rho = cdp_rho(eps, delta)
    rhos[(eps, delta)] = rho
    lines.append('cdp_rho(%g,%g)=%.9e' % (eps, delta, rho))
    d = ref_delta(rho, eps)
    if not d <= delta * (1 + 1e-10):
        problems.append('UNSOUND  cdp_rho(%g,%g)=%.12e implies delta=%.12e > target (excess %.3e relative)'
                        % (eps, delta, rho, d, d / delta - 1))
    if not ref_delta(rho * (1 + 1e-8), eps) > delta:
        problems.append('LOOSE    cdp_rho(%g,%g)=%.12e: a budget larger by 1e-8 (relative) still meets the target'
                        % (eps, delta, rho))
    back = cdp_eps(rho, delta)
    lines.append('  cdp_eps(.,%g)=%.9e' % (delta, back))
    if not abs(back - eps) <= 1e-8 * eps:
        problems.append('INVERSE  cdp_eps(cdp_rho(%g,%g),%g)=%.12e differs from eps by %.3e relative'
                        % (eps, delta, delta, back, abs(back - eps) / eps))

# monotonicity along the two axes (fixed delta, fixed eps)
for delta in (1e-12, 1e-6):
    seq = [cdp_rho(e, delta) for e in (1e-3, 2e-3, 5e-3, 1e-2, 1e-1, 1.0)]
    lines.append('eps-sweep delta=%g: ' % delta + ' '.join('%.9e' % r for r in seq))
    if any(b < a for a, b in zip(seq, seq[1:])):
        problems.append('NOT MONOTONE in eps at delta=%g: %r' % (delta, seq))
for eps in (1e-2, 1.0):
    seq = [cdp_rho(eps, d) for d in (1e-15, 1e-12, 1e-9, 1e-6, 1e-3, 0.5)]
    lines.append('delta-sweep eps=%g: ' % eps + ' '.join('%.9e' % r for r in seq))
    if any(b < a for a, b in zip(seq, seq[1:])):
        problems.append('NOT MONOTONE in delta at eps=%g: %r' % (eps, seq))

if problems:
    print('FAIL: cdp_rho violates the conversion property (C07) on %d checks' % len(problems))
    for p in problems:
        print('  ' + p)
    sys.exit(1)

print('\n'.join(lines))
print('digest', hashlib.sha256('\n'.join(lines).encode()).hexdigest())
print('PASS')
sys.exit(0)

#!/usr/bin/env python
"""C07 pair 2 - cdp_delta must equal the optimum of the published Renyi-order bound.

cdp_delta(rho, eps) is compared with an independent evaluation of
    min over alpha >= 1.01 of  exp((alpha-1)(alpha*rho-eps)) * (1-1/alpha)^alpha / (alpha-1)
on a log grid of (rho, eps) in [1e-6,1e2] x [1e-3,1e2], on random points, and on points with
large budgets (rho >= 4.6) and eps a little below rho, where the optimal order sits at its
floor 1.01 and the bound is just below 1.  Also checked: monotonicity of cdp_delta in eps and
in rho through that region, and cdp_eps / cdp_rho round trips.
"""
import hashlib
import math
import os
import random
import sys

ROOT = os.path.dirname(os.path.dirname(os.path.dirname(os.path.abspath(__file__))))
sys.path.insert(0, ROOT)
sys.path.insert(0, os.path.join(ROOT, 'src'))

from mechanisms.cdp2adp import cdp_delta, cdp_eps, cdp_rho  # noqa: E402


def bound_at(a, rho, eps):
    return math.exp((a - 1) * (a * rho - eps) + a * math.log1p(-1 / a)) / (a - 1.0)


def ref_delta(rho, eps):
    """Optimum of the bound over alpha in [1.01, (eps+1)/(2rho)+2] (convex in log scale)."""
    lo, hi = 1.01, (eps + 1) / (2 * rho) + 2
    for _ in range(200):
        a = (lo + hi) / 2
        if (2 * a - 1) * rho - eps + math.log1p(-1.0 / a) < 0:
            lo = a
        else:
            hi = a
    return min(bound_at((lo + hi) / 2, rho, eps), 1.0)


points = []
for i in range(17):
    for k in range(11):
        points.append((10 ** (-6 + 0.5 * i), 10 ** (-3 + 0.5 * k)))
rng = random.Random(707)
for _ in range(60):
    points.append((10 ** rng.uniform(-6, 2), 10 ** rng.uniform(-3, 2)))
# large budgets with eps a little below rho: the optimal order is the floor 1.01
points += [(100.0, 97.0), (100.0, 96.0), (100.0, 95.5), (50.0, 45.5), (50.0, 46.3), (20.0, 15.0),
           (20.0, 15.7), (10.0, 5.0), (10.0, 5.5), (7.0, 2.0), (5.0, 0.3), (5.0, 0.001), (4.7, 0.05)]

problems = []
lines = []
for rho, eps in points:
    got = cdp_delta(rho, eps)
    want = ref_delta(rho, eps)
    lines.append('cdp_delta(%.6g,%.6g)=%.9e' % (rho, eps, got))
    if not abs(got - want) <= 1e-9 * want:
        problems.append('NOT THE OPTIMUM  cdp_delta(%.6g,%.6g)=%.12e, optimum of the published bound is %.12e '
                        '(%.3e relative)' % (rho, eps, got, want, got / want - 1 if want else float('inf')))

# monotone: non-increasing in eps, non-decreasing in rho (sweeps crossing the floor region)
for rho in (100.0, 10.0, 1e-3):
    sweep = [rho * f for f in (0.5, 0.9, 0.955, 0.965, 0.972, 0.98, 1.0, 1.05, 1.2, 2.0)]
    seq = [cdp_delta(rho, e) for e in sweep if e <= 100]
    lines.append('eps-sweep rho=%g: ' % rho + ' '.join('%.9e' % d for d in seq))
    if any(b > a for a, b in zip(seq, seq[1:])):
        problems.append('NOT MONOTONE in eps at rho=%g: %r' % (rho, seq))
for eps in (97.0, 5.0, 0.01):
    seq = [cdp_delta(r, eps) for r in (1e-6, 1e-3, 0.1, 1.0, 4.0, 9.0, 9.5, 10.0, 50.0, 99.0, 100.0)]
    lines.append('rho-sweep eps=%g: ' % eps + ' '.join('%.9e' % d for d in seq))
    if any(b < a for a, b in zip(seq, seq[1:])):
        problems.append('NOT MONOTONE in rho at eps=%g: %r' % (eps, seq))

# round trips through the two inverse conversions
for rho, delta in ((1e-6, 1e-9), (1e-3, 1e-6), (0.5, 1e-12), (30.0, 1e-3), (100.0, 0.5)):
    eps = cdp_eps(rho, delta)
    back = cdp_rho(eps, delta)
    lines.append('cdp_eps(%g,%g)=%.9e cdp_rho(.,%g)=%.9e' % (rho, delta, eps, delta, back))
    if not cdp_delta(rho, eps) <= delta:
        problems.append('UNSOUND cdp_eps(%g,%g)=%.12e' % (rho, delta, eps))
    if not abs(back - rho) <= 1e-8 * rho:
        problems.append('INVERSE cdp_rho(cdp_eps(%g,%g),%g)=%.12e' % (rho, delta, delta, back))

if problems:
    print('FAIL: cdp_delta violates the conversion property (C07) on %d checks' % len(problems))
    for p in problems:
        print('  ' + p)
    sys.exit(1)

print('\n'.join(lines))
print('digest', hashlib.sha256('\n'.join(lines).encode()).hexdigest())
print('PASS')
sys.exit(0)

#!/usr/bin/env python
"""C07 pair 1 demo: cdp_delta must EQUAL the optimum of the published Renyi-order
bound (not a looser value) and must be strictly decreasing in eps wherever it is
representable, over rho in [1e-6,1e2], eps in [1e-3,1e2]."""
import os, sys, math, hashlib
ROOT = os.path.dirname(os.path.dirname(os.path.dirname(os.path.abspath(__file__))))
sys.path.insert(0, ROOT)
sys.path.insert(0, os.path.join(ROOT, 'src'))
sys.path.append('/tmp/stubs')
import matplotlib
matplotlib.use('Agg')
from mechanisms.cdp2adp import cdp_delta, cdp_eps, cdp_rho


def ref_log_delta(rho, eps):
    """independent log-domain optimum of the bound of arXiv:2004.00010 Prop. 12
    over alpha in [1.01, inf): the objective is convex in alpha -> ternary search"""
    def g(a):
        return (a-1)*(a*rho-eps) + a*math.log1p(-1.0/a) - math.log(a-1.0)
    lo, hi = 1.01, (eps+1)/(2*rho)+2
    for _ in range(400):
        m1 = lo+(hi-lo)/3
        m2 = hi-(hi-lo)/3
        if g(m1) < g(m2):
            hi = m2
        else:
            lo = m1
    return min(g((lo+hi)/2), 0.0)


def grid(lo, hi, n):
    return [lo*(hi/lo)**(i/(n-1.0)) for i in range(n)]


failures = []
lines = []
rhos = grid(1e-6, 1e2, 17)
epss = grid(1e-3, 1e2, 21)
for rho in rhos:
    prev = None
    for eps in epss:
        d = cdp_delta(rho, eps)
        ref = ref_log_delta(rho, eps)
        lines.append('delta %.6e %.6e %.9e' % (rho, eps, d))
        if not (0.0 <= d <= 1.0):
            failures.append('cdp_delta(%g,%g)=%r outside [0,1]' % (rho, eps, d))
        if ref > -690:
            # representable: must agree with the optimum to 1e-6 relative
            if d <= 0 or abs(math.log(d)-ref) > 1e-6*max(1.0, abs(ref)):
                failures.append('cdp_delta(%g,%g)=%.6e but the optimum of the bound is exp(%.6f)=%.6e (looser value returned)'
                                % (rho, eps, d, ref, math.exp(ref)))
        else:
            if d > 1e-290:
                failures.append('cdp_delta(%g,%g)=%.6e but the optimum of the bound is exp(%.3f) (looser value returned)'
                                % (rho, eps, d, ref))
        # monotone in eps: strictly decreasing while the optimum is representable and <1
        if prev is not None and -690 < ref < 0.0 and not d < prev:
            failures.append('cdp_delta(%g,.) not strictly decreasing at eps=%g: %.6e -> %.6e' % (rho, eps, prev, d))
        prev = d

# the inverse conversions on the quantified delta range are reported in the digest as well
for eps in (1e-3, 0.1, 1.0, 10.0):
    for delta in (1e-15, 1e-9, 1e-3, 0.5):
        r = cdp_rho(eps, delta)
        e = cdp_eps(r, delta)
        lines.append('rho %.6e %.6e %.9e %.9e' % (eps, delta, r, e))
        if cdp_delta(r, eps) > delta:
            failures.append('cdp_rho(%g,%g) unsound' % (eps, delta))
        if abs(e-eps) > 1e-6*eps:
            failures.append('cdp_eps(cdp_rho(%g,%g),%g)=%r' % (eps, delta, delta, e))

digest = hashlib.sha256('\n'.join(lines).encode()).hexdigest()
if failures:
    print('FAIL: %d violations of "cdp_delta equals the optimum of the published bound / is monotone"' % len(failures))
    for f in failures[:8]:
        print('  ', f)
    sys.exit(1)
print('PASS')
print('points', len(lines))
print('digest', digest)
for l in lines[::37]:
    print(l)
sys.exit(0)

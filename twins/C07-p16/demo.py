#!/usr/bin/env python
"""C07 pair 2 demo: cdp_eps(rho,delta) must be SOUND (the delta implied by rho at the
returned eps does not exceed the target), monotone in rho, and inverse to cdp_rho,
over rho in [1e-6,1e2], delta in [1e-15,0.5] -- including the high-budget end rho>1/2."""
import os, sys, math, hashlib
ROOT = os.path.dirname(os.path.dirname(os.path.dirname(os.path.abspath(__file__))))
sys.path.insert(0, ROOT)
sys.path.insert(0, os.path.join(ROOT, 'src'))
sys.path.append('/tmp/stubs')
import matplotlib
matplotlib.use('Agg')
from mechanisms.cdp2adp import cdp_delta, cdp_eps, cdp_rho


def gauss_delta(rho, eps):
    """exact delta of the sensitivity-1 Gaussian mechanism with rho=1/(2 sigma^2) (Balle-Wang)"""
    mu = math.sqrt(2*rho)  # 1/sigma
    Phi = lambda x: 0.5*math.erfc(-x/math.sqrt(2))
    return Phi(mu/2-eps/mu) - math.exp(eps)*Phi(-mu/2-eps/mu)


rhos = [1e-6, 1e-4, 1e-2, 0.1, 0.3, 0.5, 0.8, 2.0, 5.0, 20.0, 100.0]
deltas = [1e-15, 1e-9, 1e-6, 1e-3, 0.1, 0.5]
failures = []
lines = []
for delta in deltas:
    prev = None
    for rho in rhos:
        e = cdp_eps(rho, delta)
        implied = cdp_delta(rho, e)
        lines.append('eps %.6e %.6e %.10e' % (rho, delta, e))
        if implied > delta:
            failures.append('UNSOUND: cdp_eps(%g,%g)=%.6f but cdp_delta(%g,%.6f)=%.3e > %g (exact Gaussian delta there: %.3e)'
                            % (rho, delta, e, rho, e, implied, delta, gauss_delta(rho, e)))
        if e > 1e-3 and implied < delta*(1-1e-6):
            failures.append('NOT TIGHT: cdp_delta(%g,cdp_eps(%g,%g))=%.6e < %g' % (rho, rho, delta, implied, delta))
        if prev is not None and e < prev:
            failures.append('cdp_eps(.,%g) not monotone in rho at rho=%g: %.6f -> %.6f' % (delta, rho, prev, e))
        prev = e

# round trip rho -> eps -> rho on a sub-grid (each call is a 1000 x 1000 nested bisection)
for rho in (1e-4, 0.3, 2.0, 20.0, 100.0):
    for delta in (1e-15, 1e-6, 0.1):
        e = cdp_eps(rho, delta)
        inrange = 1e-3 <= e <= 1e2  # eps outside the quantified range: no inverse claimed
        back = cdp_rho(e, delta) if inrange else float('nan')
        lines.append('trip %.6e %.6e %.10e' % (rho, delta, back))
        if inrange and abs(back-rho) > 1e-6*rho:
            failures.append('cdp_rho(cdp_eps(%g,%g),%g)=%.9g, not %g' % (rho, delta, delta, back, rho))

digest = hashlib.sha256('\n'.join(lines).encode()).hexdigest()
if failures:
    print('FAIL: %d violations of "cdp_eps is sound / tight / monotone / inverse to cdp_rho"' % len(failures))
    for f in failures[:8]:
        print('  ', f)
    sys.exit(1)
print('PASS')
print('points', len(lines))
print('digest', digest)
for l in lines[::9]:
    print(l)
sys.exit(0)

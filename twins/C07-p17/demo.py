"""Pair 1 demo: cdp_delta(rho,eps) must stay an upper bound on the exact delta of the
Gaussian mechanism with budget rho (sigma^2 = 1/(2 rho), sensitivity 1), also where that
delta is far below 1e-16, and must stay strictly decreasing in eps while positive."""
import os, sys, math, hashlib, random

ROOT = os.path.dirname(os.path.dirname(os.path.dirname(os.path.abspath(__file__))))
sys.path.insert(0, ROOT)
import matplotlib
matplotlib.use("Agg")
from scipy.special import log_ndtr
from mechanisms.cdp2adp import cdp_delta, cdp_eps, cdp_rho


def log_exact_gauss_delta(rho, eps):
    # delta(eps) = Phi(mu/2 - eps/mu) - e^eps Phi(-mu/2 - eps/mu), mu = sqrt(2 rho)
    mu = math.sqrt(2 * rho)
    la = float(log_ndtr(mu / 2 - eps / mu))
    lb = eps + float(log_ndtr(-mu / 2 - eps / mu))
    if lb >= la:
        return -math.inf
    return la + math.log1p(-math.exp(lb - la))


def main():
    rnd = random.Random(20240711)
    pts = []
    # dense log grid
    for i in range(13):
        for j in range(11):
            pts.append((10 ** (-6 + 8 * i / 12.0), 10 ** (-3 + 5 * j / 10.0)))
    # random points
    for _ in range(150):
        pts.append((10 ** rnd.uniform(-6, 2), 10 ** rnd.uniform(-3, 2)))
    # points whose delta is tiny but still a perfectly ordinary double (1e-20 ... 1e-300)
    for rho in (1e-4, 1e-2, 0.5, 1.0, 5.0):
        for k in (40, 50, 80, 150, 300, 600, 740, 745.5, 760, 2000):
            eps = rho + 2 * math.sqrt(rho * k)  # standard bound = exp(-k)
            if eps <= 100:
                pts.append((rho, eps))
    fails = []
    lines = []
    for rho, eps in pts:
        d = cdp_delta(rho, eps)
        le = log_exact_gauss_delta(rho, eps)
        # exact delta is representable (> 1e-300) but the "bound" is not above it
        if le > math.log(1e-300) and not (d > 0 and math.log(d) >= le - 1e-9):
            fails.append("cdp_delta(%r,%r)=%r is below the exact Gaussian delta exp(%.3f)" % (rho, eps, d, le))
        lines.append("%r %r %r" % (rho, eps, d))
    # strict monotonicity in eps along a ray, as long as the values are ordinary doubles
    for rho in (0.01, 0.5, 2.0):
        prev = None
        for t in range(1, 40):
            eps = rho + 0.5 * t * math.sqrt(rho) * 2
            if eps > 100:
                break
            d = cdp_delta(rho, eps)
            if prev is not None and prev > 1e-290 and prev < 1 and not d < prev:
                fails.append("cdp_delta(%r,.) not strictly decreasing at eps=%r: %r -> %r" % (rho, eps, prev, d))
            if prev is not None and prev > 1e-250 and d == 0.0:
                fails.append("cdp_delta(%r,%r) jumps from %r to exactly 0" % (rho, eps, prev))
            prev = d
            lines.append("ray %r %r %r" % (rho, eps, d))
    # the conversions built on top (a few, they are slow)
    for eps, delta in ((1.0, 1e-9), (0.1, 1e-15), (10.0, 1e-6)):
        r = cdp_rho(eps, delta)
        e = cdp_eps(r, delta)
        if not abs(e - eps) <= 1e-6 * eps:
            fails.append("cdp_eps(cdp_rho(%r,%r),.)=%r" % (eps, delta, e))
        lines.append("conv %r %r %r %r" % (eps, delta, r, e))
    if fails:
        print("FAIL: %d violations" % len(fails))
        for f in fails[:12]:
            print("  " + f)
        return 1
    print("PASS %d points" % len(lines))
    print("digest " + hashlib.sha256("\n".join(lines).encode()).hexdigest())
    return 0


if __name__ == "__main__":
    sys.exit(main())

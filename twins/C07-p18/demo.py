"""Pair 2 demo: cdp_rho / cdp_eps must give the tight answer on EVERY call, not only on the
first one after import: sound (implied delta <= target), tight (a slightly larger budget /
slightly smaller eps is no longer enough), mutually inverse, and repeatable."""
import os, sys, hashlib

ROOT = os.path.dirname(os.path.dirname(os.path.dirname(os.path.abspath(__file__))))
sys.path.insert(0, ROOT)
import matplotlib
matplotlib.use("Agg")
from mechanisms.cdp2adp import cdp_delta, cdp_eps, cdp_rho

TARGETS = [(1.0, 1e-9), (0.1, 1e-15), (10.0, 1e-6), (1e-3, 1e-5), (100.0, 0.5), (3.0, 1e-12)]
BUDGETS = [(0.0149, 1e-9), (1e-6, 1e-9), (100.0, 1e-15), (2.5, 0.01)]


def main():
    fails, lines = [], []
    # a sequence of calls, as a parameter sweep in an experiment script would make
    for k, (eps, delta) in enumerate(TARGETS):
        rho = cdp_rho(eps, delta)
        lines.append("rho %r %r %r" % (eps, delta, rho))
        if not cdp_delta(rho, eps) <= delta:
            fails.append("call %d: cdp_rho(%r,%r)=%r unsound" % (k, eps, delta, rho))
        if not (rho > 0 and cdp_delta(rho * (1 + 1e-6), eps) > delta):
            fails.append("call %d: cdp_rho(%r,%r)=%r is not the largest admissible budget" % (k, eps, delta, rho))
    for k, (rho, delta) in enumerate(BUDGETS):
        eps = cdp_eps(rho, delta)
        lines.append("eps %r %r %r" % (rho, delta, eps))
        if not cdp_delta(rho, eps) <= delta:
            fails.append("call %d: cdp_eps(%r,%r)=%r unsound" % (k, rho, delta, eps))
        if not cdp_delta(rho, eps * (1 - 1e-6)) > delta:
            fails.append("call %d: cdp_eps(%r,%r)=%r is not the smallest admissible eps" % (k, rho, delta, eps))
    # round trips
    for eps, delta in TARGETS[:3]:
        back = cdp_eps(cdp_rho(eps, delta), delta)
        lines.append("trip %r %r %r" % (eps, delta, back))
        if not abs(back - eps) <= 1e-6 * eps:
            fails.append("cdp_eps(cdp_rho(%r,%r),%r)=%r" % (eps, delta, delta, back))
    # repeatability: the same question must get the same answer
    a, b = cdp_rho(1.0, 1e-9), cdp_rho(1.0, 1e-9)
    lines.append("again %r %r" % (a, b))
    if a != b:
        fails.append("cdp_rho(1.0,1e-9) changed between calls: %r then %r" % (a, b))
    if fails:
        print("FAIL: %d violations" % len(fails))
        for f in fails[:12]:
            print("  " + f)
        return 1
    print("PASS %d results" % len(lines))
    for l in lines:
        print(l)
    print("digest " + hashlib.sha256("\n".join(lines).encode()).hexdigest())
    return 0


if __name__ == "__main__":
    sys.exit(main())

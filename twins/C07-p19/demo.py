"""C07 pair 1: lower end of the Renyi-order bracket in cdp_delta.

Checks, on fixed inputs, that
  (a) cdp_delta(rho,eps) equals the optimum over alpha>=1.01 of the published
      Renyi-order bound (computed here independently on a dense grid + refinement),
  (b) it upper-bounds the exact delta of the Gaussian mechanism with budget rho,
  (c) cdp_rho / cdp_eps are sound, tight w.r.t. the reference bound and mutually inverse.
Prints a digest (9 significant digits) and PASS, or FAIL with an explanation.
"""
import os, sys, math
import numpy as np
from scipy.stats import norm

ROOT = os.path.dirname(os.path.dirname(os.path.dirname(os.path.abspath(__file__))))
sys.path.insert(0, ROOT)
import matplotlib
matplotlib.use("Agg")
from mechanisms import cdp2adp
assert os.path.abspath(cdp2adp.__file__).startswith(ROOT), cdp2adp.__file__
from mechanisms.cdp2adp import cdp_delta, cdp_eps, cdp_rho


def log_bound(alpha, rho, eps):
    # log of the bound of https://arxiv.org/pdf/2004.00010v3.pdf#page=13 at Renyi order alpha
    return (alpha - 1) * (alpha * rho - eps) + alpha * np.log1p(-1.0 / alpha) - np.log(alpha - 1.0)


def ref_delta(rho, eps):
    """min over alpha in [1.01, (eps+1)/(2rho)+2] of the bound, by repeated grid refinement."""
    lo, hi = 1.01, (eps + 1) / (2 * rho) + 2
    for _ in range(12):
        grid = np.linspace(lo, hi, 2001)
        vals = log_bound(grid, rho, eps)
        k = int(np.argmin(vals))
        lo, hi = grid[max(k - 1, 0)], grid[min(k + 1, grid.size - 1)]
    best = float(vals.min())
    return min(math.exp(best), 1.0) if best < 700 else 1.0


def gauss_delta(rho, eps):
    mu = math.sqrt(2 * rho)
    return norm.cdf(-eps / mu + mu / 2) - math.exp(eps) * norm.cdf(-eps / mu - mu / 2) if eps < 700 else 0.0


def ref_rho(eps, delta):
    lo, hi = 0.0, eps + 1
    for _ in range(200):
        mid = (lo + hi) / 2
        if ref_delta(mid, eps) <= delta: lo = mid
        else: hi = mid
    return lo


problems = []
lines = []

# (a), (b): cdp_delta on a grid covering rho<1, rho=1 and rho>1, eps<rho and eps>rho
RHOS = [1e-6, 1e-4, 1e-2, 0.1, 0.5, 1.0, 2.0, 10.0, 100.0]
EPSS = [1e-3, 1e-2, 0.1, 1.0, 3.0, 10.0, 100.0]
for rho in RHOS:
    for eps in EPSS:
        d = cdp_delta(rho, eps)
        r = ref_delta(rho, eps)
        g = gauss_delta(rho, eps)
        lines.append("delta rho=%g eps=%g -> %.8e" % (rho, eps, d))
        if d > r * (1 + 1e-6) + 1e-300:
            problems.append("cdp_delta(%g,%g)=%.6e is LOOSER than the optimum %.6e of the Renyi-order bound"
                            % (rho, eps, d, r))
        if d < r * (1 - 1e-6):
            problems.append("cdp_delta(%g,%g)=%.6e is BELOW the optimum %.6e of the bound" % (rho, eps, d, r))
        if d < g * (1 - 1e-9) - 1e-18:
            problems.append("cdp_delta(%g,%g)=%.6e is below the exact Gaussian delta %.6e" % (rho, eps, d, g))

# (c): conversions
for eps, delta in [(1e-3, 1e-15), (0.1, 1e-6), (1.0, 1e-9), (1.0, 0.5), (3.0, 1e-5), (10.0, 1e-9), (100.0, 1e-12)]:
    rho = cdp_rho(eps, delta)
    back = cdp_eps(rho, delta)
    rr = ref_rho(eps, delta)
    lines.append("rho eps=%g delta=%g -> %.8e  eps-back %.8e" % (eps, delta, rho, back))
    if not cdp_delta(rho, eps) <= delta:
        problems.append("cdp_rho(%g,%g)=%.6e is not sound" % (eps, delta, rho))
    if abs(rho - rr) > 1e-6 * rr:
        problems.append("cdp_rho(%g,%g)=%.6e differs from the budget %.6e that the optimal bound allows"
                        % (eps, delta, rho, rr))
    if abs(back - eps) > 1e-6 * eps:
        problems.append("cdp_eps(cdp_rho(%g,%g),%g)=%.6e does not invert" % (eps, delta, delta, back))

# monotonicity of cdp_delta along a dense rho line crossing rho=1
prev = None
for rho in np.exp(np.linspace(math.log(1e-3), math.log(10.0), 60)):
    d = cdp_delta(float(rho), 2.0)
    if prev is not None and d < prev * (1 - 1e-9):
        problems.append("cdp_delta(.,2.0) decreases at rho=%.4g" % rho)
    prev = d
lines.append("mono-end %.8e" % prev)

print("\n".join(lines))
if problems:
    print("FAIL: %d violation(s) of property C07" % len(problems))
    for p in problems[:12]:
        print("  -", p)
    sys.exit(1)
print("PASS")
sys.exit(0)

"""Pair 2 demo (C07): termination of the rho search in cdp_rho.

For a fixed grid of targets (eps, delta), including the small-eps / small-delta corner
where the answer is of order 1e-8, checks that rho = cdp_rho(eps,delta) is
  S. sound:   cdp_delta(rho,eps) <= delta;
  T. tight:   it is the LARGEST such budget, i.e. cdp_delta(rho*(1+1e-9),eps) > delta;
  I. inverse: cdp_eps(rho,delta) == eps to 1e-9 relative (the conversions invert one another);
  M. monotone: strictly increasing in eps along each row of the grid and in delta along each column.
Exit 0 + PASS + digest if all hold, exit 1 + FAIL otherwise.
"""
import os, sys, math, hashlib
ROOT = os.path.dirname(os.path.dirname(os.path.dirname(os.path.abspath(__file__))))
sys.path.insert(0, ROOT)
sys.path.insert(0, os.path.join(ROOT, 'src'))
import matplotlib
matplotlib.use('Agg')
from mechanisms import cdp2adp
assert os.path.abspath(cdp2adp.__file__).startswith(ROOT), cdp2adp.__file__
from mechanisms.cdp2adp import cdp_delta, cdp_eps, cdp_rho

EPS = [1e-3, 1.5e-3, 2e-3, 5e-3, 1e-2, 0.1, 1.0, 10.0, 100.0]
DELTA = [1e-15, 1e-12, 1e-9, 1e-6, 1e-3, 0.5]
INVERSE_AT = {(1e-3, 1e-15), (2e-3, 1e-12), (5e-3, 1e-9), (1e-2, 1e-6), (1.0, 1e-9), (100.0, 0.5)}

fails = []
lines = []
table = {}
for eps in EPS:
    for delta in DELTA:
        rho = cdp_rho(eps, delta)
        table[eps, delta] = rho
        lines.append('rho %r %r %s' % (eps, delta, rho.hex()))
        if not cdp_delta(rho, eps) <= delta:
            fails.append('S: cdp_rho(%g,%g)=%.12g gives delta=%.6g > target'
                         % (eps, delta, rho, cdp_delta(rho, eps)))
        up = rho * (1 + 1e-9)
        if cdp_delta(up, eps) <= delta:
            # how much budget was left on the table?
            lo, hi = rho, eps + 1
            for _ in range(200):
                mid = (lo + hi) / 2
                if cdp_delta(mid, eps) <= delta: lo = mid
                else: hi = mid
            fails.append('T: cdp_rho(%g,%g)=%.12g is not the largest sound budget: %.12g is also sound (%.3g%% larger)'
                         % (eps, delta, rho, lo, 100 * (lo / rho - 1) if rho > 0 else float('inf')))
        if (eps, delta) in INVERSE_AT:
            back = cdp_eps(rho, delta)
            lines.append('eps %r %r %s' % (eps, delta, back.hex()))
            if abs(back - eps) > 1e-9 * eps:
                fails.append('I: cdp_eps(cdp_rho(%g,%g),%g)=%.12g, not %g (rel. error %.3g)'
                             % (eps, delta, delta, back, eps, abs(back - eps) / eps))
for delta in DELTA:
    for a, b in zip(EPS, EPS[1:]):
        if not table[a, delta] < table[b, delta]:
            fails.append('M: cdp_rho(%g,%g)=%.12g !< cdp_rho(%g,%g)=%.12g'
                         % (a, delta, table[a, delta], b, delta, table[b, delta]))
for eps in EPS:
    for a, b in zip(DELTA, DELTA[1:]):
        if not table[eps, a] < table[eps, b]:
            fails.append('M: cdp_rho(%g,%g)=%.12g !< cdp_rho(%g,%g)=%.12g'
                         % (eps, a, table[eps, a], eps, b, table[eps, b]))

if fails:
    print('FAIL (%d violations of C07: cdp_rho not tight / conversions not mutually inverse / not monotone)' % len(fails))
    for tag in 'STIM':
        sel = [f for f in fails if f.startswith(tag + ':')]
        print('  clause %s: %d violations' % (tag, len(sel)))
        for f in sel[:8]:
            print('    ' + f)
    sys.exit(1)
print('PASS %d values checked' % len(lines))
print('digest ' + hashlib.sha256('\n'.join(lines).encode()).hexdigest())
for l in lines[::6]:
    print(l)
sys.exit(0)

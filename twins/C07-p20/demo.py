"""C07 pair1 demo: overflow guard at the end of cdp_delta.

Checks, on log grids + seeded random points of the quantified domain
(rho in [1e-6,1e2], eps in [1e-3,1e2], delta in [1e-15,0.5]):
  T  tightness : cdp_delta equals an independently computed optimum of the
                 published Renyi-order bound over alpha in [1.01, amax]
  S  soundness : cdp_delta >= exact delta of the Gaussian mechanism
  R1 round trip: cdp_delta(rho, cdp_eps(rho,delta)) ~= delta  (when eps>0 is needed)
  R2 round trip: cdp_delta(cdp_rho(eps,delta), eps) ~= delta, and <= delta
  M  monotone  : cdp_delta nonincreasing in eps, nondecreasing in rho
"""
import os, sys, math, hashlib, random

ROOT = os.path.dirname(os.path.dirname(os.path.dirname(os.path.abspath(__file__))))
sys.path.insert(0, ROOT)
from mechanisms import cdp2adp
assert os.path.abspath(cdp2adp.__file__).startswith(ROOT), cdp2adp.__file__
from mechanisms.cdp2adp import cdp_delta, cdp_eps, cdp_rho

fails = []
digest = hashlib.sha256()


def rec(*vals):
    digest.update((" ".join(repr(v) for v in vals) + "\n").encode())


def fail(msg):
    if len(fails) < 12:
        fails.append(msg)
    else:
        fails.append(None)


# ---------- independent references ----------
def log_bound(alpha, rho, eps):
    return (alpha - 1) * (alpha * rho - eps) + alpha * math.log1p(-1 / alpha) - math.log(alpha - 1)


def ref_delta(rho, eps):
    """min over alpha in [1.01, amax] of the published bound, by golden section
    on the (convex in alpha) log-bound; clamped to 1."""
    lo, hi = 1.01, (eps + 1) / (2 * rho) + 2
    g = (math.sqrt(5) - 1) / 2
    c, d = hi - g * (hi - lo), lo + g * (hi - lo)
    fc, fd = log_bound(c, rho, eps), log_bound(d, rho, eps)
    for _ in range(200):
        if fc < fd:
            hi, d, fd = d, c, fc
            c = hi - g * (hi - lo)
            fc = log_bound(c, rho, eps)
        else:
            lo, c, fc = c, d, fd
            d = lo + g * (hi - lo)
            fd = log_bound(d, rho, eps)
    best = min(fc, fd, log_bound(1.01, rho, eps))
    return math.exp(min(best, 0.0))


def Phi(x):
    return 0.5 * math.erfc(-x / math.sqrt(2))


def gauss_delta(rho, eps):
    mu = math.sqrt(2 * rho)  # sensitivity / sigma
    a = Phi(mu / 2 - eps / mu)
    t = -mu / 2 - eps / mu
    b = 0.0 if t < -38 else math.exp(eps + math.log(Phi(t)))
    return a - b


def loggrid(lo, hi, n):
    return [lo * (hi / lo) ** (i / (n - 1)) for i in range(n)]


rng = random.Random(20261004)
RHOS = loggrid(1e-6, 1e2, 17) + [10 ** rng.uniform(-6, 2) for _ in range(8)]
EPSS = loggrid(1e-3, 1e2, 16) + [10 ** rng.uniform(-3, 2) for _ in range(8)]
DELTAS = loggrid(1e-15, 0.5, 6) + [0.003, 0.01, 0.05, 0.2]

# ---------- T, S : cdp_delta against the references ----------
worstT = 0.0
for rho in RHOS:
    for eps in EPSS:
        d = cdp_delta(rho, eps)
        rec("delta", rho, eps, d)
        r = ref_delta(rho, eps)
        if r > 1e-300:
            rel = abs(d - r) / r
            worstT = max(worstT, rel)
            if rel > 1e-6:
                fail("T: cdp_delta(rho=%.4g, eps=%.4g)=%.6g but the optimum of the published bound is %.6g"
                     % (rho, eps, d, r))
        ex = gauss_delta(rho, eps)
        if d < ex * (1 - 1e-9) - 1e-300:
            fail("S: cdp_delta(rho=%.4g, eps=%.4g)=%.6g below exact Gaussian delta %.6g" % (rho, eps, d, ex))

# ---------- M : monotonicity on sorted grids ----------
srho, seps = sorted(RHOS), sorted(EPSS)
for rho in srho:
    v = [cdp_delta(rho, e) for e in seps]
    if any(v[i + 1] > v[i] * (1 + 1e-9) for i in range(len(v) - 1)):
        fail("M: cdp_delta(rho=%.4g, .) not nonincreasing in eps" % rho)
for eps in seps:
    v = [cdp_delta(r, eps) for r in srho]
    if any(v[i + 1] < v[i] * (1 - 1e-9) for i in range(len(v) - 1)):
        fail("M: cdp_delta(., eps=%.4g) not nondecreasing in rho" % eps)

# ---------- R1 : cdp_eps ----------
worstR1 = 0.0
for rho in RHOS[::3]:
    for delta in DELTAS:
        e = cdp_eps(rho, delta)
        rec("eps", rho, delta, e)
        back = cdp_delta(rho, e)
        if back > delta:
            fail("R1: cdp_eps(rho=%.4g, delta=%.4g)=%.6g implies delta %.6g > target" % (rho, delta, e, back))
        if ref_delta(rho, 0.0) > delta * 1.001:  # a positive eps is really needed
            rel = abs(back - delta) / delta
            worstR1 = max(worstR1, rel)
            if rel > 1e-4:
                fail("R1: cdp_eps(rho=%.4g, delta=%.4g)=%.6g is not the smallest eps: implied delta %.6g"
                     % (rho, delta, e, back))

# ---------- R2 : cdp_rho ----------
worstR2 = 0.0
for eps in EPSS[::3]:
    for delta in DELTAS:
        r = cdp_rho(eps, delta)
        rec("rho", eps, delta, r)
        back = cdp_delta(r, eps)
        if back > delta:
            fail("R2: cdp_rho(eps=%.4g, delta=%.4g)=%.6g implies delta %.6g > target" % (eps, delta, r, back))
        rel = abs(back - delta) / delta
        worstR2 = max(worstR2, rel)
        if rel > 1e-4:
            fail("R2: cdp_rho(eps=%.4g, delta=%.4g)=%.6g is not the largest budget: implied delta %.6g"
                 % (eps, delta, r, back))
        e2 = cdp_eps(r, delta) if delta in DELTAS[1::2] else eps
        if r > 0 and abs(e2 - eps) > 1e-6 * max(eps, 1e-3):
            fail("R2: cdp_eps(cdp_rho(eps=%.4g, delta=%.4g), delta)=%.8g != eps" % (eps, delta, e2))

if fails:
    print("FAIL: %d violation(s) of C07 (tightness / inverse conversions)" % len(fails))
    for f in fails:
        if f:
            print("  " + f)
    sys.exit(1)
print("PASS")
print("points: %d delta, %d eps, %d rho" % (len(RHOS) * len(EPSS), len(RHOS[::3]) * len(DELTAS), len(EPSS[::3]) * len(DELTAS)))
print("worst rel gap  T=%.3e  R1=%.3e  R2=%.3e" % (worstT, worstR1, worstR2))
print("digest " + digest.hexdigest())

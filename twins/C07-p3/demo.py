#!/usr/bin/env python
"""C07 / pair 1: the conversions must be functions of their arguments only.

A sweep in the style of the property's harness: the SAME log grid is used for
rho (argument of cdp_eps) and for eps (argument of cdp_rho), first all cdp_eps
calls, then all cdp_rho calls, then a second small grid in the opposite order.
Each returned value is then checked against

  soundness   cdp_delta(cdp_rho(eps,d), eps) <= d       cdp_delta(rho, cdp_eps(rho,d)) <= d
  tightness   one part in 1e9 further and the inequality fails
  inverse     cdp_eps(cdp_rho(eps,d), d) == eps  (rel 1e-9)
  reference   an independent copy of the two bisections, written in this file on
              top of cdp_delta, returns the same numbers (rel 1e-12)

exit 0 + PASS + digest if everything holds, exit 1 + FAIL otherwise.
"""
import hashlib
import os
import sys

ROOT = os.path.dirname(os.path.dirname(os.path.dirname(os.path.abspath(__file__))))
sys.path.insert(0, ROOT)
sys.path.insert(0, os.path.join(ROOT, 'src'))

import math
import matplotlib
matplotlib.use('Agg')
from mechanisms import cdp2adp as C

assert os.path.abspath(C.__file__).startswith(ROOT), C.__file__


# ---- independent copies of the two searches (straight from the published code) ----
def ref_eps(rho, delta):
    lo, hi = 0.0, rho + 2 * math.sqrt(rho * math.log(1 / delta))
    for _ in range(1000):
        mid = (lo + hi) / 2
        if C.cdp_delta(rho, mid) <= delta:
            hi = mid
        else:
            lo = mid
    return hi


def ref_rho(eps, delta):
    lo, hi = 0.0, eps + 1
    for _ in range(1000):
        mid = (lo + hi) / 2
        if C.cdp_delta(mid, eps) <= delta:
            lo = mid
        else:
            hi = mid
    return lo


def close(a, b, rel):
    return abs(a - b) <= rel * max(abs(a), abs(b), 1e-300)


GRID = [1e-3, 1e-2, 1e-1, 1.0, 10.0]      # used for rho AND for eps, as in a log-grid sweep
DELTAS = [1e-9, 1e-6, 1e-3]
GRID2 = [0.5, 2.0]                         # second sweep, cdp_rho first
DELTAS2 = [1e-12, 1e-5]

failures = []
lines = []


def check_eps(rho, d, e, tag):
    lines.append('%s cdp_eps(%g,%g) = %.12e' % (tag, rho, d, e))
    if not C.cdp_delta(rho, e) <= d:
        failures.append('%s UNSOUND: cdp_eps(%g,%g)=%.6g but cdp_delta(rho,that)=%.3g > delta'
                        % (tag, rho, d, e, C.cdp_delta(rho, e)))
    if e > 1e-200 and not C.cdp_delta(rho, e * (1 - 1e-9)) > d:
        failures.append('%s NOT TIGHT: cdp_eps(%g,%g)=%.6g is not the smallest eps' % (tag, rho, d, e))
    r = ref_eps(rho, d)
    if not close(e, r, 1e-12):
        failures.append('%s cdp_eps(%g,%g)=%.12g differs from the reference search %.12g' % (tag, rho, d, e, r))


def check_rho(eps, d, r, tag):
    lines.append('%s cdp_rho(%g,%g) = %.12e' % (tag, eps, d, r))
    if not C.cdp_delta(r, eps) <= d:
        failures.append('%s UNSOUND: cdp_rho(%g,%g)=%.6g but cdp_delta(that,eps)=%.3g > delta'
                        % (tag, eps, d, r, C.cdp_delta(r, eps)))
    if not C.cdp_delta(r * (1 + 1e-9), eps) > d:
        failures.append('%s NOT TIGHT: cdp_rho(%g,%g)=%.6g is not the largest sound rho' % (tag, eps, d, r))
    ref = ref_rho(eps, d)
    if not close(r, ref, 1e-12):
        failures.append('%s cdp_rho(%g,%g)=%.12g differs from the reference search %.12g' % (tag, eps, d, r, ref))


# sweep 1: all cdp_eps calls, then all cdp_rho calls over the same grid
got_eps = {(x, d): C.cdp_eps(x, d) for x in GRID for d in DELTAS}
got_rho = {(x, d): C.cdp_rho(x, d) for x in GRID for d in DELTAS}
# sweep 2: the other order
got_rho2 = {(x, d): C.cdp_rho(x, d) for x in GRID2 for d in DELTAS2}
got_eps2 = {(x, d): C.cdp_eps(x, d) for x in GRID2 for d in DELTAS2}

for (x, d), e in sorted(got_eps.items()):
    check_eps(x, d, e, 'sweep1')
for (x, d), r in sorted(got_rho.items()):
    check_rho(x, d, r, 'sweep1')
for (x, d), r in sorted(got_rho2.items()):
    check_rho(x, d, r, 'sweep2')
for (x, d), e in sorted(got_eps2.items()):
    check_eps(x, d, e, 'sweep2')

# asking again gives the same answer
for (x, d), r in sorted(got_rho.items()):
    if C.cdp_rho(x, d) != r:
        failures.append('cdp_rho(%g,%g) changed between two calls' % (x, d))

# round trips on a few points (cdp_eps o cdp_rho = id)
for eps, d in [(1.0, 1e-9), (0.1, 1e-6), (10.0, 1e-3), (2.0, 1e-12)]:
    back = C.cdp_eps(C.cdp_rho(eps, d), d)
    lines.append('roundtrip eps=%g delta=%g -> %.10e' % (eps, d, back))
    if not close(back, eps, 1e-9):
        failures.append('ROUND TRIP: cdp_eps(cdp_rho(%g,%g),%g)=%.10g' % (eps, d, d, back))

# monotone in delta and in eps along the grid
for x in GRID:
    vals = [got_rho[(x, d)] for d in DELTAS]
    if not all(a < b for a, b in zip(vals, vals[1:])):
        failures.append('cdp_rho(%g, .) not increasing in delta: %r' % (x, vals))
for d in DELTAS:
    vals = [got_rho[(x, d)] for x in GRID]
    if not all(a < b for a, b in zip(vals, vals[1:])):
        failures.append('cdp_rho(., %g) not increasing in eps: %r' % (d, vals))

for l in lines:
    print(l)
if failures:
    print('FAIL: %d violations of C07 (conversions depend on the call history)' % len(failures))
    for f in failures[:12]:
        print('  ' + f)
    sys.exit(1)
print('PASS digest=' + hashlib.sha256('\n'.join(lines).encode()).hexdigest()[:16])
sys.exit(0)

#!/usr/bin/env python
"""C07 / pair 2: cdp_delta must return the OPTIMUM of the Renyi-order bound
(over alpha >= 1.01), everywhere in the box - including the corner where
eps <= rho although rho is small (weak guarantees: small eps, delta of a few
per cent or more), where the optimal order is far from the minimum order.

Checks
  tight     cdp_delta(rho,eps) equals an independent minimisation (ternary search
            written here) of  exp((a-1)(a rho-eps)) (1-1/a)^a / (a-1)  over a>=1.01
  valid     cdp_delta(rho,eps) >= exact delta of the Gaussian mechanism with that rho
  monotone  non-increasing in eps, non-decreasing in rho on the grid
  cdp_rho / cdp_eps in the weak-guarantee corner are sound and tight with respect
            to the independent optimum
  round trip cdp_eps(cdp_rho(eps,d),d)==eps  (reported; it cannot see this defect)

exit 0 + PASS + digest if everything holds, exit 1 + FAIL otherwise.
"""
import hashlib
import os
import sys

ROOT = os.path.dirname(os.path.dirname(os.path.dirname(os.path.abspath(__file__))))
sys.path.insert(0, ROOT)
sys.path.insert(0, os.path.join(ROOT, 'src'))

import math
import random
import matplotlib
matplotlib.use('Agg')
from mechanisms import cdp2adp as C

assert os.path.abspath(C.__file__).startswith(ROOT), C.__file__

AMIN = 1.01


def log_bound(rho, eps, a):
    return (a - 1) * (a * rho - eps) + a * math.log1p(-1.0 / a) - math.log(a - 1)


def ref_delta(rho, eps):
    """min over a in [1.01, 1e10] of the bound; it is convex in a, so unimodal in t=log(a-1)."""
    lo, hi = math.log(AMIN - 1), math.log(1e10)
    for _ in range(300):
        m1 = lo + (hi - lo) / 3
        m2 = hi - (hi - lo) / 3
        if log_bound(rho, eps, 1 + math.exp(m1)) <= log_bound(rho, eps, 1 + math.exp(m2)):
            hi = m2
        else:
            lo = m1
    v = min(log_bound(rho, eps, 1 + math.exp(lo)), log_bound(rho, eps, AMIN))
    return min(math.exp(v), 1.0) if v > -745 else 0.0


def Phi(x):
    return 0.5 * math.erfc(-x / math.sqrt(2))


def gauss_delta(rho, eps):
    mu = math.sqrt(2 * rho)          # sensitivity 1, sigma^2 = 1/(2 rho)
    return Phi(-eps / mu + mu / 2) - math.exp(eps) * Phi(-eps / mu - mu / 2)


def close(a, b, rel):
    return abs(a - b) <= rel * max(abs(a), abs(b))


RHOS = [1e-6, 1e-4, 1e-3, 1e-2, 0.05, 0.1, 0.5, 1.0, 3.0, 5.0, 10.0, 100.0]
EPSS = [1e-3, 5e-3, 1e-2, 0.05, 0.1, 0.5, 1.0, 3.0, 5.0, 10.0, 100.0]
rnd = random.Random(7)
RANDOM = [(10 ** rnd.uniform(-6, 2), 10 ** rnd.uniform(-3, 2)) for _ in range(150)]

failures = []
lines = []

table = {}
for rho in RHOS:
    for eps in EPSS:
        table[(rho, eps)] = C.cdp_delta(rho, eps)
points = sorted(table) + RANDOM
worst = (0.0, None)
for rho, eps in points:
    d = table.get((rho, eps))
    if d is None:
        d = C.cdp_delta(rho, eps)
    lines.append('cdp_delta(%.6g,%.6g) = %.9e' % (rho, eps, d))
    r = ref_delta(rho, eps)
    if r > 1e-290 and not close(d, r, 1e-7):
        failures.append('NOT THE OPTIMUM: cdp_delta(%.4g,%.4g)=%.6g, optimum of the Renyi-order bound is %.6g (x%.3g looser)'
                        % (rho, eps, d, r, d / r))
        if d / r > worst[0]:
            worst = (d / r, (rho, eps))
    g = gauss_delta(rho, eps)
    if d < g * (1 - 1e-9) - 1e-18:
        failures.append('INVALID: cdp_delta(%.4g,%.4g)=%.6g below the exact Gaussian delta %.6g' % (rho, eps, d, g))

for rho in RHOS:
    row = [table[(rho, e)] for e in EPSS]
    if not all(a >= b for a, b in zip(row, row[1:])):
        failures.append('cdp_delta(%g, .) not non-increasing in eps' % rho)
for eps in EPSS:
    col = [table[(r, eps)] for r in RHOS]
    if not all(a <= b * (1 + 1e-12) for a, b in zip(col, col[1:])):
        failures.append('cdp_delta(., %g) not non-decreasing in rho' % eps)

# budgets in the weak-guarantee corner (plus two everyday settings)
for eps, d in [(1e-3, 0.05), (5e-3, 0.1), (1e-2, 0.2), (0.1, 0.3), (1.0, 0.5), (1.0, 1e-9), (0.1, 1e-6)]:
    r = C.cdp_rho(eps, d)
    lines.append('cdp_rho(%g,%g) = %.9e' % (eps, d, r))
    if not ref_delta(r, eps) <= d * (1 + 1e-9):
        failures.append('UNSOUND: cdp_rho(%g,%g)=%.6g' % (eps, d, r))
    if not ref_delta(r * (1 + 1e-6), eps) > d:
        failures.append('NOT TIGHT: cdp_rho(%g,%g)=%.6g but rho=%.6g would still give delta=%.4g<=%g'
                        % (eps, d, r, r * (1 + 1e-6), ref_delta(r * (1 + 1e-6), eps), d))
    back = C.cdp_eps(r, d)
    lines.append('  round trip -> %.9e' % back)
    if not close(back, eps, 1e-8):
        failures.append('ROUND TRIP: cdp_eps(cdp_rho(%g,%g),%g)=%.9g' % (eps, d, d, back))

for rho, d in [(0.1, 0.25), (0.05, 0.18), (0.5, 0.45), (1.0, 0.5), (0.5, 1e-6)]:
    e = C.cdp_eps(rho, d)
    lines.append('cdp_eps(%g,%g) = %.9e' % (rho, d, e))
    if not ref_delta(rho, e) <= d * (1 + 1e-9):
        failures.append('UNSOUND: cdp_eps(%g,%g)=%.6g' % (rho, d, e))
    if e > 1e-200 and not ref_delta(rho, e * (1 - 1e-6)) > d:
        failures.append('NOT TIGHT: cdp_eps(%g,%g)=%.6g but eps=%.6g already gives delta=%.4g<=%g'
                        % (rho, d, e, e * (1 - 1e-6), ref_delta(rho, e * (1 - 1e-6)), d))

for l in lines:
    print(l)
if failures:
    print('FAIL: %d violations of C07 (tightness clause)' % len(failures))
    for f in failures[:14]:
        print('  ' + f)
    if worst[1]:
        print('  worst: at rho=%.4g eps=%.4g the returned delta is %.3g times the optimum'
              % (worst[1][0], worst[1][1], worst[0]))
    sys.exit(1)
print('PASS digest=' + hashlib.sha256('\n'.join(lines).encode()).hexdigest()[:16])
sys.exit(0)

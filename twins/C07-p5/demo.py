#!/usr/bin/env python
"""C07 pair 1 -- cdp_eps: fast path for the "eps = 0 is already enough" case.

Checks, on a (rho, delta) grid that includes the large-rho / large-delta corner
(rho >= 4*ln(1/delta)):
  S  soundness     cdp_delta(rho, cdp_eps(rho,delta)) <= delta
  T  minimality    a slightly smaller eps is NOT enough (unless eps == 0)
  M  monotonicity  cdp_eps is non-decreasing in rho and non-increasing in delta
  I  inverse       cdp_rho(cdp_eps(rho,delta), delta) == rho   (where eps > 0)
Exit 0 + PASS + digest when all hold, exit 1 + FAIL otherwise.
"""
import os, sys, hashlib
os.environ.setdefault("MPLBACKEND", "Agg")
ROOT = os.path.dirname(os.path.dirname(os.path.dirname(os.path.abspath(__file__))))
sys.path.insert(0, ROOT)
sys.path.insert(0, os.path.join(ROOT, "src"))

from mechanisms import cdp2adp
from mechanisms.cdp2adp import cdp_delta, cdp_eps, cdp_rho

assert os.path.abspath(cdp2adp.__file__).startswith(ROOT), cdp2adp.__file__

RHOS = [1e-6, 1e-4, 1e-2, 0.3, 1.0, 2.5, 3.0, 10.0, 30.0, 95.0, 100.0]
DELTAS = [1e-15, 1e-10, 1e-6, 1e-3, 0.1, 0.5]
REL = 1e-9
problems = []
lines = []
table = {}

for rho in RHOS:
    for delta in DELTAS:
        e = cdp_eps(rho, delta)
        table[(rho, delta)] = e
        lines.append("eps rho=%-8g delta=%-8g %.13f" % (rho, delta, e))
        d = cdp_delta(rho, e)
        if not d <= delta * (1 + REL):
            problems.append("S: cdp_eps(rho=%g, delta=%g) = %.6g but cdp_delta(rho, that eps) = %.6g > delta"
                            % (rho, delta, e, d))
        if e > 1e-12 and not cdp_delta(rho, e * (1 - 1e-6)) > delta:
            problems.append("T: cdp_eps(rho=%g, delta=%g) = %.6g is not minimal" % (rho, delta, e))

# monotone in rho (fixed delta), monotone in delta (fixed rho)
for delta in DELTAS:
    for a, b in zip(RHOS, RHOS[1:]):
        if table[(b, delta)] < table[(a, delta)] - 1e-12:
            problems.append("M: cdp_eps drops from %.6g to %.6g when rho grows %g -> %g (delta=%g)"
                            % (table[(a, delta)], table[(b, delta)], a, b, delta))
for rho in RHOS:
    for a, b in zip(DELTAS, DELTAS[1:]):
        if table[(rho, b)] > table[(rho, a)] + 1e-12:
            problems.append("M: cdp_eps rises from %.6g to %.6g when delta grows %g -> %g (rho=%g)"
                            % (table[(rho, a)], table[(rho, b)], a, b, rho))

# round trip through cdp_rho where the eps answer is positive on correct code
for rho, delta in [(1e-4, 1e-10), (0.3, 1e-6), (3.0, 0.5), (10.0, 0.1), (30.0, 1e-3), (95.0, 1e-10), (100.0, 0.5)]:
    e = table[(rho, delta)]
    back = cdp_rho(e, delta)
    lines.append("inv rho=%-8g delta=%-8g back=%.10e" % (rho, delta, back))
    if abs(back - rho) > 1e-8 * rho:
        problems.append("I: cdp_rho(cdp_eps(rho=%g, delta=%g)=%.6g, delta) = %.6g != rho" % (rho, delta, e, back))

if problems:
    print("FAIL")
    for p in problems:
        print("  " + p)
    sys.exit(1)
for l in lines:
    print(l)
print("digest", hashlib.sha256("\n".join(lines).encode()).hexdigest())
print("PASS")
sys.exit(0)

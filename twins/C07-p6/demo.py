#!/usr/bin/env python
"""C07 pair 2 -- cdp_rho: geometric growth of the upper bracket end.

Checks, on an (eps, delta) grid that includes the small-eps corner where the
correct budget is below 1e-6 (eps <~ 2*sqrt(1e-6*ln(1/delta))):
  S  soundness   cdp_delta(cdp_rho(eps,delta), eps) <= delta
  G  Gaussian    exact delta of the Gaussian mechanism with that budget <= delta
  T  tightness   a slightly larger budget is NOT sound any more
  M  monotone    cdp_rho is non-decreasing in eps and in delta
  I  inverse     cdp_eps(cdp_rho(eps,delta), delta) == eps
Exit 0 + PASS + digest when all hold, exit 1 + FAIL otherwise.
"""
import os, sys, math, hashlib
os.environ.setdefault("MPLBACKEND", "Agg")
ROOT = os.path.dirname(os.path.dirname(os.path.dirname(os.path.abspath(__file__))))
sys.path.insert(0, ROOT)
sys.path.insert(0, os.path.join(ROOT, "src"))

from mechanisms import cdp2adp
from mechanisms.cdp2adp import cdp_delta, cdp_eps, cdp_rho

assert os.path.abspath(cdp2adp.__file__).startswith(ROOT), cdp2adp.__file__


def Phi(x):
    return 0.5 * math.erfc(-x / math.sqrt(2.0))


def gauss_delta(rho, eps):
    """exact delta(eps) of the sensitivity-1 Gaussian mechanism with rho = 1/(2 sigma^2)"""
    s = 1.0 / math.sqrt(2.0 * rho)
    return Phi(0.5 / s - eps * s) - math.exp(eps) * Phi(-0.5 / s - eps * s)


EPSS = [1e-3, 2e-3, 1e-2, 0.1, 1.0, 10.0, 100.0]
DELTAS = [1e-15, 1e-9, 1e-5, 0.1, 0.5]
REL = 1e-9
problems = []
lines = []
table = {}

for eps in EPSS:
    for delta in DELTAS:
        r = cdp_rho(eps, delta)
        table[(eps, delta)] = r
        lines.append("rho eps=%-6g delta=%-6g %.12e" % (eps, delta, r))
        d = cdp_delta(r, eps)
        if not d <= delta * (1 + REL):
            problems.append("S: cdp_rho(eps=%g, delta=%g) = %.6g but cdp_delta(that rho, eps) = %.6g > delta"
                            % (eps, delta, r, d))
        if r > 0:
            g = gauss_delta(r, eps)
            if not g <= delta * (1 + 1e-6) + 1e-18:
                problems.append("G: Gaussian mechanism with rho = cdp_rho(eps=%g, delta=%g) = %.6g has exact delta %.6g > delta"
                                % (eps, delta, r, g))
        if not cdp_delta(r * (1 + 1e-6), eps) > delta:
            problems.append("T: cdp_rho(eps=%g, delta=%g) = %.6g is not the largest sound budget" % (eps, delta, r))

for delta in DELTAS:
    for a, b in zip(EPSS, EPSS[1:]):
        if table[(b, delta)] < table[(a, delta)]:
            problems.append("M: cdp_rho drops from %.6g to %.6g when eps grows %g -> %g (delta=%g)"
                            % (table[(a, delta)], table[(b, delta)], a, b, delta))
for eps in EPSS:
    for a, b in zip(DELTAS, DELTAS[1:]):
        if table[(eps, b)] < table[(eps, a)]:
            problems.append("M: cdp_rho drops from %.6g to %.6g when delta grows %g -> %g (eps=%g)"
                            % (table[(eps, a)], table[(eps, b)], a, b, eps))

for eps, delta in [(1e-3, 1e-9), (2e-3, 1e-15), (1e-2, 1e-5), (1.0, 1e-9), (10.0, 0.1), (100.0, 1e-15)]:
    r = table[(eps, delta)]
    back = cdp_eps(r, delta)
    lines.append("inv eps=%-6g delta=%-6g back=%.10e" % (eps, delta, back))
    if abs(back - eps) > 1e-8 * eps:
        problems.append("I: cdp_eps(cdp_rho(eps=%g, delta=%g)=%.6g, delta) = %.6g != eps" % (eps, delta, r, back))

if problems:
    print("FAIL")
    for p in problems:
        print("  " + p)
    sys.exit(1)
for l in lines:
    print(l)
print("digest", hashlib.sha256("\n".join(lines).encode()).hexdigest())
print("PASS")
sys.exit(0)

#!/usr/bin/env python
"""C07 pair 1 - cdp_eps: cheap standard-bound pre-test inside the eps bisection.

Checks, for a fixed list of (rho, delta) points (log grid + seeded random points +
the large-rho / large-delta corner), that eps = cdp_eps(rho, delta)
  * is SOUND:   cdp_delta(rho, eps) <= delta,
  * is TIGHT:   cdp_delta(rho, eps*(1-1e-9)) > delta   (when eps is not ~0),
  * INVERTS:    cdp_rho(eps, delta) == rho within 1e-9 relative (when eps is not ~0),
  * is MONOTONE non-decreasing in rho along each delta column.
Exit 0 + PASS + digest if everything holds, exit 1 + FAIL otherwise.
"""
import os, sys, hashlib, random

ROOT = os.path.dirname(os.path.dirname(os.path.dirname(os.path.abspath(__file__))))
sys.path.insert(0, ROOT)
sys.path.insert(0, os.path.join(ROOT, 'src'))
try:
    import matplotlib  # noqa: F401  (cdp2adp imports pyplot)
    matplotlib.use('Agg')
except Exception:
    pass
from mechanisms.cdp2adp import cdp_delta, cdp_eps, cdp_rho  # noqa: E402

rng = random.Random(7)
deltas = [1e-15, 1e-9, 1e-5, 1e-2, 0.1, 0.3, 0.5]
rhos = [1e-6, 1e-3, 0.05, 1.0, 5.0, 20.0, 30.0, 60.0, 100.0]
points = [(r, d) for d in deltas for r in rhos]
extra = [(10 ** rng.uniform(-6, 2), 10 ** rng.uniform(-15, -0.30103)) for _ in range(8)]

failures = []
lines = []
table = {}
for (rho, delta) in points + extra:
    eps = cdp_eps(rho, delta)
    table[(rho, delta)] = eps
    lines.append('cdp_eps(%r, %r) = %r' % (rho, delta, eps))
    d_at = cdp_delta(rho, eps)
    if not d_at <= delta:
        failures.append('UNSOUND: cdp_eps(rho=%g, delta=%g) = %.6g but cdp_delta(rho, that eps) = %.6g > delta'
                        % (rho, delta, eps, d_at))
        continue
    if eps > 1e-12:
        if not cdp_delta(rho, eps * (1 - 1e-9)) > delta:
            failures.append('NOT TIGHT: cdp_eps(rho=%g, delta=%g) = %.6g, a smaller eps already meets delta'
                            % (rho, delta, eps))
        back = cdp_rho(eps, delta)
        lines.append('   cdp_rho(eps, delta) = %r' % back)
        if abs(back - rho) > 1e-9 * rho:
            failures.append('NOT INVERSE: cdp_rho(cdp_eps(rho=%g, delta=%g), delta) = %.12g'
                            % (rho, delta, back))

for d in deltas:
    col = [table[(r, d)] for r in rhos]
    for r0, r1, a, b in zip(rhos, rhos[1:], col, col[1:]):
        if b < a:
            failures.append('NOT MONOTONE in rho at delta=%g: cdp_eps(%g)=%.6g > cdp_eps(%g)=%.6g'
                            % (d, r0, a, r1, b))

if failures:
    print('FAIL')
    for f in failures:
        print('  ' + f)
    sys.exit(1)
for l in lines:
    print(l)
print('PASS digest=' + hashlib.sha256('\n'.join(lines).encode()).hexdigest())
sys.exit(0)

#!/usr/bin/env python
"""C07 pair 2 - cdp_rho: sanity clamp on the returned budget.

Checks, for a fixed list of (eps, delta) points (log grid + seeded random points,
including the small-eps / large-delta corner where the answer exceeds eps), that
rho = cdp_rho(eps, delta)
  * is SOUND:   cdp_delta(rho, eps) <= delta,
  * is TIGHT:   cdp_delta(rho*(1+1e-9), eps) > delta   (it is the largest sound budget),
  * INVERTS:    cdp_eps(rho, delta) == eps within 1e-9 relative,
  * is MONOTONE non-decreasing in eps (delta fixed) and in delta (eps fixed),
  * is type-robust: an int eps gives the same answer as the equal float.
Exit 0 + PASS + digest if everything holds, exit 1 + FAIL otherwise.
"""
import os, sys, hashlib, random

ROOT = os.path.dirname(os.path.dirname(os.path.dirname(os.path.abspath(__file__))))
sys.path.insert(0, ROOT)
sys.path.insert(0, os.path.join(ROOT, 'src'))
from mechanisms.cdp2adp import cdp_delta, cdp_eps, cdp_rho  # noqa: E402

rng = random.Random(11)
epss = [1e-3, 1e-2, 0.1, 0.5, 1.0, 3.0, 10.0, 100.0]
deltas = [1e-15, 1e-9, 1e-5, 1e-2, 0.1, 0.5]
points = [(e, d) for e in epss for d in deltas]
extra = [(10 ** rng.uniform(-3, 2), 10 ** rng.uniform(-15, -0.30103)) for _ in range(6)]
extra += [(10 ** rng.uniform(-3, -1), 10 ** rng.uniform(-1.5, -0.30103)) for _ in range(4)]

failures = []
lines = []
table = {}
for (eps, delta) in points + extra:
    rho = cdp_rho(eps, delta)
    table[(eps, delta)] = rho
    lines.append('cdp_rho(%r, %r) = %r' % (eps, delta, rho))
    if not cdp_delta(rho, eps) <= delta:
        failures.append('UNSOUND: cdp_rho(eps=%g, delta=%g) = %.6g has cdp_delta = %.6g > delta'
                        % (eps, delta, rho, cdp_delta(rho, eps)))
        continue
    d_up = cdp_delta(rho * (1 + 1e-9), eps)
    if not d_up > delta:
        failures.append('NOT TIGHT: cdp_rho(eps=%g, delta=%g) = %.6g, but a larger budget still meets delta '
                        '(cdp_delta(rho*(1+1e-9), eps) = %.6g)' % (eps, delta, rho, d_up))
    back = cdp_eps(rho, delta)
    lines.append('   cdp_eps(rho, delta) = %r' % back)
    if abs(back - eps) > 1e-9 * eps:
        failures.append('NOT INVERSE: cdp_eps(cdp_rho(eps=%g, delta=%g), delta) = %.12g' % (eps, delta, back))

for d in deltas:
    col = [table[(e, d)] for e in epss]
    for e0, e1, a, b in zip(epss, epss[1:], col, col[1:]):
        if b < a:
            failures.append('NOT MONOTONE in eps at delta=%g: cdp_rho(%g)=%.6g > cdp_rho(%g)=%.6g' % (d, e0, a, e1, b))
for e in epss:
    row = [table[(e, d)] for d in deltas]
    for d0, d1, a, b in zip(deltas, deltas[1:], row, row[1:]):
        if b < a:
            failures.append('NOT MONOTONE in delta at eps=%g: cdp_rho(.,%g)=%.6g > cdp_rho(.,%g)=%.6g' % (e, d0, a, d1, b))

for e_int in (1, 3):
    r_int = cdp_rho(e_int, 1e-5)
    lines.append('cdp_rho(int %d, 1e-05) = %r' % (e_int, r_int))
    if r_int != table[(float(e_int), 1e-5)] or not isinstance(r_int, float):
        failures.append('TYPE: cdp_rho(int %d, 1e-5) = %r differs from the float call' % (e_int, r_int))

if failures:
    print('FAIL')
    for f in failures:
        print('  ' + f)
    sys.exit(1)
for l in lines:
    print(l)
print('PASS digest=' + hashlib.sha256('\n'.join(lines).encode()).hexdigest())
sys.exit(0)

"""C07 pair 1 - cdp_delta must be a function of (rho, eps) only.

The three conversions are checked after different call HISTORIES: the same
queries are issued in several orders and interleaved with unrelated calls, and
every answer is compared with (a) the answer obtained in another order and
(b) an independent re-implementation of the optimum of the Renyi-order bound.
"""
import os, sys, math, random, hashlib

ROOT = os.path.dirname(os.path.dirname(os.path.dirname(os.path.abspath(__file__))))
sys.path.insert(0, ROOT)
from mechanisms import cdp2adp as M  # noqa: E402

assert os.path.abspath(M.__file__).startswith(ROOT), M.__file__


def ref_delta(rho, eps):
    """optimum over the order alpha in [1.01, amax] of the published bound"""
    lo, hi = 1.01, (eps + 1) / (2 * rho) + 2
    for _ in range(200):
        a = (lo + hi) / 2
        if (2 * a - 1) * rho - eps + math.log1p(-1.0 / a) < 0:
            lo = a
        else:
            hi = a
    d = math.exp((a - 1) * (a * rho - eps) + a * math.log1p(-1 / a)) / (a - 1.0)
    return min(d, 1.0)


def close(x, y, rel):
    return abs(x - y) <= rel * max(abs(x), abs(y)) + 1e-290


def fmt(x):
    return "0" if abs(x) < 1e-290 else "%.8e" % x


failures = []
lines = []


def call(f, *args):
    try:
        return f(*args)
    except Exception as e:  # an OverflowError here is itself a failure
        failures.append("%s%r raised %s: %s" % (f.__name__, args, type(e).__name__, e))
        return float("nan")


# ---- 1. cdp_delta under different call orders --------------------------------
Q = [(10.0, 12.0), (1e-3, 1.0), (1e-6, 0.01), (100.0, 150.0), (0.5, 3.0),
     (1e-4, 0.05), (5.0, 6.0), (0.02, 2.0), (50.0, 60.0), (1e-5, 0.02),
     (2.0, 9.0), (0.3, 0.9)]
orders = {"forward": list(Q), "reverse": list(reversed(Q))}
rnd = random.Random(7)
for k in range(3):
    p = list(Q)
    rnd.shuffle(p)
    orders["shuffle%d" % k] = p
answers = {}
for name, order in orders.items():
    for q in order:
        answers.setdefault(q, {})[name] = call(M.cdp_delta, *q)
for q in Q:
    r = ref_delta(*q)
    got = answers[q]
    lines.append("delta%r = %s" % (q, fmt(got["forward"])))
    for name, v in got.items():
        if not close(v, r, 1e-9):
            failures.append("cdp_delta%r in order %r = %.6e but the optimum of the bound is %.6e"
                            % (q, name, v, r))

# ---- 2. cdp_eps / cdp_rho after unrelated calls -------------------------------
E = [(1e-4, 1e-9), (1e-2, 1e-5), (1.0, 1e-6), (20.0, 0.3)]
R = [(10.0, 0.5), (1.0, 1e-9), (0.05, 1e-12), (30.0, 1e-3)]
disturb = [(10.0, 12.0), (0.5, 3.0), (1e-3, 1.0), (5.0, 6.0)]

for i, (rho, delta) in enumerate(E):
    first = call(M.cdp_eps, rho, delta)
    call(M.cdp_delta, *disturb[i % len(disturb)])
    again = call(M.cdp_eps, rho, delta)
    lines.append("eps(%r,%r) = %s" % (rho, delta, fmt(first)))
    if not close(first, again, 1e-9):
        failures.append("cdp_eps(%r,%r) = %.9g, but %.9g after an unrelated cdp_delta%r call"
                        % (rho, delta, first, again, disturb[i % len(disturb)]))
    for e in (first, again):
        if e == e and e > 1e-12 and not close(ref_delta(rho, e), delta, 1e-6):
            failures.append("cdp_eps(%r,%r) = %.9g is not tight: implied delta %.6e"
                            % (rho, delta, e, ref_delta(rho, e)))

for i, (eps, delta) in enumerate(R):
    first = call(M.cdp_rho, eps, delta)
    call(M.cdp_delta, *disturb[(i + 1) % len(disturb)])
    again = call(M.cdp_rho, eps, delta)
    lines.append("rho(%r,%r) = %s" % (eps, delta, fmt(first)))
    if not close(first, again, 1e-9):
        failures.append("cdp_rho(%r,%r) = %.9g, but %.9g after an unrelated cdp_delta%r call"
                        % (eps, delta, first, again, disturb[(i + 1) % len(disturb)]))
    for r in (first, again):
        if r == r:
            d = ref_delta(r, eps) if r > 0 else 0.0
            if d > delta * (1 + 1e-9) or d < delta * (1 - 1e-6):
                failures.append("cdp_rho(%r,%r) = %.9g: implied delta %.6e vs target %.1e"
                                % (eps, delta, r, d, delta))

# ---- 3. round trip with interleaving -----------------------------------------
for eps, delta in [(2.0, 1e-6), (0.5, 1e-9)]:
    rho = call(M.cdp_rho, eps, delta)
    call(M.cdp_delta, 10.0, 12.0)
    back = call(M.cdp_eps, rho, delta)
    lines.append("roundtrip(%r,%r) = %s" % (eps, delta, fmt(back)))
    if not close(back, eps, 1e-6):
        failures.append("cdp_eps(cdp_rho(%r,%r),%r) = %.9g" % (eps, delta, delta, back))

if failures:
    print("FAIL: the conversions depend on the history of calls / are not the optimum")
    for f in failures:
        print("  -", f)
    sys.exit(1)
print("PASS")
for ln in lines:
    print(ln)
print("digest", hashlib.sha256("\n".join(lines).encode()).hexdigest())

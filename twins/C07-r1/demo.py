"""Equivalence demo for refactoring 1 (cdp_delta helpers extracted).

Prints exact (float.hex) digests of cdp_delta over a dense grid including the
degenerate / clamped regimes, plus a few cdp_eps / cdp_rho values (both call
cdp_delta 1000 times per evaluation, so they amplify any last-bit difference).
"""
import os, sys, random, hashlib

ROOT = os.path.abspath(os.path.join(os.path.dirname(os.path.abspath(__file__)), '..', '..'))
sys.path.insert(0, ROOT)
sys.path.insert(0, os.path.join(ROOT, 'src'))
import matplotlib
matplotlib.use('Agg')
from mechanisms import cdp2adp
assert os.path.abspath(cdp2adp.__file__).startswith(ROOT), cdp2adp.__file__
from mechanisms.cdp2adp import cdp_delta, cdp_eps, cdp_rho, cdp_delta_standard


def h(x):
    return float(x).hex() if isinstance(x, float) else repr(x)


def logspace(lo, hi, n):
    return [10.0 ** (lo + (hi - lo) * i / (n - 1)) for i in range(n)]


digest = hashlib.sha256()

def emit(line, show):
    digest.update((line + '\n').encode())
    if show:
        print(line)

# 1. dense grid of cdp_delta: rho in [1e-6,1e2], eps in [1e-3,1e2]
rhos = logspace(-6, 2, 33)
epss = logspace(-3, 2, 26)
k = 0
for rho in rhos:
    for eps in epss:
        d = cdp_delta(rho, eps)
        k += 1
        emit('delta rho=%s eps=%s -> %s %r' % (h(rho), h(eps), h(d), type(d).__name__), k % 37 == 0)

# 2. unusual inputs: degenerate rho, eps=0, eps<=rho (alpha pinned at amin), ints,
#    huge eps/rho ratio (delta underflows to 0), result clamped to 1.0
special = [(0, 1.0), (0.0, 0.0), (0, 0), (1e-6, 0), (1e-6, 0.0), (5.0, 0.0), (100.0, 1e-3),
           (1, 1), (2, 1), (1, 2), (3, 7), (0.5, 0.5), (1e-6, 1e2), (1e-9, 50.0),
           (1e2, 1e2), (1e2, 99.0), (1e2, 101.0), (0.02, 0.02), (1e-300, 1.0),
           (1e3, 1e-3), (1e-3, 1e3), (7.25, 7.25), (1e-6, 1e-3), (1e-12, 1e-6)]
for rho, eps in special:
    d = cdp_delta(rho, eps)
    emit('special rho=%r eps=%r -> %s %s std=%s' % (rho, eps, h(d), type(d).__name__,
                                                    h(cdp_delta_standard(rho, eps))), True)

# 3. random points (fixed seed)
rng = random.Random(20240707)
for i in range(300):
    rho = 10.0 ** rng.uniform(-6, 2)
    eps = 10.0 ** rng.uniform(-3, 2)
    emit('rand rho=%s eps=%s -> %s' % (h(rho), h(eps), h(cdp_delta(rho, eps))), i % 25 == 0)

# 4. assertion behaviour is unchanged
for args in [(-1.0, 1.0), (1.0, -1.0), (-0.0, 1.0), (float('nan'), 1.0), (1.0, float('nan'))]:
    try:
        r = h(cdp_delta(*args))
    except Exception as e:
        r = type(e).__name__
    emit('guard %r -> %s' % (args, r), True)

# 5. the two outer searches (each 1000 calls of cdp_delta)
for rho, delta in [(0.1, 1e-6), (1e-6, 1e-15), (100.0, 0.5), (2.5, 1e-9), (0.0, 1e-3), (1.0, 1.0)]:
    emit('eps rho=%r delta=%r -> %s' % (rho, delta, h(cdp_eps(rho, delta))), True)
for eps, delta in [(1.0, 1e-6), (1e-3, 1e-15), (100.0, 0.5), (0.3, 1e-9), (0.0, 1e-3), (1.0, 1.0), (1, 1e-5)]:
    emit('rho eps=%r delta=%r -> %s' % (eps, delta, h(cdp_rho(eps, delta))), True)

print('lines-sha256', digest.hexdigest())

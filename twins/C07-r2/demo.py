"""Equivalence demo for refactoring 2 (cdp_eps: single exit, renamed bracket, cached log term).

Prints exact (float.hex) values of cdp_eps on log grids of (rho, delta), on the
degenerate branches (rho==0, delta>=1, ints) and at random points, checks the
assertion guards, and round-trips through cdp_delta / cdp_rho.
"""
import os, sys, random, hashlib

ROOT = os.path.abspath(os.path.join(os.path.dirname(os.path.abspath(__file__)), '..', '..'))
sys.path.insert(0, ROOT)
sys.path.insert(0, os.path.join(ROOT, 'src'))
import matplotlib
matplotlib.use('Agg')
from mechanisms import cdp2adp
assert os.path.abspath(cdp2adp.__file__).startswith(ROOT), cdp2adp.__file__
from mechanisms.cdp2adp import cdp_delta, cdp_eps, cdp_rho


def h(x):
    return float(x).hex() if isinstance(x, float) else repr(x)


def logspace(lo, hi, n):
    return [10.0 ** (lo + (hi - lo) * i / (n - 1)) for i in range(n)]


digest = hashlib.sha256()

def emit(line, show=True):
    digest.update((line + '\n').encode())
    if show:
        print(line)

# 1. grid: rho in [1e-6,1e2] x delta in [1e-15,0.5]
rhos = logspace(-6, 2, 9)
deltas = logspace(-15, -1, 8) + [0.25, 0.5]
for rho in rhos:
    for delta in deltas:
        e = cdp_eps(rho, delta)
        emit('eps rho=%s delta=%s -> %s %s' % (h(rho), h(delta), h(e), type(e).__name__))

# 2. degenerate / unusual: rho==0 (int and float, -0.0), delta>=1, delta just below 1,
#    integer arguments, tiny delta (log(1/delta) large), 1/delta overflowing to inf
special = [(0, 1e-6), (0.0, 1e-6), (-0.0, 0.5), (1.0, 1.0), (1.0, 1), (1.0, 2.5), (0, 1), (0, 3),
           (1.0, 1.0 - 2.0 ** -53), (1.0, 0.999), (1, 0.5), (2, 1e-3), (100, 1e-15),
           (1e-6, 1e-300), (0.5, 5e-324), (1e-12, 1e-9), (1e3, 1e-6), (1e-6, 0.5), (1e2, 1e-15)]
for rho, delta in special:
    try:
        e = cdp_eps(rho, delta)
        r = '%s %s' % (h(e), type(e).__name__)
    except Exception as ex:
        r = 'raised ' + type(ex).__name__
    emit('special rho=%r delta=%r -> %s' % (rho, delta, r))

# 3. guards
for args in [(-1.0, 0.1), (1.0, 0.0), (1.0, -0.1), (float('nan'), 0.1), (1.0, float('nan')), (0.0, 0.0)]:
    try:
        r = h(cdp_eps(*args))
    except Exception as ex:
        r = 'raised ' + type(ex).__name__
    emit('guard %r -> %s' % (args, r))

# 4. random points + round trips through the other two conversions
rng = random.Random(7)
for i in range(25):
    rho = 10.0 ** rng.uniform(-6, 2)
    delta = 10.0 ** rng.uniform(-15, -0.30102999566398120)
    e = cdp_eps(rho, delta)
    emit('rand rho=%s delta=%s -> eps=%s delta_back=%s rho_back=%s'
         % (h(rho), h(delta), h(e), h(cdp_delta(rho, e)), h(cdp_rho(e, delta))))

print('lines-sha256', digest.hexdigest())

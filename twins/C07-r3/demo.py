"""Equivalence demo for refactoring 3 (cdp_rho: respelled bisection step).

Prints exact (float.hex) values of cdp_rho on log grids of (eps, delta), on the
degenerate branches (delta>=1, eps==0, ints) and at random points, checks the
assertion guards, the soundness clause cdp_delta(cdp_rho(eps,delta),eps)<=delta,
and the sigma the mechanisms derive from the budget.
"""
import os, sys, random, hashlib, math

ROOT = os.path.abspath(os.path.join(os.path.dirname(os.path.abspath(__file__)), '..', '..'))
sys.path.insert(0, ROOT)
sys.path.insert(0, os.path.join(ROOT, 'src'))
import matplotlib
matplotlib.use('Agg')
from mechanisms import cdp2adp
assert os.path.abspath(cdp2adp.__file__).startswith(ROOT), cdp2adp.__file__
from mechanisms.cdp2adp import cdp_delta, cdp_eps, cdp_rho


def h(x):
    return float(x).hex() if isinstance(x, float) else repr(x)


def logspace(lo, hi, n):
    return [10.0 ** (lo + (hi - lo) * i / (n - 1)) for i in range(n)]


digest = hashlib.sha256()

def emit(line, show=True):
    digest.update((line + '\n').encode())
    if show:
        print(line)

# 1. grid: eps in [1e-3,1e2] x delta in [1e-15,0.5]
epss = logspace(-3, 2, 11)
deltas = logspace(-15, -1, 8) + [0.25, 0.5]
for eps in epss:
    for delta in deltas:
        r = cdp_rho(eps, delta)
        back = cdp_delta(r, eps)
        emit('rho eps=%s delta=%s -> %s %s sound=%r sigma=%s'
             % (h(eps), h(delta), h(r), type(r).__name__, back <= delta, h(math.sqrt(0.5 / r))))

# 2. degenerate / unusual: delta>=1 (float and int), eps==0, integer eps, delta just below 1,
#    denormal delta, very large eps
special = [(1.0, 1.0), (1.0, 1), (1.0, 7.5), (0, 1), (0.0, 1e-6), (0, 1e-6), (0.0, 0.5), (1, 1e-9),
           (2, 0.5), (10, 1e-15), (1.0, 1.0 - 2.0 ** -53), (1.0, 0.999), (1.0, 5e-324), (1e-3, 1e-300),
           (1e4, 1e-6), (1e-9, 1e-3), (1e2, 0.5), (1e-3, 0.5), (1e-3, 1e-15), (1e2, 1e-15)]
for eps, delta in special:
    try:
        r = cdp_rho(eps, delta)
        s = '%s %s' % (h(r), type(r).__name__)
    except Exception as ex:
        s = 'raised ' + type(ex).__name__
    emit('special eps=%r delta=%r -> %s' % (eps, delta, s))

# 3. guards
for args in [(-1.0, 0.1), (1.0, 0.0), (1.0, -0.1), (float('nan'), 0.1), (1.0, float('nan')), (-0.0, 0.1)]:
    try:
        s = h(cdp_rho(*args))
    except Exception as ex:
        s = 'raised ' + type(ex).__name__
    emit('guard %r -> %s' % (args, s))

# 4. random points + inverse through cdp_eps
rng = random.Random(99)
for i in range(25):
    eps = 10.0 ** rng.uniform(-3, 2)
    delta = 10.0 ** rng.uniform(-15, -0.30102999566398120)
    r = cdp_rho(eps, delta)
    emit('rand eps=%s delta=%s -> rho=%s eps_back=%s' % (h(eps), h(delta), h(r), h(cdp_eps(r, delta))))

print('lines-sha256', digest.hexdigest())

"""C08 pair 1 demo: out-of-clique answers of the estimated model (GraphicalModel.project,
variable-elimination path over model.potentials) must describe the SAME distribution as
the in-clique answers (model.marginals) -- any two answers agree on shared attributes,
are finite, nonnegative and sum to model.total.

exit 0 + PASS + digest  : property holds on every scenario
exit 1 + FAIL + reasons : some answer disagrees with the distribution defined by the
                          stored parameters / with another answer
"""
import os, sys, io, itertools, hashlib, contextlib, warnings
ROOT = os.path.dirname(os.path.dirname(os.path.dirname(os.path.abspath(__file__))))
sys.path.insert(0, os.path.join(ROOT, 'src'))
warnings.simplefilter('ignore')
import numpy as np
import mbi
assert os.path.abspath(mbi.__file__).startswith(os.path.join(ROOT, 'src')), mbi.__file__
from mbi import Domain, FactoredInference

TOL = 1e-6


def measurements(domain, cliques, seed, scale):
    prng = np.random.RandomState(seed)
    ms = []
    for cl in cliques:
        n = domain.size(cl)
        y = prng.rand(n)
        y = scale * y / y.sum() + prng.normal(0, 0.02 * scale, n)
        ms.append((None, y, 1.0, cl))
    return ms


def joint(model):
    """ explicit distribution defined by the stored parameters (independent of project) """
    return model.datavector(flatten=False)


def check(name, model, failures, digest):
    dom = model.domain
    attrs = dom.attrs
    P = joint(model)
    total = model.total
    answers = {}
    queries = []
    for r in (1, 2, 3):
        queries += list(itertools.combinations(attrs, r))
    # a few queries in non-canonical attribute order as well
    queries += [q[::-1] for q in queries if len(q) == 2][::3]
    for q in queries:
        ans = model.project(q)
        vals = ans.datavector(flatten=False)
        assert ans.domain.attrs == tuple(q)
        answers[q] = vals
        if not np.all(np.isfinite(vals)):
            failures.append('%s: project(%s) is not finite' % (name, q)); continue
        if vals.min() < -TOL * total:
            failures.append('%s: project(%s) has negative entries' % (name, q))
        if abs(vals.sum() - total) > TOL * total:
            failures.append('%s: project(%s) sums to %.6f, model.total is %.6f' % (name, q, vals.sum(), total))
        # marginal of the distribution defined by the stored parameters
        ax = tuple(i for i, a in enumerate(attrs) if a not in q)
        ref = P.sum(axis=ax)
        kept = [a for a in attrs if a in q]
        ref = np.moveaxis(ref, range(len(kept)), [q.index(a) for a in kept])
        err = np.abs(ref - vals).max() / total
        if err > TOL:
            failures.append('%s: project(%s) differs from the distribution of the stored parameters by %.3e (relative to total)' % (name, q, err))
        digest.append('%s %s %s' % (name, ','.join(q), np.array2string(np.round(vals.flatten() / total, 6) + 0.0, separator=',', max_line_width=10**6)))
    # any two answers agree on the attributes they share
    for q1, q2 in itertools.combinations([q for q in queries if q == dom.canonical(q)], 2):
        shared = tuple(a for a in q1 if a in q2)
        if not shared or not (np.all(np.isfinite(answers[q1])) and np.all(np.isfinite(answers[q2]))):
            continue
        m1 = answers[q1].sum(axis=tuple(i for i, a in enumerate(q1) if a not in shared))
        m2 = answers[q2].sum(axis=tuple(i for i, a in enumerate(q2) if a not in shared))
        err = np.abs(m1 - m2).max() / total
        if err > TOL:
            failures.append('%s: project(%s) and project(%s) disagree on %s by %.3e' % (name, q1, q2, shared, err))
    # stored marginals vs stored parameters
    if hasattr(model, 'marginals'):
        bp = model.belief_propagation(model.potentials)
        for cl in model.cliques:
            err = np.abs(bp[cl].values - model.marginals[cl].values).max() / total
            if err > TOL:
                failures.append('%s: stored marginal %s differs from BP(potentials) by %.3e' % (name, cl, err))


def run(name, domain, cliques, engine, iters, total, seed, zeros, failures, digest, warm=None):
    eng = FactoredInference(domain, iters=iters, structural_zeros=zeros, warm_start=warm is not None)
    sink = io.StringIO()
    with contextlib.redirect_stdout(sink):
        if warm is not None:
            eng.estimate(measurements(domain, warm, seed + 1, total or 50.0), total=total, engine=engine, options={})
        model = eng.estimate(measurements(domain, cliques, seed, total or 50.0), total=total, engine=engine, options={})
    check(name, model, failures, digest)


def main():
    failures, digest = [], []
    d5 = Domain(['a', 'b', 'c', 'd', 'e'], [2, 3, 2, 3, 2])
    d6 = Domain(['a', 'b', 'c', 'd', 'e', 'f'], [2, 2, 3, 2, 2, 3])
    chain = [('a', 'b'), ('b', 'c'), ('c', 'd'), ('d', 'e')]
    rchain = [('e', 'd'), ('d', 'c'), ('c', 'b'), ('b', 'a')]
    star = [('a', 'c'), ('b', 'c'), ('c', 'd'), ('c', 'e')]
    split = [('a', 'b'), ('c', 'd')]                  # e is not measured at all
    single = [('a',), ('b',), ('c',), ('d',), ('e',)]  # AIM-style initial model
    tree6 = [('a', 'b'), ('b', 'c'), ('c', 'd'), ('c', 'e'), ('e', 'f')]
    tri = [('a', 'b', 'c'), ('c', 'd'), ('d', 'e')]
    zeros = {('b', 'c'): [(0, 0), (2, 1)], ('d',): [(1,)]}

    scen = []
    for engine in ['MD', 'RDA', 'IG']:
        for iters in [1, 30]:
            scen.append(('chain-%s-%d' % (engine, iters), d5, chain, engine, iters, 100.0, 1, {}, None))
    scen += [
        ('chain-MD-total-None', d5, chain, 'MD', 20, None, 2, {}, None),
        ('rchain-MD', d5, rchain, 'MD', 15, 10.0, 3, {}, None),
        ('star-MD', d5, star, 'MD', 15, 1.0, 4, {}, None),
        ('star-RDA', d5, star, 'RDA', 15, 1.0, 4, {}, None),
        ('split-MD', d5, split, 'MD', 15, 40.0, 5, {}, None),
        ('split-IG', d5, split, 'IG', 15, 40.0, 5, {}, None),
        ('single-MD', d5, single, 'MD', 10, 25.0, 6, {}, None),
        ('tree6-MD', d6, tree6, 'MD', 25, 200.0, 7, {}, None),
        ('tree6-MD-1', d6, tree6, 'MD', 1, 200.0, 7, {}, None),
        ('tree6-RDA', d6, tree6, 'RDA', 10, 200.0, 7, {}, None),
        ('tri-MD', d5, tri, 'MD', 20, 60.0, 8, {}, None),
        ('chain-MD-zeros', d5, chain, 'MD', 20, 100.0, 9, zeros, None),
        ('chain-RDA-zeros', d5, chain, 'RDA', 20, 100.0, 9, zeros, None),
        ('split-MD-zeros', d5, split, 'MD', 20, 100.0, 10, zeros, None),
        ('chain-MD-warm', d5, chain, 'MD', 10, 100.0, 11, {}, split),
        ('empty-MD', d5, [], 'MD', 5, 30.0, 12, {}, None),
    ]
    for name, dom, cliques, engine, iters, total, seed, z, warm in scen:
        np.random.seed(0)
        run(name, dom, cliques, engine, iters, total, seed, z, failures, digest, warm)

    if failures:
        print('FAIL: the returned model is not one coherent distribution (%d violations)' % len(failures))
        names = [f.split(':')[0] for f in failures]
        print('  violating scenarios:', ', '.join('%s(%d)' % (n, names.count(n)) for n in sorted(set(names))))
        print('  clean scenarios    :', ', '.join(sc[0] for sc in scen if sc[0] not in names))
        for f in failures[:25]:
            print('  -', f)
        if len(failures) > 25:
            print('  ... and %d more' % (len(failures) - 25))
        sys.exit(1)
    print('PASS: %d scenarios, %d answers checked' % (len(scen), len(digest)))
    print('digest', hashlib.sha256('\n'.join(digest).encode()).hexdigest())
    for line in digest[::97]:
        print(line)
    sys.exit(0)


if __name__ == '__main__':
    main()

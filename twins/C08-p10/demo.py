""" C08 pair 1 -- out-of-clique answers (variable elimination over the stored parameters) must agree
with in-clique answers (stored clique marginals) and with the joint implied by the parameters.

exit 0 + "PASS" + digest  : every model returned by estimation is one coherent distribution
exit 1 + "FAIL" + reasons : some answer disagrees with another answer / with the joint
"""
import os, sys

# set/frozenset iteration order of attribute names depends on the hash seed; pin it so that the
# digest printed below is reproducible bit for bit
if os.environ.get('PYTHONHASHSEED') != '0':
    os.environ['PYTHONHASHSEED'] = '0'
    os.execv(sys.executable, [sys.executable] + sys.argv)

ROOT = os.path.dirname(os.path.dirname(os.path.dirname(os.path.abspath(__file__))))
sys.path.insert(0, os.path.join(ROOT, 'src'))

import io, itertools, contextlib, warnings
import numpy as np
warnings.simplefilter('ignore')

import mbi
from mbi import Domain, FactoredInference
assert os.path.abspath(mbi.__file__).startswith(os.path.join(ROOT, 'src')), mbi.__file__

TOL = 1e-6          # relative to the model total
problems = []
digest = []


def measurements(domain, cliques, total, rng, sigma=1.0):
    """ noisy marginals of a random dataset with `total` records """
    shape = domain.shape
    p = rng.random(shape) ** 3
    p /= p.sum()
    counts = rng.multinomial(total, p.flatten()).reshape(shape).astype(float)
    ans = []
    for cl in cliques:
        drop = tuple(i for i, a in enumerate(domain.attrs) if a not in cl)
        x = counts.sum(axis=drop)
        order = [a for a in domain.attrs if a in cl]
        x = np.moveaxis(x, range(len(order)), [cl.index(a) for a in order]) if len(cl) > 1 else x
        y = x.flatten() + rng.normal(0, sigma, x.size)
        ans.append((None, y, sigma, cl))
    return ans


def joint_of(model):
    """ the full contingency table implied by the stored parameters (no variable elimination) """
    return model.datavector(flatten=False)


def marginal_of(joint, domain, attrs):
    drop = tuple(i for i, a in enumerate(domain.attrs) if a not in attrs)
    x = joint.sum(axis=drop)
    order = [a for a in domain.attrs if a in attrs]
    if len(attrs) > 1:
        x = np.moveaxis(x, range(len(order)), [list(attrs).index(a) for a in order])
    return x


def check(tag, model, queries):
    dom, total = model.domain, float(model.total)
    joint = joint_of(model)
    answers = {}
    for q in queries:
        f = model.project(q)
        v = np.asarray(f.datavector(flatten=False), dtype=float)
        answers[q] = v
        if not np.all(np.isfinite(v)):
            problems.append('%s: project%s is not finite' % (tag, q)); continue
        if v.min() < -TOL * total:
            problems.append('%s: project%s has negative entries' % (tag, q))
        if abs(v.sum() - total) > TOL * total:
            problems.append('%s: project%s sums to %r, model total is %r' % (tag, q, v.sum(), total))
        ref = marginal_of(joint, dom, q)
        err = np.abs(v - ref).max() / total
        if err > TOL:
            inside = any(set(q) <= set(cl) for cl in model.cliques)
            problems.append('%s: project%s (%s) differs from the joint of the stored parameters by %.3g of the total'
                            % (tag, q, 'in-clique' if inside else 'out-of-clique', err))
    # any two answers agree on the attributes they share
    for q, r in itertools.combinations(queries, 2):
        common = tuple(a for a in q if a in r)
        if not common or not (np.all(np.isfinite(answers[q])) and np.all(np.isfinite(answers[r]))):
            continue
        x = answers[q].sum(axis=tuple(i for i, a in enumerate(q) if a not in common))
        y = answers[r].sum(axis=tuple(i for i, a in enumerate(r) if a not in common))
        y = np.moveaxis(y, range(len(common)), [common.index(a) for a in r if a in common]) if len(common) > 1 else y
        err = np.abs(x - y).max() / total
        if err > TOL:
            problems.append('%s: project%s and project%s disagree on %s by %.3g of the total' % (tag, q, r, common, err))
    sig = sum(float(np.sum(answers[q] * np.arange(1, answers[q].size + 1).reshape(answers[q].shape))) for q in queries
              if np.all(np.isfinite(answers[q])))
    digest.append('%-34s total=%.6g  queries=%d  signature=%.6e' % (tag, total, len(queries), sig))


def estimate(domain, meas, total, engine, iters, zeros={}, warm=None):
    eng = FactoredInference(domain, iters=iters, structural_zeros=zeros, warm_start=warm is not None)
    with contextlib.redirect_stdout(io.StringIO()):
        if warm is not None:
            eng.estimate(warm, total, engine=engine, options={})
        model = eng.estimate(meas, total, engine=engine, options={})
    return model


def run():
    # 1. a chain: every out-of-clique query eliminates along a path
    dom = Domain(['a', 'b', 'c', 'd'], [2, 3, 4, 2])
    cl = [('a', 'b'), ('b', 'c'), ('c', 'd')]
    qs = [('a',), ('c',), ('a', 'b'), ('b', 'c'), ('a', 'c'), ('a', 'd'), ('b', 'd'), ('a', 'c', 'd'), ('d', 'a', 'b')]
    for engine, iters in [('MD', 1), ('MD', 25), ('RDA', 1), ('RDA', 25), ('IG', 1), ('IG', 25)]:
        rng = np.random.RandomState(10)
        m = measurements(dom, cl, 500, rng)
        check('chain/%s/iters=%d' % (engine, iters), estimate(dom, m, 500.0, engine, iters), qs)

    # 2. a star: one hub attribute measured together with each of five other attributes.
    #    A query about two of the leaves has to eliminate the other three leaves, and each of
    #    those eliminations produces a factor over the hub alone.
    dom = Domain(['h', 'p', 'q', 'r', 's', 't'], [3, 2, 3, 2, 3, 2])
    cl = [('h', 'p'), ('h', 'q'), ('h', 'r'), ('h', 's'), ('h', 't')]
    qs = [('h',), ('p',), ('q',), ('h', 'p'), ('h', 's'), ('p', 'q'), ('q', 'p'), ('r', 't'), ('p', 'q', 'r'),
          ('s', 'p', 't'), ('h', 'p', 'q')]
    for engine, iters, total in [('MD', 1, 300.0), ('MD', 40, 300.0), ('MD', 40, None), ('RDA', 40, 300.0), ('IG', 40, 300.0)]:
        rng = np.random.RandomState(11)
        m = measurements(dom, cl, 300, rng)
        check('star/%s/iters=%d/total=%s' % (engine, iters, total), estimate(dom, m, total, engine, iters), qs)

    # 3. the same star with structural zeros and a warm start from a smaller measurement set
    zeros = {('h', 'p'): [(0, 1), (2, 0)], ('h', 's'): [(1, 1)]}
    rng = np.random.RandomState(12)
    m = measurements(dom, cl, 300, rng)
    check('star/MD/zeros', estimate(dom, m, 300.0, 'MD', 30, zeros=zeros), qs)
    check('star/MD/zeros/warm', estimate(dom, m, 300.0, 'MD', 30, zeros=zeros, warm=m[:2]), qs)
    check('star/IG/zeros', estimate(dom, m, 300.0, 'IG', 30, zeros=zeros), qs)

    # 4. two hubs (a "caterpillar"), three-way cliques
    dom = Domain(['u', 'v', 'w', 'x', 'y', 'z'], [2, 2, 3, 2, 3, 2])
    cl = [('u', 'v', 'w'), ('u', 'v', 'x'), ('u', 'v', 'y'), ('v', 'z')]
    qs = [('u',), ('z',), ('u', 'v'), ('w', 'x'), ('w', 'z'), ('x', 'y'), ('y', 'w', 'x'), ('u', 'z', 'w'), ('u', 'v', 'w')]
    for engine in ['MD', 'RDA', 'IG']:
        rng = np.random.RandomState(13)
        m = measurements(dom, cl, 400, rng)
        check('caterpillar/%s' % engine, estimate(dom, m, 400.0, engine, 30), qs)

    # 5. degenerate: nothing measured (the optimiser exits before its first iteration)
    dom = Domain(['a', 'b', 'c'], [2, 3, 2])
    check('empty/MD', estimate(dom, [], 50.0, 'MD', 10), [('a',), ('a', 'b'), ('c', 'a'), ('a', 'b', 'c')])
    check('empty/MD/total=None', estimate(dom, [], None, 'MD', 10), [('a',), ('a', 'b'), ('c', 'a')])


run()
if problems:
    print('FAIL: the returned model is not one coherent distribution')
    for p in problems[:25]:
        print('  -', p)
    if len(problems) > 25:
        print('  ... and %d more' % (len(problems) - 25))
    sys.exit(1)
print('PASS')
for line in digest:
    print(line)
sys.exit(0)

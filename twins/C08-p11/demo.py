""" C08 pair 2 -- the stored clique marginals of a returned model are finite, non-negative, sum to the
model total and equal the marginals implied by the stored parameters; structural zeros on or off.

exit 0 + "PASS" + digest  : holds for every model estimated below
exit 1 + "FAIL" + reasons : some returned model carries non-finite / out-of-sync marginals
"""
import os, sys

if os.environ.get('PYTHONHASHSEED') != '0':          # reproducible set ordering -> reproducible digest
    os.environ['PYTHONHASHSEED'] = '0'
    os.execv(sys.executable, [sys.executable] + sys.argv)

ROOT = os.path.dirname(os.path.dirname(os.path.dirname(os.path.abspath(__file__))))
sys.path.insert(0, os.path.join(ROOT, 'src'))

import io, contextlib, warnings
import numpy as np
warnings.simplefilter('ignore')

import mbi
from mbi import Domain, FactoredInference
assert os.path.abspath(mbi.__file__).startswith(os.path.join(ROOT, 'src')), mbi.__file__

TOL = 1e-6
problems, digest = [], []


def measurements(domain, cliques, total, rng, zeros={}, sigma=1.0):
    """ noisy marginals of a random dataset that respects the structural zeros """
    p = rng.random(domain.shape) ** 2
    for cl, cells in zeros.items():
        for cell in cells:
            idx = [slice(None)] * len(domain)
            for a, v in zip(cl, cell):
                idx[domain.attrs.index(a)] = v
            p[tuple(idx)] = 0
    p /= p.sum()
    counts = rng.multinomial(total, p.flatten()).reshape(domain.shape).astype(float)
    ans = []
    for cl in cliques:        # cliques are given in domain order
        x = counts.sum(axis=tuple(i for i, a in enumerate(domain.attrs) if a not in cl))
        ans.append((None, x.flatten() + rng.normal(0, sigma, x.size), sigma, cl))
    return ans


def check(tag, model, queries):
    total = float(model.total)
    sig = 0.0
    if hasattr(model, 'marginals'):
        implied = model.belief_propagation(model.potentials)
        for cl in model.cliques:
            mu, nu = model.marginals[cl].values, implied[cl].values
            if not np.all(np.isfinite(mu)):
                problems.append('%s: stored marginal %s is not finite (%d nan)' % (tag, cl, int(np.isnan(mu).sum())))
                continue
            if mu.min() < -TOL * total:
                problems.append('%s: stored marginal %s has negative entries' % (tag, cl))
            if abs(mu.sum() - total) > TOL * total:
                problems.append('%s: stored marginal %s sums to %r, total is %r' % (tag, cl, mu.sum(), total))
            if not np.all(np.isfinite(nu)) or np.abs(mu - nu).max() > TOL * total:
                problems.append('%s: stored marginal %s differs from the marginal implied by the stored parameters' % (tag, cl))
            sig += float(np.sum(mu * np.arange(1, mu.size + 1).reshape(mu.shape)))
    answers = {}
    for q in queries:
        v = np.asarray(model.project(q).datavector(flatten=False), dtype=float)
        answers[q] = v
        if not np.all(np.isfinite(v)):
            problems.append('%s: project%s is not finite' % (tag, q)); continue
        if v.min() < -TOL * total or abs(v.sum() - total) > TOL * total:
            problems.append('%s: project%s is not a table with mass %r (min %r, sum %r)' % (tag, q, total, v.min(), v.sum()))
        sig += float(np.sum(v * np.arange(1, v.size + 1).reshape(v.shape)))
    # one-way margins of every answer agree
    ref = {}
    for q, v in answers.items():
        if not np.all(np.isfinite(v)):
            continue
        for i, a in enumerate(q):
            m = v.sum(axis=tuple(j for j in range(len(q)) if j != i))
            if a in ref and np.abs(ref[a][1] - m).max() > TOL * total:
                problems.append('%s: project%s and project%s disagree on %r' % (tag, ref[a][0], q, a))
            ref.setdefault(a, (q, m))
    digest.append('%-40s total=%.6g  signature=%.6e' % (tag, total, sig))


def estimate(domain, meas, total, engine, iters, zeros={}, warm=None):
    eng = FactoredInference(domain, iters=iters, structural_zeros=zeros, warm_start=warm is not None)
    with contextlib.redirect_stdout(io.StringIO()):
        if warm is not None:
            eng.estimate(warm, total, engine=engine, options={})
        return eng.estimate(meas, total, engine=engine, options={})


def run():
    dom = Domain(['a', 'b', 'c', 'd'], [3, 2, 3, 2])
    tree = [('a', 'b'), ('a', 'c'), ('c', 'd')]
    qs = [('a',), ('b',), ('a', 'b'), ('a', 'c'), ('b', 'c'), ('b', 'd'), ('a', 'd'), ('b', 'c', 'd')]
    configs = [
        ('no zeros', {}),
        # single impossible cells: every value of every attribute stays possible
        ('cell zeros', {('a', 'b'): [(0, 1)], ('c', 'd'): [(2, 0), (1, 1)]}),
        # a = 0 is impossible, stated on one of the two cliques that contain a
        ('row zeros on (a,b)', {('a', 'b'): [(0, 0), (0, 1)]}),
        # a = 0 is impossible, stated on both cliques that share a: every message over the
        # separator {a} is -inf at a = 0
        ('row zeros on (a,b) and (a,c)', {('a', 'b'): [(0, 0), (0, 1)], ('a', 'c'): [(0, 0), (0, 1), (0, 2)]}),
        # c = 1 impossible, c sits between two separators
        ('slice zeros on c', {('a', 'c'): [(0, 1), (1, 1), (2, 1)], ('c', 'd'): [(1, 0), (1, 1)]}),
    ]
    for name, zeros in configs:
        for engine, iters in [('MD', 1), ('MD', 30), ('RDA', 1), ('RDA', 30), ('IG', 30)]:
            rng = np.random.RandomState(20)
            m = measurements(dom, tree, 400, rng, zeros)
            check('%s/%s/iters=%d' % (name, engine, iters), estimate(dom, m, 400.0, engine, iters, zeros), qs)

    # total estimated from the measurements, warm start, zero rows
    zeros = configs[3][1]
    rng = np.random.RandomState(21)
    m = measurements(dom, tree, 400, rng, zeros)
    check('row zeros/MD/total=None', estimate(dom, m, None, 'MD', 20, zeros), qs)
    check('row zeros/MD/warm', estimate(dom, m, 400.0, 'MD', 20, zeros, warm=m[:1]), qs)

    # independent attributes (empty separators), with and without an impossible value
    dom2 = Domain(['x', 'y', 'z'], [3, 2, 4])
    for name, zeros in [('independent', {}), ('independent, x=2 impossible', {('x',): [(2,)]})]:
        rng = np.random.RandomState(22)
        m = measurements(dom2, [('x',), ('y',), ('z',)], 100, rng, zeros)
        for engine in ['MD', 'RDA', 'IG']:
            check('%s/%s' % (name, engine), estimate(dom2, m, 100.0, engine, 15, zeros), [('x',), ('x', 'y'), ('z', 'x'), ('x', 'y', 'z')])

    # nothing measured, only structural zeros (optimiser exits before the first iteration)
    check('only zeros/MD', estimate(dom, [], 10.0, 'MD', 5, configs[3][1]), qs)


run()
if problems:
    print('FAIL: the returned model is not one coherent, valid distribution')
    for p in problems[:25]:
        print('  -', p)
    if len(problems) > 25:
        print('  ... and %d more' % (len(problems) - 25))
    sys.exit(1)
print('PASS')
for line in digest:
    print(line)
sys.exit(0)

#!/usr/bin/env python
""" C08 / pair 1 -- answers read from the marginals vs answers computed from the potentials

A model returned by FactoredInference.estimate stores clique marginals (used for queries that
fit into a clique) and potentials (used, through variable elimination, for all other queries).
Both kinds of answers must describe the SAME distribution:
  * every answer is finite, nonnegative and sums to model.total
  * two answers agree on the attributes they share
  * every answer equals the marginal of the joint distribution defined by the stored
    potentials (recomputed here with plain numpy, without any Factor arithmetic)
The demo estimates models with cliques of two and of three attributes, on domains with mixed
and with equal attribute sizes, with every solver, and audits pair and triple queries.

exit 0 + PASS + digest : property holds on everything exercised
exit 1 + FAIL          : some returned model gives incoherent answers
"""
import os, sys

if 'PYTHONHASHSEED' not in os.environ:       # string hashing influences tie breaking in the
    env = dict(os.environ, PYTHONHASHSEED='0')   # elimination orders -> fix it like any other seed
    os.execve(sys.executable, [sys.executable] + sys.argv, env)

ROOT = os.path.dirname(os.path.dirname(os.path.dirname(os.path.abspath(__file__))))
sys.path.insert(0, os.path.join(ROOT, 'src'))

import io, itertools, hashlib, warnings, contextlib
warnings.simplefilter('ignore')
import numpy as np
from mbi import Domain, FactoredInference

PROBLEMS, DIGEST = [], []


def measurements(domain, cliques, total, seed, noise=1.0):
    """ noisy identity measurements of a random distribution with the given total """
    rng = np.random.RandomState(seed)
    ans = []
    for cl in cliques:
        n = domain.size(cl)
        p = rng.dirichlet(np.ones(n))
        ans.append((np.eye(n), total * p + noise * rng.randn(n), noise, cl))
    return ans


def joint(model):
    """ the full table defined by the stored potentials, computed with numpy only """
    attrs = model.domain.attrs
    logp = np.zeros(model.domain.shape)
    for cl, pot in model.potentials.items():
        own = pot.domain.attrs
        assert list(own) == [a for a in attrs if a in own]      # cliques are stored canonically
        logp = logp + pot.values.reshape([model.domain[a] if a in own else 1 for a in attrs])
    p = np.exp(logp - logp.max())
    return p * (model.total / p.sum())


def audit(tag, model, queries):
    total = model.total
    tol = 1e-6 * max(1.0, total)
    attrs = model.domain.attrs
    table = joint(model)
    bad, answers = [], {}
    for q in queries:
        try:
            v = model.project(q).values
        except Exception as e:
            bad.append('project(%s) raised %s: %s' % (q, type(e).__name__, e))
            continue
        answers[q] = v
        where = 'in-clique' if any(set(q) <= set(cl) for cl in model.cliques) else 'out-of-clique'
        if not np.all(np.isfinite(v)):
            bad.append('%s answer %s is not finite' % (where, q))
            continue
        if v.min() < -tol:
            bad.append('%s answer %s has a negative entry %.4g' % (where, q, v.min()))
        if abs(v.sum() - total) > tol:
            bad.append('%s answer %s sums to %.6f, model.total is %.6f' % (where, q, v.sum(), total))
        truth = table.sum(axis=tuple(i for i, a in enumerate(attrs) if a not in q))
        gap = float(np.abs(v - truth).max())
        if not gap <= tol:
            bad.append('%s answer %s is off the distribution of the stored potentials by %.4g'
                       % (where, q, gap))
    for q in answers:                       # agreement of answers on shared attributes
        for r in answers:
            if len(r) < len(q) and set(r) <= set(q):
                drop = tuple(i for i, a in enumerate(q) if a not in r)
                gap = float(np.abs(answers[q].sum(axis=drop) - answers[r]).max())
                if not gap <= tol:
                    bad.append('answers %s and %s disagree on %s by %.4g' % (q, r, r, gap))
    text = ';'.join('%s=%s' % (''.join(q), np.round(answers[q].flatten() + 0.0, 5).tolist())
                    for q in queries if q in answers)
    DIGEST.append('%-40s total=%-8.3f %s' % (tag, total, hashlib.sha1(text.encode()).hexdigest()[:16]))
    shown = []
    for key in ('raised', 'not finite', 'negative', 'sums to', 'is off', 'disagree'):
        shown += [b for b in bad if key in b][:2]           # at most two lines of each kind
    for b in shown:
        PROBLEMS.append('%s: %s' % (tag, b))
    if len(bad) > len(shown):
        PROBLEMS.append('%s: ... and %d more' % (tag, len(bad) - len(shown)))


def scenario(name, domain, cliques, zeros_choices, seed):
    attrs = domain.attrs
    queries = [(x,) for x in attrs] + list(itertools.combinations(attrs, 2)) \
        + list(itertools.combinations(attrs, 3))
    for solver in ('MD', 'RDA', 'IG'):
        for iters in (1, 30):
            for zeros in zeros_choices:
                eng = FactoredInference(domain, iters=iters, structural_zeros=zeros)
                with contextlib.redirect_stdout(io.StringIO()):
                    m = eng.estimate(measurements(domain, cliques, 100.0, seed), total=100.0,
                                     engine=solver)
                audit('%s %s iters=%d zeros=%d' % (name, solver, iters, bool(zeros)), m, queries)


# 1. the shape of model the unit tests use: a chain of pairs, all attribute sizes different
scenario('chain/mixed', Domain(list('abcd'), [2, 3, 4, 5]),
         [('a', 'b'), ('b', 'c'), ('c', 'd')], [{}, {('a', 'b'): [(0, 1), (1, 2)]}], 1)

# 2. the same chain on binary attributes
scenario('chain/binary', Domain(list('abcd'), [2, 2, 2, 2]),
         [('a', 'b'), ('b', 'c'), ('c', 'd')], [{}], 2)

# 3. cliques of three BINARY attributes (survey style data: every column yes/no)
scenario('triples/binary', Domain(list('abcdef'), [2] * 6),
         [('a', 'c', 'd'), ('b', 'c', 'd'), ('e', 'f')], [{}, {('c', 'd'): [(1, 1)]}], 3)

# 4. cliques of three attributes of size 3, the rest binary
scenario('triples/ternary', Domain(list('abcde'), [2, 3, 3, 3, 2]),
         [('a', 'b'), ('b', 'c', 'd'), ('c', 'd', 'e')], [{}], 4)

if PROBLEMS:
    print('FAIL: answers of a model returned by FactoredInference.estimate are not coherent')
    for p in PROBLEMS:
        print('  ' + p)
    sys.exit(1)
print('PASS: %d returned models audited, all coherent' % len(DIGEST))
for line in DIGEST:
    print('  ' + line)
sys.exit(0)

#!/usr/bin/env python
""" C08 / pair 2 -- an inference engine that is used more than once

Every model handed back by FactoredInference.estimate must be ONE coherent distribution:
  * stored clique marginals == belief_propagation(stored potentials)
  * every answer finite, nonnegative, summing to model.total
  * answers read from the marginals (in-clique) agree with answers computed from the
    potentials (out-of-clique) on the attributes they share
also when the engine object has been used before, and also when the second run leaves the
optimiser early (empty measurement list / zero initial loss / Lipschitz constant 0).

exit 0 + PASS + digest : property holds on everything exercised
exit 1 + FAIL          : some returned model is not coherent
"""
import os, sys

if 'PYTHONHASHSEED' not in os.environ:       # string hashing influences tie breaking in the
    env = dict(os.environ, PYTHONHASHSEED='0')   # elimination orders -> fix it like any other seed
    os.execve(sys.executable, [sys.executable] + sys.argv, env)

ROOT = os.path.dirname(os.path.dirname(os.path.dirname(os.path.abspath(__file__))))
sys.path.insert(0, os.path.join(ROOT, 'src'))

import io, itertools, hashlib, warnings, contextlib
warnings.simplefilter('ignore')
import numpy as np
from mbi import Domain, FactoredInference

ATTRS, SHAPE = ['a', 'b', 'c', 'd'], [2, 3, 2, 3]
DOMAIN = Domain(ATTRS, SHAPE)
QUERIES = [(x,) for x in ATTRS] + list(itertools.combinations(ATTRS, 2))
PROBLEMS, DIGEST = [], []


def measurements(cliques, total, seed, noise=1.0):
    """ noisy identity measurements of a random distribution with the given total """
    rng = np.random.RandomState(seed)
    ans = []
    for cl in cliques:
        n = DOMAIN.size(cl)
        p = rng.dirichlet(np.ones(n))
        ans.append((np.eye(n), total * p + noise * rng.randn(n), noise, cl))
    return ans


def run(engine, meas, total, solver, **kw):
    with contextlib.redirect_stdout(io.StringIO()):      # RDA prints its Lipschitz constant
        return engine.estimate(meas, total=total, engine=solver, **kw)


def audit(tag, model):
    """ check that `model` is one coherent distribution, record a digest of its answers """
    total = model.total
    tol = 1e-6 * max(1.0, total)
    bad = []
    if hasattr(model, 'marginals'):
        implied = model.belief_propagation(model.potentials)
        for cl in model.cliques:
            gap = float(np.abs(implied[cl].values - model.marginals[cl].values).max())
            if not gap <= tol:
                bad.append('stored marginal %s differs from BP(stored potentials) by %.4g' % (cl, gap))
    answers = {}
    for q in QUERIES:
        v = model.project(q).values
        answers[q] = v
        if not np.all(np.isfinite(v)):
            bad.append('answer %s is not finite' % (q,))
        elif v.min() < -tol:
            bad.append('answer %s has a negative entry %.4g' % (q, v.min()))
        elif abs(v.sum() - total) > tol:
            bad.append('answer %s sums to %.6f, model.total is %.6f' % (q, v.sum(), total))
    for (x, y) in [q for q in QUERIES if len(q) == 2]:
        for one, axis in ((x, 1), (y, 0)):
            gap = float(np.abs(answers[(x, y)].sum(axis=axis) - answers[(one,)]).max())
            if not gap <= tol:
                bad.append('answers %s and %s disagree on %s by %.4g' % ((x, y), (one,), one, gap))
    text = ';'.join('%s=%s' % (''.join(q), np.round(answers[q].flatten() + 0.0, 5).tolist()) for q in QUERIES)
    DIGEST.append('%-44s total=%-8.3f has_marginals=%-5s %s' % (
        tag, total, hasattr(model, 'marginals'), hashlib.sha1(text.encode()).hexdigest()[:16]))
    for b in bad[:4]:
        PROBLEMS.append('%s: %s' % (tag, b))
    if len(bad) > 4:
        PROBLEMS.append('%s: ... and %d more' % (tag, len(bad) - 4))


CHAIN = [('a', 'b'), ('b', 'c'), ('c', 'd')]
ZEROS = {('a', 'b'): [(0, 1), (1, 2)]}

# A. one call per engine: every solver, iteration counts 1 and 30, structural zeros on/off
for solver in ('MD', 'RDA', 'IG'):
    for iters in (1, 30):
        for zeros in ({}, ZEROS):
            eng = FactoredInference(DOMAIN, iters=iters, structural_zeros=zeros)
            m = run(eng, measurements(CHAIN, 100.0, 1), 100.0, solver)
            audit('A %s iters=%d zeros=%d' % (solver, iters, bool(zeros)), m)

# B. the same engine used twice with the same cliques, both runs do real work
for solver in ('MD', 'RDA', 'IG'):
    for warm in (False, True):
        eng = FactoredInference(DOMAIN, iters=20, warm_start=warm)
        m1 = run(eng, measurements(CHAIN, 100.0, 2), 100.0, solver)
        m2 = run(eng, measurements(CHAIN[::-1], 40.0, 3), 40.0, solver)
        audit('B %s warm=%d first model' % (solver, warm), m1)
        audit('B %s warm=%d second model' % (solver, warm), m2)

# C. the same engine, growing set of cliques (the MWEM / AIM pattern)
eng = FactoredInference(DOMAIN, iters=20, warm_start=True)
for k in (1, 2, 3, 3):
    m = run(eng, measurements(CHAIN[:k], 100.0, 4 + k), None, 'MD')
    audit('C MD warm=1 round with %d cliques' % k, m)

# D. engine with structural zeros; second call has NO measurements (prior only): the optimiser
#    returns at once (MD: initial loss 0, RDA: Lipschitz constant 0)
for first, second in (('MD', 'MD'), ('RDA', 'RDA'), ('IG', 'MD'), ('MD', 'RDA')):
    eng = FactoredInference(DOMAIN, iters=25, structural_zeros=ZEROS)
    run(eng, measurements([('a', 'b'), ('a', 'b')], 100.0, 9), 100.0, first)
    m = run(eng, [], 40.0, second)
    audit('D %s then %s on an empty list' % (first, second), m)

# E. second call whose measurements are met exactly by the starting point (zero initial loss):
#    the answers of the uniform model, as reported to the callback of a throw-away engine
seen = []
tmp = FactoredInference(DOMAIN, iters=1)
run(tmp, measurements(CHAIN, 64.0, 10), 64.0, 'MD', callback=lambda mu: seen.append(mu))
exact = [(np.eye(DOMAIN.size(cl)), seen[0][cl].datavector(), 1.0, cl) for cl in CHAIN]
for solver in ('MD', 'IG'):
    eng = FactoredInference(DOMAIN, iters=25)
    run(eng, measurements(CHAIN, 100.0, 11), 100.0, solver)
    m = run(eng, exact, 64.0, 'MD')
    audit('E %s then MD on exactly-met answers' % solver, m)

if PROBLEMS:
    print('FAIL: a model returned by FactoredInference.estimate is not one coherent distribution')
    for p in PROBLEMS:
        print('  ' + p)
    sys.exit(1)
print('PASS: %d returned models audited, all coherent' % len(DIGEST))
for line in DIGEST:
    print('  ' + line)
sys.exit(0)

""" C08 pair 2 -- GraphicalModel.datavector: transpose into domain order instead of expand.

Any two answers of the returned model must AGREE ON THE ATTRIBUTES THEY SHARE.  The materialised
data vector is one answer (over all attributes, laid out in the attribute order of the domain),
model.project(...) is another.  Marginalising the first must give the second.
"""
import os, sys, io, hashlib, contextlib, warnings
ROOT = os.path.dirname(os.path.dirname(os.path.dirname(os.path.abspath(__file__))))
sys.path.insert(0, os.path.join(ROOT, 'src'))
warnings.filterwarnings('ignore')
import numpy as np
import mbi
from mbi import Domain, FactoredInference

assert os.path.abspath(mbi.__file__).startswith(ROOT), 'wrong mbi: ' + mbi.__file__

def measurements(domain, cliques, total, prng):
    ans = []
    for cl in cliques:
        n = domain.size(cl)
        y = prng.rand(n)
        y *= total / y.sum()
        y += prng.normal(0, 0.05 * total / n, n)
        ans.append((None, y, 1.0, cl))
    return ans

def estimate(domain, cliques, total, engine, iters, zeros, seed):
    prng = np.random.RandomState(seed)
    ms = measurements(domain, cliques, 1.0 if total is None else total, prng)
    eng = FactoredInference(domain, iters=iters, structural_zeros=zeros)
    opts = {} if engine == 'MD' else {'lipschitz': 1.0}
    with contextlib.redirect_stdout(io.StringIO()):
        model = eng.estimate(ms, total=total, engine=engine, options=opts)
    return model

def check(name, model, problems, digest):
    dom = model.domain
    tot = model.total
    flat = model.datavector()
    full = model.datavector(flatten=False)
    digest.append('%s %s' % (name, np.array2string(np.round(flat / tot, 7) + 0.0, threshold=10**6)))
    if flat.shape != (dom.size(),):
        problems.append('%s: data vector has %s entries, the domain has %d' % (name, flat.shape, dom.size()))
        return
    if not np.all(np.isfinite(flat)) or flat.min() < 0:
        problems.append('%s: data vector is not finite / nonnegative' % name)
    if not np.isclose(flat.sum(), tot, rtol=1e-7):
        problems.append('%s: data vector sums to %.6g, model total is %.6g' % (name, flat.sum(), tot))
    if np.shape(full) != dom.shape:
        problems.append('%s: datavector(flatten=False) has shape %s, the domain has shape %s'
                        % (name, np.shape(full), dom.shape))
    table = flat.reshape(dom.shape)       # documented layout: one axis per attribute, in domain order
    asked = [(a,) for a in dom.attrs] + [dom.canonical(cl) for cl in model.cliques]
    asked += [(dom.attrs[0], dom.attrs[-1]), (dom.attrs[1], dom.attrs[2])]
    for attrs in asked:
        other = tuple(i for i, a in enumerate(dom.attrs) if a not in attrs)
        mine = table.sum(axis=other).flatten()
        ref = model.project(attrs).datavector()
        if mine.shape != ref.shape or not np.allclose(mine, ref, rtol=1e-6, atol=1e-9 * tot):
            problems.append('%s: data vector and project(%s) disagree (max abs diff %.3g of total %.3g)'
                            % (name, attrs, np.abs(mine - ref).max() if mine.shape == ref.shape else np.nan, tot))

def main():
    chain = Domain(['a', 'b', 'c', 'd'], [2, 3, 4, 5])
    same = Domain(['a', 'b', 'c', 'd'], [3, 3, 3, 3])
    star = Domain(['a', 'b', 'c', 'd', 'e'], [3, 2, 3, 2, 4])
    zeros = {('a', 'b'): [(0, 1), (1, 2)]}
    configs = [
        # name, domain, cliques, total, engine, iters, structural zeros
        ('chain/MD',            chain, [('a','b'), ('b','c'), ('c','d')], 1.0,   'MD',  30, {}),
        ('chain/RDA/zeros',     chain, [('a','b'), ('b','c'), ('c','d')], 40.0,  'RDA', 15, zeros),
        ('chain/IG/1 iter',     chain, [('a','b'), ('b','c'), ('c','d')], 40.0,  'IG',  1,  {}),
        ('single/MD',           chain, [('a','b','c','d')],             250.0, 'MD',  10, {}),
        ('triangle/MD',         chain, [('a','b'), ('b','c'), ('a','c')], 10.0,  'MD',  10, {}),
        ('empty/MD',            star,  [],                               7.0,   'MD',  5,  {}),
        ('one pair a-d/MD',     chain, [('a','d')],                      25.0,  'MD',  20, {}),
        ('fork on c/MD',        star,  [('a','c'), ('b','c'), ('c','e')], None,  'MD',  20, {}),
        ('fork on c/RDA',       star,  [('a','c'), ('b','c'), ('c','e')], 1000.0,'RDA', 1,  {}),
        ('equal sizes, a-c b-c/IG', same, [('a','c'), ('b','c'), ('b','d')], 60.0, 'IG', 12, {}),
        ('equal sizes, a-d/MD/zeros', same, [('a','d'), ('b','c')],       60.0,  'MD',  12, zeros),
    ]
    problems, digest = [], []
    for i, (name, dom, cliques, total, engine, iters, zs) in enumerate(configs):
        model = estimate(dom, cliques, total, engine, iters, zs, seed=200 + i)
        check(name, model, problems, digest)

    if problems:
        print('FAIL: %d disagreements between the data vector and the marginals of the same model' % len(problems))
        for p in problems[:12]:
            print('  -', p)
        sys.exit(1)
    print('PASS')
    print('models checked:', len(digest))
    print('digest:', hashlib.sha256('\n'.join(digest).encode()).hexdigest())

if __name__ == '__main__':
    main()

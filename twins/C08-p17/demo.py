""" C08 pair 2 -- JunctionTree._make_tree stores the elimination order as a list

Fits models with MD / RDA / IG on loopy and tree-shaped measurement sets, with the
`elim_order` configuration given as None, a list, a tuple, a dict view and as one-shot
iterables (iterator, reversed(), generator), for iters = 1 and more, and checks that the
returned model is one coherent distribution:
  (1) model.marginals == belief_propagation(model.potentials)
  (2) every answer is finite, non-negative and sums to model.total
  (3) in-clique and out-of-clique answers agree with an independent brute-force joint
      (built with plain numpy from model.potentials) and therefore with each other
  (4) any two stored clique marginals agree on the attributes they share.
"""
import os, sys, io, hashlib, itertools, contextlib
if os.environ.get('PYTHONHASHSEED') != '0':
    # mbi iterates over sets of attribute names (elimination orders, separators): fix the string
    # hash seed so that floating point round-off, and hence the digest, is reproducible
    os.environ['PYTHONHASHSEED'] = '0'
    os.execv(sys.executable, [sys.executable] + sys.argv)
ROOT = os.path.dirname(os.path.dirname(os.path.dirname(os.path.abspath(__file__))))   # out/pairN/demo.py -> repository root
sys.path.insert(0, os.path.join(ROOT, 'src'))
import warnings; warnings.filterwarnings('ignore')
import numpy as np
import mbi
from mbi import Domain, FactoredInference
assert os.path.realpath(mbi.__file__).startswith(os.path.realpath(ROOT) + os.sep), 'mbi imported from ' + mbi.__file__

TOL = 1e-6
failures = []
digest = hashlib.sha256()

def brute_joint(model):
    """ joint distribution over the full domain, computed without any Factor arithmetic """
    dom = model.domain
    logp = np.zeros(dom.shape)
    for cl in model.cliques:
        f = model.potentials[cl]
        vals = f.values
        # bring axes into domain order, then insert broadcast axes
        order = sorted(range(len(f.domain.attrs)), key=lambda i: dom.attrs.index(f.domain.attrs[i]))
        vals = np.transpose(vals, order)
        attrs = [f.domain.attrs[i] for i in order]
        shape = [dom.config[a] if a in attrs else 1 for a in dom.attrs]
        logp = logp + vals.reshape(shape)
    m = logp.max()
    p = np.exp(logp - m)
    return p / p.sum() * model.total

def brute_marginal(joint, dom, attrs):
    drop = tuple(i for i, a in enumerate(dom.attrs) if a not in attrs)
    ans = joint.sum(axis=drop)
    kept = [a for a in dom.attrs if a in attrs]
    return np.transpose(ans, [kept.index(a) for a in attrs])

def check(tag, model):
    dom = model.domain
    joint = brute_joint(model)
    if hasattr(model, 'marginals'):
        bp = model.belief_propagation(model.potentials)
        for cl in model.cliques:
            err = np.abs(bp[cl].values - model.marginals[cl].values).max()
            if not err <= TOL * model.total:
                failures.append('%s: stored marginal %s differs from BP(potentials) by %.3g' % (tag, cl, err))
    queries = [q for r in (1, 2, 3) for q in itertools.combinations(dom.attrs, r)]
    queries.append(tuple(reversed(dom.attrs[:2])))
    for q in queries:
        try:
            ans = model.project(q)
        except Exception as e:
            failures.append('%s: project(%s) raised %s: %s' % (tag, q, type(e).__name__, e)); continue
        v = ans.values
        digest.update(repr((tag, q)).encode()); digest.update(np.ascontiguousarray(v).tobytes())
        if ans.domain.attrs != tuple(q) or v.shape != tuple(dom.config[a] for a in q):
            failures.append('%s: project(%s) has domain %s' % (tag, q, ans.domain)); continue
        if not np.all(np.isfinite(v)) or v.min() < -TOL:
            failures.append('%s: project(%s) is not finite / non-negative' % (tag, q)); continue
        if abs(v.sum() - model.total) > TOL * model.total:
            failures.append('%s: project(%s) sums to %.6g, model.total is %.6g' % (tag, q, v.sum(), model.total)); continue
        err = np.abs(v - brute_marginal(joint, dom, q)).max()
        if err > 1e-5 * model.total:
            failures.append('%s: project(%s) differs from the joint implied by the parameters by %.3g' % (tag, q, err))

def measurements(dom, cliques, prng, total):
    data = prng.dirichlet(np.ones(dom.size())).reshape(dom.shape) * total
    ms = []
    for cl in cliques:
        drop = tuple(i for i, a in enumerate(dom.attrs) if a not in cl)
        y = data.sum(axis=drop).flatten() + prng.normal(0, 2.0, dom.size(cl))
        ms.append((None, y, 2.0, cl))
    return ms

def check_shared(tag, model):
    if not hasattr(model, 'marginals'): return
    for c1, c2 in itertools.combinations(model.cliques, 2):
        shared = tuple(a for a in c1 if a in c2)
        if shared:
            x = model.marginals[c1].project(shared).values
            y = model.marginals[c2].project(shared).values
            if np.abs(x - y).max() > 1e-5 * model.total:
                failures.append('%s: stored marginals of %s and %s disagree on %s by %.3g' % (tag, c1, c2, shared, np.abs(x - y).max()))

ATTRS = ['a', 'b', 'c', 'd', 'e']
STRUCTURES = [
    ('cycle4', [('a','b'), ('b','c'), ('c','d'), ('a','d')]),
    ('cycle5', [('a','b'), ('b','c'), ('c','d'), ('d','e'), ('a','e')]),
    ('chain',  [('a','b'), ('b','c'), ('c','d'), ('d','e')]),
]
BASE = ['c', 'a', 'e', 'b', 'd']
ORDERS = [
    ('default',   lambda: None),
    ('list',      lambda: list(BASE)),
    ('tuple',     lambda: tuple(BASE)),
    ('dict-keys', lambda: dict.fromkeys(BASE).keys()),
    ('iterator',  lambda: iter(BASE)),
    ('reversed',  lambda: reversed(BASE[::-1])),
    ('generator', lambda: (a for a in BASE)),
]

dom = Domain(ATTRS, [2, 3, 4, 3, 2])
for sname, cliques in STRUCTURES:
    for oname, make_order in ORDERS:
        for engine in ['MD', 'RDA', 'IG']:
            for iters in [1, 15]:
                prng = np.random.RandomState(len(sname) * 100 + iters)
                ms = measurements(dom, cliques, prng, 500.0)
                eng = FactoredInference(dom, iters=iters, elim_order=make_order())
                tag = '%s/elim_order=%s/%s/iters=%d' % (sname, oname, engine, iters)
                with contextlib.redirect_stdout(io.StringIO()):
                    # explicit Lipschitz constant: eigsh's random start vector would otherwise make
                    # the last bits of the RDA / IG results non-deterministic
                    opts = {} if engine == 'MD' else {'lipschitz': 1.0}
                    model = eng.estimate(ms, total=500.0, engine=engine, options=opts)
                check(tag, model)
                check_shared(tag, model)

if failures:
    print('FAIL: the returned model is not one coherent distribution')
    silent = [f for f in failures if 'raised' not in f]
    for f in silent[:8] + [f for f in failures if 'raised' in f][:4]:
        print('  -', f)
    print('  (%d wrong answers returned silently, %d queries raised)' % (len(silent), len(failures) - len(silent)))
    print('  (%d violations in total)' % len(failures))
    sys.exit(1)
print('PASS', digest.hexdigest())

"""C08 pair 1 -- GraphicalModel.calculate_many_marginals on models with independent blocks.

Every answer of the returned model must be finite, non-negative, sum to model.total,
agree with model.project() and agree with every other answer on shared attributes.
"""
import os, sys, io, hashlib, itertools, contextlib, warnings
ROOT = os.path.dirname(os.path.dirname(os.path.dirname(os.path.abspath(__file__))))
sys.path.insert(0, os.path.join(ROOT, 'src'))
warnings.filterwarnings('ignore')
import numpy as np
from mbi import Domain, Factor, FactoredInference, GraphicalModel, CliqueVector

failures, lines = [], []

def check(label, model, projections):
    answers = model.calculate_many_marginals(projections)
    h = hashlib.sha1()
    for pr in projections:
        v = answers[pr].values
        if not (np.all(np.isfinite(v)) and np.all(v >= 0)):
            failures.append('%s %s: answer not finite / non-negative' % (label, pr))
        if not np.isclose(np.sum(v), model.total, rtol=1e-7):
            failures.append('%s %s: answer sums to %.6g, model total is %.6g'
                            % (label, pr, np.sum(v), model.total))
        ref = model.project(pr).values
        if not np.allclose(v, ref, rtol=1e-6, atol=1e-9):
            failures.append('%s %s: differs from model.project (max abs diff %.3g)'
                            % (label, pr, np.abs(v - ref).max()))
        h.update(' '.join('%.6f' % x for x in (np.round(v, 6) + 0.0).flatten()).encode())
    for p, q in itertools.combinations(projections, 2):
        common = tuple(a for a in p if a in q)
        x, y = answers[p].project(common).values, answers[q].project(common).values
        if not np.allclose(x, y, rtol=1e-6, atol=1e-9):
            failures.append('%s: answers %s and %s disagree on %s' % (label, p, q, common))
    lines.append('%-34s cliques=%d digest=%s' % (label, len(model.cliques), h.hexdigest()[:16]))

def measurements(domain, cliques, total, prng):
    ans = []
    for cl in cliques:
        n = domain.size(cl)
        y = prng.dirichlet(np.ones(n)) * total + prng.normal(0, 0.5, n)
        ans.append((np.eye(n), y, 1.0, cl))
    return ans

prng = np.random.RandomState(0)
np.random.seed(0)

# 1. hand-built chain (every junction-tree separator is non-empty), total 10
dom = Domain(['a', 'b', 'c', 'd'], [2, 3, 4, 5])
m = GraphicalModel(dom, [('a', 'b'), ('b', 'c'), ('c', 'd')], total=10.0)
m.potentials = CliqueVector({cl: Factor(dom.project(cl), prng.rand(*dom.project(cl).shape))
                             for cl in m.cliques})
check('chain total=10', m, [(), ('a',), ('a', 'd'), ('b', 'd'), ('a', 'c', 'd'), ('a', 'b', 'c', 'd')])

# 2. estimated models: two measured blocks (a,b) (c,d) and an unmeasured attribute e
dom = Domain(['a', 'b', 'c', 'd', 'e'], [2, 3, 4, 2, 3])
projs = [(), ('a',), ('e',), ('a', 'b'), ('a', 'c'), ('b', 'd'), ('a', 'e'), ('d', 'e'),
         ('a', 'b', 'c', 'd'), ('b', 'c', 'e')]
zeros = {('a', 'b'): [(0, 0), (1, 2)]}
for total in [1.0, 50.0]:
    for engine, iters in [('MD', 1), ('MD', 25), ('RDA', 10), ('IG', 10)]:
        for sz in [{}, zeros]:
            ms = measurements(dom, [('a', 'b'), ('c', 'd'), ('b',)], total, prng)
            eng = FactoredInference(dom, structural_zeros=sz, iters=iters)
            with contextlib.redirect_stdout(io.StringIO()):
                model = eng.estimate(ms, total=total, engine=engine, options={})
            check('%s iters=%d total=%g zeros=%s' % (engine, iters, total, bool(sz)), model, projs)

# 3. no measurements at all: every attribute is its own block
eng = FactoredInference(dom, iters=3)
with contextlib.redirect_stdout(io.StringIO()):
    model = eng.estimate([], total=7.0, engine='MD', options={})
check('empty measurements total=7', model, [('a', 'e'), ('b', 'c', 'd'), ('c',)])

if failures:
    print('FAIL: %d violated checks; first ones:' % len(failures))
    for f in failures[:8]:
        print('   ', f)
    print('calculate_many_marginals returns answers that are not marginals of one distribution')
    sys.exit(1)
print('PASS')
print('\n'.join(lines))

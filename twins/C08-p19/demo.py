"""C08 pair 1 -- estimation with total=None: the model handed back must be a valid
distribution (finite, nonnegative, sums to model.total, marginals == BP(potentials),
in-clique and out-of-clique answers agree) also when the minimum-variance estimate of
the total that _setup derives from the noisy answers is below one or negative."""
import os, sys, io, contextlib, warnings, hashlib
ROOT = os.path.dirname(os.path.dirname(os.path.dirname(os.path.abspath(__file__))))
sys.path.insert(0, os.path.join(ROOT, 'src'))
import numpy as np
from mbi import Domain, FactoredInference

warnings.simplefilter('ignore')
dom = Domain(['a', 'b', 'c', 'd'], [2, 3, 4, 2])
I = lambda *attrs: np.eye(dom.size(attrs))

def meas(seed, scale, shift, noise=1.0):
    """ two-way answers on a chain a-b, b-c, c-d:  scale*uniform(0,1) + shift per cell """
    prng = np.random.RandomState(seed)
    out = []
    for cl in [('a', 'b'), ('b', 'c'), ('c', 'd')]:
        y = scale * prng.rand(dom.size(cl)) + shift
        out.append((I(*cl), y, noise, cl))
    return out

D = np.array([[1., -1.]])          # a difference query: says nothing about the total
CASES = {
    'counts, total about 600':        meas(0, 100.0, 0.0),
    'sparse counts, total about 3':   meas(1, 0.6, 0.0),
    'fractions, estimate below one':  meas(2, 0.05, 0.0),
    'noisy answers sum to < 0':       meas(3, 4.0, -2.6, noise=3.0),
    'all answers negative':           meas(4, 1.0, -1.5),
    'total undetermined (contrast)':  [(D, np.array([0.3]), 1.0, ('a',)), (D, np.array([-0.2]), 1.0, ('d',))],
}
ZEROS = {('a', 'b'): [(0, 0), (1, 2)]}
QUERIES = [(), ('a',), ('c',), ('a', 'b'), ('b', 'c'), ('a', 'c'), ('a', 'd'), ('b', 'd'), ('a', 'c', 'd')]

def check(model, tag, problems):
    T = model.total
    if not (np.isfinite(T) and T > 0):
        problems.append('%s: model.total = %r is not a positive finite mass' % (tag, float(T)))
    ans = {q: model.project(q).datavector() for q in QUERIES}
    for q, x in ans.items():
        if not np.all(np.isfinite(x)):
            problems.append('%s: answer %s is not finite' % (tag, q)); return None
        if x.min() < -1e-9 * max(1, abs(T)):
            problems.append('%s: answer %s has negative cells' % (tag, q))
        if not np.isclose(x.sum(), T, rtol=1e-7, atol=0):
            problems.append('%s: answer %s sums to %r, model.total is %r' % (tag, q, x.sum(), T))
    if hasattr(model, 'marginals'):
        mu = model.belief_propagation(model.potentials)
        for cl in model.cliques:
            if not np.allclose(mu[cl].values, model.marginals[cl].values, rtol=1e-6, atol=1e-9 * T):
                problems.append('%s: stored marginal %s differs from BP(potentials)' % (tag, cl))
    one = model.project(('a',)).datavector()
    two = model.project(('a', 'd')).datavector().reshape(2, 2).sum(axis=1)
    if not np.allclose(one, two, rtol=1e-6, atol=1e-9 * T):
        problems.append('%s: answers on (a) and (a,d) disagree on a' % tag)
    return np.concatenate([[T]] + [ans[q] for q in QUERIES])

def main():
    problems, lines = [], []
    for name, ms in CASES.items():
        for engine in ['MD', 'RDA', 'IG']:
            for iters in [1, 7]:
                for zeros in [{}, ZEROS]:
                    tag = '%s | %s iters=%d zeros=%s' % (name, engine, iters, 'on' if zeros else 'off')
                    eng = FactoredInference(dom, iters=iters, structural_zeros=zeros)
                    try:
                        with contextlib.redirect_stdout(io.StringIO()):
                            model = eng.estimate(list(ms), total=None, engine=engine, options={})
                        vec = check(model, tag, problems)
                    except Exception as e:
                        problems.append('%s: raised %s: %s' % (tag, type(e).__name__, e)); vec = None
                    if vec is not None:
                        lines.append('%-62s total=%.6g  chk=%.6g' % (tag, vec[0], vec[1:] @ np.cos(np.arange(vec.size - 1))))
    if problems:
        print('FAIL: the returned model is not a valid, coherent distribution (%d problems)' % len(problems))
        for p in problems[:12]:
            print('  ' + p)
        sys.exit(1)
    for l in lines:
        print(l)
    print('digest', hashlib.sha256('\n'.join(lines).encode()).hexdigest()[:16])
    print('PASS')

if __name__ == '__main__':
    main()

"""C08 pair 2 demo: the clique marginals stored in the estimated model must be the
marginals of the distribution defined by the stored parameters (belief propagation must be
fully calibrated on EVERY junction-tree shape, not only on the 3-clique chain / the star the
unit tests use): every stored marginal sums to model.total, neighbouring cliques agree on
their separator, and in-clique answers (read from model.marginals) agree with out-of-clique
answers (computed from model.potentials).

exit 0 + PASS + digest  : property holds on every scenario
exit 1 + FAIL + reasons : stored marginals are not the marginals of the stored parameters
"""
import os, sys, io, itertools, hashlib, contextlib, warnings
ROOT = os.path.dirname(os.path.dirname(os.path.dirname(os.path.abspath(__file__))))
sys.path.insert(0, os.path.join(ROOT, 'src'))
warnings.simplefilter('ignore')
import numpy as np
import mbi
assert os.path.abspath(mbi.__file__).startswith(os.path.join(ROOT, 'src')), mbi.__file__
from mbi import Domain, FactoredInference

TOL = 1e-6


def measurements(domain, cliques, seed, scale):
    prng = np.random.RandomState(seed)
    ms = []
    for cl in cliques:
        n = domain.size(cl)
        y = prng.rand(n)
        y = scale * y / y.sum() + prng.normal(0, 0.02 * scale, n)
        ms.append((None, y, 1.0, cl))
    return ms


def joint(model):
    """ explicit distribution defined by the stored parameters (independent of project) """
    return model.datavector(flatten=False)


def check(name, model, failures, digest):
    dom = model.domain
    attrs = dom.attrs
    P = joint(model)
    total = model.total
    answers = {}
    queries = []
    for r in (1, 2):
        queries += list(itertools.combinations(attrs, r))
    # a few queries in non-canonical attribute order as well
    queries += [q[::-1] for q in queries if len(q) == 2][::3]
    for q in queries:
        ans = model.project(q)
        vals = ans.datavector(flatten=False)
        assert ans.domain.attrs == tuple(q)
        answers[q] = vals
        if not np.all(np.isfinite(vals)):
            failures.append('%s: project(%s) is not finite' % (name, q)); continue
        if vals.min() < -TOL * total:
            failures.append('%s: project(%s) has negative entries' % (name, q))
        if abs(vals.sum() - total) > TOL * total:
            failures.append('%s: project(%s) sums to %.6f, model.total is %.6f' % (name, q, vals.sum(), total))
        # marginal of the distribution defined by the stored parameters
        ax = tuple(i for i, a in enumerate(attrs) if a not in q)
        ref = P.sum(axis=ax)
        kept = [a for a in attrs if a in q]
        ref = np.moveaxis(ref, range(len(kept)), [q.index(a) for a in kept])
        err = np.abs(ref - vals).max() / total
        if err > TOL:
            failures.append('%s: project(%s) differs from the distribution of the stored parameters by %.3e (relative to total)' % (name, q, err))
        digest.append('%s %s %s' % (name, ','.join(q), np.array2string(np.round(vals.flatten() / total, 6) + 0.0, separator=',', max_line_width=10**6)))
    # any two answers agree on the attributes they share
    for q1, q2 in itertools.combinations([q for q in queries if q == dom.canonical(q)], 2):
        shared = tuple(a for a in q1 if a in q2)
        if not shared or not (np.all(np.isfinite(answers[q1])) and np.all(np.isfinite(answers[q2]))):
            continue
        m1 = answers[q1].sum(axis=tuple(i for i, a in enumerate(q1) if a not in shared))
        m2 = answers[q2].sum(axis=tuple(i for i, a in enumerate(q2) if a not in shared))
        err = np.abs(m1 - m2).max() / total
        if err > TOL:
            failures.append('%s: project(%s) and project(%s) disagree on %s by %.3e' % (name, q1, q2, shared, err))
    # stored marginals vs the distribution defined by the stored parameters
    if hasattr(model, 'marginals'):
        mu = model.marginals
        for cl in model.cliques:
            vals = mu[cl].values
            if not np.all(np.isfinite(vals)) or vals.min() < -TOL * total:
                failures.append('%s: stored marginal %s is not finite and nonnegative' % (name, cl)); continue
            if abs(vals.sum() - total) > TOL * total:
                failures.append('%s: stored marginal %s sums to %.6f, model.total is %.6f' % (name, cl, vals.sum(), total))
            ax = tuple(i for i, a in enumerate(attrs) if a not in cl)
            ref = P.sum(axis=ax)
            kept = [a for a in attrs if a in cl]
            ref = np.moveaxis(ref, range(len(kept)), [mu[cl].domain.attrs.index(a) for a in kept])
            err = np.abs(ref - vals).max() / total
            if err > TOL:
                failures.append('%s: stored marginal %s differs from the marginal implied by the stored parameters by %.3e' % (name, cl, err))
            digest.append('%s mu %s %s' % (name, ','.join(cl), np.array2string(np.round(vals.flatten() / total, 6) + 0.0, separator=',', max_line_width=10**6)))
        for c1, c2 in itertools.combinations(model.cliques, 2):
            shared = tuple(a for a in c1 if a in c2)
            if shared:
                err = np.abs(mu[c1].project(shared).values - mu[c2].project(shared).values).max() / total
                if err > TOL:
                    failures.append('%s: stored marginals %s and %s disagree on %s by %.3e' % (name, c1, c2, shared, err))


def run(name, domain, cliques, engine, iters, total, seed, zeros, failures, digest, warm=None):
    eng = FactoredInference(domain, iters=iters, structural_zeros=zeros, warm_start=warm is not None)
    sink = io.StringIO()
    with contextlib.redirect_stdout(sink):
        if warm is not None:
            eng.estimate(measurements(domain, warm, seed + 1, total or 50.0), total=total, engine=engine, options={})
        model = eng.estimate(measurements(domain, cliques, seed, total or 50.0), total=total, engine=engine, options={})
    check(name, model, failures, digest)


def main():
    failures, digest = [], []
    d5 = Domain(['a', 'b', 'c', 'd', 'e'], [2, 3, 2, 3, 2])
    d6 = Domain(['a', 'b', 'c', 'd', 'e', 'f'], [2, 2, 3, 2, 2, 3])
    chain = [('a', 'b'), ('b', 'c'), ('c', 'd'), ('d', 'e')]
    rchain = [('e', 'd'), ('d', 'c'), ('c', 'b'), ('b', 'a')]
    star = [('a', 'c'), ('b', 'c'), ('c', 'd'), ('c', 'e')]
    split = [('a', 'b'), ('c', 'd')]                  # e is not measured at all
    single = [('a',), ('b',), ('c',), ('d',), ('e',)]  # AIM-style initial model
    tree6 = [('a', 'b'), ('b', 'c'), ('c', 'd'), ('c', 'e'), ('e', 'f')]
    tri = [('a', 'b', 'c'), ('c', 'd'), ('d', 'e')]
    chain6 = [('a', 'b'), ('b', 'c'), ('c', 'd'), ('d', 'e'), ('e', 'f')]
    cater = [('a', 'b'), ('b', 'c'), ('b', 'd'), ('d', 'e'), ('d', 'f')]
    tri6 = [('a', 'b', 'c'), ('b', 'c', 'd'), ('d', 'e'), ('e', 'f')]
    zeros = {('b', 'c'): [(0, 0), (2, 1)], ('d',): [(1,)]}

    scen = []
    for engine in ['MD', 'RDA', 'IG']:
        for iters in [1, 30]:
            scen.append(('chain-%s-%d' % (engine, iters), d5, chain, engine, iters, 100.0, 1, {}, None))
    scen += [
        ('chain-MD-total-None', d5, chain, 'MD', 20, None, 2, {}, None),
        ('rchain-MD', d5, rchain, 'MD', 15, 10.0, 3, {}, None),
        ('star-MD', d5, star, 'MD', 15, 1.0, 4, {}, None),
        ('star-RDA', d5, star, 'RDA', 15, 1.0, 4, {}, None),
        ('split-MD', d5, split, 'MD', 15, 40.0, 5, {}, None),
        ('split-IG', d5, split, 'IG', 15, 40.0, 5, {}, None),
        ('single-MD', d5, single, 'MD', 10, 25.0, 6, {}, None),
        ('tree6-MD', d6, tree6, 'MD', 25, 200.0, 7, {}, None),
        ('tree6-MD-1', d6, tree6, 'MD', 1, 200.0, 7, {}, None),
        ('tree6-RDA', d6, tree6, 'RDA', 10, 200.0, 7, {}, None),
        ('tri-MD', d5, tri, 'MD', 20, 60.0, 8, {}, None),
        ('chain6-MD', d6, chain6, 'MD', 40, 80.0, 13, {}, None),
        ('chain6-MD-1', d6, chain6, 'MD', 1, 80.0, 13, {}, None),
        ('chain6-IG', d6, chain6, 'IG', 12, 80.0, 13, {}, None),
        ('cater-MD', d6, cater, 'MD', 25, 5.0, 14, {}, None),
        ('tri6-MD-None', d6, tri6, 'MD', 25, None, 15, {}, None),
        ('chain-MD-zeros', d5, chain, 'MD', 20, 100.0, 9, zeros, None),
        ('chain-RDA-zeros', d5, chain, 'RDA', 20, 100.0, 9, zeros, None),
        ('split-MD-zeros', d5, split, 'MD', 20, 100.0, 10, zeros, None),
        ('chain-MD-warm', d5, chain, 'MD', 10, 100.0, 11, {}, split),
        ('empty-MD', d5, [], 'MD', 5, 30.0, 12, {}, None),
    ]
    for name, dom, cliques, engine, iters, total, seed, z, warm in scen:
        np.random.seed(0)
        run(name, dom, cliques, engine, iters, total, seed, z, failures, digest, warm)

    if failures:
        print('FAIL: the returned model is not one coherent distribution (%d violations)' % len(failures))
        names = [f.split(':')[0] for f in failures]
        print('  violating scenarios:', ', '.join('%s(%d)' % (n, names.count(n)) for n in sorted(set(names))))
        print('  clean scenarios    :', ', '.join(sc[0] for sc in scen if sc[0] not in names))
        for f in failures[:25]:
            print('  -', f)
        if len(failures) > 25:
            print('  ... and %d more' % (len(failures) - 25))
        sys.exit(1)
    print('PASS: %d scenarios, %d answers checked' % (len(scen), len(digest)))
    print('digest', hashlib.sha256('\n'.join(digest).encode()).hexdigest())
    for line in digest[::97]:
        print(line)
    sys.exit(0)


if __name__ == '__main__':
    main()

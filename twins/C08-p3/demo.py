"""C08 / pair 1 -- the junction tree of a model whose measurements do not link all attributes.

Checks, for models returned by FactoredInference.estimate, that
  * stored clique marginals == belief_propagation(stored potentials)
  * every answer (in-clique and out-of-clique) is finite, nonnegative and sums to model.total
  * one- and two-way answers agree on shared attributes
for all three solvers, iteration counts 1 and 30, structural zeros on/off, total given / estimated,
on measurement sets whose graph is connected, split in two groups, one-way only, and empty.

exit 0 + PASS + digest  on a correct tree;  exit 1 + FAIL otherwise.
"""
import os, sys, io, contextlib, hashlib, itertools, warnings

ROOT = os.path.dirname(os.path.dirname(os.path.dirname(os.path.abspath(__file__))))
sys.path.insert(0, os.path.join(ROOT, 'src'))
warnings.simplefilter('ignore')
import numpy as np
import mbi
from mbi import Domain, FactoredInference

if not os.path.abspath(mbi.__file__).startswith(os.path.join(ROOT, 'src')):
    print('ERROR: mbi imported from %s, expected %s/src (set PYTHONPATH)' % (mbi.__file__, ROOT))
    sys.exit(2)

TOL = 1e-6


def check(model):
    """return (list of violations, dict of answers)"""
    bad = []
    tot = float(model.total)
    if not (np.isfinite(tot) and tot > 0):
        return [('invalid total', tot)], {}
    if hasattr(model, 'marginals'):
        bp = model.belief_propagation(model.potentials)
        for cl in model.cliques:
            a, b = model.marginals[cl].values, bp[cl].values
            if not np.all(np.isfinite(a)):
                bad.append('stored marginal %s is not finite' % (cl,))
            elif np.abs(a - b).max() > TOL * tot:
                bad.append('stored marginal %s differs from BP(potentials) by %.3g' % (cl, np.abs(a - b).max()))
    attrs = model.domain.attrs
    sets = [()] + [(a,) for a in attrs] + list(itertools.combinations(attrs, 2))
    ans = {}
    for s in sets:
        v = np.asarray(model.project(s).values, dtype=float)
        ans[s] = v
        if not np.all(np.isfinite(v)):
            bad.append('answer %s is not finite' % (s,))
            continue
        if v.min() < -TOL * tot:
            bad.append('answer %s has negative cell %.3g' % (s, v.min()))
        if abs(v.sum() - tot) > TOL * tot:
            bad.append('answer %s sums to %.6g, model total is %.6g' % (s, v.sum(), tot))
    for s in sets:
        if len(s) != 2 or not np.all(np.isfinite(ans[s])):
            continue
        for k, a in enumerate(s):
            one = ans[(a,)]
            if np.all(np.isfinite(one)) and np.abs(ans[s].sum(axis=1 - k) - one).max() > TOL * tot:
                bad.append('answers %s and %s disagree on %s by %.3g'
                           % (s, (a,), a, np.abs(ans[s].sum(axis=1 - k) - one).max()))
    return bad, ans


def main():
    dom = Domain(['a', 'b', 'c', 'd', 'e'], [2, 3, 4, 2, 3])
    rng = np.random.RandomState(20240817)

    def meas(cl, mass=1000.0, noise=5.0):
        n = dom.size(cl)
        y = rng.rand(n)
        y = y / y.sum() * mass + rng.normal(0, noise, n)
        return (None, y, noise, cl)

    layouts = {
        'chain':     [('a', 'b'), ('b', 'c'), ('c', 'd'), ('d', 'e')],      # connected
        'star+1way': [('a', 'c'), ('b', 'c'), ('c', 'd'), ('c', 'e'), ('a',)],  # connected
        'twogroups': [('a', 'b'), ('c', 'd'), ('b',)],                      # {a,b} {c,d} {e} not linked
        'oneway':    [('a',), ('b',), ('c',), ('d',)],                      # nothing linked, e unmeasured
        'pair+rest': [('b', 'e')],                                          # a, c, d unmeasured
        'empty':     [],
    }
    zeros_opts = {'nozeros': {}, 'zeros': {('a', 'b'): [(0, 0), (1, 2)]}}

    h = hashlib.sha256()
    failures = []
    runs = 0
    for lname, cliques in layouts.items():
        for zname, zeros in zeros_opts.items():
            for total in (1000.0, None):
                for engine in ('MD', 'RDA', 'IG'):
                    if lname == 'empty' and engine == 'IG':
                        continue   # IG divides by a zero Lipschitz constant on an empty measurement set
                    for iters in (1, 30):
                        ms = [meas(cl) for cl in cliques]
                        fi = FactoredInference(dom, iters=iters, structural_zeros=zeros)
                        with contextlib.redirect_stdout(io.StringIO()):
                            model = fi.estimate(ms, total=total, engine=engine)
                        bad, ans = check(model)
                        runs += 1
                        tag = '%s/%s/total=%s/%s/iters=%d' % (lname, zname, total, engine, iters)
                        h.update(tag.encode())
                        h.update(repr(sorted(model.cliques)).encode())
                        for s in sorted(ans):
                            h.update(np.round(ans[s] / float(model.total), 7).tobytes())
                        if bad:
                            failures.append((tag, bad))

    if failures:
        print('FAIL: %d of %d estimated models are not one coherent distribution' % (len(failures), runs))
        for tag, bad in failures[:6]:
            print('  ' + tag)
            for b in bad[:3]:
                print('      ' + b)
        sys.exit(1)
    print('PASS: %d estimated models checked' % runs)
    print('digest ' + h.hexdigest())
    sys.exit(0)


if __name__ == '__main__':
    main()

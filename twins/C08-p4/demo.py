"""C08 / pair 2 -- normalisation of the calibrated beliefs when the parameters have drifted far from 0.

Checks, for models returned by FactoredInference.estimate, that
  * stored clique marginals == belief_propagation(stored potentials)
  * every answer (in-clique and out-of-clique) is finite, nonnegative and sums to model.total
  * one- and two-way answers agree on shared attributes
for all three solvers (MD with line search and with a fixed step), iteration counts 1, 40 and 600,
structural zeros on/off, and for a supplied total that agrees / disagrees with the mass of the noisy
measurements (1000 vs 1000, 1300, 600; 100 vs 1000), plus a warm-started second estimate.
When total and measured mass disagree the gradient has a constant component, so the log-space
parameters drift by a large additive constant (|logZ| in the thousands) while the distribution
they describe stays perfectly ordinary.

exit 0 + PASS + digest  on a correct tree;  exit 1 + FAIL otherwise.
"""
import os, sys, io, contextlib, hashlib, itertools, warnings

ROOT = os.path.dirname(os.path.dirname(os.path.dirname(os.path.abspath(__file__))))
sys.path.insert(0, os.path.join(ROOT, 'src'))
warnings.simplefilter('ignore')
import numpy as np
import mbi
from mbi import Domain, FactoredInference

if not os.path.abspath(mbi.__file__).startswith(os.path.join(ROOT, 'src')):
    print('ERROR: mbi imported from %s, expected %s/src (set PYTHONPATH)' % (mbi.__file__, ROOT))
    sys.exit(2)

TOL = 1e-6


def check(model):
    """return (list of violations, dict of answers)"""
    bad = []
    tot = float(model.total)
    if not (np.isfinite(tot) and tot > 0):
        return [('invalid total', tot)], {}
    if hasattr(model, 'marginals'):
        bp = model.belief_propagation(model.potentials)
        for cl in model.cliques:
            a, b = model.marginals[cl].values, bp[cl].values
            if not np.all(np.isfinite(a)):
                bad.append('stored marginal %s is not finite' % (cl,))
            elif np.abs(a - b).max() > TOL * tot:
                bad.append('stored marginal %s differs from BP(potentials) by %.3g' % (cl, np.abs(a - b).max()))
    attrs = model.domain.attrs
    sets = [()] + [(a,) for a in attrs] + list(itertools.combinations(attrs, 2))
    ans = {}
    for s in sets:
        v = np.asarray(model.project(s).values, dtype=float)
        ans[s] = v
        if not np.all(np.isfinite(v)):
            bad.append('answer %s is not finite' % (s,))
            continue
        if v.min() < -TOL * tot:
            bad.append('answer %s has negative cell %.3g' % (s, v.min()))
        if abs(v.sum() - tot) > TOL * tot:
            bad.append('answer %s sums to %.6g, model total is %.6g' % (s, v.sum(), tot))
    for s in sets:
        if len(s) != 2 or not np.all(np.isfinite(ans[s])):
            continue
        for k, a in enumerate(s):
            one = ans[(a,)]
            if np.all(np.isfinite(one)) and np.abs(ans[s].sum(axis=1 - k) - one).max() > TOL * tot:
                bad.append('answers %s and %s disagree on %s by %.3g'
                           % (s, (a,), a, np.abs(ans[s].sum(axis=1 - k) - one).max()))
    return bad, ans


def main():
    dom = Domain(['a', 'b', 'c', 'd', 'e'], [2, 3, 4, 2, 3])
    rng = np.random.RandomState(20240818)

    def meas(cl, mass, noise=1.0):
        n = dom.size(cl)
        y = rng.rand(n)
        y = y / y.sum() * mass + rng.normal(0, noise, n)
        return (None, y, noise, cl)

    layouts = {
        'chain':     [('a', 'b'), ('b', 'c'), ('c', 'd'), ('d', 'e')],
        'twogroups': [('a', 'b'), ('c', 'd'), ('b',)],
    }
    zeros_opts = {'nozeros': {}, 'zeros': {('a', 'b'): [(0, 0), (1, 2)]}}
    solvers = [('MD', {}), ('MD', {'stepsize': 0.5}), ('RDA', {}), ('IG', {})]
    regimes = [(1000.0, 1000.0), (1000.0, 1300.0), (1000.0, 600.0), (100.0, 1000.0)]   # (total, measured mass)

    h = hashlib.sha256()
    failures = []
    runs = 0
    maxdrift = 0.0

    def record(tag, model):
        bad, ans = check(model)
        h.update(tag.encode())
        if np.isfinite(float(model.total)):
            for s in sorted(ans):
                h.update(np.round(ans[s] / float(model.total), 7).tobytes())
        if bad:
            failures.append((tag, bad))
        return abs(float(model.belief_propagation(model.potentials, logZ=True)))

    for lname, cliques in layouts.items():
        for zname, zeros in zeros_opts.items():
            for total, mass in regimes:
                for engine, opts in solvers:
                    for iters in (1, 40, 600):
                        if iters == 600 and (zname == 'zeros' or lname == 'twogroups'):
                            continue   # keep the run time down
                        ms = [meas(cl, mass) for cl in cliques]
                        fi = FactoredInference(dom, iters=iters, structural_zeros=zeros)
                        with contextlib.redirect_stdout(io.StringIO()):
                            model = fi.estimate(ms, total=total, engine=engine, options=dict(opts))
                        runs += 1
                        tag = '%s/%s/total=%g/mass=%g/%s%s/iters=%d' % (lname, zname, total, mass, engine, opts or '', iters)
                        drift = record(tag, model)
                        if engine == 'MD':
                            maxdrift = max(maxdrift, drift)

    # warm start: the second estimate starts from the (drifted) parameters of the first
    for engine, opts in solvers:
        fi = FactoredInference(dom, iters=300, warm_start=True)
        ms = [meas(cl, 1400.0) for cl in layouts['chain']]
        with contextlib.redirect_stdout(io.StringIO()):
            fi.estimate(ms[:2], total=1000.0, engine=engine, options=dict(opts))
            model = fi.estimate(ms, total=1000.0, engine=engine, options=dict(opts))
        runs += 1
        record('warm/%s%s' % (engine, opts or ''), model)

    if failures:
        print('FAIL: %d of %d estimated models are not one coherent distribution' % (len(failures), runs))
        for tag, bad in failures[:8]:
            print('  ' + tag)
            for b in bad[:3]:
                print('      ' + b)
        sys.exit(1)
    print('PASS: %d estimated models checked (largest |logZ| of a returned MD model: %d)' % (runs, int(maxdrift)))
    print('digest ' + h.hexdigest())
    sys.exit(0)


if __name__ == '__main__':
    main()

"""C08 pair 1 -- belief_propagation must not write into the parameters it is given.

Checks, for a grid of model structures x solvers x iteration counts, that the model
returned by FactoredInference.estimate is one coherent distribution:
  * model.marginals == marginals implied by model.potentials (snapshot taken BEFORE
    belief propagation is re-run, so that aliasing cannot hide a mismatch),
  * running belief propagation does not change model.potentials,
  * every answer (project, datavector) is finite, nonnegative, sums to model.total,
  * answers agree on shared attributes (pair -> single, datavector -> clique).
Exit 0 + "PASS <digest>" when everything holds, exit 1 + "FAIL ..." otherwise.
"""
import os, sys

ROOT = os.path.dirname(os.path.dirname(os.path.dirname(os.path.abspath(__file__))))
SRC = os.path.join(ROOT, 'src')
if os.environ.get('PYTHONHASHSEED') != '0' or os.environ.get('PYTHONPATH', '').split(os.pathsep)[0] != SRC:
    # fixed hash seed -> fixed set iteration order -> bit-exact digest;
    # PYTHONPATH -> this worktree's mbi wins over any installed copy
    os.environ['PYTHONHASHSEED'] = '0'
    os.environ['PYTHONPATH'] = os.pathsep.join([SRC] + [p for p in os.environ.get('PYTHONPATH', '').split(os.pathsep) if p and p != SRC])
    os.execv(sys.executable, [sys.executable] + sys.argv)
sys.path.insert(0, SRC)

import io, contextlib, hashlib, itertools, warnings
warnings.filterwarnings('ignore')
import numpy as np
import mbi
from mbi import Domain, FactoredInference

assert os.path.abspath(mbi.__file__).startswith(ROOT), 'mbi imported from %s' % mbi.__file__

STRUCTURES = [
    # name, attrs, shape, measured cliques, structural zeros
    ('chain',        'abcd',  [2, 3, 4, 2],    [('a','b'), ('b','c'), ('c','d')], {}),
    ('star+isolated','abcde', [2, 3, 2, 3, 2], [('a','b'), ('a','c'), ('a','d')], {}),
    ('cycle',        'abcd',  [2, 3, 2, 3],    [('a','b'), ('b','c'), ('c','d'), ('a','d')], {}),
    ('chain+zeros',  'abc',   [3, 3, 2],       [('a','b'), ('b','c')], {('a','b'): [(0, 0), (2, 1)]}),
    ('one-clique-2', 'ab',    [3, 4],          [('a','b'), ('a',)], {}),
    ('one-clique-3', 'abc',   [2, 3, 2],       [('a','b'), ('b','c'), ('a','c')], {}),
    ('one-clique-1', 'a',     [5],             [('a',)], {}),
    ('one-clique-z', 'ab',    [3, 3],          [('a','b')], {('a','b'): [(1, 1)]}),
]
ENGINES = ['MD', 'RDA', 'IG']
ITERS = [1, 6]

failures = []
digest = hashlib.sha256()

def note(tag, arr):
    arr = np.asarray(arr, dtype=float).ravel()
    digest.update(tag.encode())
    digest.update(('|'.join('%.12g' % v for v in arr)).encode())

def check_model(tag, model):
    total = model.total
    tol = 1e-7 * max(1.0, total)
    # --- snapshot the stored state first -------------------------------------------------
    pot_before = {cl: model.potentials[cl].values.copy() for cl in model.cliques}
    has_marg = hasattr(model, 'marginals')
    stored = {cl: model.marginals[cl].values.copy() for cl in model.cliques} if has_marg else None

    implied = model.belief_propagation(model.potentials)
    implied = {cl: implied[cl].values.copy() for cl in model.cliques}

    for cl in model.cliques:
        after = model.potentials[cl].values
        same = (after == pot_before[cl]) | (np.isnan(after) & np.isnan(pot_before[cl]))
        if not same.all():
            failures.append('%s: belief_propagation modified model.potentials[%s]' % (tag, (cl,)))
        if has_marg and not np.allclose(stored[cl], implied[cl], rtol=1e-6, atol=tol):
            failures.append('%s: stored marginal of %s differs from the marginal implied by the '
                            'stored parameters (max abs diff %.3g)'
                            % (tag, (cl,), np.abs(stored[cl] - implied[cl]).max()))
        note(tag + str(cl) + 'implied', implied[cl])

    # --- answers -------------------------------------------------------------------------
    attrs = model.domain.attrs
    queries = [(a,) for a in attrs] + list(itertools.combinations(attrs, 2)) + list(model.cliques)
    ans = {}
    for q in queries:
        f = model.project(q)
        v = f.values
        ans[q] = f
        note(tag + str(q), v)
        if not np.isfinite(v).all():
            failures.append('%s: answer %s is not finite' % (tag, (q,)))
        elif (v < -tol).any():
            failures.append('%s: answer %s has negative entries' % (tag, (q,)))
        elif abs(v.sum() - total) > 1e-6 * max(1.0, total):
            failures.append('%s: answer %s sums to %.10g, model total is %.10g' % (tag, (q,), v.sum(), total))
    for q in queries:
        if len(q) < 2: continue
        for a in q:
            x = ans[q].project((a,)).values
            y = ans[(a,)].values
            if not np.allclose(x, y, rtol=1e-6, atol=tol):
                failures.append('%s: answers %s and %s disagree on %s (max abs diff %.3g)'
                                % (tag, (q,), ((a,),), a, np.abs(x - y).max()))
    # the full table is an answer as well; it is computed from the parameters
    full = model.datavector(flatten=False)
    note(tag + 'full', full)
    if not np.isfinite(full).all() or abs(full.sum() - total) > 1e-6 * max(1.0, total):
        failures.append('%s: datavector() not finite / does not sum to total' % tag)
    else:
        for cl in model.cliques:
            axes = tuple(i for i, a in enumerate(attrs) if a not in cl)
            x = full.sum(axis=axes)
            y = model.project(cl).values
            if not np.allclose(x, y, rtol=1e-6, atol=tol):
                failures.append('%s: datavector() and project(%s) disagree (max abs diff %.3g)'
                                % (tag, (cl,), np.abs(x - y).max()))

def run():
    for name, attrs, shape, cliques, zeros in STRUCTURES:
        domain = Domain(list(attrs), shape)
        prng = np.random.RandomState(sum(map(ord, name)))
        truth = prng.rand(*shape) ** 3
        truth *= 240.0 / truth.sum()
        measurements = []
        for cl in cliques:
            axes = tuple(i for i, a in enumerate(attrs) if a not in cl)
            y = truth.sum(axis=axes).ravel() + prng.normal(0, 2.0, size=domain.size(cl))
            measurements.append((None, y, 2.0, cl))
        for engine, iters, total in itertools.product(ENGINES, ITERS, [240.0, None]):
            tag = '%s/%s/iters=%d/total=%s' % (name, engine, iters, total)
            try:
                eng = FactoredInference(domain, iters=iters, structural_zeros=zeros)
                with contextlib.redirect_stdout(io.StringIO()):
                    model = eng.estimate(measurements, total=total, engine=engine)
                check_model(tag, model)
                # re-used engine (second call on the same object, more data)
                with contextlib.redirect_stdout(io.StringIO()):
                    model2 = eng.estimate(measurements + measurements[:1], total=total, engine=engine)
                check_model(tag + '/2nd', model2)
            except Exception as e:   # noqa
                failures.append('%s: raised %s: %s' % (tag, type(e).__name__, e))

run()
if failures:
    print('FAIL: %d violation(s) of "the returned model is one coherent distribution"' % len(failures))
    for f in failures[:25]:
        print('  -', f)
    if len(failures) > 25:
        print('  ... and %d more' % (len(failures) - 25))
    sys.exit(1)
print('PASS', digest.hexdigest())
sys.exit(0)

"""C08 pair 2 -- an answer handed out by the model must not be a window onto its stored state.

History exercised for every estimated model (structures x solvers):
   1. query the model (singles, pairs, every model clique) and remember the answers,
   2. consume answers the way downstream code does:
        A. turn a returned clique table into probabilities IN PLACE
           (p = model.project(cl); p.values /= p.values.sum()),
        B. let the library itself consume them: GraphicalModel.synthetic_data(rows=37)
           rescales the tables it gets from project() in place (`counts *= total / counts.sum()`);
           under pandas 3 that call raises at its very last statement, which is irrelevant here,
   3. query again.
The model is still required to be ONE coherent distribution: same answers as before, all of
them finite / nonnegative / summing to model.total, answers agreeing on shared attributes,
and model.marginals == belief_propagation(model.potentials).
Exit 0 + "PASS <digest>" when that holds, exit 1 + "FAIL ..." otherwise.
"""
import os, sys

ROOT = os.path.dirname(os.path.dirname(os.path.dirname(os.path.abspath(__file__))))
SRC = os.path.join(ROOT, 'src')
if os.environ.get('PYTHONHASHSEED') != '0' or os.environ.get('PYTHONPATH', '').split(os.pathsep)[0] != SRC:
    # fixed hash seed -> fixed set iteration order -> bit-exact digest;
    # PYTHONPATH -> this worktree's mbi wins over any installed copy
    os.environ['PYTHONHASHSEED'] = '0'
    os.environ['PYTHONPATH'] = os.pathsep.join([SRC] + [p for p in os.environ.get('PYTHONPATH', '').split(os.pathsep) if p and p != SRC])
    os.execv(sys.executable, [sys.executable] + sys.argv)
sys.path.insert(0, SRC)

import io, contextlib, hashlib, itertools, warnings
warnings.filterwarnings('ignore')
import numpy as np
import mbi
from mbi import Domain, FactoredInference

assert os.path.abspath(mbi.__file__).startswith(ROOT), 'mbi imported from %s' % mbi.__file__

STRUCTURES = [
    # name, attrs, shape, measured cliques
    ('chain',          'abcd', [2, 3, 4, 2], [('a','b'), ('b','c'), ('c','d')]),
    ('pair+unmeasured','abz',  [2, 3, 6],    [('a','b')]),
    ('star',           'abcd', [3, 2, 3, 2], [('a','b'), ('a','c'), ('a','d')]),
    ('singles',        'abc',  [4, 3, 5],    [('a',), ('b',)]),
    ('cycle',          'abcd', [2, 3, 2, 3], [('a','b'), ('b','c'), ('c','d'), ('a','d')]),
]
ENGINES = ['MD', 'RDA', 'IG']
TOTAL = 240.0

failures = []
digest = hashlib.sha256()

def note(tag, arr):
    arr = np.asarray(arr, dtype=float).ravel()
    digest.update(tag.encode())
    digest.update(('|'.join('%.12g' % v for v in arr)).encode())

def queries_of(model):
    attrs = model.domain.attrs
    return [(a,) for a in attrs] + list(itertools.combinations(attrs, 2)) + list(model.cliques)

def ask(model):
    return {q: model.project(q).values.copy() for q in queries_of(model)}

def check_coherent(tag, model, before):
    total = model.total
    tol = 1e-7 * max(1.0, total)
    now = ask(model)
    for q in now:
        v = now[q]
        if not np.isfinite(v).all() or (v < -tol).any():
            failures.append('%s: answer %s not finite / negative' % (tag, (q,)))
        elif abs(v.sum() - total) > 1e-6 * max(1.0, total):
            failures.append('%s: answer %s now sums to %.10g, model total is %.10g'
                            % (tag, (q,), v.sum(), total))
        if not np.array_equal(v, before[q]):
            failures.append('%s: answer %s changed although the model was only queried '
                            '(max abs diff %.3g)' % (tag, (q,), np.abs(v - before[q]).max()))
    attrs = model.domain.attrs
    for q in now:
        if len(q) < 2: continue
        for a in q:
            x = now[q].sum(axis=tuple(i for i, b in enumerate(q) if b != a))
            if not np.allclose(x, now[(a,)], rtol=1e-6, atol=tol):
                failures.append('%s: answers %s and %s disagree on %s (max abs diff %.3g)'
                                % (tag, (q,), ((a,),), a, np.abs(x - now[(a,)]).max()))
    if hasattr(model, 'marginals'):
        stored = {cl: model.marginals[cl].values.copy() for cl in model.cliques}
        implied = model.belief_propagation(model.potentials)
        for cl in model.cliques:
            if not np.allclose(stored[cl], implied[cl].values, rtol=1e-6, atol=tol):
                failures.append('%s: stored marginal of %s no longer equals the marginal implied by '
                                'the stored parameters (max abs diff %.3g)'
                                % (tag, (cl,), np.abs(stored[cl] - implied[cl].values).max()))

def estimate(domain, measurements, engine, iters):
    eng = FactoredInference(domain, iters=iters)
    with contextlib.redirect_stdout(io.StringIO()):
        return eng.estimate(measurements, total=TOTAL, engine=engine)

def run():
    for name, attrs, shape, cliques in STRUCTURES:
        domain = Domain(list(attrs), shape)
        prng = np.random.RandomState(sum(map(ord, name)))
        truth = prng.rand(*shape) ** 3
        truth *= TOTAL / truth.sum()
        measurements = []
        for cl in cliques:
            axes = tuple(i for i, a in enumerate(attrs) if a not in cl)
            y = truth.sum(axis=axes).ravel() + prng.normal(0, 2.0, size=domain.size(cl))
            measurements.append((None, y, 2.0, cl))
        for engine, iters in itertools.product(ENGINES, [1, 8]):
            base = '%s/%s/iters=%d' % (name, engine, iters)
            try:
                # ---- history A: caller normalises returned clique tables in place ---------
                model = estimate(domain, measurements, engine, iters)
                before = ask(model)
                for q in sorted(before): note(base + str(q), before[q])
                probs = {}
                for cl in model.cliques:
                    p = model.project(cl)
                    p.values /= p.values.sum()
                    probs[cl] = p
                    note(base + 'prob' + str(cl), p.values)
                check_coherent(base + '/after in-place normalisation of returned tables', model, before)

                # ---- history B: the library's own consumer of project() --------------------
                model = estimate(domain, measurements, engine, iters)
                before = ask(model)
                np.random.seed(7)
                try:
                    with contextlib.redirect_stdout(io.StringIO()):
                        model.synthetic_data(rows=37)
                    outcome = 'returned'
                except Exception as e:          # pandas 3: dies in its last statement
                    outcome = type(e).__name__
                note(base + 'synth', [len(outcome)])
                check_coherent(base + '/after synthetic_data(rows=37) [%s]' % outcome, model, before)
            except Exception as e:   # noqa
                failures.append('%s: raised %s: %s' % (base, type(e).__name__, e))

run()
if failures:
    print('FAIL: %d violation(s) of "the returned model is one coherent distribution"' % len(failures))
    for f in failures[:25]:
        print('  -', f)
    if len(failures) > 25:
        print('  ... and %d more' % (len(failures) - 25))
    sys.exit(1)
print('PASS', digest.hexdigest())
sys.exit(0)

"""C08 pair 1 -- clique order handed out by JunctionTree.maximal_cliques.

GraphicalModel.mle (used by the RDA and IG solvers to refit the parameters to
the averaged marginals) walks model.cliques in order and treats
"attributes seen so far & this clique" as the separator.  That is only right
when every clique is listed after its parent in the junction tree.

The demo estimates models with all three solvers on several clique
structures and checks the C08 statement on each returned model:
  * model.marginals == belief_propagation(model.potentials)
  * every answer finite, nonnegative, sums to model.total
  * in-clique and out-of-clique answers agree on shared attributes
"""
import os, sys, io, contextlib, hashlib, itertools

ROOT = os.path.dirname(os.path.dirname(os.path.dirname(os.path.abspath(__file__))))
sys.path.insert(0, os.path.join(ROOT, 'src'))

import warnings
warnings.simplefilter('ignore')
import numpy as np
import mbi
from mbi import Domain, FactoredInference

assert os.path.abspath(mbi.__file__).startswith(ROOT), mbi.__file__

DOMAIN = Domain(['a', 'b', 'c', 'd', 'e'], [2, 3, 4, 3, 2])

STRUCTURES = {
    'chain':     [('a', 'b'), ('b', 'c'), ('c', 'd')],
    'singles':   [('a',), ('b',), ('c',), ('d',)],
    'star':      [('a', 'b'), ('a', 'c'), ('a', 'd'), ('a', 'e')],
    # sorted clique order is (a,d),(b,c),(c,d) but the tree is (a,d)-(c,d)-(b,c)
    'late-hub':  [('a', 'd'), ('b', 'c'), ('c', 'd')],
    'late-hub5': [('a', 'e'), ('b', 'c'), ('c', 'd'), ('d', 'e')],
    'triple':    [('a', 'b', 'e'), ('c', 'd'), ('d', 'e')],
}
ZEROS = {('c', 'd'): [(0, 0), (1, 2)]}


def measurements(cliques, total, prng):
    full = prng.rand(*DOMAIN.shape) ** 3
    full *= total / full.sum()
    ans = []
    for cl in cliques:
        ax = tuple(i for i, a in enumerate(DOMAIN.attrs) if a not in cl)
        y = full.sum(axis=ax).flatten()
        y = y + prng.normal(0, 0.02 * total / y.size, y.size)
        ans.append((None, y, 1.0, cl))
    return ans


def check(model, label):
    """ returns (list of problems, list of numbers for the digest) """
    problems, numbers = [], []
    total = model.total
    tol = 1e-6 * total
    implied = model.belief_propagation(model.potentials)
    for cl in model.cliques:
        gap = np.abs(implied[cl].values - model.marginals[cl].values).max()
        if not gap <= tol:
            problems.append('%s: stored marginal of %s differs from the one implied by the '
                            'stored parameters by %.3g' % (label, cl, gap))
    attrs = DOMAIN.attrs
    queries = [q for r in (1, 2) for q in itertools.combinations(attrs, r)]
    answers = {}
    for q in queries:
        x = model.project(q)
        answers[q] = x
        v = x.datavector()
        numbers.extend(v.tolist())
        if not np.isfinite(v).all() or v.min() < -tol:
            problems.append('%s: answer on %s is not finite / nonnegative' % (label, q))
        if not abs(v.sum() - total) <= tol:
            problems.append('%s: answer on %s sums to %.6g, model total is %.6g'
                            % (label, q, v.sum(), total))
    for q in queries:
        if len(q) != 2:
            continue
        for a in q:
            gap = np.abs(answers[q].project((a,)).values - answers[(a,)].values).max()
            if not gap <= tol:
                problems.append('%s: answers on %s and on (%s,) disagree on %s by %.3g'
                                % (label, q, a, a, gap))
    return problems, numbers


def main():
    problems, lines = [], []
    for name in STRUCTURES:
        for engine in ['MD', 'RDA', 'IG']:
            for iters in [1, 4, 30]:
                for zeros in [False, True]:
                    if zeros and not any(set(('c', 'd')) <= set(cl) for cl in STRUCTURES[name]):
                        continue
                    total = 50.0 if iters == 4 else 1.0
                    prng = np.random.RandomState(len(name) * 100 + iters)
                    meas = measurements(STRUCTURES[name], total, prng)
                    eng = FactoredInference(DOMAIN, iters=iters,
                                            structural_zeros=ZEROS if zeros else {})
                    with contextlib.redirect_stdout(io.StringIO()):
                        model = eng.estimate(meas, total=total, engine=engine, options={})
                    label = '%s/%s/iters=%d/zeros=%s' % (name, engine, iters, zeros)
                    p, numbers = check(model, label)
                    problems.extend(p)
                    digest = hashlib.sha256(
                        ','.join('%.9e' % v for v in numbers).encode()).hexdigest()[:16]
                    lines.append('%-36s cliques=%s %s' % (label, model.cliques, digest))
    for line in lines:
        print(line)
    if problems:
        print('FAIL: %d coherence violations, e.g.' % len(problems))
        for p in problems[:8]:
            print('  ' + p)
        where = sorted(set(p.split(':')[0] for p in problems))
        print('  affected runs (%d): %s' % (len(where), ' '.join(where)))
        return 1
    print('PASS')
    return 0


if __name__ == '__main__':
    sys.exit(main())

"""C08 pair 2 -- final normalisation in variable_elimination_logspace.

Out-of-clique answers (GraphicalModel.project on attributes that do not fit in
one clique) are computed from model.potentials by variable elimination in log
space.  Mirror descent never normalises its parameters: when the measured mass
disagrees with the total the caller supplies, every step moves all parameters
by a constant, so log Z of the returned parameters grows linearly with the
number of iterations -- and keeps growing over warm-started calls of a re-used
engine.  In-clique answers (read from model.marginals) are unaffected; the
out-of-clique answers must still be finite, sum to model.total and agree with
the in-clique ones.
"""
import os, sys, io, contextlib, hashlib, itertools

ROOT = os.path.dirname(os.path.dirname(os.path.dirname(os.path.abspath(__file__))))
sys.path.insert(0, os.path.join(ROOT, 'src'))

import warnings
warnings.simplefilter('ignore')
import numpy as np
np.seterr(all='ignore')
import mbi
from mbi import Domain, FactoredInference

assert os.path.abspath(mbi.__file__).startswith(ROOT), mbi.__file__

DOMAIN = Domain(['a', 'b', 'c', 'd'], [3, 4, 3, 5])
CLIQUES = [('a', 'b'), ('b', 'c'), ('c', 'd')]
QUERIES = [q for r in (0, 1, 2, 3) for q in itertools.combinations(DOMAIN.attrs, r)]


def measurements(mass, seed):
    prng = np.random.RandomState(seed)
    ans = []
    for cl in CLIQUES:
        y = prng.rand(DOMAIN.size(cl))
        ans.append((None, y / y.sum() * mass, 1.0, cl))
    return ans


def check(model, label):
    problems, numbers = [], []
    total = model.total
    tol = 1e-6 * total
    implied = model.belief_propagation(model.potentials)
    for cl in model.cliques:
        gap = np.abs(implied[cl].values - model.marginals[cl].values).max()
        if not gap <= tol:
            problems.append('%s: stored marginal of %s is %.3g away from the implied one'
                            % (label, cl, gap))
    answers = {}
    for q in QUERIES:
        v = model.project(q)
        answers[q] = v
        x = np.asarray(v.datavector()).reshape(-1)
        numbers.extend(x.tolist())
        inside = any(set(q) <= set(cl) for cl in model.cliques)
        kind = 'in-clique' if inside else 'out-of-clique'
        if not np.isfinite(x).all() or x.min() < -tol:
            problems.append('%s: %s answer on %s is not finite / nonnegative' % (label, kind, q))
        elif not abs(x.sum() - total) <= tol:
            problems.append('%s: %s answer on %s sums to %.6g but model.total is %.6g'
                            % (label, kind, q, x.sum(), total))
    for q in QUERIES:
        for r in QUERIES:
            if r and set(r) < set(q):
                gap = np.abs(answers[q].project(r).values - answers[r].values).max()
                if not gap <= tol:
                    problems.append('%s: answers on %s and %s disagree on %s by %.3g'
                                    % (label, q, r, r, gap))
    return problems, numbers


def run(engine, meas, total, solver, label, problems, lines):
    with contextlib.redirect_stdout(io.StringIO()):
        model = engine.estimate(meas, total=total, engine=solver, options={})
    logZ = round(float(model.belief_propagation(model.potentials, logZ=True)), 3) + 0.0
    p, numbers = check(model, label)
    problems.extend(p)
    digest = hashlib.sha256(','.join('%.9e' % v for v in numbers).encode()).hexdigest()[:16]
    lines.append('%-44s logZ=%10.3f  %s' % (label, logZ, digest))


def main():
    problems, lines = [], []

    # 1. single calls: consistent mass, every solver, short and long runs
    for solver in ['MD', 'RDA', 'IG']:
        for iters in [1, 25, 400]:
            for total in [1.0, 100.0]:
                eng = FactoredInference(DOMAIN, iters=iters)
                run(eng, measurements(total, 1), total, solver,
                    'single/%s/iters=%d/total=%g' % (solver, iters, total), problems, lines)

    # 2. single long mirror-descent runs where the measured mass exceeds / falls short of total
    for total, mass in [(100.0, 160.0), (10.0, 30.0), (100.0, 60.0)]:
        eng = FactoredInference(DOMAIN, iters=1000)
        run(eng, measurements(mass, 2), total, 'MD',
            'mismatch/MD/iters=1000/total=%g/mass=%g' % (total, mass), problems, lines)

    # 3. one engine re-used with warm_start: each call alone is harmless, the
    #    parameter drift accumulates over the sequence of calls
    eng = FactoredInference(DOMAIN, iters=200, warm_start=True)
    meas = measurements(130.0, 0)
    for call in range(1, 9):
        run(eng, meas, 100.0, 'MD', 'warm/MD/iters=200/total=100/mass=130/call=%d' % call,
            problems, lines)

    for line in lines:
        print(line)
    if problems:
        print('FAIL: %d violations of "one coherent, valid distribution", e.g.' % len(problems))
        for p in problems[:8]:
            print('  ' + p)
        where = sorted(set(p.split(':')[0] for p in problems))
        print('  affected runs (%d): %s' % (len(where), ' '.join(where)))
        return 1
    print('PASS')
    return 0


if __name__ == '__main__':
    sys.exit(main())

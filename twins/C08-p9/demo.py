"""C08 pair 1 -- JunctionTree._triangulated (fill-in edges of the elimination game).

The model handed back by FactoredInference.estimate must be ONE distribution:
 * stored clique marginals == marginals of the distribution defined by the stored potentials,
 * every answer finite, non-negative, summing to model.total,
 * in-clique answers (read from model.marginals) and out-of-clique answers
   (variable elimination on model.potentials) agree with each other.

This needs the cliques to come from a *chordal* graph (running intersection property).
The demo estimates models on chains, stars, 4-, 5- and 6-cycles with every solver and
compares every 1- and 2-way answer with a brute-force joint built from model.potentials.
"""
import os, sys, io, itertools, hashlib, contextlib, warnings

ROOT = os.path.dirname(os.path.dirname(os.path.dirname(os.path.abspath(__file__))))
sys.path.insert(0, os.path.join(ROOT, 'src'))
warnings.filterwarnings('ignore')

import numpy as np
import mbi
from mbi import Domain, FactoredInference

assert os.path.abspath(mbi.__file__).startswith(ROOT), mbi.__file__


def brute_joint(model):
    """joint table (canonical attribute order) implied by model.potentials; numpy only"""
    dom = model.domain
    logp = np.zeros(dom.shape)
    for cl, f in model.potentials.items():
        attrs = list(f.domain.attrs)
        order = sorted(range(len(attrs)), key=lambda i: dom.attrs.index(attrs[i]))
        vals = np.transpose(f.values, order)
        shape = [dom.config[a] if a in attrs else 1 for a in dom.attrs]
        logp = logp + vals.reshape(shape)
    m = logp.max()
    p = np.exp(logp - m)
    return p / p.sum() * model.total


def marg(joint, dom, attrs):
    drop = tuple(i for i, a in enumerate(dom.attrs) if a not in attrs)
    t = joint.sum(axis=drop)
    kept = [a for a in dom.attrs if a in attrs]
    return np.transpose(t, [kept.index(a) for a in attrs])


def make_measurements(dom, cliques, rng, total):
    full = rng.rand(*dom.shape) ** 3
    full = full / full.sum() * total
    ms = []
    for cl in cliques:
        y = marg(full, dom, cl).flatten() + rng.normal(0, 2.0, dom.size(cl))
        ms.append((None, y, 2.0, cl))
    return ms


CASES = [
    # name, attrs, shape, measured cliques, elimination order (None = greedy)
    ('chain',    'abcd',  [2, 3, 4, 2],    [('a','b'), ('b','c'), ('c','d')], None),
    ('star',     'abcd',  [2, 3, 2, 3],    [('a','d'), ('b','d'), ('c','d')], None),
    ('triangle+','abcd',  [2, 3, 2, 3],    [('a','b'), ('b','c'), ('a','c'), ('c','d')], None),
    ('4-cycle',  'abcd',  [2, 3, 2, 3],    [('a','b'), ('b','c'), ('c','d'), ('a','d')], None),
    ('5-cycle',  'abcde', [2, 2, 3, 4, 2], [('a','b'), ('b','c'), ('c','d'), ('d','e'), ('a','e')], None),
    ('5-cycle/o','abcde', [2, 3, 2, 3, 2], [('a','b'), ('b','c'), ('c','d'), ('d','e'), ('a','e')],
                                            ['c', 'd', 'e', 'a', 'b']),
    ('6-cycle',  'abcdef',[2, 2, 2, 3, 2, 2], [('a','b'), ('b','c'), ('c','d'), ('d','e'), ('e','f'), ('a','f')], None),
]
SOLVERS = [('MD', 1), ('MD', 25), ('RDA', 1), ('RDA', 25), ('IG', 1), ('IG', 25)]

failures = []
digest = hashlib.sha256()
rows = []

for name, attrs, shape, cliques, order in CASES:
    dom = Domain(list(attrs), shape)
    total = 200.0
    for engine_name, iters in SOLVERS:
        rng = np.random.RandomState(7)
        np.random.seed(11)
        ms = make_measurements(dom, cliques, rng, total)
        eng = FactoredInference(dom, iters=iters, elim_order=order)
        with contextlib.redirect_stdout(io.StringIO()):
            model = eng.estimate(ms, total=total, engine=engine_name)
        tag = '%s/%s/%d' % (name, engine_name, iters)
        joint = brute_joint(model)
        tol = 1e-6 * total
        # (1) stored marginals vs stored parameters
        worst_sync = 0.0
        for cl in model.cliques:
            worst_sync = max(worst_sync, np.abs(model.marginals[cl].values - marg(joint, dom, cl)).max())
        if worst_sync > tol:
            failures.append('%s: stored clique marginals differ from the marginals implied by the stored '
                            'potentials by %.4g (cliques %s)' % (tag, worst_sync, model.cliques))
        # (2)+(3) every 1- and 2-way answer
        worst_q, worst_tot, bad = 0.0, 0.0, False
        answers = []
        for k in (1, 2):
            for q in itertools.combinations(dom.attrs, k):
                ans = model.project(q).datavector(flatten=False)
                if not np.all(np.isfinite(ans)) or ans.min() < -1e-9:
                    bad = True
                worst_tot = max(worst_tot, abs(ans.sum() - model.total))
                worst_q = max(worst_q, np.abs(ans - marg(joint, dom, q)).max())
                answers.append(np.round(ans.flatten(), 5))
        if bad:
            failures.append('%s: an answer is negative or not finite' % tag)
        if worst_tot > tol:
            failures.append('%s: an answer does not sum to model.total (off by %.4g)' % (tag, worst_tot))
        if worst_q > tol:
            failures.append('%s: model.project disagrees with the distribution defined by model.potentials '
                            'by %.4g -- in-clique and out-of-clique answers describe different distributions'
                            % (tag, worst_q))
        # (4) two stored marginals on their shared attributes
        worst_pair = 0.0
        for c1, c2 in itertools.combinations(model.cliques, 2):
            sh = tuple(a for a in c1 if a in c2)
            if sh:
                d = model.marginals[c1].project(sh).values - model.marginals[c2].project(sh).values
                worst_pair = max(worst_pair, np.abs(d).max())
        if worst_pair > tol:
            failures.append('%s: two clique marginals disagree on shared attributes by %.4g' % (tag, worst_pair))
        blob = np.concatenate(answers) + 0.0
        digest.update(tag.encode())
        digest.update(np.array2string(blob, precision=5, suppress_small=True, threshold=10**6).encode())
        rows.append('%-18s cliques=%d  sumsq(answers)=%.3f' % (tag, len(model.cliques), float((blob**2).sum())))

for r in rows:
    print(r)
if failures:
    print('FAIL: the returned model is not one coherent distribution')
    for f in failures:
        print('  -', f)
    sys.exit(1)
print('PASS digest', digest.hexdigest())
sys.exit(0)

"""Equivalence demo for property C08 (the returned model is one coherent distribution).

Prints a deterministic digest of the models returned by FactoredInference.estimate
(all three solvers, several iteration counts, totals, structural zeros on/off, early
exits) and of GraphicalModel.project / mle / belief_propagation called directly.
The output must be byte-identical on the unmodified and on the refactored library.

Run:  PYTHONPATH=<root>/src /venv/bin/python out/refactorN/demo.py
"""
import os
import sys
import hashlib
import io
import contextlib
import warnings

ROOT = os.path.dirname(os.path.dirname(os.path.dirname(os.path.abspath(__file__))))

# set iteration order of string sets (separators, greedy elimination ties) depends on
# the hash seed: pin it so the digest is reproducible run to run.
if os.environ.get('PYTHONHASHSEED') != '0':
    env = dict(os.environ)
    env['PYTHONHASHSEED'] = '0'
    env['PYTHONPATH'] = os.path.join(ROOT, 'src') + os.pathsep + env.get('PYTHONPATH', '')
    os.execve(sys.executable, [sys.executable] + sys.argv, env)

sys.path.insert(0, os.path.join(ROOT, 'src'))
warnings.simplefilter('ignore')

import numpy as np
from scipy import sparse
import mbi
from mbi import Domain, Dataset, Factor, FactoredInference, GraphicalModel, CliqueVector

assert os.path.abspath(mbi.__file__).startswith(ROOT + os.sep), mbi.__file__

# scipy's eigsh (used by FactoredInference._lipschitz) starts ARPACK from a random vector,
# (and restarts it from random vectors), which makes the Lipschitz constant differ in the last
# bits from run to run: pin the start vector and the generator.
import mbi.inference as _inference
_real_eigsh = _inference.eigsh
_inference.eigsh = lambda A, k, **kw: _real_eigsh(A, k, v0=np.ones(A.shape[0]), rng=np.random.default_rng(0), **kw)

np.set_printoptions(precision=8, suppress=False, linewidth=200, threshold=100000)


def h(arr):
    """ exact digest of an array (bit pattern) """
    a = np.ascontiguousarray(np.asarray(arr, dtype=float))
    a = a + 0.0  # normalise -0.0
    return hashlib.sha256(a.tobytes()).hexdigest()[:16]


def r(arr, k=7):
    a = np.round(np.asarray(arr, dtype=float), k) + 0.0
    return np.array2string(a.flatten(), separator=',')


def digest_cv(name, cv):
    for cl in cv:
        f = cv[cl]
        print('   %s[%s] dom=%s %s %s' % (name, ','.join(cl), f.domain.attrs, h(f.values), r(f.values, 6)))


QUERIES = [('a',), ['b'], ('e',), ('a', 'b'), ('b', 'a'), ['c', 'b'], ('a', 'c'), ('d', 'a'),
           ('a', 'e'), ('c', 'a', 'd'), ('e', 'b', 'a'), ('a', 'b', 'c', 'd', 'e'), ()]


def digest_model(model):
    print('  total=%r' % (float(model.total),))
    print('  cliques=%r' % (model.cliques,))
    print('  has_marginals=%r has_potentials=%r' % (hasattr(model, 'marginals'), hasattr(model, 'potentials')))
    digest_cv('theta', model.potentials)
    bp = model.belief_propagation(model.potentials)
    if hasattr(model, 'marginals'):
        digest_cv('mu', model.marginals)
        gap = max(np.abs(model.marginals[cl].values - bp[cl].values).max() for cl in model.cliques)
        print('  sync_gap=%s' % r(gap, 9))
    for q in QUERIES:
        try:
            f = model.project(q)
            v = f.datavector()
            ok = bool(np.all(np.isfinite(v)) and np.all(v >= 0))
            print('  project%r dom=%s ok=%s sum=%s %s %s' % (q, f.domain.attrs, ok, r(v.sum(), 6), h(v), r(v, 6)))
        except Exception as e:  # identical failures are part of the digest too
            print('  project%r raised %s' % (q, type(e).__name__))


class Recorder:
    def __init__(self):
        self.calls = []

    def __call__(self, marginals):
        self.calls.append(h(np.concatenate([marginals[cl].values.flatten() for cl in marginals])))


def run(label, domain, measurements, total, engine, iters, options=None, zeros=None, metric='L2',
        warm=None, use_callback=True):
    print('== %s | engine=%s iters=%s total=%r zeros=%s metric=%s options=%s' % (
        label, engine, iters, total, 'on' if zeros else 'off',
        metric if isinstance(metric, str) else 'callable', sorted((options or {}).keys())))
    np.random.seed(12345)
    kw = {} if zeros is None else {'structural_zeros': zeros}
    eng = FactoredInference(domain, metric=metric, iters=iters, warm_start=warm is not None, **kw)
    if warm is not None:
        eng.model = warm
    rec = Recorder() if use_callback else None
    out = io.StringIO()
    try:
        with contextlib.redirect_stdout(out):
            model = eng.estimate(list(measurements), total=total, engine=engine, callback=rec,
                                 options=dict(options or {}))
    except Exception as e:
        print('  estimate raised %s' % type(e).__name__)
        return None
    printed = out.getvalue().strip().replace('\n', ' | ')
    if printed:
        print('  stdout: %s' % printed)
    if rec is not None:
        print('  callbacks=%d %s' % (len(rec.calls), hashlib.sha256(''.join(rec.calls).encode()).hexdigest()[:16]))
    digest_model(model)
    return model


def make_measurements(domain, data, spec, prng):
    """ spec: list of (proj, noise, kind) """
    ms = []
    for proj, noise, kind in spec:
        attrs = proj if isinstance(proj, (list, tuple)) else (proj,)
        x = data.project(list(attrs)).datavector()
        n = x.size
        if kind == 'none':
            Q = None
            y = x + prng.normal(0, noise, n)
        elif kind == 'eye':
            Q = sparse.eye(n)
            y = x + prng.normal(0, noise, n)
        elif kind == 'dense':
            Q = prng.randint(0, 2, size=(n + 2, n)).astype(float)
            Q[0] = 1.0
            y = Q @ x + prng.normal(0, noise, n + 2)
        elif kind == 'total':
            Q = np.ones((1, n))
            y = Q @ x + prng.normal(0, noise, 1)
        elif kind == 'prefix':
            Q = sparse.csr_matrix(np.tril(np.ones((n, n))))
            y = Q @ x + prng.normal(0, noise, n)
        ms.append((Q, y, noise, proj))
    return ms


def main():
    prng = np.random.RandomState(2024)
    domain = Domain(['a', 'b', 'c', 'd', 'e'], [2, 3, 4, 2, 3])
    np.random.seed(7)
    data = Dataset.synthetic(domain, 300)

    chain = make_measurements(domain, data, [(('a', 'b'), 5.0, 'none'), (('b', 'c'), 0.5, 'eye'),
                                             (('c', 'd'), 20.0, 'dense')], prng)
    permuted = make_measurements(domain, data, [(('c', 'a'), 3.0, 'prefix'), (['d', 'c', 'b'], 7.5, 'none'),
                                                ('e', 1.0, 'eye'), (('a',), 0.1, 'total')], prng)
    cyclic = make_measurements(domain, data, [(('a', 'b'), 2.0, 'eye'), (('b', 'c'), 4.0, 'none'),
                                              (('c', 'a'), 8.0, 'dense'), (('e', 'd'), 1.5, 'none')], prng)
    single = make_measurements(domain, data, [(('b',), 1.0, 'none')], prng)
    zeros = {('a', 'b'): [(0, 1), (1, 2)], ('d',): [(1,)]}

    # ---------------------------------------------------------------- mirror descent
    for iters in (1, 2, 9):
        run('chain', domain, chain, None, 'MD', iters)
    run('chain', domain, chain, 1, 'MD', 3)
    run('chain', domain, chain, 250.5, 'MD', 5, zeros=zeros)
    # small totals make the initial step 2/total**2 far too long: the line search backtracks
    run('chain-backtracking', domain, chain, 1, 'MD', 15)
    run('cyclic-backtracking', domain, cyclic, 2.5, 'MD', 10, zeros=zeros)
    run('permuted-backtracking', domain, permuted, 0.5, 'MD', 1)
    run('permuted', domain, permuted, None, 'MD', 6)
    run('permuted', domain, permuted, 1e6, 'MD', 4, zeros=zeros)
    run('cyclic', domain, cyclic, 300, 'MD', 12)
    run('cyclic-scalar-step', domain, cyclic, 300, 'MD', 5, options={'stepsize': 0.01})
    run('cyclic-callable-step', domain, cyclic, 300, 'MD', 5, options={'stepsize': lambda t: 0.05 / t})
    run('chain-L1', domain, chain, 300, 'MD', 4, options={'stepsize': 0.5}, metric='L1')
    run('chain-L1-linesearch', domain, chain, 300, 'MD', 4, metric='L1')  # assertion error
    run('empty (MD exits early, loss 0)', domain, [], None, 'MD', 5)
    run('empty+zeros', domain, [], 40, 'MD', 5, zeros=zeros)
    run('single', domain, single, None, 'MD', 1, use_callback=False)

    def custom(marginals):
        loss, grad = 0.0, {}
        for cl in marginals:
            mu = marginals[cl]
            target = Factor.ones(mu.domain) * (300.0 / mu.domain.size())
            diff = mu - target
            loss += 0.5 * float((diff * diff).sum()) / 300.0
            grad[cl] = diff / 300.0
        return loss, CliqueVector(grad)

    run('custom-metric', domain, chain, 300, 'MD', 4, metric=custom)
    m0 = run('warm-start source', domain, chain, 300, 'MD', 3)
    run('warm-start', domain, permuted, 300, 'MD', 3, warm=m0)

    # ---------------------------------------------------------------- dual averaging / interior gradient
    for engine in ('RDA', 'IG'):
        for iters in (1, 2, 9):
            run('chain', domain, chain, None, engine, iters)
        run('chain', domain, chain, 1, engine, 3)
        run('chain', domain, chain, 250.5, engine, 5, zeros=zeros)
        run('permuted', domain, permuted, None, engine, 6, options={'lipschitz': 3.25})
        run('permuted', domain, permuted, 1e6, engine, 4, zeros=zeros)
        run('cyclic', domain, cyclic, 300, engine, 12)
        run('empty (L == 0)', domain, [], None, engine, 5)
        run('empty+zeros', domain, [], 40, engine, 5, zeros=zeros)
        run('single', domain, single, None, engine, 1, use_callback=False)
        run('custom-metric', domain, chain, 300, engine, 4, metric=custom, options={'lipschitz': 2.0})
        run('L1 (rejected)', domain, chain, 300, engine, 4, metric='L1')
        run('warm-start', domain, permuted, 300, engine, 3, warm=m0)
    run('IG-params', domain, cyclic, 300, 'IG', 7, options={'c': 2.0, 'sigma': 0.5})

    # ---------------------------------------------------------------- GraphicalModel used directly
    print('== direct GraphicalModel')
    for cliques in ([('a', 'b'), ('b', 'c'), ('c', 'd')],
                    [('c', 'a'), ('d', 'c', 'b'), ('e',)],
                    [('a', 'b'), ('b', 'c'), ('c', 'a'), ('e', 'd')],
                    []):
        np.random.seed(99)
        model = GraphicalModel(domain, cliques, total=123.5)
        rs = np.random.RandomState(5)
        pots = {}
        for cl in model.cliques:
            dom = domain.project(cl)
            vals = rs.normal(0, 1, dom.shape)
            vals[rs.rand(*dom.shape) < 0.15] = -np.inf
            vals.flat[0] = 0.0  # keep the support non-empty
            pots[cl] = Factor(dom, vals)
        model.potentials = CliqueVector(pots)
        print(' model cliques=%r (potentials only)' % (model.cliques,))
        digest_model(model)
        mu = model.belief_propagation(model.potentials)
        print('  logZ=%s' % r(model.belief_propagation(model.potentials, logZ=True), 9))
        theta2 = model.mle(mu)
        digest_cv('mle', theta2)
        digest_cv('bp(mle)', model.belief_propagation(theta2))
        model.marginals = mu
        print(' same model with marginals attached')
        digest_model(model)
        model.potentials = theta2
        print(' same model with refit potentials')
        digest_model(model)
        many = model.calculate_many_marginals([('a', 'd'), ('b', 'e'), ('a', 'b')])
        for k in many:
            print('  many%r %s' % (k, r(many[k].datavector(), 6)))
        print('  datavector %s' % h(model.datavector()))
        fitted = GraphicalModel(domain, cliques, total=300)
        fitted.fit(data)
        print(' fitted to data')
        digest_model(fitted)


if __name__ == '__main__':
    main()

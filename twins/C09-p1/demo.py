"""C09 / pair 1 -- the total chosen by LocalInference is the mass of every model answer.

Checks, for LocalInference with every kind of marginal oracle (named oracles, which are
constructed inside _setup with the final total, and PRE-BUILT RegionGraph objects, which
are constructed by the caller before the total is known and get `model.total = total`
assigned afterwards):

  * a total supplied by the caller is used exactly (model.total == supplied),
  * an omitted total is estimated from the (noise-free) measurements and equals N,
  * every answer of the returned model (all region marginals, one-way projections,
    an out-of-region projection) sums to model.total.

exit 0 + "PASS" + digest when all checks hold, exit 1 + "FAIL" otherwise.
"""
import os
import sys
import hashlib
import warnings

ROOT = os.path.dirname(os.path.dirname(os.path.dirname(os.path.abspath(__file__))))
if os.environ.get('PYTHONHASHSEED') != '0':
    # RegionGraph iterates over sets of attribute-name tuples; pin the string hash seed so
    # that the floating point summation order (and hence the digest) is reproducible.
    env = dict(os.environ, PYTHONHASHSEED='0')
    os.execve(sys.executable, [sys.executable, os.path.abspath(__file__)] + sys.argv[1:], env)
sys.path.insert(0, os.path.join(ROOT, 'src'))
warnings.filterwarnings('ignore')

import numpy as np
import mbi
from mbi import Domain, LocalInference, RegionGraph

assert os.path.abspath(mbi.__file__).startswith(os.path.join(ROOT, 'src')), mbi.__file__

np.random.seed(20240909)
DOM = Domain(['a', 'b', 'c', 'd'], [3, 4, 2, 3])
N = 250
DATA = np.random.randint(0, DOM.shape, size=(N, len(DOM.attrs)))
CLIQUES = [('a', 'b'), ('b', 'c'), ('a', 'c'), ('c', 'd')]


def marginal(cl):
    idx = [DOM.attrs.index(a) for a in cl]
    h = np.zeros([DOM[a] for a in cl])
    for r in DATA:
        h[tuple(r[idx])] += 1
    return h.flatten()


def prefix(n):
    return np.tril(np.ones((n, n)))


def measurements():
    rng = np.random.RandomState(7)
    ans = []
    for i, cl in enumerate(CLIQUES):
        n = DOM.size(cl)
        if i == 0:
            Q = np.eye(n)
        elif i == 1:
            Q = prefix(n)
        elif i == 2:
            Q = 0.5 * np.eye(n)
        else:
            Q = rng.rand(n, n) + np.eye(n)
        ans.append((Q, Q @ marginal(cl), 1.0 + i, cl))
    return ans


ORACLES = [
    ('named:convex', lambda: 'convex'),
    ('named:approx', lambda: 'approx'),
    ('named:pairwise', lambda: 'pairwise'),
    ('prebuilt:RegionGraph(convex)', lambda: RegionGraph(DOM, CLIQUES, convex=True, iters=1)),
    ('prebuilt:RegionGraph(kikuchi)', lambda: RegionGraph(DOM, CLIQUES, convex=False, iters=1)),
    ('prebuilt:RegionGraph(convex,total=N)', lambda: RegionGraph(DOM, CLIQUES, total=float(N), convex=True, iters=1)),
]
TOTALS = [None, float(N), 100.0, 1.0]

problems = []
lines = []
digest = hashlib.sha256()

for name, make in ORACLES:
    for total in TOTALS:
        engine = LocalInference(DOM, marginal_oracle=make(), iters=25)
        model = engine.estimate(measurements(), total=total)
        expected = float(N) if total is None else total
        tag = '%s total=%s' % (name, total)

        if total is not None and model.total != total:
            problems.append('%s: model.total is %r, caller supplied %r' % (tag, model.total, total))
        if total is None and abs(model.total - N) > 1e-6 * N:
            problems.append('%s: estimated total %r, noise-free data has N=%d' % (tag, model.total, N))

        answers = [(cl, model.marginals[cl]) for cl in model.cliques]
        answers += [((a,), model.project((a,))) for a in DOM.attrs]
        try:
            answers += [(('b', 'd'), model.project(('b', 'd')))]
        except Exception as e:
            # (the fitting loop of RegionGraph.project is only entered when the region
            #  marginals do not already have the mass the projection is normalised to)
            problems.append('%s: out-of-region projection bd failed: %s: %s' % (tag, type(e).__name__, e))
        worst = 0.0
        for cl, fac in answers:
            s = float(fac.datavector().sum())
            worst = max(worst, abs(s - model.total) / model.total)
            if abs(s - model.total) > 1e-6 * model.total:
                problems.append('%s: answer on %s sums to %.6f but model.total is %.6f'
                                % (tag, ''.join(cl), s, model.total))
            digest.update(np.round(fac.datavector(), 8).tobytes())
        lines.append('%-40s total=%-6s -> model.total=%.6f  answers=%d  mass ok=%s'
                     % (name, total, model.total, len(answers), worst <= 1e-6))

for l in lines:
    print(l)
print('digest', digest.hexdigest())
if problems:
    print('FAIL: %d violations of "the chosen total is the mass of every model answer"' % len(problems))
    for p in problems[:12]:
        print('  ' + p)
    if len(problems) > 12:
        print('  ...')
    sys.exit(1)
print('PASS')
sys.exit(0)

"""C09 / round 7 / pair 2 -- FactoredInference: the total estimated when `total` is omitted
does not depend on how the query matrix is STORED (dense / sparse / operator; float64,
float32, integer or boolean entries): it is the inverse-variance weighted combination of
the estimates v.y of the measurements whose queries can express the overall count, and
it is N for noise-free answers of a dataset with N records.

Exit 0 + PASS + digest on a correct library, exit 1 + FAIL otherwise.
"""
import os, sys, hashlib, warnings

ROOT = os.path.dirname(os.path.dirname(os.path.dirname(os.path.abspath(__file__))))
sys.path.insert(0, ROOT)
sys.path.insert(0, os.path.join(ROOT, 'src'))
warnings.simplefilter('ignore')

import numpy as np
from scipy import sparse
from scipy.sparse.linalg import lsmr, aslinearoperator
from mbi import Domain, FactoredInference

failures = []
lines = []

def check(cond, msg):
    if not cond:
        failures.append(msg)

def close(a, b, rel):
    return abs(a - b) <= rel * max(1.0, abs(b))

def reference_total(measurements):
    """ the documented estimator, evaluated on float64 copies of the matrices
        (same storage form: dense / sparse / operator) """
    var, est = [], []
    for A, y, noise in measurements:
        o = np.ones(A.shape[1])
        v = lsmr(A.T, o, atol=0, btol=0)[0]
        if np.allclose(A.T.dot(v), o):
            var.append(noise**2 * np.dot(v, v))
            est.append(np.dot(v, y))
    if not est:
        return 1, 0
    var, est = np.array(var), np.array(est)
    variance = 1.0 / np.sum(1.0 / var)
    return max(1, variance * np.sum(est / var)), len(est)

def matrix(kind, n, rng):
    if kind == 'identity':
        return np.eye(n)
    if kind == 'scaled':
        return 0.25 * np.eye(n)
    if kind == 'prefix':
        return np.tril(np.ones((n, n)))
    if kind == 'hier':          # total query on top of the identity
        return np.vstack([np.ones((1, n)), np.eye(n)])
    if kind == 'buckets':       # coarse histogram, 2 cells per bucket (wide matrix)
        return np.kron(np.eye(n // 2), np.ones((1, 2)))
    if kind == 'diffs':         # rank deficient, cannot express the total
        return (np.eye(n) - np.eye(n, k=1))[:-1]
    if kind == 'random':
        return np.round(rng.rand(n + 2, n) * 4) / 4 + np.vstack([np.eye(n), np.zeros((2, n))])
    raise ValueError(kind)

def store(A, dtype, form):
    A = A.astype(dtype)
    if form == 'dense':
        return A
    if form == 'sparse':
        return sparse.csr_matrix(A)
    return aslinearoperator(A)

def fit(domain, measurements):
    engine = FactoredInference(domain, iters=2)
    return engine.estimate(measurements)        # total omitted

rng = np.random.RandomState(7)

# ---------------------------------------------- one measurement, noise-free answers
cases = []
for n in [4, 6, 16, 32, 48]:
    for kind in ['identity', 'scaled', 'prefix', 'hier', 'buckets', 'diffs', 'random']:
        if kind == 'random' and n > 6:
            continue
        for dtype in [np.float64, np.float32, np.int64, np.bool_]:
            if dtype in (np.int64, np.bool_) and kind in ('scaled', 'diffs', 'random'):
                continue
            for form in ['dense', 'sparse', 'operator']:
                if form != 'dense' and n not in (6, 32):
                    continue
                if form == 'operator' and dtype is np.bool_:
                    continue
                cases.append((n, kind, dtype, form))

for n, kind, dtype, form in cases:
    x = rng.randint(0, 40, size=n).astype(float)
    N = x.sum()
    A = matrix(kind, n, rng)
    y = A @ x
    Q = store(A, dtype, form)
    dom = Domain(['a'], [n])
    model = fit(dom, [(Q, y, 2.0, ('a',))])
    want, usable = reference_total([(store(A, np.float64, form), y, 2.0)])
    tag = 'n=%d %s %s %s' % (n, kind, np.dtype(dtype).name, form)
    check(close(model.total, want, 1e-9),
          '%s: total is %.9g, the documented estimator gives %.9g (true N=%d)' % (tag, model.total, want, N))
    if kind != 'diffs':
        check(usable == 1, '%s: reference run could not use the measurement (demo input is bad)' % tag)
        check(close(model.total, N, 1e-6), '%s: noise-free answers, N=%d, but total=%.9g' % (tag, N, model.total))
    s = model.project(('a',)).datavector().sum()
    check(close(s, model.total, 1e-9), '%s: answer sums to %.9g, total is %.9g' % (tag, s, model.total))
    lines.append('%-34s total=%.6f' % (tag, model.total))

# ---------------------------------------------- several noisy measurements, mixed storage
dom = Domain(['a', 'b', 'c'], [16, 6, 32])
for trial, (dta, dtb, dtc) in enumerate([(np.float64, np.float64, np.float64),
                                         (np.float32, np.float64, np.int64),
                                         (np.float64, np.float32, np.float32),
                                         (np.float32, np.float32, np.float32)]):
    r = np.random.RandomState(100 + trial)
    N = 500
    rows = np.stack([r.randint(0, k, N) for k in dom.shape], axis=1)
    spec = [('a', 'prefix', dta, 1.0, 'dense'), ('b', 'hier', dtb, 4.0, 'sparse'), ('c', 'prefix', dtc, 2.0, 'operator')]
    ms, ref = [], []
    for i, (attr, kind, dt, sigma, form) in enumerate(spec):
        n = dom.size(attr)
        x = np.bincount(rows[:, i], minlength=n).astype(float)
        A = matrix(kind, n, r)
        y = A @ x + r.normal(0, sigma, size=A.shape[0])
        ms.append((store(A, dt, form), y, sigma, (attr,)))
        ref.append((store(A, np.float64, form), y, sigma))
    model = fit(dom, ms)
    want, usable = reference_total(ref)
    tag = 'mixed %s/%s/%s' % tuple(np.dtype(d).name for d in (dta, dtb, dtc))
    check(usable == 3, '%s: reference run used %d of 3 measurements (demo input is bad)' % (tag, usable))
    check(close(model.total, want, 1e-9),
          '%s: total is %.9g, inverse-variance combination of the 3 usable measurements is %.9g' % (tag, model.total, want))
    for attr in dom.attrs:
        s = model.project((attr,)).datavector().sum()
        check(close(s, model.total, 1e-9), '%s: answer on %s sums to %.9g, total is %.9g' % (tag, attr, s, model.total))
    lines.append('%-34s total=%.6f' % (tag, model.total))

if failures:
    print('FAIL (%d violations)' % len(failures))
    for f in failures[:14]:
        print('  -', f)
    if len(failures) > 14:
        print('  ... and %d more' % (len(failures) - 14))
    sys.exit(1)
print('PASS')
for l in lines:
    print(l)
print('digest', hashlib.sha256('\n'.join(lines).encode()).hexdigest()[:16])
sys.exit(0)

#!/usr/bin/env python
""" C09 / round 8 / pair 1 -- a GraphicalModel must keep its total across save/load and copies.

Models are estimated with a total supplied by the caller (several values) and with total=None
(estimated from the measurements).  Every model is then
    * written with GraphicalModel.save and read back with GraphicalModel.load,
    * copied with copy.deepcopy,
and the copy must (1) report exactly the same total and (2) give answers (in-clique marginals,
out-of-clique marginals, the full data vector, belief propagation, krondot) that sum to that total
and agree with the answers of the original model.
"""
import os, sys, copy, hashlib, tempfile, warnings
ROOT = os.path.dirname(os.path.dirname(os.path.dirname(os.path.abspath(__file__))))
sys.path.insert(0, os.path.join(ROOT, 'src'))
warnings.filterwarnings('ignore')
import numpy as np
from scipy import sparse
import mbi
from mbi import Domain, Dataset, FactoredInference, GraphicalModel

assert os.path.abspath(mbi.__file__).startswith(os.path.join(ROOT, 'src')), mbi.__file__

failures = []
lines = []

def fmt(x):
    return '%.7g' % float(x)

def answers(model):
    """ a fixed battery of model answers (name, array) """
    out = []
    out.append(('project a,b', model.project(('a', 'b')).datavector()))
    out.append(('project c', model.project(('c',)).datavector()))
    out.append(('project a,d', model.project(('a', 'd')).datavector()))     # not inside a clique
    out.append(('project b,e', model.project(('b', 'e')).datavector()))     # not inside a clique
    out.append(('datavector', model.datavector()))
    mu = model.belief_propagation(model.potentials)
    for cl in model.cliques:
        out.append(('bp %s' % ''.join(cl), mu[cl].datavector()))
    mats = [np.ones((1, n)) for n in model.domain.shape]
    mats[1] = np.eye(model.domain.shape[1])
    out.append(('krondot', model.krondot(mats).flatten()))
    return out

def check(tag, original, clone, how):
    if clone.total != original.total:
        failures.append('%s / %s: total %r became %r' % (tag, how, original.total, clone.total))
    ref = answers(original)
    got = answers(clone)
    for (name, x), (_, y) in zip(ref, got):
        if abs(y.sum() - original.total) > 1e-7 * max(1.0, abs(original.total)):
            failures.append('%s / %s: %s sums to %s, total is %s' % (tag, how, name, fmt(y.sum()), fmt(original.total)))
        elif x.shape != y.shape or not np.allclose(x, y, rtol=1e-7, atol=1e-9 * max(1.0, original.total)):
            failures.append('%s / %s: %s differs from the original model' % (tag, how, name))
    lines.append('%s %s total=%s sums=%s' % (tag, how, fmt(clone.total), ','.join(fmt(y.sum()) for _, y in got)))
    # a position-weighted checksum of every answer, so that the digest also covers the values
    lines.append('%s %s checks=%s' % (tag, how, ','.join(fmt(y.dot(np.arange(1, y.size + 1))) for _, y in got)))

def roundtrip(model):
    fd, path = tempfile.mkstemp(suffix='.pkl')
    os.close(fd)
    try:
        GraphicalModel.save(model, path)
        return GraphicalModel.load(path)
    finally:
        os.remove(path)

def main():
    np.random.seed(20240908)
    domain = Domain(['a', 'b', 'c', 'd', 'e'], [2, 3, 4, 3, 2])
    data = Dataset.synthetic(domain, 600)
    N = data.records

    def measure(cl, Q=None, sigma=5.0, exact=False):
        x = data.project(cl).datavector()
        Q = sparse.eye(x.size) if Q is None else Q
        y = Q @ x
        if not exact:
            y = y + np.random.normal(0, sigma, size=y.size)
        return (Q, y, sigma, cl)

    chain = [('a', 'b'), ('b', 'c'), ('c', 'd'), ('d', 'e')]
    split = [('a', 'b'), ('c',), ('d', 'e')]                      # independent components
    loop = [('a', 'b'), ('b', 'c'), ('a', 'c'), ('d',), ('e',)]   # needs triangulation
    prefix = np.tril(np.ones((6, 6)))

    cases = []
    for name, cliques in [('chain', chain), ('split', split), ('loop', loop)]:
        ms = [measure(cl) for cl in cliques]
        for total in [float(N), 1234.5, 250, None]:
            cases.append(('%s total=%s' % (name, total), ms, total, 'MD'))
    # noise-free measurements through scaled / prefix queries: the estimated total is N
    ms = [measure(('a', 'b'), Q=prefix, exact=True), measure(('b', 'c'), Q=3.0 * sparse.eye(12), exact=True),
          measure(('d', 'e'), exact=True)]
    cases.append(('exact total=None', ms, None, 'MD'))
    cases.append(('exact-IG total=None', ms, None, 'IG'))

    for tag, ms, total, eng in cases:
        engine = FactoredInference(domain, iters=40, warm_start=False)
        model = engine.estimate(ms, total=total, engine=eng)
        if total is not None and model.total != total:
            failures.append('%s: supplied total %r, model.total %r' % (tag, total, model.total))
        if tag.startswith('exact') and abs(model.total - N) > 1e-6 * N:
            failures.append('%s: noise-free measurements of %d records, model.total %r' % (tag, N, model.total))
        lines.append('%s estimated total=%s' % (tag, fmt(model.total)))
        check(tag, model, roundtrip(model), 'save/load')
        check(tag, model, copy.deepcopy(model), 'deepcopy')
        # a second generation: a copy of the reloaded model
        check(tag, model, copy.deepcopy(roundtrip(model)), 'load+copy')

    # a model that was never fitted (potentials only), total set by the caller
    model = GraphicalModel(domain, chain, total=77.0)
    prng = np.random.RandomState(3)
    model.potentials = mbi.CliqueVector({ cl : mbi.Factor(domain.project(cl), prng.normal(size=domain.size(cl))) for cl in model.cliques })
    check('unfitted total=77', model, roundtrip(model), 'save/load')

    digest = hashlib.sha256('\n'.join(lines).encode()).hexdigest()
    if failures:
        print('FAIL: a reloaded / copied model does not keep the total of the model it was made from')
        for f in failures[:12]:
            print('  -', f)
        print('  (%d violations in total)' % len(failures))
        sys.exit(1)
    print('PASS')
    for l in lines:
        print(l)
    print('digest', digest)

if __name__ == '__main__':
    main()

#!/usr/bin/env python
""" C09 / round 8 / pair 2 -- noise-free measurements of a dataset with N records give total N, and
every answer of a (weighted) synthetic dataset sums to the total it was fitted with.

The measurements are produced the way every mechanism in the repository produces them
(y = Q @ data.project(cl).datavector()), for identity, scaled, prefix, total-only and random
full-rank query matrices, and handed to FactoredInference / LocalInference / PublicInference with
total=None.  PublicInference is also run with a total supplied by the caller; its result is a
Dataset with one weight per public record, whose marginals must sum to that total.
"""
import os, sys, hashlib, warnings
ROOT = os.path.dirname(os.path.dirname(os.path.dirname(os.path.abspath(__file__))))
sys.path.insert(0, os.path.join(ROOT, 'src'))
warnings.filterwarnings('ignore')
import numpy as np
import pandas as pd
from scipy import sparse
import mbi
from mbi import Domain, Dataset, FactoredInference, LocalInference, PublicInference

assert os.path.abspath(mbi.__file__).startswith(os.path.join(ROOT, 'src')), mbi.__file__

failures = []
lines = []

def fmt(x):
    return '%.7g' % float(x)

def expect(tag, what, value, target, rel=1e-6):
    lines.append('%s: %s = %s' % (tag, what, fmt(value)))
    if not abs(value - target) <= rel * max(1.0, abs(target)):
        failures.append('%s: %s is %s, expected %s' % (tag, what, fmt(value), fmt(target)))

def queries(n, prng):
    """ query matrices that can all express the overall count """
    return [('identity', sparse.eye(n)),
            ('scaled', 2.5 * sparse.eye(n)),
            ('prefix', np.tril(np.ones((n, n)))),
            ('total-only', np.ones((1, n))),
            ('random', prng.rand(n + 2, n) + np.eye(n + 2, n))]

def noise_free(data, cliques, prng, kind):
    ms = []
    for cl in cliques:
        x = data.project(cl).datavector()
        Q = dict(queries(x.size, prng))[kind]
        ms.append((Q, Q @ x, 1.0 + prng.rand(), cl))
    return ms

def main():
    prng = np.random.RandomState(8)
    np.random.seed(8)
    domain = Domain(['a', 'b', 'c', 'd'], [2, 3, 4, 2])
    cliques = [('a', 'b'), ('b', 'c'), ('d',)]

    datasets = []
    datasets.append(('synthetic-500', Dataset.synthetic(domain, 500)))
    datasets.append(('synthetic-37', Dataset.synthetic(domain, 37)))
    # every record different from every other one, also inside each measured marginal
    vals = np.array([[0, 0, 0, 0], [1, 1, 1, 1], [0, 2, 2, 0], [1, 0, 3, 1]])
    datasets.append(('distinct-4', Dataset(pd.DataFrame(vals, columns=domain.attrs), domain)))
    # a single record, many times
    vals = np.tile([[1, 2, 3, 0]], (64, 1))
    datasets.append(('constant-64', Dataset(pd.DataFrame(vals, columns=domain.attrs), domain)))

    for name, data in datasets:
        N = data.records
        for cl in cliques + [('a', 'b', 'c', 'd')]:
            expect(name, 'records counted in marginal %s' % ''.join(cl), data.project(cl).datavector().sum(), N, 0)
        for kind in ['identity', 'scaled', 'prefix', 'total-only', 'random']:
            ms = noise_free(data, cliques, prng, kind)
            engine = FactoredInference(domain, iters=25)
            model = engine.estimate(ms)
            expect('%s / %s / FactoredInference' % (name, kind), 'model.total', model.total, N)
            expect('%s / %s / FactoredInference' % (name, kind), 'sum of marginal ab', model.project(('a', 'b')).datavector().sum(), N)
        ms = noise_free(data, cliques, prng, 'prefix')
        model = LocalInference(domain, iters=25).estimate(ms)
        expect('%s / prefix / LocalInference' % name, 'model.total', model.total, N)

    # a weighted Dataset: every marginal carries the whole weight, and agrees with the full vector
    public = Dataset.synthetic(domain, 200)
    for scale in [1.0, 1e-3, 250.0]:
        w = prng.rand(public.records) * scale
        weighted = Dataset(public.df, domain, w)
        full = weighted.datavector(flatten=False)
        expect('weighted x%g' % scale, 'weight in the full data vector', full.sum(), w.sum(), 1e-9)
        for cl, axes in [(('a', 'b'), (2, 3)), (('c',), (0, 1, 3)), (('b', 'd'), (0, 2))]:
            x = weighted.project(cl).datavector(flatten=False)
            expect('weighted x%g' % scale, 'weight in marginal %s' % ''.join(cl), x.sum(), w.sum(), 1e-9)
            if not np.allclose(x, full.sum(axis=axes), rtol=1e-9, atol=0):
                failures.append('weighted x%g: marginal %s disagrees with the full data vector' % (scale, ''.join(cl)))
    # weights that are all zero except one record
    w = np.zeros(public.records); w[17] = 42.0
    expect('weighted one-hot', 'weight in marginal ab', Dataset(public.df, domain, w).project(('a', 'b')).datavector().sum(), 42.0, 0)

    # PublicInference: re-weight a public dataset; the answer is a weighted Dataset
    name, data = datasets[0]
    for kind in ['identity', 'prefix']:
        for total in [None, 300.0, 1234.5]:
            ms = noise_free(data, cliques, prng, kind)
            syn = PublicInference(public).estimate(ms, total=total)
            target = data.records if total is None else total
            tag = 'PublicInference / %s / total=%s' % (kind, total)
            expect(tag, 'sum of weights', syn.weights.sum(), target)
            for cl in [('a',), ('a', 'b'), ('b', 'c'), ('d',), ('a', 'b', 'c', 'd')]:
                expect(tag, 'sum of answer %s' % ''.join(cl), syn.project(cl).datavector().sum(), target)
            x = syn.project(('b', 'c')).datavector()
            lines.append('%s: checksum bc = %s' % (tag, fmt(x.dot(np.arange(1, x.size + 1)))))

    digest = hashlib.sha256('\n'.join(lines).encode()).hexdigest()
    if failures:
        print('FAIL: answers do not add up to the total (number of records / weight of the data / total handed to estimate)')
        first = [f for f in failures if 'PublicInference' in f][:8]
        for f in first + [f for f in failures if 'PublicInference' not in f][:8]:
            print('  -', f)
        print('  (%d violations in total)' % len(failures))
        sys.exit(1)
    print('PASS')
    for l in lines:
        print(l)
    print('digest', digest)

if __name__ == '__main__':
    main()

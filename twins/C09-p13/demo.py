""" C09 / round 9 / pair 1 -- demo

Clause exercised: "a total supplied by the caller (or estimated from the measurements) is
honoured by every model answer" -- here the answers produced by GraphicalModel.krondot, which
relies on the value returned by GraphicalModel.belief_propagation(potentials, logZ=True).

Contract between the two functions: belief_propagation(..., logZ=True) returns the log partition
function of the *potentials* (it does not depend on model.total); krondot multiplies the
unnormalised product of factors by total / exp(logZ).

exit 0 + digest : contract holds
exit 1          : some krondot answer does not add up to model.total / logZ depends on total
"""
import os, sys, hashlib, warnings
ROOT = os.path.dirname(os.path.dirname(os.path.dirname(os.path.abspath(__file__))))
sys.path.insert(0, os.path.join(ROOT, 'src'))
warnings.filterwarnings('ignore')

import numpy as np
from functools import reduce
from mbi import Domain, Factor, GraphicalModel, CliqueVector, FactoredInference, Dataset
import mbi
assert os.path.abspath(mbi.__file__).startswith(os.path.join(ROOT, 'src')), mbi.__file__

lines = []
failures = []

def record(tag, *vals):
    lines.append(tag + ' ' + ' '.join('%.9g' % float(v) for v in vals))

def check(cond, msg):
    if not cond:
        failures.append(msg)

def kron_all(mats):
    return reduce(np.kron, mats)

def exercise(tag, model, prng):
    """ all checks on one model whose potentials are already set """
    total = float(model.total)
    dom = model.domain

    # (1) the log partition function is a property of the potentials only
    logp = sum(model.potentials[cl] for cl in model.cliques)
    ref_logZ = float(logp.logsumexp())
    got_logZ = float(model.belief_propagation(model.potentials, logZ=True))
    record(tag + ' logZ', got_logZ)
    check(abs(got_logZ - ref_logZ) <= 1e-8 * max(1.0, abs(ref_logZ)),
          '%s: belief_propagation(logZ=True) = %.6f but the log partition function of the potentials is %.6f'
          % (tag, got_logZ, ref_logZ))

    # (2) clique marginals add up to the total
    mu = model.belief_propagation(model.potentials)
    for cl in model.cliques:
        s = float(mu[cl].sum())
        record(tag + ' marg ' + ''.join(cl), s)
        check(abs(s - total) <= 1e-8 * total, '%s: marginal %s sums to %.6f, total is %.6f' % (tag, cl, s, total))

    # (3) krondot answers: identity x ... x identity is the data vector; ones x ... x ones is the total;
    #     a random product workload must agree with the explicit Kronecker product
    x = model.datavector()
    eyes = [np.eye(n) for n in dom.shape]
    ones = [np.ones((1, n)) for n in dom.shape]
    rnd = [prng.rand(2, n) for n in dom.shape]
    mixed = [np.eye(n) if i % 2 == 0 else np.ones((1, n)) for i, n in enumerate(dom.shape)]
    for name, mats in [('eye', eyes), ('ones', ones), ('mixed', mixed), ('rand', rnd)]:
        got = np.asarray(model.krondot(mats)).flatten()
        ref = kron_all(mats) @ x
        record('%s krondot %s' % (tag, name), got.sum(), np.abs(got).max())
        check(np.allclose(got, ref, rtol=1e-7, atol=1e-9 * total),
              '%s: krondot(%s) disagrees with the explicit answer: sum %.6f vs %.6f (total %.6f)'
              % (tag, name, got.sum(), ref.sum(), total))
    t = float(np.asarray(model.krondot(ones)).sum())
    check(abs(t - total) <= 1e-7 * total,
          '%s: the total query answered by krondot is %.6f but model.total is %.6f' % (tag, t, total))


# ---- A. hand-built models, several totals --------------------------------------------------
prng = np.random.RandomState(20260904)
dom = Domain(['a', 'b', 'c', 'd'], [2, 3, 4, 3])
shapes = { 'chain' : [('a','b'), ('b','c'), ('c','d')],
           'star'  : [('a','b'), ('a','c'), ('a','d')],
           'indep' : [('a',), ('b','c'), ('d',)] }
for name, cliques in shapes.items():
    for total in [1.0, 10, 37.5, 1000.0]:
        model = GraphicalModel(dom, cliques, total)
        pot = { cl : Factor(dom.project(cl), prng.randn(*dom.project(cl).shape)) for cl in model.cliques }
        model.potentials = CliqueVector(pot)
        exercise('%s/total=%g' % (name, total), model, prng)

# total changed after construction (the tests do this too)
model = GraphicalModel(dom, shapes['chain'])
model.potentials = CliqueVector({ cl : Factor(dom.project(cl), prng.randn(*dom.project(cl).shape))
                                  for cl in model.cliques })
exercise('chain/default', model, prng)
model.total = 250
exercise('chain/reassigned=250', model, prng)

# ---- B. models coming out of FactoredInference ---------------------------------------------
prng = np.random.RandomState(7)
N = 173
dom2 = Domain(['x', 'y', 'z'], [3, 4, 2])
import pandas as pd
df = pd.DataFrame({ 'x' : prng.randint(0, 3, N), 'y' : prng.randint(0, 4, N), 'z' : prng.randint(0, 2, N) })
data = Dataset(df, dom2)
meas = []
for cl in [('x','y'), ('y','z')]:
    v = data.project(cl).datavector()
    meas.append((np.eye(v.size), v, 1.0, cl))      # noise-free answers

for label, total in [('estimated', None), ('supplied', 500.0)]:
    engine = FactoredInference(dom2, iters=50, log=False)
    model = engine.estimate(meas, total=total)
    want = float(N) if total is None else total
    record('FI %s model.total' % label, model.total)
    check(abs(float(model.total) - want) <= 1e-6 * want,
          'FactoredInference (%s total): model.total = %.6f, expected %.6f' % (label, model.total, want))
    exercise('FI/' + label, model, prng)

digest = hashlib.sha256('\n'.join(lines).encode()).hexdigest()
if failures:
    print('FAIL: %d check(s) failed; first ones:' % len(failures))
    for f in failures[:8]:
        print('  -', f)
    sys.exit(1)
print('PASS')
print('checks:', len(lines))
print('digest:', digest)
for l in lines[:6] + lines[-6:]:
    print(' ', l)
sys.exit(0)

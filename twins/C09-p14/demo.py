""" C09 / round 9 / pair 2 -- demo

Clause exercised: "when the total is omitted it is the inverse-variance weighted combination of
the unbiased linear estimates available from exactly those measurements whose queries can
express the overall count, and at least 1" -- for mbi.public_inference.estimate_total and
PublicInference.estimate(measurements, total=None).

The lower bound 1 belongs to the COMBINED estimate.  The individual estimates v.y must enter the
combination untouched (they are unbiased only as long as nobody clips them); with few records
and a lot of noise some of them are below 1 or negative.

exit 0 + digest : every total equals an independent reference (dense pseudo-inverse)
exit 1          : some total differs from the reference
"""
import os, sys, hashlib, warnings
ROOT = os.path.dirname(os.path.dirname(os.path.dirname(os.path.abspath(__file__))))
sys.path.insert(0, os.path.join(ROOT, 'src'))
warnings.filterwarnings('ignore')

import numpy as np
import pandas as pd
from scipy import sparse
from scipy.sparse.linalg import aslinearoperator
from mbi import Domain, Dataset, PublicInference
from mbi.public_inference import estimate_total
import mbi
assert os.path.abspath(mbi.__file__).startswith(os.path.join(ROOT, 'src')), mbi.__file__

lines = []
failures = []

def dense(Q):
    if sparse.issparse(Q):
        return Q.toarray()
    if isinstance(Q, np.ndarray):
        return Q
    return Q @ np.eye(Q.shape[1])      # LinearOperator

def reference_total(measurements):
    """ independent implementation of the documented estimator """
    est, var = [], []
    for Q, y, noise, _ in measurements:
        A = dense(Q)
        o = np.ones(A.shape[1])
        v = np.linalg.pinv(A.T) @ o                 # minimum norm solution of Q^T v = 1
        if np.allclose(A.T @ v, o):                 # the queries can express the overall count
            est.append(v @ y)
            var.append(noise**2 * (v @ v))
    if not est:
        return 1.0, est
    est, var = np.array(est), np.array(var)
    w = 1.0 / var
    return max(1.0, float((w * est).sum() / w.sum())), list(est)

def prefix(n):
    return np.tril(np.ones((n, n)))

def make_queries(kind, n, prng):
    if kind == 'identity':  return sparse.eye(n)
    if kind == 'scaled':    return 0.25 * sparse.eye(n, format='csr')
    if kind == 'prefix':    return prefix(n)
    if kind == 'random':    return prng.rand(n + 2, n) + np.vstack([np.eye(n), np.zeros((2, n))])
    if kind == 'deficient': return np.eye(n)[:-1] - np.eye(n)[1:]      # differences: no ones vector
    if kind == 'operator':  return aslinearoperator(prefix(n))
    raise ValueError(kind)

def scenario(tag, dom, data, specs, prng, run_engine=False):
    """ specs: list of (clique, kind, noise scale) """
    measurements = []
    for cl, kind, sigma in specs:
        x = data.project(cl).datavector()
        Q = make_queries(kind, x.size, prng)
        y = Q @ x
        y = y + prng.normal(0, sigma, y.size) if sigma > 0 else y
        measurements.append((Q, y, sigma if sigma > 0 else 1.0, cl))
    want, singles = reference_total(measurements)
    got = float(estimate_total(measurements))
    lines.append('%s total %.9g (n usable %d, smallest single estimate %.6g)'
                 % (tag, got, len(singles), min(singles) if singles else float('nan')))
    if abs(got - want) > 2e-5 * max(1.0, abs(want)):
        failures.append('%s: estimate_total = %.6f, reference = %.6f (single estimates: %s)'
                        % (tag, got, want, ', '.join('%.3f' % s for s in singles)))
    if run_engine:
        engine = PublicInference(data, metric='L2')
        synth = engine.estimate(measurements)          # total omitted
        s = float(synth.weights.sum())
        lines.append('%s PublicInference weight sum %.9g' % (tag, s))
        if abs(s - want) > 2e-5 * max(1.0, abs(want)):
            failures.append('%s: PublicInference answers add up to %.6f, reference total = %.6f' % (tag, s, want))
        t = float(synth.project(specs[0][0]).datavector().sum())
        if abs(t - want) > 2e-5 * max(1.0, abs(want)):
            failures.append('%s: projected answer adds up to %.6f, reference total = %.6f' % (tag, t, want))

def synthetic(dom, N, prng):
    df = pd.DataFrame({ a : prng.randint(0, n, N) for a, n in zip(dom.attrs, dom.shape) })
    return Dataset(df, dom)

# (prefix / operator queries are only used on attribute b, size 5: the iterative solve inside the
#  library is known not to converge for prefix matrices of size 8-9, which is not the point here)
dom = Domain(['a', 'b', 'c', 'd'], [2, 5, 8, 1])
prng = np.random.RandomState(90909)

# 1. noise-free, every class of query matrix: the total is N
for N in [1, 7, 400]:
    data = synthetic(dom, N, prng)
    specs = [(('a',), 'identity', 0), (('b',), 'prefix', 0), (('c',), 'random', 0), (('a','b'), 'scaled', 0),
             (('c',), 'deficient', 0), (('b',), 'operator', 0), (('d',), 'identity', 0)]
    scenario('noise-free N=%d' % N, dom, data, specs, prng, run_engine=(N == 7))

# 2. plenty of records, moderate noise of different scales
data = synthetic(dom, 5000, prng)
specs = [(('a',), 'identity', 3.0), (('b',), 'prefix', 10.0), (('c',), 'scaled', 1.0), (('b','c'), 'identity', 5.0)]
scenario('noisy N=5000', dom, data, specs, prng, run_engine=True)

# 3. few records, heavy noise: single estimates fall below 1 / below 0 while the combination does not
for rep in range(6):
    data = synthetic(dom, 3, prng)
    specs = [(('a',), 'identity', 4.0), (('c',), 'identity', 4.0), (('b',), 'prefix', 2.0),
             (('a','b'), 'identity', 3.0), (('c',), 'deficient', 1.0)]
    scenario('noisy N=3 rep %d' % rep, dom, data, specs, prng, run_engine=(rep < 2))

# 4. very few records, every single estimate may be below 1: clamped to 1
for rep in range(3):
    data = synthetic(dom, 1, prng)
    specs = [(('a',), 'identity', 6.0), (('b',), 'scaled', 6.0)]
    scenario('noisy N=1 rep %d' % rep, dom, data, specs, prng)

# 5. degenerate: nothing usable / nothing at all
data = synthetic(dom, 50, prng)
scenario('only deficient', dom, data, [(('c',), 'deficient', 1.0)], prng)
scenario('empty', dom, data, [], prng)

digest = hashlib.sha256('\n'.join(lines).encode()).hexdigest()
if failures:
    print('FAIL: %d check(s) failed; first ones:' % len(failures))
    for f in failures[:8]:
        print('  -', f)
    sys.exit(1)
print('PASS')
print('lines:', len(lines))
print('digest:', digest)
for l in lines:
    print(' ', l)
sys.exit(0)

""" C09 / round 10 / pair 1 -- GraphicalModel.project: answers must keep summing to the
(known or estimated) total, whatever the caller did with earlier answers.

History exercised: the caller (exactly like GraphicalModel.synthetic_data's own
`counts *= total / counts.sum()`) rescales IN PLACE an answer obtained from
model.project(whole clique).datavector(flatten=False).  The answer must be the
caller's own array; the model's stored marginals must be unaffected.
"""
import os, sys, hashlib, warnings
warnings.filterwarnings('ignore')
ROOT = os.path.dirname(os.path.dirname(os.path.dirname(os.path.abspath(__file__))))
sys.path.insert(0, os.path.join(ROOT, 'src'))
import numpy as np
from mbi import Domain, FactoredInference
import mbi
assert os.path.abspath(mbi.__file__).startswith(ROOT), mbi.__file__

lines, failures = [], []

def build(total, seed):
    rng = np.random.RandomState(seed)
    dom = Domain(['a', 'b', 'c'], [2, 3, 4])
    N = 1000.0
    pa = rng.dirichlet(np.ones(2)); pab = rng.dirichlet(np.ones(6)); pc = rng.dirichlet(np.ones(4))
    ms = [(np.eye(2), N * pa + rng.normal(0, 3.0, 2), 3.0, ('a',)),
          (np.eye(6), N * pab + rng.normal(0, 5.0, 6), 5.0, ('a', 'b')),
          (np.eye(4), N * pc + rng.normal(0, 2.0, 4), 2.0, ('c',))]
    eng = FactoredInference(dom, iters=40)
    return eng.estimate(ms, total=total)

def sums(model):
    qs = [('a', 'b'), ('b', 'a'), ('c',), ('a',), ('b',), ('a', 'c'), ('a', 'b', 'c')]
    return [(q, float(model.project(q).datavector().sum())) for q in qs]

def check(tag, model):
    for q, s in sums(model):
        lines.append('%s %s %.6f' % (tag, ''.join(q), s))
        if abs(s - model.total) > 1e-6 * model.total:
            failures.append('%s: answer %s sums to %.6f but model.total = %.6f' % (tag, q, s, model.total))

for name, total, seed in [('known', 1000, 1), ('known-frac', 412.5, 2), ('estimated', None, 3)]:
    model = build(total, seed)
    if total is not None and model.total != total:
        failures.append('%s: supplied total %r became %r' % (name, total, model.total))
    lines.append('%s total %.6f' % (name, model.total))
    check(name + ' fresh', model)

    # history 1: a consumer normalises the answers it received, in place (as synthetic_col does)
    for q, rows in [(('a', 'b'), 50), (('b', 'a'), 7), (('c',), 10), (('a',), 3)]:
        counts = model.project(q).datavector(flatten=False)
        counts *= rows / counts.sum()
        lines.append('%s consumer %s %.6f' % (name, ''.join(q), counts.sum()))
    check(name + ' after-consumer', model)

    # history 2: the library's own consumer (dies at its last step under pandas 3; irrelevant here)
    np.random.seed(0)
    try:
        model.synthetic_data(rows=25)
    except Exception:
        pass
    check(name + ' after-synthetic', model)

digest = hashlib.sha256('\n'.join(lines).encode()).hexdigest()
print('\n'.join(lines))
print('digest', digest)
if failures:
    print('FAIL')
    for f in failures[:12]:
        print('  ', f)
    print('   (%d violations) answers no longer sum to the total after a caller rescaled an earlier answer in place' % len(failures))
    sys.exit(1)
print('PASS')

""" C09 / round 10 / pair 2 -- LocalInference._setup: with total=None the total must be the
INVERSE-VARIANCE weighted combination of the per-measurement unbiased linear estimates
v_i.y_i, where Var(v_i.y_i) = noise_i^2 * |v_i|^2 and Q_i^T v_i = 1 (minimum norm).

The reference is computed independently here (pinv instead of lsmr).  The cases vary the
size / scale of the query matrices (hence |v_i|^2) and the noise scales separately.
"""
import os, sys, hashlib, warnings
warnings.filterwarnings('ignore')
ROOT = os.path.dirname(os.path.dirname(os.path.dirname(os.path.abspath(__file__))))
sys.path.insert(0, os.path.join(ROOT, 'src'))
import numpy as np
from scipy import sparse
from mbi import Domain, LocalInference
import mbi
assert os.path.abspath(mbi.__file__).startswith(ROOT), mbi.__file__

dom = Domain(['a', 'b', 'c', 'd'], [2, 3, 4, 16])
N = 500.0

def prefix(n):
    return np.tril(np.ones((n, n)))

def reference(measurements):
    num = den = 0.0
    for Q, y, noise, _ in measurements:
        Q = Q.toarray() if sparse.issparse(Q) else np.asarray(Q, dtype=float)
        o = np.ones(Q.shape[1])
        v = np.linalg.pinv(Q.T).dot(o)
        if np.allclose(Q.T.dot(v), o):
            w = 1.0 / (noise ** 2 * v.dot(v))
            num += w * v.dot(y); den += w
    return 1 if den == 0 else max(1, num / den)

def measure(rng, specs, noisy=True):
    ms = []
    for Q, noise, proj in specs:
        p = rng.dirichlet(np.ones(Q.shape[1]))
        y = Q.dot(N * p)
        if noisy:
            y = y + rng.normal(0, noise, y.size)
        ms.append((Q, y, noise, proj))
    return ms

I = np.eye
cases = [
  ('single identity',            True,  [(I(4), 7.0, ('c',))]),
  ('same size, same noise',      True,  [(I(4), 5.0, ('c',)), (sparse.eye(4), 5.0, ('c',))]),
  ('same size, hetero noise',    True,  [(I(6), 2.0, ('a', 'b')), (I(6), 9.0, ('a', 'b'))]),
  ('2 cells vs 16 cells',        True,  [(I(2), 6.0, ('a',)), (sparse.eye(16), 6.0, ('d',))]),
  ('3 cells vs 12 cells',        True,  [(I(3), 4.0, ('b',)), (I(12), 4.0, ('b', 'c'))]),
  ('scaled 10*I vs I',           True,  [(10.0 * I(4), 8.0, ('c',)), (I(4), 8.0, ('c',))]),
  ('prefix vs identity',         True,  [(prefix(16), 5.0, ('d',)), (I(2), 5.0, ('a',))]),
  ('total query vs identity',    True,  [(np.ones((1, 16)), 12.0, ('d',)), (I(16), 3.0, ('d',))]),
  ('mixed sizes and noises',     True,  [(I(2), 3.0, ('a',)), (I(6), 5.0, ('a', 'b')), (sparse.eye(16), 2.0, ('d',))]),
  ('rank deficient + identity',  True,  [(np.array([[1., -1, 0, 0], [0, 0, 1, -1]]), 1.0, ('c',)), (I(3), 4.0, ('b',))]),
  ('noise free, mixed sizes',    False, [(I(2), 3.0, ('a',)), (prefix(16), 5.0, ('d',)), (3 * I(12), 1.0, ('b', 'c'))]),
]

lines, failures = [], []
for k, (name, noisy, specs) in enumerate(cases):
    rng = np.random.RandomState(100 + k)
    ms = measure(rng, specs, noisy)
    want = reference(ms)
    eng = LocalInference(dom, iters=3, marginal_oracle='convex')
    eng._setup(ms, None)
    got = eng.model.total
    lines.append('%-28s total %.5f' % (name, got))
    if abs(got - want) > 1e-6 * want:
        failures.append('%s: model.total = %.6f, inverse-variance combination = %.6f' % (name, got, want))
    if not noisy and abs(got - N) > 1e-6 * N:
        failures.append('%s: noise-free measurements of N=%g records gave total %.6f' % (name, N, got))

# end to end: estimate(measurements, total=None), then every answer sums to that total
rng = np.random.RandomState(7)
ms = measure(rng, [(I(2), 6.0, ('a',)), (I(12), 6.0, ('b', 'c')), (I(6), 6.0, ('a', 'b'))])
want = reference(ms)
eng = LocalInference(dom, iters=5, marginal_oracle='convex')
model = eng.estimate(ms, total=None)
lines.append('end-to-end total %.6f' % model.total)
if abs(model.total - want) > 1e-6 * want:
    failures.append('end-to-end: model.total = %.6f, inverse-variance combination = %.6f' % (model.total, want))
for q in [('a',), ('b', 'c'), ('a', 'b')]:
    s = float(model.project(q).datavector().sum())
    lines.append('end-to-end %s %.5f' % (''.join(q), s))

# a supplied total is used as is
eng = LocalInference(dom, iters=3)
eng._setup(ms, 321.5)
lines.append('supplied %.6f' % eng.model.total)
if eng.model.total != 321.5:
    failures.append('supplied total 321.5 became %r' % eng.model.total)

print('\n'.join(lines))
print('digest', hashlib.sha256('\n'.join(lines).encode()).hexdigest())
if failures:
    print('FAIL')
    for f in failures:
        print('  ', f)
    print('   the estimated total is not the inverse-variance weighted combination of the linear estimates')
    sys.exit(1)
print('PASS')
